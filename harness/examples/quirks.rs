//! Prints how cw-multi-test 0.16.5 treats odd `funds` (zero / duplicate / unsorted coins).
use cosmwasm_std::{coin, Coin};
use fzharness::*;
fn x(sender: &str, funds: Vec<Coin>, msg: MMsg) -> Op { Op::X { sender: sender.into(), funds, msg } }
fn main() {
    let mut sim = Sim::new_default();
    let h0 = sim.hostile_addrs()[0].clone();
    let cases: Vec<(&str, Op)> = vec![
        ("only a zero coin", x("alice", vec![coin(0, "ujunox")], MMsg::CB { id: 1 })),
        ("zero coin + real coin", x("alice", vec![coin(5, "uatom"), coin(0, "ujunox")], MMsg::CB { id: 2 })),
        ("duplicate denoms (deposit)", x("alice", vec![coin(5, "uatom"), coin(5, "uatom")], MMsg::CB { id: 3 })),
        ("duplicate denoms (FeeCycle)", x("alice", vec![coin(5, "uatom"), coin(5, "uatom")], MMsg::FC)),
        ("unsorted denoms", x("alice", vec![coin(5, "uusdcx"), coin(5, "uatom")], MMsg::CB { id: 4 })),
        ("hostile forwards zero coin", x(&h0, vec![coin(0, "ujunox")], MMsg::CB { id: 5 })),
        ("hostile forwards more than it owns", x(&h0, vec![coin(2_000_000, "ujunox")], MMsg::CB { id: 6 })),
        ("account forges ReceiveNft", x("alice", vec![], MMsg::RN { sender: RawAddr::valid("alice"), token_id: "t000".into(), inner: Inner::CB { id: 7 } })),
    ];
    for (what, op) in cases {
        let pre = sim.bank_balance("alice", "uatom");
        let o = sim.apply(&op);
        println!("{:38} ok={:5} alice uatom {:+} err={:?}", what, o.ok, sim.bank_balance("alice", "uatom") as i128 - pre as i128, o.err_text);
    }
    for ((o, id), b) in sim.buckets() { println!("bucket {} {} {:?}", o, id, b.funds.native); }
}
