use fzharness::*;
use std::time::Instant;
fn t<T>(name:&str, n:u32, mut f: impl FnMut()->T){ let s=Instant::now(); for _ in 0..n { let _=f(); } eprintln!("{:28} {:?}", name, s.elapsed()/n); }
fn main(){
    let mut sim = Sim::new_default();
    for i in 0..50u64 { let o = sim.apply(&Op::X{sender:"frank".into(), funds: cosmwasm_std::coins(10,"uosmo"), msg: MMsg::CB{id:100+i}}); assert!(o.ok); }
    t("market_state",200,|| sim.market_state());
    t("registry_entries",200,|| sim.registry_entries());
    t("bank all addrs",200,|| sim.all_addrs().iter().map(|a| sim.bank_balances(a).len()).sum::<usize>());
    t("cw20 all",200,|| { let mut n=0; for tk in sim.cw20_addrs(){ for a in sim.all_addrs(){ n+=sim.cw20_balance(tk,a) as usize & 1; } } n});
    t("nft owners",200,|| { let mut n=0; for c in sim.cw721_addrs(){ for t in sim.minted_ids(c){ n+=sim.nft_owner(c,t).unwrap().len(); } } n});
    t("contracts",200,|| sim.contracts());
    t("encode_world",200,|| encode_world(&sim));
    t("snapshot",200,|| sim.snapshot_bytes());
    t("fork",200,|| sim.fork());
    let op = Op::X{sender:"frank".into(), funds: cosmwasm_std::coins(10,"uosmo"), msg: MMsg::AB{id:100}};
    t("apply AB",200,|| sim.apply(&op));
    let op = Op::X{sender:"frank".into(), funds: cosmwasm_std::coins(10,"uosmo"), msg: MMsg::AB{id:99}};
    t("apply AB err",200,|| sim.apply(&op));
}
