//! Text encoding of worlds, ops, outcomes and queries exactly as specified in
//! /verif/PROTOCOL.md. Everything is a single line of single-space-separated tokens.
//!
//! A string that is not in the world's name tables cannot be encoded; the `*_num`
//! look-ups panic with a clear message in that case (cannot happen for valid worlds /
//! ops built from the tables).

use crate::ops::{Create, Inner, MMsg, Op, Query, RMsg, RawAddr, RawGBal};
use crate::shim::{OutMsg, COMMUNITY_POOL};
use crate::world::{Outcome, QResp, Sim, JUNO_DENOM, USDC_DENOM};
use cosmwasm_std::{Addr, Coin, Timestamp};
use marketplace::state::{Bucket, FeeDenom, GenericBalance, Listing, Status};
use royalties::RoyaltyInfo;
use std::fmt::{Display, Write};

/// Token writer: appends tokens separated by single blanks.
struct W<'a> {
    sim: &'a Sim,
    s: String,
}

impl<'a> W<'a> {
    fn new(sim: &'a Sim) -> Self {
        W {
            sim,
            s: String::with_capacity(256),
        }
    }

    fn t(&mut self, x: impl Display) -> &mut Self {
        if !self.s.is_empty() {
            self.s.push(' ');
        }
        write!(self.s, "{}", x).expect("write to String");
        self
    }

    fn addr(&mut self, a: &str) -> &mut Self {
        let n = self.sim.addr_num(a);
        self.t(n)
    }

    fn denom(&mut self, d: &str) -> &mut Self {
        let n = self.sim.denom_num(d);
        self.t(n)
    }

    fn tid(&mut self, t: &str) -> &mut Self {
        let n = self.sim.tid_num(t);
        self.t(n)
    }

    fn coin(&mut self, c: &Coin) -> &mut Self {
        self.denom(&c.denom).t(c.amount.u128())
    }

    fn coins(&mut self, cs: &[Coin]) -> &mut Self {
        self.t(cs.len());
        for c in cs {
            self.coin(c);
        }
        self
    }

    fn opt_addr(&mut self, a: &Option<Addr>) -> &mut Self {
        match a {
            None => self.t("N"),
            Some(a) => self.t("S").addr(a.as_str()),
        }
    }

    fn opt_ts(&mut self, t: &Option<Timestamp>) -> &mut Self {
        match t {
            None => self.t("N"),
            Some(t) => self.t("S").t(t.nanos()),
        }
    }

    fn feeopt(&mut self, f: &Option<Coin>) -> &mut Self {
        match f {
            None => self.t("N"),
            Some(c) => self.t("S").coin(c),
        }
    }

    fn gbal(&mut self, g: &GenericBalance) -> &mut Self {
        self.coins(&g.native);
        self.t(g.cw20.len());
        for c in &g.cw20 {
            self.addr(c.address.as_str()).t(c.amount.u128());
        }
        self.t(g.nfts.len());
        for n in &g.nfts {
            self.addr(n.contract_address.as_str()).tid(&n.token_id);
        }
        self
    }

    fn listing(&mut self, l: &Listing) -> &mut Self {
        self.addr(l.creator.as_str()).t(l.id);
        self.opt_ts(&l.finalized_time).opt_ts(&l.expiration_time);
        self.t(match l.status {
            Status::BeingPrepared => 0,
            Status::FinalizedReady => 1,
            Status::Closed => 2,
        });
        self.opt_addr(&l.claimant).opt_addr(&l.whitelisted_buyer);
        self.gbal(&l.for_sale).gbal(&l.ask).feeopt(&l.fee_amount)
    }

    fn bucket(&mut self, b: &Bucket) -> &mut Self {
        self.addr(b.owner.as_str()).gbal(&b.funds).feeopt(&b.fee_amount)
    }

    fn royinfo(&mut self, r: &RoyaltyInfo) -> &mut Self {
        self.t(r.last_updated).t(r.bps).addr(r.payout_addr.as_str())
    }

    // ---- raw (message side)

    fn raw_addr(&mut self, a: &RawAddr) -> &mut Self {
        match a {
            RawAddr::Valid(s) => self.t("V").addr(s),
            RawAddr::Invalid | RawAddr::Odd(_) => self.t("I"),
        }
    }

    fn opt_raw_addr(&mut self, a: &Option<RawAddr>) -> &mut Self {
        match a {
            None => self.t("N"),
            Some(a) => self.raw_addr(a),
        }
    }

    fn raw_gbal(&mut self, g: &RawGBal) -> &mut Self {
        self.coins(&g.native);
        self.t(g.cw20.len());
        for (a, amt) in &g.cw20 {
            self.raw_addr(a).t(*amt);
        }
        self.t(g.nfts.len());
        for (a, tid) in &g.nfts {
            self.raw_addr(a).tid(tid);
        }
        self
    }

    fn create(&mut self, c: &Create) -> &mut Self {
        self.raw_gbal(&c.ask).opt_raw_addr(&c.whitelist)
    }

    fn inner(&mut self, i: &Inner) -> &mut Self {
        match i {
            Inner::Bad => self.t("BAD"),
            Inner::CL { id, create } => self.t("CL").t(*id).create(create),
            Inner::AL { id } => self.t("AL").t(*id),
            Inner::CB { id } => self.t("CB").t(*id),
            Inner::AB { id } => self.t("AB").t(*id),
        }
    }

    fn mmsg(&mut self, m: &MMsg) -> &mut Self {
        match m {
            MMsg::FC => self.t("FC"),
            MMsg::CL { id, create } => self.t("CL").t(*id).create(create),
            MMsg::AL { id } => self.t("AL").t(*id),
            MMsg::CA { id, ask } => self.t("CA").t(*id).raw_gbal(ask),
            MMsg::FI { id, seconds } => self.t("FI").t(*id).t(*seconds),
            MMsg::DL { id } => self.t("DL").t(*id),
            MMsg::CB { id } => self.t("CB").t(*id),
            MMsg::AB { id } => self.t("AB").t(*id),
            MMsg::RB { id } => self.t("RB").t(*id),
            MMsg::BL { listing_id, bucket_id } => self.t("BL").t(*listing_id).t(*bucket_id),
            MMsg::WP { id } => self.t("WP").t(*id),
            MMsg::RC { sender, amount, inner } => self.t("RC").raw_addr(sender).t(*amount).inner(inner),
            MMsg::RN {
                sender,
                token_id,
                inner,
            } => self.t("RN").raw_addr(sender).tid(token_id).inner(inner),
        }
    }

    fn rmsg(&mut self, m: &RMsg) -> &mut Self {
        match m {
            RMsg::Reg { nft, payout, bps } => self.t("REG").raw_addr(nft).raw_addr(payout).t(*bps),
            RMsg::Upd { nft, payout, bps } => {
                self.t("UPD").raw_addr(nft).opt_raw_addr(payout);
                match bps {
                    None => self.t("N"),
                    Some(b) => self.t("S").t(*b),
                }
            }
            RMsg::Rem { nft } => self.t("REM").raw_addr(nft),
        }
    }

    fn op(&mut self, op: &Op) -> &mut Self {
        match op {
            Op::X { sender, funds, msg } => self.t("X").addr(sender).coins(funds).mmsg(msg),
            Op::T20 {
                token,
                sender,
                amount,
                inner,
            } => self.t("T20").addr(token).addr(sender).t(*amount).inner(inner),
            Op::T721 {
                coll,
                sender,
                token_id,
                inner,
            } => self.t("T721").addr(coll).addr(sender).tid(token_id).inner(inner),
            Op::R { sender, msg } => self.t("R").addr(sender).rmsg(msg),
            Op::AD {
                sender,
                contract,
                new_admin,
            } => {
                self.t("AD").addr(sender).addr(contract);
                match new_admin {
                    None => self.t("N"),
                    Some(a) => self.t("S").addr(a),
                }
            }
            Op::ADV { d_ns, d_height } => self.t("ADV").t(*d_ns).t(*d_height),
        }
    }

    fn outmsg(&mut self, m: &OutMsg) -> &mut Self {
        match m {
            OutMsg::B { to, coins } => self.t("B").addr(to).coins(coins),
            OutMsg::C { token, to, amount } => self.t("C").addr(token).addr(to).t(*amount),
            OutMsg::F { coll, token_id, to } => self.t("F").addr(coll).tid(token_id).addr(to),
            OutMsg::P {
                well_formed,
                depositor,
                coins,
            } => {
                // a well-formed message whose names fall outside the tables cannot be
                // expressed; it is reported as not well formed (cannot happen with the
                // contract's own get_cp_msg)
                let expressible = *well_formed
                    && self.sim.meta().addrs.get(depositor).is_some()
                    && coins.iter().all(|c| self.sim.meta().denoms.get(&c.denom).is_some());
                if expressible {
                    self.t("P").t(1).addr(depositor).coins(coins)
                } else {
                    self.t("P").t(0).t(0).t(0)
                }
            }
            OutMsg::U => self.t("U"),
        }
    }

    fn outcome(&mut self, o: &Outcome) -> &mut Self {
        if !o.ok {
            if o.dirty_on_fail {
                return self.t("errd");
            }
            if o.msgs.is_empty() {
                return self.t("err");
            }
            // the handler answered but a dispatched message failed: report what it tried to send
            self.t("errm").t(o.msgs.len());
            for m in &o.msgs {
                self.outmsg(m);
            }
            return self;
        }
        self.t("ok").t(o.msgs.len());
        for m in &o.msgs {
            self.outmsg(m);
        }
        self.t(o.subs.len());
        for (id, reply_on, gas) in &o.subs {
            self.t(*id).t(*reply_on).t(u8::from(*gas));
        }
        self
    }

    fn query(&mut self, q: &Query) -> &mut Self {
        match q {
            Query::FD => self.t("FD"),
            Query::BK { owner, page } => self.t("BK").raw_addr(owner).t(*page),
            Query::LO { owner, page } => self.t("LO").raw_addr(owner).t(*page),
            Query::WL { owner } => self.t("WL").raw_addr(owner),
            Query::MK { page } => self.t("MK").t(*page),
            Query::RA => self.t("RA"),
        }
    }

    fn qresp(&mut self, r: &QResp) -> &mut Self {
        match r {
            QResp::Err(_) => self.t("err"),
            QResp::Panic(_) => self.t("panic"),
            QResp::FD(f) => {
                let name = match f.name.as_str() {
                    "JUNO" => 0,
                    "USDC" => 1,
                    other => panic!("fzharness: unexpected FeeDenomResponse.name {:?}", other),
                };
                self.t("ok").t("FD").t(name).denom(&f.denom).t(f.next_change)
            }
            QResp::BK(bs) => {
                self.t("ok").t("BK").t(bs.len());
                for (id, b) in bs {
                    self.t(*id).bucket(b);
                }
                self
            }
            QResp::LS(ls) => {
                self.t("ok").t("LS").t(ls.len());
                for l in ls {
                    self.listing(l);
                }
                self
            }
            QResp::RA(a) => self.t("ok").t("RA").opt_addr(a),
        }
    }

    /// PROTOCOL §3 WORLD
    fn world(&mut self) -> &mut Self {
        let sim = self.sim;
        let block = sim.block();
        self.addr(sim.market_addr()).addr(COMMUNITY_POOL).addr(sim.registry_addr());
        self.denom(JUNO_DENOM).denom(USDC_DENOM);
        self.t(block.time.nanos()).t(block.height);

        // ---- MKT
        let ms = sim.market_state();
        self.t(ms.listings.len());
        for ((owner, id), l) in &ms.listings {
            self.addr(owner.as_str()).t(*id).listing(l);
        }
        self.t(ms.buckets.len());
        for ((owner, id), b) in &ms.buckets {
            self.addr(owner.as_str()).t(*id).bucket(b);
        }
        self.t(ms.listing_ids_used.len());
        for id in &ms.listing_ids_used {
            self.t(*id);
        }
        self.t(ms.bucket_ids_used.len());
        for id in &ms.bucket_ids_used {
            self.t(*id);
        }
        match ms.fee_denom {
            FeeDenom::JUNO(since) => self.t(0).t(since),
            FeeDenom::USDC(since) => self.t(1).t(since),
        };
        self.opt_addr(&ms.registry);
        self.t(u8::from(ms.idx_ok));

        // ---- REG
        let reg = sim.registry_entries();
        self.t(reg.len());
        for (coll, info) in &reg {
            self.addr(coll.as_str()).royinfo(info);
        }

        // ---- BANK: non-zero balances, address-table order, then denom-table order
        let mut bank: Vec<(u64, u64, u128)> = Vec::new();
        for a in sim.all_addrs() {
            let an = sim.addr_num(a);
            let mut row: Vec<(u64, u64, u128)> = sim
                .bank_balances(a)
                .iter()
                .filter(|c| !c.amount.is_zero())
                .map(|c| (an, sim.denom_num(&c.denom), c.amount.u128()))
                .collect();
            row.sort();
            bank.extend(row);
        }
        self.t(bank.len());
        for (a, d, amt) in bank {
            self.t(a).t(d).t(amt);
        }

        // ---- CW20: honest tokens, non-zero balances, sorted by (token, holder) number.
        // Read from the tokens' own storage: all holders, also any outside the table
        // (which would panic in addr_num instead of being silently dropped).
        let mut cw20: Vec<(u64, u64, u128)> = Vec::new();
        for tkn in sim.cw20_addrs() {
            let tn = sim.addr_num(tkn);
            for (holder, bal) in sim.cw20_holders(tkn) {
                cw20.push((tn, sim.addr_num(&holder), bal));
            }
        }
        cw20.sort();
        self.t(cw20.len());
        for (tkn, h, amt) in cw20 {
            self.t(tkn).t(h).t(amt);
        }

        // ---- NFTS: honest collections, every minted token, sorted by (collection, id) number
        let mut nfts: Vec<(u64, u64, u64)> = Vec::new();
        for coll in sim.cw721_addrs() {
            let cn = sim.addr_num(coll);
            let owners = sim.nft_owners(coll);
            let minted = sim.minted_ids(coll);
            if owners.len() != minted.len() || owners.iter().zip(minted).any(|((t, _), m)| t != m) {
                panic!(
                    "fzharness: collection {} holds tokens {:?} but {:?} were minted (burnt / foreign mint?)",
                    coll,
                    owners.iter().map(|(t, _)| t).collect::<Vec<_>>(),
                    minted
                );
            }
            for (tid, owner) in &owners {
                nfts.push((cn, sim.tid_num(tid), sim.addr_num(owner)));
            }
        }
        nfts.sort();
        self.t(nfts.len());
        for (c, t, o) in nfts {
            self.t(c).t(t).t(o);
        }

        // ---- CONTRACTS (address-table order)
        let rows = sim.contracts();
        self.t(rows.len());
        for r in &rows {
            self.addr(&r.addr);
            match &r.admin {
                None => self.t("N"),
                Some(a) => self.t("S").addr(a),
            };
            self.t(r.kind).t(u8::from(r.token_info)).t(u8::from(r.fails));
        }
        self
    }
}

// ---------------------------------------------------------------------------------------
// Public encoders
// ---------------------------------------------------------------------------------------

macro_rules! enc {
    ($(#[$doc:meta])* $name:ident, $method:ident, $ty:ty) => {
        $(#[$doc])*
        pub fn $name(sim: &Sim, x: &$ty) -> String {
            let mut w = W::new(sim);
            w.$method(x);
            w.s
        }
    };
}

/// PROTOCOL §3 `WORLD` of the current state of `sim`.
pub fn encode_world(sim: &Sim) -> String {
    let mut w = W::new(sim);
    w.world();
    w.s
}

enc!(/** PROTOCOL §4 `OP` */ encode_op, op, Op);
enc!(/** PROTOCOL §5 `OUTCOME` (`err` for failed ops) */ encode_outcome, outcome, Outcome);
enc!(/** PROTOCOL §6 `Q` */ encode_query, query, Query);
enc!(/** PROTOCOL §6 `QRESP` */ encode_qresp, qresp, QResp);
enc!(/** PROTOCOL §2 `GBAL` */ encode_gbal, gbal, GenericBalance);
enc!(/** PROTOCOL §2 `RAWGBAL` */ encode_raw_gbal, raw_gbal, RawGBal);
enc!(/** PROTOCOL §2 `LISTING` */ encode_listing, listing, Listing);
enc!(/** PROTOCOL §2 `BUCKET` */ encode_bucket, bucket, Bucket);
enc!(/** PROTOCOL §5 `OUTMSG` */ encode_outmsg, outmsg, OutMsg);
enc!(/** PROTOCOL §2 `ROYINFO` */ encode_royinfo, royinfo, RoyaltyInfo);

// ---------------------------------------------------------------------------------------
// Lines (PROTOCOL §6)
// ---------------------------------------------------------------------------------------

/// `=` when the world text did not change, otherwise the post-world text.
pub fn post_token<'a>(pre_world: &str, post_world: &'a str) -> &'a str {
    if pre_world == post_world {
        "="
    } else {
        post_world
    }
}

/// `INIT WORLD`
pub fn line_init(sim: &Sim) -> String {
    format!("INIT {}", encode_world(sim))
}

/// Shared worker of the STEP / PROBE / STEPF helpers. Returns the line and the text of the
/// post-world (equal to `pre_world` for failed ops, which `Sim::apply` rolled back).
pub fn line_with_post(tag: &str, post: &Sim, op: &Op, out: &Outcome, pre_world: &str) -> (String, String) {
    // a failed op was rolled back by `Sim::apply`, no need to encode the world again
    let post_world = if out.ok { encode_world(post) } else { pre_world.to_string() };
    let line = format!(
        "{} {} {} {}",
        tag,
        encode_op(post, op),
        encode_outcome(post, out),
        post_token(pre_world, &post_world)
    );
    (line, post_world)
}

fn line_op(tag: &str, post: &Sim, op: &Op, out: &Outcome, pre_world: &str) -> String {
    line_with_post(tag, post, op, out, pre_world).0
}

/// `STEP OP OUTCOME POST`. `post` is the `Sim` AFTER `apply`; `pre_world` is
/// `encode_world` of the state before it (POST is `=` when the two texts are equal;
/// the comparison is on the world TEXT, not on storage bytes).
pub fn line_step(post: &Sim, op: &Op, out: &Outcome, pre_world: &str) -> String {
    line_op("STEP", post, op, out, pre_world)
}

/// `PROBE OP OUTCOME POST`; `post` is the FORK the op was applied to.
pub fn line_probe(post: &Sim, op: &Op, out: &Outcome, pre_world: &str) -> String {
    line_op("PROBE", post, op, out, pre_world)
}

/// `STEPF k OP OUTCOME POST`; `post` is the FORK `apply_with_fault(op, k)` ran on.
pub fn line_stepf(k: usize, post: &Sim, op: &Op, out: &Outcome, pre_world: &str) -> String {
    line_op(&format!("STEPF {}", k), post, op, out, pre_world)
}

/// `QUERY Q QRESP`
pub fn line_query(sim: &Sim, q: &Query, r: &QResp) -> String {
    format!("QUERY {} {}", encode_query(sim, q), encode_qresp(sim, r))
}

/// `CPMSG nD byte^nD amount nA byte^nA nR byte^nR` from one `Outcome::cp_raw` entry.
pub fn line_cpmsg(denom: &str, amount: u128, depositor: &str, raw: &[u8]) -> String {
    fn bytes(out: &mut String, b: &[u8]) {
        write!(out, " {}", b.len()).unwrap();
        for x in b {
            write!(out, " {}", x).unwrap();
        }
    }
    let mut s = String::from("CPMSG");
    bytes(&mut s, denom.as_bytes());
    write!(s, " {}", amount).unwrap();
    bytes(&mut s, depositor.as_bytes());
    bytes(&mut s, raw);
    s
}

/// `NOTE text…` (newlines are flattened)
pub fn line_note(text: &str) -> String {
    format!("NOTE {}", text.replace(['\n', '\r'], " "))
}
