//! Generators: corpus, boundary suite, scenario-biased random histories and the probe
//! batteries (buy matrix, non-owner matrix, funds matrix, fault injection, forged hooks,
//! queries, drain).  Every random choice derives from one `Rng` seeded per history, so a
//! history is reproducible from `(seed, family, index)`.

use std::collections::{BTreeMap, VecDeque};
use std::io::Write;

use cosmwasm_std::{Coin, Uint128};
use marketplace::state::{Bucket, GenericBalance, Listing, Status};

use crate::history::History;
use crate::ops::{Create, Inner, MMsg, Op, Query, RMsg, RawAddr, RawGBal};
use crate::world::{Config, Outcome, QResp, Sim, DEPLOYER, JUNO_DENOM, PAYOUTS, USDC_DENOM};

// ---------------------------------------------------------------------------------------
// PRNG (splitmix64)
// ---------------------------------------------------------------------------------------

#[derive(Clone)]
pub struct Rng(pub u64);

impl Rng {
    pub fn new(seed: u64) -> Self {
        Rng(seed ^ 0x9E37_79B9_7F4A_7C15)
    }
    pub fn next(&mut self) -> u64 {
        self.0 = self.0.wrapping_add(0x9E37_79B9_7F4A_7C15);
        let mut z = self.0;
        z = (z ^ (z >> 30)).wrapping_mul(0xBF58_476D_1CE4_E5B9);
        z = (z ^ (z >> 27)).wrapping_mul(0x94D0_49BB_1331_11EB);
        z ^ (z >> 31)
    }
    pub fn below(&mut self, n: u64) -> u64 {
        if n == 0 {
            0
        } else {
            self.next() % n
        }
    }
    pub fn chance(&mut self, pct: u64) -> bool {
        self.below(100) < pct
    }
    pub fn pick<'a, T>(&mut self, v: &'a [T]) -> &'a T {
        &v[self.below(v.len() as u64) as usize]
    }
    pub fn shuffle<T>(&mut self, v: &mut Vec<T>) {
        for i in (1..v.len()).rev() {
            let j = self.below(i as u64 + 1) as usize;
            v.swap(i, j);
        }
    }
}

// ---------------------------------------------------------------------------------------
// statistics (input distribution, written into the evidence)
// ---------------------------------------------------------------------------------------

#[derive(Default, Clone, Debug)]
pub struct Stats {
    pub histories: u64,
    pub lines: u64,
    pub steps: u64,
    pub probes: u64,
    pub stepf: u64,
    pub queries: u64,
    pub pure: u64,
    /// op kind -> [ok, err]
    pub kinds: BTreeMap<String, [u64; 2]>,
    /// error texts (first 40 chars) -> count; shows which guards decided
    pub errs: BTreeMap<String, u64>,
    pub max_records: u64,
    pub amount_classes: BTreeMap<String, u64>,
}

impl Stats {
    pub fn merge(&mut self, o: &Stats) {
        self.histories += o.histories;
        self.lines += o.lines;
        self.steps += o.steps;
        self.probes += o.probes;
        self.stepf += o.stepf;
        self.queries += o.queries;
        self.pure += o.pure;
        for (k, v) in &o.kinds {
            let e = self.kinds.entry(k.clone()).or_insert([0, 0]);
            e[0] += v[0];
            e[1] += v[1];
        }
        for (k, v) in &o.errs {
            *self.errs.entry(k.clone()).or_insert(0) += v;
        }
        for (k, v) in &o.amount_classes {
            *self.amount_classes.entry(k.clone()).or_insert(0) += v;
        }
        self.max_records = self.max_records.max(o.max_records);
    }
    pub fn to_json(&self) -> String {
        let kinds: Vec<String> = self
            .kinds
            .iter()
            .map(|(k, v)| format!("\"{}\":[{},{}]", k, v[0], v[1]))
            .collect();
        let errs: Vec<String> = self
            .errs
            .iter()
            .map(|(k, v)| format!("\"{}\":{}", k.replace('\\', " ").replace('"', "'"), v))
            .collect();
        let amts: Vec<String> = self.amount_classes.iter().map(|(k, v)| format!("\"{}\":{}", k, v)).collect();
        format!(
            "{{\"histories\":{},\"lines\":{},\"steps\":{},\"probes\":{},\"stepf\":{},\"queries\":{},\"pure\":{},\"max_records\":{},\"op_kinds\":{{{}}},\"error_texts\":{{{}}},\"amount_classes\":{{{}}}}}",
            self.histories,
            self.lines,
            self.steps,
            self.probes,
            self.stepf,
            self.queries,
            self.pure,
            self.max_records,
            kinds.join(","),
            errs.join(","),
            amts.join(",")
        )
    }
}

pub fn op_kind(op: &Op) -> String {
    fn inner(i: &Inner) -> &'static str {
        match i {
            Inner::Bad => "BAD",
            Inner::CL { .. } => "CL",
            Inner::AL { .. } => "AL",
            Inner::CB { .. } => "CB",
            Inner::AB { .. } => "AB",
        }
    }
    match op {
        Op::X { msg, .. } => match msg {
            MMsg::FC => "X.FC".into(),
            MMsg::CL { .. } => "X.CL".into(),
            MMsg::AL { .. } => "X.AL".into(),
            MMsg::CA { .. } => "X.CA".into(),
            MMsg::FI { .. } => "X.FI".into(),
            MMsg::DL { .. } => "X.DL".into(),
            MMsg::CB { .. } => "X.CB".into(),
            MMsg::AB { .. } => "X.AB".into(),
            MMsg::RB { .. } => "X.RB".into(),
            MMsg::BL { .. } => "X.BL".into(),
            MMsg::WP { .. } => "X.WP".into(),
            MMsg::RC { inner: i, .. } => format!("X.RC.{}", inner(i)),
            MMsg::RN { inner: i, .. } => format!("X.RN.{}", inner(i)),
        },
        Op::T20 { inner: i, .. } => format!("T20.{}", inner(i)),
        Op::T721 { inner: i, .. } => format!("T721.{}", inner(i)),
        Op::R { msg, .. } => match msg {
            RMsg::Reg { .. } => "R.REG".into(),
            RMsg::Upd { .. } => "R.UPD".into(),
            RMsg::Rem { .. } => "R.REM".into(),
        },
        Op::AD { .. } => "AD".into(),
        Op::ADV { .. } => "ADV".into(),
    }
}

fn amount_class(a: u128) -> &'static str {
    match a {
        0 => "0",
        1..=199 => "1..199",
        200..=9_999 => "200..9999",
        10_000..=0xFFFF_FFFF => "1e4..2^32",
        0x1_0000_0000..=0xFFFF_FFFF_FFFF_FFFF => "2^32..2^64",
        _ => ">2^64",
    }
}

// ---------------------------------------------------------------------------------------
// the generator context
// ---------------------------------------------------------------------------------------

pub const AMOUNTS: [u128; 22] = [
    1,
    2,
    5,
    100,
    199,
    200,
    201,
    399,
    400,
    1000,
    3333,
    9999,
    10_000,
    10_001,
    33_334,
    1_000_007,
    (1u128 << 32) + 1,
    (1u128 << 64) - 1,
    (1u128 << 64) + 1,
    1u128 << 100,
    (1u128 << 120) + 12_345,
    u128::MAX / 64,
];

pub const LIFETIMES: [u64; 6] = [600, 601, 3600, 86_400, 1_209_599, 1_209_600];
pub const BAD_LIFETIMES: [u64; 9] = [0, 1, 599, 1_209_601, u64::MAX, (1 << 32) + 600, (1 << 32) + 1_209_600, (1 << 16) + 1_209_600 + 65_536 * 20, (1 << 63) + 3600];
pub const BPS_OK: [u64; 6] = [10, 11, 50, 100, 299, 300];
/// out-of-range rates, including the ones a narrowing cast (`as u8/u16/u32`) would fold into 10..=300
pub const BPS_BAD: [u64; 11] = [0, 9, 301, 5000, u64::MAX, (1 << 16) + 100, (1 << 16) + 10, (3 << 16) + 300, (1 << 32) + 10, u64::MAX - 65_535 + 250, (1 << 8) + 300];
pub const MAX_SAFE_INT: u64 = 9_007_199_254_740_990;

pub struct Gen<'w> {
    pub h: History,
    pub rng: Rng,
    pub w: &'w mut dyn Write,
    pub stats: Stats,
    next_id: u64,
    pending: VecDeque<Op>,
    saved: Vec<History>,
    pub thorough: bool,
}

pub fn coin(amount: u128, denom: &str) -> Coin {
    Coin { denom: denom.to_string(), amount: Uint128::new(amount) }
}

pub fn x(sender: &str, funds: Vec<Coin>, msg: MMsg) -> Op {
    Op::X { sender: sender.to_string(), funds, msg }
}

fn gbal_count(g: &GenericBalance) -> usize {
    g.native.len() + g.cw20.len() + g.nfts.len()
}

pub fn gbal_to_raw(g: &GenericBalance) -> RawGBal {
    RawGBal {
        native: g.native.clone(),
        cw20: g.cw20.iter().map(|c| (RawAddr::valid(c.address.as_str()), c.amount.u128())).collect(),
        nfts: g.nfts.iter().map(|n| (RawAddr::valid(n.contract_address.as_str()), n.token_id.clone())).collect(),
    }
}

impl<'w> Gen<'w> {
    /// Starts a history: emits a NOTE naming it and the INIT line.
    pub fn start(sim: Sim, name: &str, seed: u64, w: &'w mut dyn Write, thorough: bool) -> Gen<'w> {
        let (h, init) = History::start(sim);
        let mut rng = Rng::new(seed);
        let next_id = 1 + rng.below(1000) * 100;
        let mut g = Gen { h, rng, w, stats: Stats::default(), next_id, pending: VecDeque::new(), saved: vec![], thorough };
        g.stats.histories = 1;
        let cfg = cfg_token(g.h.sim.config());
        g.emit(&format!("NOTE HIST {} seed={} {}", name, seed, cfg));
        // legend for human readers of replay files: number -> name
        let legend = format!(
            "NOTE NAMES addresses: {} | denoms: {} | token ids: {}",
            g.h.sim.all_addrs().iter().enumerate().map(|(i, a)| format!("{}={}", i, a)).collect::<Vec<_>>().join(" "),
            g.h.sim.all_denoms().iter().enumerate().map(|(i, a)| format!("{}={}", i, a)).collect::<Vec<_>>().join(" "),
            g.h.sim.all_tids().iter().enumerate().map(|(i, a)| format!("{}={}", i, a)).collect::<Vec<_>>().join(" ")
        );
        g.emit(&legend);
        g.emit(&init);
        // the freshly instantiated marketplace must be exactly the model's `instantiate` + `reply`
        g.emit("INST");
        g
    }

    pub fn emit(&mut self, line: &str) {
        self.stats.lines += 1;
        writeln!(self.w, "{}", line).expect("write trace");
    }

    pub fn note(&mut self, text: &str) {
        let l = format!("NOTE {}", text.replace('\n', " "));
        self.emit(&l);
    }

    fn record(&mut self, op: &Op, out: &Outcome) {
        let k = op_kind(op);
        let e = self.stats.kinds.entry(k).or_insert([0, 0]);
        if out.ok {
            e[0] += 1;
        } else {
            e[1] += 1;
            if let Some(t) = &out.err_text {
                let short: String = t.chars().filter(|c| c.is_ascii_alphabetic() || *c == ' ').take(48).collect();
                *self.stats.errs.entry(short).or_insert(0) += 1;
            }
        }
        if let Op::X { funds, .. } = op {
            for c in funds {
                *self.stats.amount_classes.entry(amount_class(c.amount.u128()).to_string()).or_insert(0) += 1;
            }
        }
        if let Op::T20 { amount, .. } = op {
            *self.stats.amount_classes.entry(amount_class(*amount).to_string()).or_insert(0) += 1;
        }
    }

    pub fn step(&mut self, op: &Op) -> Outcome {
        let (out, line) = self.h.step(op);
        self.emit(&line);
        self.stats.steps += 1;
        self.record(op, &out);
        if out.ok {
            for l in History::cpmsg_lines(&out) {
                self.emit(&l);
                self.stats.pure += 1;
            }
        }
        let n = (self.h.sim.listings().len() + self.h.sim.buckets().len()) as u64;
        self.stats.max_records = self.stats.max_records.max(n);
        out
    }

    pub fn probe(&mut self, op: &Op) -> Outcome {
        let (out, line) = self.h.probe(op);
        self.emit(&line);
        self.stats.probes += 1;
        self.record(op, &out);
        out
    }

    pub fn stepf(&mut self, k: usize, op: &Op) -> Outcome {
        let (out, line) = self.h.stepf(k, op);
        self.emit(&line);
        self.stats.stepf += 1;
        out
    }

    pub fn query(&mut self, q: &Query) -> QResp {
        let (r, line) = self.h.query(q);
        self.emit(&line);
        self.stats.queries += 1;
        r
    }

    /// Enter a sub-history on a fork (driver saves its state).
    pub fn push(&mut self) {
        self.emit("PUSH");
        let f = self.h.fork();
        let main = std::mem::replace(&mut self.h, f);
        self.saved.push(main);
    }

    /// Leave the sub-history (driver restores its state).
    pub fn pop(&mut self) {
        self.emit("POP");
        let main = self.saved.pop().expect("pop without push");
        self.h = main;
    }

    pub fn fresh_id(&mut self) -> u64 {
        self.next_id += 1 + self.rng.below(3);
        self.next_id
    }

    pub fn users(&self) -> Vec<String> {
        self.h.sim.users().to_vec()
    }
    pub fn user(&mut self) -> String {
        let us = self.users();
        self.rng.pick(&us).clone()
    }
    pub fn other_user(&mut self, not: &str) -> String {
        let us: Vec<String> = self.users().into_iter().filter(|u| u != not).collect();
        self.rng.pick(&us).clone()
    }
    pub fn amount(&mut self) -> u128 {
        // mostly small, boundary-dense
        if self.rng.chance(70) {
            AMOUNTS[self.rng.below(16) as usize]
        } else {
            *self.rng.pick(&AMOUNTS)
        }
    }
    pub fn denoms(&self) -> Vec<String> {
        self.h.sim.all_denoms().to_vec()
    }
    pub fn denom(&mut self) -> String {
        // fee denominations are over-represented on purpose
        if self.rng.chance(55) {
            if self.rng.chance(60) {
                JUNO_DENOM.to_string()
            } else {
                USDC_DENOM.to_string()
            }
        } else {
            let ds = self.denoms();
            self.rng.pick(&ds).clone()
        }
    }

    fn owned_nfts(&self, user: &str) -> Vec<(String, String)> {
        let mut v = vec![];
        for c in self.h.sim.cw721_addrs() {
            for (tid, owner) in self.h.sim.nft_owners(c) {
                if owner == user {
                    v.push((c.clone(), tid));
                }
            }
        }
        v
    }

    /// random native coin set (distinct denoms)
    fn native_set(&mut self, max: usize) -> Vec<Coin> {
        let n = 1 + self.rng.below(max as u64) as usize;
        let mut ds: Vec<String> = vec![];
        for _ in 0..n {
            let d = self.denom();
            if !ds.contains(&d) {
                ds.push(d);
            }
        }
        ds.iter().map(|d| coin(self.amount(), d)).collect()
    }

    /// An ask that `buyer` is able to pay.
    fn gen_ask(&mut self, buyer: &str) -> GenericBalance {
        let mut g = GenericBalance { native: vec![], cw20: vec![], nfts: vec![] };
        let n_assets = 1 + self.rng.below(3);
        for _ in 0..n_assets {
            match self.rng.below(10) {
                0..=5 => {
                    let d = self.denom();
                    if !g.native.iter().any(|c| c.denom == d) {
                        g.native.push(coin(self.amount(), &d));
                    }
                }
                6..=7 => {
                    let toks = self.h.sim.cw20_addrs().to_vec();
                    if toks.is_empty() {
                        continue;
                    }
                    let t = self.rng.pick(&toks).clone();
                    if !g.cw20.iter().any(|c| c.address.as_str() == t) {
                        g.cw20.push(cw20::Cw20CoinVerified { address: cosmwasm_std::Addr::unchecked(t), amount: Uint128::new(self.amount()) });
                    }
                }
                _ => {
                    let own = self.owned_nfts(buyer);
                    if own.is_empty() {
                        continue;
                    }
                    let (c, t) = self.rng.pick(&own).clone();
                    if !g.nfts.iter().any(|n| n.contract_address.as_str() == c && n.token_id == t) {
                        g.nfts.push(marketplace::state::Nft { contract_address: cosmwasm_std::Addr::unchecked(c), token_id: t });
                    }
                }
            }
        }
        if gbal_count(&g) == 0 {
            g.native.push(coin(self.amount(), JUNO_DENOM));
        }
        g
    }

    /// Ops by which `user` deposits exactly `g` into a new record `id` (bucket, or listing when
    /// `create` is given): one creating op, then top-ups, in a random order of the assets.
    pub fn deposit_ops(&mut self, user: &str, g: &GenericBalance, id: u64, create: Option<Create>) -> Vec<Op> {
        enum Unit {
            Native(Vec<Coin>),
            Cw20(String, u128),
            Nft(String, String),
        }
        let mut units: Vec<Unit> = vec![];
        if !g.native.is_empty() {
            if g.native.len() > 1 && self.rng.chance(40) {
                for c in &g.native {
                    units.push(Unit::Native(vec![c.clone()]));
                }
            } else {
                let mut cs = g.native.clone();
                self.rng.shuffle(&mut cs);
                units.push(Unit::Native(cs));
            }
        }
        for c in &g.cw20 {
            units.push(Unit::Cw20(c.address.to_string(), c.amount.u128()));
        }
        for n in &g.nfts {
            units.push(Unit::Nft(n.contract_address.to_string(), n.token_id.clone()));
        }
        self.rng.shuffle(&mut units);
        let mut ops = vec![];
        for (i, u) in units.into_iter().enumerate() {
            let first = i == 0;
            let is_listing = create.is_some();
            let inner = |first: bool| -> Inner {
                match (first, &create) {
                    (true, Some(c)) => Inner::CL { id, create: c.clone() },
                    (true, None) => Inner::CB { id },
                    (false, _) if is_listing => Inner::AL { id },
                    (false, _) => Inner::AB { id },
                }
            };
            let op = match u {
                Unit::Native(cs) => {
                    let msg = match (first, &create) {
                        (true, Some(c)) => MMsg::CL { id, create: c.clone() },
                        (true, None) => MMsg::CB { id },
                        (false, _) if is_listing => MMsg::AL { id },
                        (false, _) => MMsg::AB { id },
                    };
                    x(user, cs, msg)
                }
                Unit::Cw20(t, a) => Op::T20 { token: t, sender: user.to_string(), amount: a, inner: inner(first) },
                Unit::Nft(c, t) => Op::T721 { coll: c, sender: user.to_string(), token_id: t, inner: inner(first) },
            };
            ops.push(op);
        }
        ops
    }

    // -----------------------------------------------------------------------------------
    // intents: each returns ops that are valid in the current state (mostly)
    // -----------------------------------------------------------------------------------

    fn my_listings(&self, pred: impl Fn(&Listing) -> bool) -> Vec<Listing> {
        self.h.sim.listings().into_iter().map(|p| p.1).filter(|l| pred(l)).collect()
    }

    fn intent_create_listing(&mut self) -> Vec<Op> {
        let seller = self.user();
        let buyer = self.other_user(&seller);
        let ask = self.gen_ask(&buyer);
        let wl = if self.rng.chance(25) { Some(RawAddr::valid(buyer.as_str())) } else { None };
        let create = Create { ask: gbal_to_raw(&ask), whitelist: wl };
        // goods
        let mut goods = GenericBalance { native: vec![], cw20: vec![], nfts: vec![] };
        match self.rng.below(10) {
            0..=4 => goods.native = self.native_set(3),
            5..=6 => {
                let toks = self.h.sim.cw20_addrs().to_vec();
                let t = self.rng.pick(&toks).clone();
                goods.cw20.push(cw20::Cw20CoinVerified { address: cosmwasm_std::Addr::unchecked(t), amount: Uint128::new(self.amount()) });
                if self.rng.chance(50) {
                    goods.native = self.native_set(2);
                }
            }
            _ => {
                let own = self.owned_nfts(&seller);
                if own.is_empty() {
                    goods.native = self.native_set(2);
                } else {
                    let k = 1 + self.rng.below(4) as usize;
                    for _ in 0..k {
                        let (c, t) = self.rng.pick(&own).clone();
                        if !goods.nfts.iter().any(|n| n.contract_address.as_str() == c && n.token_id == t) {
                            goods.nfts.push(marketplace::state::Nft { contract_address: cosmwasm_std::Addr::unchecked(c), token_id: t });
                        }
                    }
                    if self.rng.chance(40) {
                        goods.native = self.native_set(2);
                    }
                    if self.rng.chance(30) {
                        let toks = self.h.sim.cw20_addrs().to_vec();
                        if !toks.is_empty() {
                            let t = self.rng.pick(&toks).clone();
                            goods.cw20.push(cw20::Cw20CoinVerified { address: cosmwasm_std::Addr::unchecked(t), amount: Uint128::new(self.amount()) });
                        }
                    }
                }
            }
        }
        let id = self.fresh_id();
        let mut ops = self.deposit_ops(&seller, &goods, id, Some(create));
        if self.rng.chance(70) {
            let secs = *self.rng.pick(&LIFETIMES);
            ops.push(x(&seller, vec![], MMsg::FI { id, seconds: secs }));
        }
        ops
    }

    fn intent_bucket_for_listing(&mut self) -> Vec<Op> {
        let now = self.h.sim.now();
        let ls = self.my_listings(|l| l.status == Status::FinalizedReady && l.expiration_time.map_or(false, |e| e >= now));
        if ls.is_empty() {
            return self.intent_create_listing();
        }
        let l = self.rng.pick(&ls).clone();
        // buyer: whitelisted one, else the owner of the first asked NFT, else anybody (sometimes the seller)
        let buyer = if let Some(w) = &l.whitelisted_buyer {
            w.to_string()
        } else if let Some(n) = l.ask.nfts.first() {
            self.h.sim.nft_owner(n.contract_address.as_str(), &n.token_id).filter(|o| self.h.sim.users().contains(o)).unwrap_or_else(|| l.creator.to_string())
        } else if self.rng.chance(10) {
            l.creator.to_string()
        } else {
            self.other_user(l.creator.as_str())
        };
        let bid = self.fresh_id();
        let mut ops = self.deposit_ops(&buyer, &l.ask, bid, None);
        ops.push(x(&buyer, vec![], MMsg::BL { listing_id: l.id, bucket_id: bid }));
        if self.rng.chance(60) {
            ops.push(x(&buyer, vec![], MMsg::WP { id: l.id }));
        }
        if self.rng.chance(40) {
            ops.push(x(l.creator.as_str(), vec![], MMsg::RB { id: bid }));
        }
        ops
    }

    /// reuse a proceeds bucket (one that carries a pending fee or belongs to a seller) to buy again
    fn intent_reuse_bucket(&mut self) -> Vec<Op> {
        let bs = self.h.sim.buckets();
        if bs.is_empty() {
            return vec![];
        }
        let ((owner, bid), b) = self.rng.pick(&bs).clone();
        let owner = owner.to_string();
        // somebody else lists something asking exactly this bucket's contents
        let seller = self.other_user(&owner);
        if !b.funds.nfts.is_empty() && self.rng.chance(50) {
            return vec![];
        }
        let create = Create { ask: gbal_to_raw(&b.funds), whitelist: None };
        let lid = self.fresh_id();
        let goods = GenericBalance { native: self.native_set(2), cw20: vec![], nfts: vec![] };
        let mut ops = self.deposit_ops(&seller, &goods, lid, Some(create));
        ops.push(x(&seller, vec![], MMsg::FI { id: lid, seconds: 600 }));
        if self.rng.chance(50) {
            // top the bucket up first and ask for the sum instead: exercises merged top-ups
            ops.push(x(&owner, vec![], MMsg::BL { listing_id: lid, bucket_id: bid }));
        } else {
            ops.push(x(&owner, vec![], MMsg::BL { listing_id: lid, bucket_id: bid }));
            ops.push(x(&seller, vec![], MMsg::RB { id: bid }));
        }
        ops
    }

    fn intent_random_bucket(&mut self) -> Vec<Op> {
        let u = self.user();
        let g = self.gen_ask(&u);
        let id = self.fresh_id();
        self.deposit_ops(&u, &g, id, None)
    }

    fn intent_topup(&mut self) -> Vec<Op> {
        // top up an existing bucket or preparing listing of its owner
        if self.rng.chance(50) {
            let bs = self.h.sim.buckets();
            if bs.is_empty() {
                return vec![];
            }
            let ((owner, id), b) = self.rng.pick(&bs).clone();
            let owner = owner.to_string();
            match self.rng.below(3) {
                0 => {
                    // same denom as an existing one (merge) or a new one
                    let cs = if !b.funds.native.is_empty() && self.rng.chance(70) {
                        // an existing denomination (merge), often together with new ones, in either order
                        let mut cs = vec![coin(self.amount(), &b.funds.native[self.rng.below(b.funds.native.len() as u64) as usize].denom)];
                        if self.rng.chance(60) {
                            for c in self.native_set(3) {
                                if !cs.iter().any(|x| x.denom == c.denom) {
                                    cs.push(c);
                                }
                            }
                            if self.rng.chance(50) {
                                cs.sort_by(|a, b| a.denom.cmp(&b.denom));
                            } else {
                                self.rng.shuffle(&mut cs);
                            }
                        }
                        cs
                    } else {
                        self.native_set(3)
                    };
                    vec![x(&owner, cs, MMsg::AB { id })]
                }
                1 => {
                    let toks = self.h.sim.cw20_addrs().to_vec();
                    let t = self.rng.pick(&toks).clone();
                    vec![Op::T20 { token: t, sender: owner, amount: self.amount(), inner: Inner::AB { id } }]
                }
                _ => {
                    let own = self.owned_nfts(&owner);
                    if own.is_empty() {
                        return vec![];
                    }
                    let (c, t) = self.rng.pick(&own).clone();
                    vec![Op::T721 { coll: c, sender: owner, token_id: t, inner: Inner::AB { id } }]
                }
            }
        } else {
            let ls = self.my_listings(|l| l.status == Status::BeingPrepared);
            if ls.is_empty() {
                return vec![];
            }
            let l = self.rng.pick(&ls).clone();
            let owner = l.creator.to_string();
            match self.rng.below(3) {
                0 => {
                    let cs = if !l.for_sale.native.is_empty() && self.rng.chance(70) {
                        let mut cs = vec![coin(self.amount(), &l.for_sale.native[self.rng.below(l.for_sale.native.len() as u64) as usize].denom)];
                        if self.rng.chance(60) {
                            for c in self.native_set(3) {
                                if !cs.iter().any(|x| x.denom == c.denom) {
                                    cs.push(c);
                                }
                            }
                            if self.rng.chance(50) {
                                cs.sort_by(|a, b| a.denom.cmp(&b.denom));
                            } else {
                                self.rng.shuffle(&mut cs);
                            }
                        }
                        cs
                    } else {
                        self.native_set(3)
                    };
                    vec![x(&owner, cs, MMsg::AL { id: l.id })]
                }
                1 => {
                    let toks = self.h.sim.cw20_addrs().to_vec();
                    let t = self.rng.pick(&toks).clone();
                    vec![Op::T20 { token: t, sender: owner, amount: self.amount(), inner: Inner::AL { id: l.id } }]
                }
                _ => {
                    let own = self.owned_nfts(&owner);
                    if own.is_empty() {
                        return vec![];
                    }
                    let (c, t) = self.rng.pick(&own).clone();
                    vec![Op::T721 { coll: c, sender: owner, token_id: t, inner: Inner::AL { id: l.id } }]
                }
            }
        }
    }

    fn intent_listing_admin(&mut self) -> Vec<Op> {
        let ls = self.h.sim.listings();
        if ls.is_empty() {
            return vec![];
        }
        let l = self.rng.pick(&ls).1.clone();
        let owner = l.creator.to_string();
        match self.rng.below(4) {
            0 => {
                let buyer = self.other_user(&owner);
                let ask = self.gen_ask(&buyer);
                vec![x(&owner, vec![], MMsg::CA { id: l.id, ask: gbal_to_raw(&ask) })]
            }
            1 => {
                let secs = if self.rng.chance(85) { *self.rng.pick(&LIFETIMES) } else { *self.rng.pick(&BAD_LIFETIMES) };
                vec![x(&owner, vec![], MMsg::FI { id: l.id, seconds: secs })]
            }
            2 => vec![x(&owner, vec![], MMsg::DL { id: l.id })],
            _ => vec![x(&owner, vec![], MMsg::WP { id: l.id })],
        }
    }

    fn intent_exit(&mut self) -> Vec<Op> {
        let bs = self.h.sim.buckets();
        if !bs.is_empty() && self.rng.chance(60) {
            let ((owner, id), _) = self.rng.pick(&bs).clone();
            return vec![x(owner.as_str(), vec![], MMsg::RB { id })];
        }
        let ls = self.h.sim.listings();
        if ls.is_empty() {
            return vec![];
        }
        let l = self.rng.pick(&ls).1.clone();
        let owner = l.creator.to_string();
        if l.status == Status::Closed {
            vec![x(&owner, vec![], MMsg::WP { id: l.id })]
        } else {
            vec![x(&owner, vec![], MMsg::DL { id: l.id })]
        }
    }

    fn intent_time(&mut self) -> Vec<Op> {
        let now = self.h.sim.now().nanos();
        match self.rng.below(10) {
            0..=3 => vec![Op::ADV { d_ns: 5_000_000_000 + self.rng.below(1_000_000_000), d_height: 1 }],
            4..=5 => vec![Op::ADV { d_ns: 601_000_000_000 + self.rng.below(999_999_999), d_height: 100 }],
            6..=8 => {
                // to the expiry boundary of some finalized listing: exp-1ns, exp, exp+1ns
                let ls = self.my_listings(|l| l.status == Status::FinalizedReady && l.expiration_time.map_or(false, |e| e.nanos() > now + 1));
                if ls.is_empty() {
                    return vec![Op::ADV { d_ns: 1, d_height: 0 }];
                }
                let l = self.rng.pick(&ls).clone();
                let exp = l.expiration_time.unwrap().nanos();
                let delta = exp - now;
                let d = match self.rng.below(3) {
                    0 => delta - 1,
                    1 => delta,
                    _ => delta + 1,
                };
                vec![Op::ADV { d_ns: d, d_height: 7 }]
            }
            _ => {
                // around the weekly fee switch mark
                let since = match self.h.sim.fee_denom() {
                    marketplace::state::FeeDenom::JUNO(s) => s,
                    marketplace::state::FeeDenom::USDC(s) => s,
                };
                let mark_ns = (since + 604_800) * 1_000_000_000;
                let target = match self.rng.below(4) {
                    0 => mark_ns.saturating_sub(1),          // last ns of the second before... still refused
                    1 => mark_ns + self.rng.below(999_999_999), // inside second `since+604800`: refused
                    2 => mark_ns + 1_000_000_000,            // first accepted second
                    _ => mark_ns + 1_000_000_000 + self.rng.below(5_000_000_000),
                };
                if target > now {
                    vec![Op::ADV { d_ns: target - now, d_height: 100_800 }, x(&self.user(), vec![], MMsg::FC)]
                } else {
                    vec![x(&self.user(), vec![], MMsg::FC)]
                }
            }
        }
    }

    fn intent_registry(&mut self) -> Vec<Op> {
        let colls = self.h.sim.cw721_addrs().to_vec();
        if colls.is_empty() {
            return vec![];
        }
        let c = self.rng.pick(&colls).clone();
        let admin = self.h.sim.contract_admin(&c);
        let sender = match &admin {
            Some(a) if self.rng.chance(85) => a.clone(),
            _ => self.user(),
        };
        let payouts: Vec<String> = PAYOUTS.iter().map(|s| s.to_string()).chain(self.users().into_iter().take(2)).collect();
        let payout = self.rng.pick(&payouts).clone();
        let bps = if self.rng.chance(85) { *self.rng.pick(&BPS_OK) } else { *self.rng.pick(&BPS_BAD) };
        let registered = self.h.sim.registry_entries().iter().any(|(a, _)| a.as_str() == c);
        match self.rng.below(10) {
            0..=4 if !registered => vec![Op::R { sender, msg: RMsg::Reg { nft: RawAddr::valid(c.as_str()), payout: RawAddr::valid(payout.as_str()), bps } }],
            0..=6 => {
                let mut ops = vec![];
                if self.rng.chance(70) {
                    ops.push(Op::ADV { d_ns: 6_000_000_000, d_height: *self.rng.pick(&[99u64, 100, 101]) });
                }
                let p = if self.rng.chance(50) { Some(RawAddr::valid(payout.as_str())) } else { None };
                let b = if self.rng.chance(60) { Some(bps) } else { None };
                ops.push(Op::R { sender, msg: RMsg::Upd { nft: RawAddr::valid(c.as_str()), payout: p, bps: b } });
                ops
            }
            7 => vec![Op::R { sender, msg: RMsg::Rem { nft: RawAddr::valid(c.as_str()) } }],
            8 => {
                // admin hand-over (or clearing)
                let new_admin = if self.rng.chance(80) { Some(self.user()) } else { None };
                match admin {
                    Some(a) => vec![Op::AD { sender: a, contract: c, new_admin }],
                    None => vec![Op::AD { sender: self.user(), contract: c, new_admin }],
                }
            }
            _ => vec![Op::R { sender, msg: RMsg::Reg { nft: RawAddr::valid(c.as_str()), payout: RawAddr::valid(payout.as_str()), bps } }],
        }
    }

    /// a deliberately wrong variant of `op`
    fn perturb(&mut self, op: &Op) -> Op {
        let mut op = op.clone();
        let choice = self.rng.below(8);
        match &mut op {
            Op::X { sender, funds, msg } => match choice {
                0 => *sender = self.other_user(sender),
                1 => *sender = DEPLOYER.to_string(),
                2 => {
                    if let Some(c) = funds.first_mut() {
                        c.amount = Uint128::new(c.amount.u128().saturating_sub(1));
                    } else {
                        funds.push(coin(77, USDC_DENOM));
                    }
                }
                3 => funds.push(coin(77, USDC_DENOM)),
                4 => {
                    if let Some(c) = funds.first().cloned() {
                        funds.push(c); // duplicate denom
                    }
                }
                5 => match msg {
                    MMsg::CL { create, .. } => {
                        create.whitelist = Some(if self.rng.chance(50) { RawAddr::Invalid } else { RawAddr::valid(sender.as_str()) })
                    }
                    MMsg::CA { ask, .. } => {
                        if let Some(c) = ask.native.first_mut() {
                            c.amount = Uint128::zero();
                        } else {
                            ask.cw20.push((RawAddr::Invalid, 5));
                        }
                    }
                    MMsg::BL { bucket_id, .. } => *bucket_id += 1,
                    MMsg::FI { seconds, .. } => *seconds = *self.rng.pick(&BAD_LIFETIMES),
                    _ => *sender = self.other_user(sender),
                },
                6 => {
                    // boundary ids
                    let nid = *self.rng.pick(&[0u64, MAX_SAFE_INT - 1, MAX_SAFE_INT, MAX_SAFE_INT + 1, u64::MAX]);
                    match msg {
                        MMsg::CL { id, .. } | MMsg::CB { id } => *id = nid,
                        MMsg::AL { id } | MMsg::AB { id } | MMsg::DL { id } | MMsg::RB { id } | MMsg::WP { id } => *id = nid,
                        _ => {}
                    }
                }
                _ => {
                    // aim at somebody else's record
                    let ls = self.h.sim.listings();
                    let bs = self.h.sim.buckets();
                    match msg {
                        MMsg::AL { id } | MMsg::DL { id } | MMsg::WP { id } | MMsg::FI { id, .. } | MMsg::CA { id, .. } => {
                            if !ls.is_empty() {
                                *id = self.rng.pick(&ls).1.id;
                            }
                        }
                        MMsg::AB { id } | MMsg::RB { id } => {
                            if !bs.is_empty() {
                                *id = self.rng.pick(&bs).0 .1;
                            }
                        }
                        MMsg::CL { id, .. } => {
                            if !ls.is_empty() {
                                *id = self.rng.pick(&ls).1.id; // id reuse
                            }
                        }
                        MMsg::CB { id } => {
                            if !bs.is_empty() {
                                *id = self.rng.pick(&bs).0 .1;
                            }
                        }
                        _ => {}
                    }
                }
            },
            Op::T20 { sender, amount, inner, .. } => match choice {
                0 | 1 => *sender = self.other_user(sender),
                2 => *amount = 0,
                3 => *inner = Inner::Bad,
                4 => *amount = amount.saturating_add(1),
                _ => {
                    if let Inner::AB { id } | Inner::AL { id } | Inner::CB { id } | Inner::CL { id, .. } = inner {
                        *id = if self.rng.chance(50) { 0 } else { *id + 1 };
                    }
                }
            },
            Op::T721 { sender, inner, token_id, .. } => match choice {
                0 | 1 => *sender = self.other_user(sender),
                2 => *inner = Inner::Bad,
                3 => *token_id = "t000".to_string(),
                _ => {
                    if let Inner::AB { id } | Inner::AL { id } | Inner::CB { id } | Inner::CL { id, .. } = inner {
                        *id = if self.rng.chance(50) { 0 } else { *id + 1 };
                    }
                }
            },
            Op::R { sender, msg } => match choice {
                0..=2 => *sender = self.user(),
                3 => {
                    if let RMsg::Reg { payout, .. } = msg {
                        *payout = RawAddr::Invalid
                    }
                }
                4 => {
                    if let RMsg::Reg { nft, .. } | RMsg::Upd { nft, .. } | RMsg::Rem { nft } = msg {
                        *nft = RawAddr::valid(self.user().as_str()) // not a contract
                    }
                }
                _ => {
                    if let RMsg::Reg { bps, .. } = msg {
                        *bps = *self.rng.pick(&BPS_BAD)
                    }
                }
            },
            Op::AD { sender, .. } => *sender = self.user(),
            Op::ADV { .. } => {}
        }
        op
    }

    /// One scenario-biased random history with batteries at the given step indexes.
    pub fn random_history(&mut self, steps: usize, battery_at: &[usize], perturb_pct: u64) {
        // registry set-up with some probability so that royalties occur
        if self.rng.chance(70) {
            let colls = self.h.sim.cw721_addrs().to_vec();
            for c in colls {
                if self.rng.chance(60) {
                    let bps = *self.rng.pick(&BPS_OK);
                    let payout = self.rng.pick(&[PAYOUTS[0], PAYOUTS[1], "alice"]).to_string();
                    let admin = self.h.sim.contract_admin(&c).unwrap_or_else(|| DEPLOYER.to_string());
                    self.step(&Op::R { sender: admin, msg: RMsg::Reg { nft: RawAddr::valid(c.as_str()), payout: RawAddr::valid(payout.as_str()), bps } });
                }
            }
        }
        for i in 0..steps {
            if self.pending.is_empty() {
                let ops = match self.rng.below(100) {
                    0..=17 => self.intent_create_listing(),
                    18..=41 => self.intent_bucket_for_listing(),
                    42..=49 => self.intent_reuse_bucket(),
                    50..=55 => self.intent_random_bucket(),
                    56..=65 => self.intent_topup(),
                    66..=73 => self.intent_listing_admin(),
                    74..=81 => self.intent_exit(),
                    82..=91 => self.intent_time(),
                    _ => self.intent_registry(),
                };
                self.pending.extend(ops);
            }
            if let Some(op) = self.pending.pop_front() {
                if self.rng.below(100) < perturb_pct {
                    let bad = self.perturb(&op);
                    self.step(&bad);
                    // usually still do the right thing afterwards
                    if self.rng.chance(80) {
                        self.step(&op);
                    }
                } else {
                    self.step(&op);
                }
            }
            if battery_at.contains(&i) {
                self.batteries();
            }
        }
    }

    // -----------------------------------------------------------------------------------
    // batteries (evaluated in forks of the current state)
    // -----------------------------------------------------------------------------------

    /// every exit message by the record's own holder in every lifecycle state, now and after every
    /// expiration has passed (e.g. DeleteListing of a purchased listing by its buyer must stay refused)
    pub fn battery_owner_exits(&mut self) {
        let cap = if self.thorough { 10 } else { 4 };
        for round in 0..2 {
            if round == 1 {
                let now = self.h.sim.now().nanos();
                let max_exp = self.h.sim.listings().iter().filter_map(|p| p.1.expiration_time).map(|t| t.nanos()).max().unwrap_or(now);
                self.push();
                if max_exp >= now {
                    self.step(&Op::ADV { d_ns: max_exp - now + 1, d_height: 3 });
                }
            }
            let ls = self.h.sim.listings();
            // closed (purchased) listings first: they are the interesting ones
            let mut order: Vec<&((cosmwasm_std::Addr, u64), Listing)> = ls.iter().collect();
            order.sort_by_key(|p| if p.1.status == Status::Closed { 0 } else { 1 });
            for (_, l) in order.into_iter().take(cap) {
                let o = l.creator.to_string();
                self.probe(&x(&o, vec![], MMsg::DL { id: l.id }));
                self.probe(&x(&o, vec![], MMsg::WP { id: l.id }));
                self.probe(&x(&o, vec![], MMsg::FI { id: l.id, seconds: 600 }));
                self.probe(&x(&o, vec![], MMsg::CA { id: l.id, ask: RawGBal::natives(vec![coin(1, JUNO_DENOM)]) }));
                self.probe(&x(&o, vec![coin(5, JUNO_DENOM)], MMsg::AL { id: l.id }));
            }
            if round == 1 {
                self.pop();
            }
        }
    }

    pub fn batteries(&mut self) {
        self.battery_queries();
        self.battery_owner_exits();
        self.battery_buy_matrix();
        self.battery_nonowner();
        self.battery_funds();
        self.battery_faults();
        self.battery_forge();
        self.battery_drain();
    }

    pub fn battery_queries(&mut self) {
        self.query(&Query::FD);
        self.query(&Query::RA);
        let users = self.users();
        let pages: Vec<u8> = if self.thorough { vec![1, 2, 3, 12, 13, 14, 200, 255] } else { vec![1, 2, 13, 255] };
        for u in users.iter().take(if self.thorough { 6 } else { 3 }) {
            for p in &pages {
                self.query(&Query::BK { owner: RawAddr::valid(u.as_str()), page: *p });
                self.query(&Query::LO { owner: RawAddr::valid(u.as_str()), page: *p });
            }
            self.query(&Query::WL { owner: RawAddr::valid(u.as_str()) });
        }
        self.query(&Query::BK { owner: RawAddr::Invalid, page: 1 });
        self.query(&Query::WL { owner: RawAddr::Invalid });
        // strings that do not validate, among them the index's own "no whitelist" sentinel "1"
        for odd in ["1", "", "ab", "ALICE"] {
            self.query(&Query::WL { owner: RawAddr::Odd(odd.to_string()) });
            self.query(&Query::BK { owner: RawAddr::Odd(odd.to_string()), page: 1 });
            self.query(&Query::LO { owner: RawAddr::Odd(odd.to_string()), page: 1 });
        }
        self.registry_queries();
        let mut all: Vec<u64> = vec![];
        for p in 1..=3u8 {
            if let QResp::LS(ls) = self.query(&Query::MK { page: p }) {
                all.extend(ls.iter().map(|l| l.id));
            }
        }
        self.query(&Query::MK { page: 13 });
        self.query(&Query::MK { page: 255 });
        // union of pages 1..3 must be exactly the purchasable set (when the window has <= 60 entries)
        if self.h.sim.listings().len() <= 60 {
            let ids: Vec<String> = all.iter().map(|i| i.to_string()).collect();
            let l = format!("QUERY MKALL {} {}", ids.len(), ids.join(" "));
            let l = l.trim_end().to_string();
            self.emit(&l);
            self.stats.queries += 1;
        }
    }

    /// single and batched lookups on the registry itself (the marketplace only ever sends a sorted,
    /// de-duplicated batch): repeats, adjacent and apart, unregistered and non-contract names, request order
    pub fn registry_queries(&mut self) {
        use royalties::msg::QueryMsg as RQ;
        use royalties::RoyaltyInfo;
        let reg = self.h.sim.registry_addr().to_string();
        let colls = self.h.sim.cw721_addrs().to_vec();
        if colls.is_empty() {
            return;
        }
        let mut names: Vec<RawAddr> = colls.iter().map(|c| RawAddr::valid(c.as_str())).collect();
        names.push(RawAddr::valid("alice"));
        names.push(RawAddr::Invalid);
        let enc_opt = |sim: &Sim, r: &Option<RoyaltyInfo>| -> String {
            match r {
                None => "N".to_string(),
                Some(i) => format!("S {}", crate::encode::encode_royinfo(sim, i)),
            }
        };
        let enc_raw = |sim: &Sim, a: &RawAddr| -> String {
            match a {
                RawAddr::Valid(s) => format!("V {}", sim.addr_num(s)),
                _ => "I".to_string(),
            }
        };
        for a in names.iter() {
            let r: Result<Option<RoyaltyInfo>, _> = self.h.sim.app.wrap().query_wasm_smart(reg.clone(), &RQ::RoyaltyInfoSingle { nft_contract: a.wire() });
            let l = match r {
                Ok(v) => format!("QUERY RS {} ok RI {}", enc_raw(&self.h.sim, a), enc_opt(&self.h.sim, &v)),
                Err(_) => format!("QUERY RS {} err", enc_raw(&self.h.sim, a)),
            };
            self.emit(&l);
            self.stats.queries += 1;
        }
        let n = names.len();
        let mut batches: Vec<Vec<RawAddr>> = vec![
            vec![],
            vec![names[0].clone()],
            vec![names[0].clone(), names[0].clone()],
            vec![names[n - 3].clone(), names[0].clone(), names[0].clone(), names[n - 2].clone(), names[n - 2].clone(), names[n - 3].clone()],
            names.iter().rev().cloned().collect(),
            // long requests: every collection, and every collection three times over (one answer per name, in order)
            names.iter().take(colls.len()).cloned().collect(),
            names.iter().take(colls.len()).cycle().take(3 * colls.len().min(30)).cloned().collect(),
        ];
        let mut rnd: Vec<RawAddr> = vec![];
        for _ in 0..(2 + self.rng.below(6)) {
            rnd.push(self.rng.pick(&names).clone());
        }
        batches.push(rnd);
        for b in batches {
            let req: Vec<String> = b.iter().map(|a| a.wire()).collect();
            let r: Result<Vec<Option<RoyaltyInfo>>, _> = self.h.sim.app.wrap().query_wasm_smart(reg.clone(), &RQ::RoyaltyInfoMulti { nft_contracts: req });
            let head = format!("QUERY RM {} {}", b.len(), b.iter().map(|a| enc_raw(&self.h.sim, a)).collect::<Vec<_>>().join(" "));
            let head = head.trim_end().to_string();
            let l = match r {
                Ok(v) => format!("{} ok RL {} {}", head, v.len(), v.iter().map(|x| enc_opt(&self.h.sim, x)).collect::<Vec<_>>().join(" ")).trim_end().to_string(),
                Err(_) => format!("{} err", head),
            };
            self.emit(&l);
            self.stats.queries += 1;
        }
    }

    /// every caller x finalized listing x bucket
    pub fn battery_buy_matrix(&mut self) {
        let ls = self.h.sim.listings();
        let bs = self.h.sim.buckets();
        let users = self.users();
        let mut n = 0;
        let cap = if self.thorough { 400 } else { 60 };
        for (_, l) in &ls {
            for ((bo, bid), _) in &bs {
                for caller in [bo.to_string(), self.rng.pick(&users).clone()] {
                    if n >= cap {
                        return;
                    }
                    n += 1;
                    self.probe(&x(&caller, vec![], MMsg::BL { listing_id: l.id, bucket_id: *bid }));
                }
            }
            // missing ids
            self.probe(&x(l.creator.as_str(), vec![], MMsg::BL { listing_id: l.id, bucket_id: 987_654_321 }));
        }
        if let Some(((bo, bid), _)) = bs.first() {
            self.probe(&x(bo.as_str(), vec![], MMsg::BL { listing_id: 987_654_321, bucket_id: *bid }));
        }
    }

    /// Perturbed buckets and expiry instants for one finalized listing, in a sub-history.
    pub fn battery_buy_perturb(&mut self) {
        let now = self.h.sim.now();
        // a listing still in preparation must not be purchasable even with an exactly matching bucket
        let prep = self.my_listings(|l| l.status == Status::BeingPrepared);
        if !prep.is_empty() {
            let l = self.rng.pick(&prep).clone();
            let buyer = if let Some(w) = &l.whitelisted_buyer {
                w.to_string()
            } else if let Some(n) = l.ask.nfts.first() {
                self.h.sim.nft_owner(n.contract_address.as_str(), &n.token_id).filter(|o| self.h.sim.users().contains(o)).unwrap_or_else(|| l.creator.to_string())
            } else {
                self.other_user(l.creator.as_str())
            };
            self.push();
            self.note(&format!("buy-perturb preparing listing {}", l.id));
            let bid = self.fresh_id();
            let ops = self.deposit_ops(&buyer, &l.ask, bid, None);
            let mut ok = true;
            for op in ops {
                ok &= self.step(&op).ok;
            }
            if ok {
                self.step(&x(&buyer, vec![], MMsg::BL { listing_id: l.id, bucket_id: bid }));
                self.step(&x(l.creator.as_str(), vec![], MMsg::DL { id: l.id }));
            }
            self.pop();
        }
        let ls = self.my_listings(|l| l.status == Status::FinalizedReady && l.expiration_time.map_or(false, |e| e > now));
        if ls.is_empty() {
            return;
        }
        let l = self.rng.pick(&ls).clone();
        let buyer = if let Some(w) = &l.whitelisted_buyer {
            w.to_string()
        } else if let Some(n) = l.ask.nfts.first() {
            self.h.sim.nft_owner(n.contract_address.as_str(), &n.token_id).filter(|o| self.h.sim.users().contains(o)).unwrap_or_else(|| l.creator.to_string())
        } else {
            self.other_user(l.creator.as_str())
        };
        // variants of the ask
        let mut variants: Vec<(&str, GenericBalance)> = vec![];
        variants.push(("exact", l.ask.clone()));
        if let Some(c) = l.ask.native.first() {
            let mut g = l.ask.clone();
            g.native[0].amount = c.amount + Uint128::new(1);
            variants.push(("native+1", g));
            if c.amount.u128() > 1 {
                let mut g = l.ask.clone();
                g.native[0].amount = c.amount - Uint128::new(1);
                variants.push(("native-1", g));
            }
            if gbal_count(&l.ask) > 1 {
                let mut g = l.ask.clone();
                g.native.remove(0);
                variants.push(("missing-native", g));
            }
        }
        if let Some(c) = l.ask.cw20.first() {
            let mut g = l.ask.clone();
            g.cw20[0].amount = c.amount + Uint128::new(1);
            variants.push(("cw20+1", g));
            if c.amount.u128() > 1 {
                let mut g = l.ask.clone();
                g.cw20[0].amount = c.amount - Uint128::new(1);
                variants.push(("cw20-1", g));
            }
        }
        {
            let mut g = l.ask.clone();
            let extra = ["uosmo", "uatom", "ujunox", "uusdcx"].iter().find(|d| !g.native.iter().any(|c| c.denom == **d)).copied();
            if let Some(d) = extra {
                g.native.push(coin(1, d));
                variants.push(("extra-native", g));
            }
        }
        if !l.ask.nfts.is_empty() && gbal_count(&l.ask) > 1 {
            let mut g = l.ask.clone();
            g.nfts.remove(0);
            variants.push(("missing-nft", g));
        }
        // (a finalized listing has an expiration; one without is ill-formed and reported by o12 — go on regardless)
        let exp = l.expiration_time.map_or(self.h.sim.now().nanos() + 1_000_000_000, |e| e.nanos());
        for (name, g) in variants {
            self.push();
            self.note(&format!("buy-perturb {} listing {}", name, l.id));
            let bid = self.fresh_id();
            let ops = self.deposit_ops(&buyer, &g, bid, None);
            let mut ok = true;
            for op in ops {
                ok &= self.step(&op).ok;
            }
            if ok {
                self.probe(&x(&buyer, vec![], MMsg::BL { listing_id: l.id, bucket_id: bid }));
                // somebody else tries to spend this bucket
                let thief = self.other_user(&buyer);
                self.probe(&x(&thief, vec![], MMsg::BL { listing_id: l.id, bucket_id: bid }));
                if name == "exact" {
                    // expiry instants
                    let now = self.h.sim.now().nanos();
                    for (d, _tag) in [(exp - now - 1, "exp-1ns"), (1, "exp"), (1, "exp+1ns")] {
                        self.step(&Op::ADV { d_ns: d, d_height: 1 });
                        self.probe(&x(&buyer, vec![], MMsg::BL { listing_id: l.id, bucket_id: bid }));
                        self.probe(&x(l.creator.as_str(), vec![], MMsg::DL { id: l.id }));
                        self.query(&Query::MK { page: 1 });
                        if let Some(w) = &l.whitelisted_buyer {
                            self.query(&Query::WL { owner: RawAddr::valid(w.as_str()) });
                        }
                    }
                }
            }
            self.pop();
        }
    }

    /// every non-owner x message kind x existing record x path
    pub fn battery_nonowner(&mut self) {
        let ls = self.h.sim.listings();
        let bs = self.h.sim.buckets();
        let mut actors = self.users();
        actors.push(DEPLOYER.to_string());
        let cap_records = if self.thorough { 12 } else { 4 };
        let tok = self.h.sim.cw20_addrs().first().cloned();
        for (_, l) in ls.iter().take(cap_records) {
            for a in &actors {
                if a == l.creator.as_str() {
                    continue;
                }
                let id = l.id;
                let ask = RawGBal::natives(vec![coin(1, JUNO_DENOM)]);
                let mut msgs = vec![
                    x(a, vec![], MMsg::CA { id, ask }),
                    x(a, vec![], MMsg::FI { id, seconds: 600 }),
                    x(a, vec![], MMsg::DL { id }),
                    x(a, vec![], MMsg::WP { id }),
                    x(a, vec![coin(5, JUNO_DENOM)], MMsg::AL { id }),
                ];
                if a != DEPLOYER {
                    if let Some(t) = &tok {
                        msgs.push(Op::T20 { token: t.clone(), sender: a.clone(), amount: 5, inner: Inner::AL { id } });
                    }
                    if let Some((c, t)) = self.owned_nfts(a).first().cloned() {
                        msgs.push(Op::T721 { coll: c, sender: a.clone(), token_id: t, inner: Inner::AL { id } });
                    }
                }
                for m in msgs {
                    self.probe(&m);
                }
            }
        }
        for ((_, id), b) in bs.iter().take(cap_records) {
            for a in &actors {
                if a == b.owner.as_str() {
                    continue;
                }
                let id = *id;
                let mut msgs = vec![x(a, vec![], MMsg::RB { id }), x(a, vec![coin(5, JUNO_DENOM)], MMsg::AB { id })];
                if a != DEPLOYER {
                    if let Some(t) = &tok {
                        msgs.push(Op::T20 { token: t.clone(), sender: a.clone(), amount: 5, inner: Inner::AB { id } });
                    }
                    if let Some((c, t)) = self.owned_nfts(a).first().cloned() {
                        msgs.push(Op::T721 { coll: c, sender: a.clone(), token_id: t, inner: Inner::AB { id } });
                    }
                }
                for m in msgs {
                    self.probe(&m);
                }
            }
        }
    }

    /// every message kind x attached coin set, in states where it would otherwise succeed or fail
    pub fn battery_funds(&mut self) {
        let ls = self.h.sim.listings();
        let bs = self.h.sim.buckets();
        let fund_sets: Vec<Vec<Coin>> = vec![vec![coin(77, USDC_DENOM)], vec![coin(1, JUNO_DENOM), coin(2, "uatom")]];
        let u = self.user();
        let mut ops: Vec<Op> = vec![x(&u, vec![], MMsg::FC)];
        if let Some((_, l)) = ls.iter().find(|p| p.1.status == Status::BeingPrepared) {
            let o = l.creator.to_string();
            ops.push(x(&o, vec![], MMsg::FI { id: l.id, seconds: 600 }));
            ops.push(x(&o, vec![], MMsg::CA { id: l.id, ask: RawGBal::natives(vec![coin(3, JUNO_DENOM)]) }));
            ops.push(x(&o, vec![], MMsg::DL { id: l.id }));
        }
        if let Some((_, l)) = ls.iter().find(|p| p.1.status == Status::Closed) {
            ops.push(x(l.creator.as_str(), vec![], MMsg::WP { id: l.id }));
        }
        if let Some(((o, id), _)) = bs.first() {
            ops.push(x(o.as_str(), vec![], MMsg::RB { id: *id }));
        }
        // a purchase that is possible right now
        'outer: for (_, l) in &ls {
            if l.status != Status::FinalizedReady {
                continue;
            }
            for ((o, id), b) in &bs {
                if marketplace::state::genbal_cmp(&b.funds, &l.ask).is_ok() {
                    ops.push(x(o.as_str(), vec![], MMsg::BL { listing_id: l.id, bucket_id: *id }));
                    break 'outer;
                }
            }
        }
        // hooks with coins attached (hostile contract #1 has funds)
        let hostile = self.h.sim.hostile_addrs().first().cloned();
        for op in ops {
            self.probe(&op);
            for f in &fund_sets {
                if let Op::X { sender, msg, .. } = &op {
                    self.probe(&x(sender, f.clone(), msg.clone()));
                }
            }
        }
        if let Some(hs) = hostile {
            let victim = self.user();
            let id = self.fresh_id();
            self.probe(&x(&hs, vec![coin(5, JUNO_DENOM)], MMsg::RC { sender: RawAddr::valid(victim.as_str()), amount: 5, inner: Inner::CB { id } }));
            self.probe(&x(&hs, vec![coin(5, JUNO_DENOM)], MMsg::RN { sender: RawAddr::valid(victim.as_str()), token_id: "t000".into(), inner: Inner::CB { id } }));
            // the same from a plain account and with amount 0 / an undecodable inner message
            self.probe(&x(victim.as_str(), vec![coin(5, JUNO_DENOM)], MMsg::RC { sender: RawAddr::valid(victim.as_str()), amount: 0, inner: Inner::CB { id } }));
            self.probe(&x(victim.as_str(), vec![coin(5, JUNO_DENOM)], MMsg::RC { sender: RawAddr::valid(victim.as_str()), amount: 0, inner: Inner::Bad }));
            // every hook kind with coins, aimed at records that exist (the hook alone would succeed) and at fresh ids
            let mut inners: Vec<(String, Inner)> = vec![(victim.clone(), Inner::CL { id: id + 1, create: Create { ask: RawGBal::natives(vec![coin(3, "uatom")]), whitelist: None } })];
            if let Some(((o, bid), _)) = bs.first() {
                inners.push((o.to_string(), Inner::AB { id: *bid }));
            }
            if let Some((_, l)) = ls.iter().find(|p| p.1.status == Status::BeingPrepared) {
                inners.push((l.creator.to_string(), Inner::AL { id: l.id }));
            }
            for (who, inner) in inners {
                for f in [vec![coin(5, JUNO_DENOM)], vec![coin(1, JUNO_DENOM), coin(1, USDC_DENOM)]] {
                    self.probe(&x(&hs, f.clone(), MMsg::RC { sender: RawAddr::valid(who.as_str()), amount: 5, inner: inner.clone() }));
                    // … and with a zero amount (a hook that does nothing must still refuse the coins)
                    self.probe(&x(&hs, f.clone(), MMsg::RC { sender: RawAddr::valid(who.as_str()), amount: 0, inner: inner.clone() }));
                    self.probe(&x(&hs, f, MMsg::RN { sender: RawAddr::valid(who.as_str()), token_id: "t000".into(), inner: inner.clone() }));
                }
            }
        }
    }

    fn payout_ops(&mut self) -> Vec<Op> {
        let ls = self.h.sim.listings();
        let bs = self.h.sim.buckets();
        let now = self.h.sim.now();
        let mut ops = vec![];
        let cap = if self.thorough { 6 } else { 2 };
        for ((o, id), _) in bs.iter().take(cap) {
            ops.push(x(o.as_str(), vec![], MMsg::RB { id: *id }));
        }
        let mut n = 0;
        for (_, l) in &ls {
            if n >= cap {
                break;
            }
            if l.status == Status::Closed {
                ops.push(x(l.creator.as_str(), vec![], MMsg::WP { id: l.id }));
                n += 1;
            } else if l.expiration_time.map_or(true, |e| now >= e) {
                ops.push(x(l.creator.as_str(), vec![], MMsg::DL { id: l.id }));
                n += 1;
            }
        }
        let mut nb = 0;
        for (_, l) in &ls {
            if l.status != Status::FinalizedReady {
                continue;
            }
            for ((o, id), b) in &bs {
                if nb < cap && marketplace::state::genbal_cmp(&b.funds, &l.ask).is_ok() {
                    ops.push(x(o.as_str(), vec![], MMsg::BL { listing_id: l.id, bucket_id: *id }));
                    nb += 1;
                }
            }
        }
        ops
    }

    /// every outgoing message of every payout-bearing op made to fail in turn
    pub fn battery_faults(&mut self) {
        for op in self.payout_ops() {
            let out = self.probe(&op);
            if !out.ok {
                continue;
            }
            let n = out.msgs.len();
            for k in 0..n {
                self.stepf(k, &op);
            }
            // retry without fault = unfaulted result (same line again; the driver compares)
            if n > 0 {
                self.probe(&op);
            }
        }
        // deposits: the token's own callback is the only outgoing message of the token, and the
        // marketplace emits none; a failing *hook* is covered by the BAD inner message
        let u = self.user();
        if let Some(t) = self.h.sim.cw20_addrs().first().cloned() {
            let id = self.fresh_id();
            self.probe(&Op::T20 { token: t, sender: u, amount: 5, inner: Inner::Bad });
            let _ = id;
        }
    }

    /// hostile contracts forging both receive entry points against every victim record
    pub fn battery_forge(&mut self) {
        let hs = self.h.sim.hostile_addrs().to_vec();
        if hs.is_empty() {
            return;
        }
        let ls = self.h.sim.listings();
        let bs = self.h.sim.buckets();
        let cap = if self.thorough { 10 } else { 3 };
        for h in &hs {
            for (_, l) in ls.iter().take(cap) {
                let v = RawAddr::valid(l.creator.as_str());
                self.probe(&x(h, vec![], MMsg::RC { sender: v.clone(), amount: 5, inner: Inner::AL { id: l.id } }));
                self.probe(&x(h, vec![], MMsg::RN { sender: v.clone(), token_id: "t001".into(), inner: Inner::AL { id: l.id } }));
                // a zero amount never comes from a real token (cw20-base refuses it); a hook call can carry one
                self.probe(&x(h, vec![], MMsg::RC { sender: v.clone(), amount: 0, inner: Inner::AL { id: l.id } }));
                // re-creating an existing id in the victim's name
                let create = Create { ask: RawGBal::natives(vec![coin(1, JUNO_DENOM)]), whitelist: None };
                self.probe(&x(h, vec![], MMsg::RC { sender: v.clone(), amount: 5, inner: Inner::CL { id: l.id, create: create.clone() } }));
                self.probe(&x(h, vec![], MMsg::RN { sender: v.clone(), token_id: "t001".into(), inner: Inner::CL { id: l.id, create } }));
            }
            for ((o, id), _) in bs.iter().take(cap) {
                let v = RawAddr::valid(o.as_str());
                self.probe(&x(h, vec![], MMsg::RC { sender: v.clone(), amount: 5, inner: Inner::AB { id: *id } }));
                self.probe(&x(h, vec![], MMsg::RC { sender: v.clone(), amount: 0, inner: Inner::AB { id: *id } }));
                self.probe(&x(h, vec![], MMsg::RN { sender: v.clone(), token_id: "t001".into(), inner: Inner::AB { id: *id } }));
                self.probe(&x(h, vec![], MMsg::RC { sender: v.clone(), amount: 5, inner: Inner::CB { id: *id } }));
                self.probe(&x(h, vec![], MMsg::RC { sender: RawAddr::Invalid, amount: 5, inner: Inner::AB { id: *id } }));
                self.probe(&x(h, vec![], MMsg::RC { sender: v.clone(), amount: 5, inner: Inner::Bad }));
            }
            // fresh creation in a victim's name (allowed: creates a record, alters none)
            let victim = self.user();
            let id = self.fresh_id();
            self.probe(&x(h, vec![], MMsg::RC { sender: RawAddr::valid(victim.as_str()), amount: 5, inner: Inner::CB { id } }));
            self.probe(&x(h, vec![], MMsg::RN { sender: RawAddr::valid(victim.as_str()), token_id: "t001".into(), inner: Inner::CB { id } }));
            // … and with a zero amount (a record made of nothing must be refused on every creation path)
            self.probe(&x(h, vec![], MMsg::RC { sender: RawAddr::valid(victim.as_str()), amount: 0, inner: Inner::CB { id } }));
            let create0 = Create { ask: RawGBal::natives(vec![coin(1, JUNO_DENOM)]), whitelist: None };
            self.probe(&x(h, vec![], MMsg::RC { sender: RawAddr::valid(victim.as_str()), amount: 0, inner: Inner::CL { id, create: create0 } }));
        }
        // the freeze itself: with the hostile token rejecting transfers, a forged top-up makes the
        // victim's exit fail (known finding C18); evaluated in a sub-history on a fork
        if let (Some(h), Some(((o, id), _))) = (hs.first(), bs.first()) {
            self.push();
            self.h.sim.set_hostile_fails(0, true);
            let init = self.h.resync();
            self.emit(&init);
            self.step(&x(h, vec![], MMsg::RC { sender: RawAddr::valid(o.as_str()), amount: 5, inner: Inner::AB { id: *id } }));
            self.step(&x(h, vec![], MMsg::RN { sender: RawAddr::valid(o.as_str()), token_id: "t001".into(), inner: Inner::AB { id: *id } }));
            self.step(&x(o.as_str(), vec![], MMsg::RB { id: *id }));
            // the same for a listing in preparation: junk token and junk NFT, then the creator's delete
            if let Some((_, l)) = ls.iter().find(|p| p.1.status == Status::BeingPrepared) {
                let v = RawAddr::valid(l.creator.as_str());
                self.step(&x(h, vec![], MMsg::RC { sender: v.clone(), amount: 5, inner: Inner::AL { id: l.id } }));
                self.step(&x(h, vec![], MMsg::RN { sender: v, token_id: "t001".into(), inner: Inner::AL { id: l.id } }));
                self.step(&x(l.creator.as_str(), vec![], MMsg::DL { id: l.id }));
            }
            self.pop();
        }
        // repeated forged top-ups of the same records (the second call meets the forger's own entry): whatever
        // they do stays confined to entries naming the forger; then the owner cashes out
        if let Some(h) = hs.first() {
            self.push();
            for ((o, id), _) in bs.iter().take(2) {
                let v = RawAddr::valid(o.as_str());
                for amount in [5u128, 50, 7] {
                    self.step(&x(h, vec![], MMsg::RC { sender: v.clone(), amount, inner: Inner::AB { id: *id } }));
                }
                for tid in ["t001", "t002"] {
                    self.step(&x(h, vec![], MMsg::RN { sender: v.clone(), token_id: tid.into(), inner: Inner::AB { id: *id } }));
                }
            }
            for (_, l) in ls.iter().filter(|p| p.1.status == Status::BeingPrepared).take(2) {
                let v = RawAddr::valid(l.creator.as_str());
                for amount in [5u128, 50] {
                    self.step(&x(h, vec![], MMsg::RC { sender: v.clone(), amount, inner: Inner::AL { id: l.id } }));
                }
                self.step(&x(h, vec![], MMsg::RN { sender: v.clone(), token_id: "t001".into(), inner: Inner::AL { id: l.id } }));
            }
            for ((o, id), _) in bs.iter().take(2) {
                self.step(&x(o.as_str(), vec![], MMsg::RB { id: *id }));
            }
            self.pop();
        }
        // accounts (not contracts) calling the hooks directly
        let u = self.user();
        if let Some(((o, id), _)) = bs.first() {
            self.probe(&x(&u, vec![], MMsg::RC { sender: RawAddr::valid(o.as_str()), amount: 5, inner: Inner::AB { id: *id } }));
            self.probe(&x(&u, vec![], MMsg::RN { sender: RawAddr::valid(o.as_str()), token_id: "t001".into(), inner: Inner::AB { id: *id } }));
        }
        // honest token contracts cannot be made to call with a forged sender: nothing to probe there
    }

    /// fork, advance past every expiration, cash out every record, check nothing is left
    pub fn battery_drain(&mut self) {
        self.push();
        self.emit("DRAIN");
        let now = self.h.sim.now().nanos();
        let max_exp = self.h.sim.listings().iter().filter_map(|p| p.1.expiration_time).map(|t| t.nanos()).max().unwrap_or(now);
        if max_exp > now {
            self.step(&Op::ADV { d_ns: max_exp - now, d_height: 10 });
        }
        for (_, l) in self.h.sim.listings() {
            let o = l.creator.to_string();
            if l.status == Status::Closed {
                self.step(&x(&o, vec![], MMsg::WP { id: l.id }));
            } else {
                self.step(&x(&o, vec![], MMsg::DL { id: l.id }));
            }
        }
        for ((o, id), _) in self.h.sim.buckets() {
            self.step(&x(o.as_str(), vec![], MMsg::RB { id }));
        }
        self.emit("ENDDRAIN");
        self.pop();
    }
}

// ---------------------------------------------------------------------------------------
// world configuration as one token (so that a history can be re-run from its text alone)
// ---------------------------------------------------------------------------------------

/// `cfg=U<users>;F<filler denoms>;T<cw20>;C<cw721>;N<nfts per user per collection>;H<hostile>;A<admin,admin,…>`
/// (admin `-` = no admin, missing entries = the deployer); everything else is `Config::default()`.
pub fn cfg_token(c: &Config) -> String {
    let admins: Vec<String> = c.collection_admins.iter().map(|a| a.clone().unwrap_or_else(|| "-".to_string())).collect();
    format!("cfg=U{};F{};T{};C{};N{};H{};O{};S{};X{};A{}", c.n_users, c.n_filler_denoms, c.n_cw20, c.n_cw721, c.nfts_per_user_per_collection, c.n_hostile, u8::from(c.odd_token_ids), c.start_time_ns, c.extra_token_ids.len(), admins.join(","))
}

pub fn cfg_from_token(tok: &str) -> Option<Config> {
    let body = tok.strip_prefix("cfg=")?;
    let mut c = Config::default();
    for part in body.split(';') {
        let (k, v) = part.split_at(1);
        match k {
            "U" => c.n_users = v.parse().ok()?,
            "F" => c.n_filler_denoms = v.parse().ok()?,
            "T" => c.n_cw20 = v.parse().ok()?,
            "C" => c.n_cw721 = v.parse().ok()?,
            "N" => c.nfts_per_user_per_collection = v.parse().ok()?,
            "H" => c.n_hostile = v.parse().ok()?,
            "O" => c.odd_token_ids = v == "1",
            "S" => c.start_time_ns = v.parse().ok()?,
            "X" => c.extra_token_ids = (0..v.parse::<usize>().ok()?).map(|i| format!("x{:03}", i)).collect(),
            "A" => {
                c.collection_admins = if v.is_empty() { vec![] } else { v.split(',').map(|a| if a == "-" { None } else { Some(a.to_string()) }).collect() }
            }
            _ => return None,
        }
    }
    Some(c)
}

// ---------------------------------------------------------------------------------------
// world presets
// ---------------------------------------------------------------------------------------

pub fn small_world() -> Sim {
    Sim::new(Config { n_users: 4, n_cw20: 2, n_cw721: 2, nfts_per_user_per_collection: 2, ..Config::default() })
}

pub fn default_world() -> Sim {
    Sim::new(Config::default())
}

/// many collections (royalty gate), few users
pub fn royalty_world(n_colls: usize) -> Sim {
    Sim::new(Config { n_users: 3, n_cw20: 1, n_cw721: n_colls, nfts_per_user_per_collection: 2, n_hostile: 0, ..Config::default() })
}

/// many native denominations (25 / 26 assets)
pub fn denom_world() -> Sim {
    Sim::new(Config { n_users: 3, n_cw20: 1, n_cw721: 1, n_filler_denoms: 26, n_hostile: 0, ..Config::default() })
}

pub fn bucket_of(b: &Bucket) -> &GenericBalance {
    &b.funds
}
