//! The interface the model covers, pinned at compile time.
//!
//! Every `match` and every destructuring below is exhaustive (no `_` arm, no `..`): a message
//! variant, a message field or a stored field that /repo gains or loses makes this crate fail to
//! build, and `check` then reports that the tie between model and code can no longer be
//! established (the Lean model has no counterpart for what was added). Nothing here runs; the
//! functions only have to type-check against the current source.

use marketplace::msg::{CreateListingMsg, ExecuteMsg, GenericBalanceUnvalidated, InstantiateMsg, QueryMsg, ReceiveMsg, ReceiveNftMsg};
use marketplace::state::{Bucket, FeeDenom, GenericBalance, Listing, Nft, Status};
use royalties::msg::{ExecuteMsg as RExecuteMsg, InstantiateMsg as RInstantiateMsg, QueryMsg as RQueryMsg};
use royalties::RoyaltyInfo;

/// marketplace `ExecuteMsg` -> the protocol's operation head (PROTOCOL.md §3)
pub fn execute_surface(m: &ExecuteMsg) -> &'static str {
    match m {
        ExecuteMsg::FeeCycle {} => "FC",
        ExecuteMsg::Receive(_) => "T20.*",
        ExecuteMsg::ReceiveNft(_) => "T721.*",
        ExecuteMsg::CreateListing { listing_id: _, create_msg: CreateListingMsg { ask: GenericBalanceUnvalidated { native: _, cw20: _, nfts: _ }, whitelisted_buyer: _ } } => "CL",
        ExecuteMsg::AddToListing { listing_id: _ } => "AL",
        ExecuteMsg::ChangeAsk { listing_id: _, new_ask: _ } => "CA",
        ExecuteMsg::Finalize { listing_id: _, seconds: _ } => "FI",
        ExecuteMsg::DeleteListing { listing_id: _ } => "DL",
        ExecuteMsg::CreateBucket { bucket_id: _ } => "CB",
        ExecuteMsg::AddToBucket { bucket_id: _ } => "AB",
        ExecuteMsg::RemoveBucket { bucket_id: _ } => "RB",
        ExecuteMsg::BuyListing { listing_id: _, bucket_id: _ } => "BL",
        ExecuteMsg::WithdrawPurchased { listing_id: _ } => "WP",
    }
}

pub fn receive_surface(m: &ReceiveMsg) -> &'static str {
    match m {
        ReceiveMsg::CreateListingCw20 { listing_id: _, create_msg: _ } => "T20.CL",
        ReceiveMsg::AddToListingCw20 { listing_id: _ } => "T20.AL",
        ReceiveMsg::CreateBucketCw20 { bucket_id: _ } => "T20.CB",
        ReceiveMsg::AddToBucketCw20 { bucket_id: _ } => "T20.AB",
    }
}

pub fn receive_nft_surface(m: &ReceiveNftMsg) -> &'static str {
    match m {
        ReceiveNftMsg::CreateListingCw721 { listing_id: _, create_msg: _ } => "T721.CL",
        ReceiveNftMsg::AddToListingCw721 { listing_id: _ } => "T721.AL",
        ReceiveNftMsg::CreateBucketCw721 { bucket_id: _ } => "T721.CB",
        ReceiveNftMsg::AddToBucketCw721 { bucket_id: _ } => "T721.AB",
    }
}

pub fn query_surface(m: &QueryMsg) -> &'static str {
    match m {
        QueryMsg::GetFeeDenom {} => "FD",
        QueryMsg::GetBuckets { bucket_owner: _, page_num: _ } => "BK",
        QueryMsg::GetListingsByOwner { owner: _, page_num: _ } => "LO",
        QueryMsg::GetListingsByWhitelist { owner: _ } => "WL",
        QueryMsg::GetListingsForMarket { page_num: _ } => "MK",
        QueryMsg::GetRoyaltyAddr {} => "RA",
    }
}

pub fn instantiate_surface(m: &InstantiateMsg) -> u64 {
    let InstantiateMsg { royalty_code_id } = m;
    *royalty_code_id
}

pub fn registry_execute_surface(m: &RExecuteMsg) -> &'static str {
    match m {
        RExecuteMsg::Register { nft_contract: _, payout_addr: _, bps: _ } => "REG",
        RExecuteMsg::Update { nft_contract: _, new_payout_addr: _, new_bps: _ } => "UPD",
        RExecuteMsg::Remove { nft_contract: _ } => "REM",
    }
}

pub fn registry_query_surface(m: &RQueryMsg) -> &'static str {
    match m {
        RQueryMsg::RoyaltyInfoSingle { nft_contract: _ } => "RS",
        RQueryMsg::RoyaltyInfoMulti { nft_contracts: _ } => "RM",
    }
}

pub fn registry_instantiate_surface(m: &RInstantiateMsg) {
    let RInstantiateMsg {} = m;
}

/// every stored field has a place in the protocol's state encoding (PROTOCOL.md §2)
pub fn listing_surface(l: &Listing) {
    let Listing { creator: _, id: _, finalized_time: _, expiration_time: _, status, claimant: _, whitelisted_buyer: _, for_sale, ask: _, fee_amount: _ } = l;
    match status {
        Status::BeingPrepared | Status::FinalizedReady | Status::Closed => {}
    }
    let GenericBalance { native: _, cw20: _, nfts } = for_sale;
    for Nft { contract_address: _, token_id: _ } in nfts {}
}

pub fn bucket_surface(b: &Bucket) {
    let Bucket { owner: _, funds: _, fee_amount: _ } = b;
}

pub fn fee_denom_surface(f: &FeeDenom) -> u64 {
    match f {
        FeeDenom::JUNO(t) | FeeDenom::USDC(t) => *t,
    }
}

pub fn royalty_info_surface(r: &RoyaltyInfo) {
    let RoyaltyInfo { last_updated: _, bps: _, payout_addr: _ } = r;
}
