//! The HOSTILE contract: an attacker-controlled contract that
//!
//! * forwards arbitrary bytes to the marketplace as its own message (`Forward`), which
//!   lets it forge `Receive` / `ReceiveNft` wrappers with any `sender`,
//! * can pose as a cw20 (answers `{"token_info":{}}` when the flag is on),
//! * accepts the marketplace's outgoing `Transfer` / `TransferNft` without doing
//!   anything, or rejects them when `fails` is on (a withdrawal-blocking asset).
//!
//! Any other execute JSON (for instance a cw20 `send`) fails to parse and errors.

use cosmwasm_schema::cw_serde;
use cosmwasm_std::{
    to_binary, Binary, Coin, Deps, DepsMut, Empty, Env, MessageInfo, Response, StdError, StdResult,
    Uint128, WasmMsg,
};
use cw20::TokenInfoResponse;
use cw_multi_test::{Contract, ContractWrapper};
use cw_storage_plus::Item;

#[cw_serde]
pub struct HostileState {
    /// where `Forward` sends to (None until `SetMarket`)
    pub market: Option<String>,
    /// reject `Transfer` / `TransferNft`
    pub fails: bool,
    /// answer `Cw20QueryMsg::TokenInfo`
    pub token_info: bool,
}

pub const STATE: Item<HostileState> = Item::new("hostile_state");

#[cw_serde]
pub struct InstantiateMsg {
    pub market: Option<String>,
    pub token_info: bool,
    pub fails: bool,
}

#[cw_serde]
pub enum ExecuteMsg {
    /// emit `WasmMsg::Execute{contract_addr: market, msg, funds}` (funds come out of this
    /// contract's own bank balance)
    Forward { msg: Binary, funds: Vec<Coin> },
    SetMarket { market: String },
    SetFails { fails: bool },
    SetTokenInfo { on: bool },
    /// same JSON shape as `Cw20ExecuteMsg::Transfer`
    Transfer { recipient: String, amount: Uint128 },
    /// same JSON shape as `Cw721ExecuteMsg::TransferNft`
    TransferNft { recipient: String, token_id: String },
}

#[cw_serde]
pub enum QueryMsg {
    /// same JSON as `Cw20QueryMsg::TokenInfo {}`
    TokenInfo {},
    /// harness-only: the contract's flags
    State {},
}

pub fn instantiate(deps: DepsMut, _env: Env, _info: MessageInfo, msg: InstantiateMsg) -> StdResult<Response> {
    STATE.save(
        deps.storage,
        &HostileState {
            market: msg.market,
            fails: msg.fails,
            token_info: msg.token_info,
        },
    )?;
    Ok(Response::new())
}

pub fn execute(deps: DepsMut, _env: Env, _info: MessageInfo, msg: ExecuteMsg) -> StdResult<Response> {
    let mut st = STATE.load(deps.storage)?;
    match msg {
        ExecuteMsg::Forward { msg, funds } => {
            let market = st
                .market
                .ok_or_else(|| StdError::generic_err("hostile: market not set"))?;
            Ok(Response::new().add_message(WasmMsg::Execute {
                contract_addr: market,
                msg,
                funds,
            }))
        }
        ExecuteMsg::SetMarket { market } => {
            st.market = Some(market);
            STATE.save(deps.storage, &st)?;
            Ok(Response::new())
        }
        ExecuteMsg::SetFails { fails } => {
            st.fails = fails;
            STATE.save(deps.storage, &st)?;
            Ok(Response::new())
        }
        ExecuteMsg::SetTokenInfo { on } => {
            st.token_info = on;
            STATE.save(deps.storage, &st)?;
            Ok(Response::new())
        }
        ExecuteMsg::Transfer { .. } | ExecuteMsg::TransferNft { .. } => {
            if st.fails {
                Err(StdError::generic_err("hostile: transfer rejected"))
            } else {
                Ok(Response::new())
            }
        }
    }
}

pub fn query(deps: Deps, _env: Env, msg: QueryMsg) -> StdResult<Binary> {
    let st = STATE.load(deps.storage)?;
    match msg {
        QueryMsg::TokenInfo {} => {
            if st.token_info {
                to_binary(&TokenInfoResponse {
                    name: "hostile".to_string(),
                    symbol: "HOST".to_string(),
                    decimals: 6,
                    total_supply: Uint128::zero(),
                })
            } else {
                Err(StdError::generic_err("hostile: no token info"))
            }
        }
        QueryMsg::State {} => to_binary(&st),
    }
}

pub fn contract() -> Box<dyn Contract<Empty>> {
    Box::new(ContractWrapper::new(execute, instantiate, query))
}
