//! Inverse of `encode::encode_op`: parses the PROTOCOL.md §4 text of an operation back into an
//! [`Op`] (names resolved through the world's tables).  Used by `fzgen --ops-file` to re-execute an
//! explicit op list (shrinking of failing histories, corpus of minimised failures).

use cosmwasm_std::{Coin, Uint128};

use crate::ops::{Create, Inner, MMsg, Op, RMsg, RawAddr, RawGBal};
use crate::world::Sim;

pub struct Toks<'a> {
    t: Vec<&'a str>,
    i: usize,
    sim: &'a Sim,
}

type R<T> = Result<T, String>;

impl<'a> Toks<'a> {
    pub fn new(sim: &'a Sim, text: &'a str) -> Self {
        Toks { t: text.split(' ').filter(|x| !x.is_empty()).collect(), i: 0, sim }
    }
    pub fn rest(&self) -> usize {
        self.t.len() - self.i
    }
    fn tok(&mut self) -> R<&'a str> {
        let x = self.t.get(self.i).copied().ok_or_else(|| "unexpected end of line".to_string())?;
        self.i += 1;
        Ok(x)
    }
    fn num<T: std::str::FromStr>(&mut self) -> R<T> {
        let x = self.tok()?;
        x.parse::<T>().map_err(|_| format!("bad number {x:?}"))
    }
    fn addr(&mut self) -> R<String> {
        let n: u64 = self.num()?;
        Ok(self.sim.addr_name(n).to_string())
    }
    fn denom(&mut self) -> R<String> {
        let n: u64 = self.num()?;
        Ok(self.sim.denom_name(n).to_string())
    }
    fn tid(&mut self) -> R<String> {
        let n: u64 = self.num()?;
        Ok(self.sim.tid_name(n).to_string())
    }
    fn coins(&mut self) -> R<Vec<Coin>> {
        let n: usize = self.num()?;
        let mut v = vec![];
        for _ in 0..n {
            let d = self.denom()?;
            let a: u128 = self.num()?;
            v.push(Coin { denom: d, amount: Uint128::new(a) });
        }
        Ok(v)
    }
    fn raw_addr(&mut self) -> R<RawAddr> {
        match self.tok()? {
            "V" => Ok(RawAddr::Valid(self.addr()?)),
            "I" => Ok(RawAddr::Invalid),
            x => Err(format!("bad raw address tag {x:?}")),
        }
    }
    fn opt_raw_addr(&mut self) -> R<Option<RawAddr>> {
        match self.tok()? {
            "N" => Ok(None),
            "V" => Ok(Some(RawAddr::Valid(self.addr()?))),
            "I" => Ok(Some(RawAddr::Invalid)),
            x => Err(format!("bad optional raw address tag {x:?}")),
        }
    }
    fn raw_gbal(&mut self) -> R<RawGBal> {
        let native = self.coins()?;
        let n: usize = self.num()?;
        let mut cw20 = vec![];
        for _ in 0..n {
            let a = self.raw_addr()?;
            let amt: u128 = self.num()?;
            cw20.push((a, amt));
        }
        let n: usize = self.num()?;
        let mut nfts = vec![];
        for _ in 0..n {
            let a = self.raw_addr()?;
            let t = self.tid()?;
            nfts.push((a, t));
        }
        Ok(RawGBal { native, cw20, nfts })
    }
    fn create(&mut self) -> R<Create> {
        let ask = self.raw_gbal()?;
        let whitelist = self.opt_raw_addr()?;
        Ok(Create { ask, whitelist })
    }
    fn inner(&mut self) -> R<Inner> {
        Ok(match self.tok()? {
            "BAD" => Inner::Bad,
            "CL" => Inner::CL { id: self.num()?, create: self.create()? },
            "AL" => Inner::AL { id: self.num()? },
            "CB" => Inner::CB { id: self.num()? },
            "AB" => Inner::AB { id: self.num()? },
            x => return Err(format!("bad inner tag {x:?}")),
        })
    }
    fn mmsg(&mut self) -> R<MMsg> {
        Ok(match self.tok()? {
            "FC" => MMsg::FC,
            "CL" => MMsg::CL { id: self.num()?, create: self.create()? },
            "AL" => MMsg::AL { id: self.num()? },
            "CA" => MMsg::CA { id: self.num()?, ask: self.raw_gbal()? },
            "FI" => MMsg::FI { id: self.num()?, seconds: self.num()? },
            "DL" => MMsg::DL { id: self.num()? },
            "CB" => MMsg::CB { id: self.num()? },
            "AB" => MMsg::AB { id: self.num()? },
            "RB" => MMsg::RB { id: self.num()? },
            "BL" => MMsg::BL { listing_id: self.num()?, bucket_id: self.num()? },
            "WP" => MMsg::WP { id: self.num()? },
            "RC" => MMsg::RC { sender: self.raw_addr()?, amount: self.num()?, inner: self.inner()? },
            "RN" => MMsg::RN { sender: self.raw_addr()?, token_id: self.tid()?, inner: self.inner()? },
            x => return Err(format!("bad message tag {x:?}")),
        })
    }
    fn rmsg(&mut self) -> R<RMsg> {
        Ok(match self.tok()? {
            "REG" => RMsg::Reg { nft: self.raw_addr()?, payout: self.raw_addr()?, bps: self.num()? },
            "UPD" => {
                let nft = self.raw_addr()?;
                let payout = self.opt_raw_addr()?;
                let bps = match self.tok()? {
                    "N" => None,
                    "S" => Some(self.num()?),
                    x => return Err(format!("bad option tag {x:?}")),
                };
                RMsg::Upd { nft, payout, bps }
            }
            "REM" => RMsg::Rem { nft: self.raw_addr()? },
            x => return Err(format!("bad registry tag {x:?}")),
        })
    }
    /// OP (PROTOCOL.md §4); stops after the op, leaving any further tokens (outcome, worlds) unread
    pub fn op(&mut self) -> R<Op> {
        Ok(match self.tok()? {
            "X" => Op::X { sender: self.addr()?, funds: self.coins()?, msg: self.mmsg()? },
            "T20" => Op::T20 { token: self.addr()?, sender: self.addr()?, amount: self.num()?, inner: self.inner()? },
            "T721" => Op::T721 { coll: self.addr()?, sender: self.addr()?, token_id: self.tid()?, inner: self.inner()? },
            "R" => Op::R { sender: self.addr()?, msg: self.rmsg()? },
            "AD" => {
                let sender = self.addr()?;
                let contract = self.addr()?;
                let new_admin = match self.tok()? {
                    "N" => None,
                    "S" => Some(self.addr()?),
                    x => return Err(format!("bad option tag {x:?}")),
                };
                Op::AD { sender, contract, new_admin }
            }
            "ADV" => Op::ADV { d_ns: self.num()?, d_height: self.num()? },
            x => return Err(format!("bad op tag {x:?}")),
        })
    }
}

/// Parses the op at the start of `text` (a `STEP` / `PROBE` line without its first token).
pub fn parse_op(sim: &Sim, text: &str) -> Result<Op, String> {
    Toks::new(sim, text).op()
}

#[cfg(test)]
mod tests {
    use super::*;
    use crate::encode::encode_op;
    use crate::gen::{coin, x};

    #[test]
    fn roundtrip() {
        let sim = Sim::new_default();
        let ops = vec![
            x("alice", vec![coin(5, "ujunox"), coin(7, "uatom")], MMsg::CL {
                id: 9,
                create: Create {
                    ask: RawGBal { native: vec![coin(3, "uosmo")], cw20: vec![(RawAddr::valid("contract0"), 4), (RawAddr::Invalid, 0)], nfts: vec![(RawAddr::valid("contract3"), "t004".into())] },
                    whitelist: Some(RawAddr::valid("bobby")),
                },
            }),
            Op::T20 { token: "contract1".into(), sender: "carol".into(), amount: 77, inner: Inner::AB { id: 3 } },
            Op::T721 { coll: "contract4".into(), sender: "david".into(), token_id: "t010".into(), inner: Inner::Bad },
            Op::R { sender: "deplo".into(), msg: RMsg::Upd { nft: RawAddr::valid("contract3"), payout: None, bps: Some(300) } },
            Op::AD { sender: "deplo".into(), contract: "contract3".into(), new_admin: None },
            Op::ADV { d_ns: 12345, d_height: 6 },
            x("contract6", vec![], MMsg::RN { sender: RawAddr::valid("alice"), token_id: "t001".into(), inner: Inner::CB { id: 4 } }),
        ];
        for op in ops {
            let text = encode_op(&sim, &op);
            let back = parse_op(&sim, &text).unwrap();
            assert_eq!(back, op, "{text}");
        }
    }
}
