//! fzgen: writes the trace files (protocol lines) of one exploration.
//!
//!   fzgen --tier quick|thorough --seed N --out DIR [--jobs 16] [--random N] [--steps N]
//!   fzgen --only family:index --seed N [--tier ...]      (one item to stdout: replay)
//!
//! Work items are (family, index); item i goes to trace file i % jobs. Each item seeds its own
//! PRNG from (seed, family, index), so any item can be regenerated alone.

use std::fs::File;
use std::io::{BufWriter, Write};

use fzharness::gen::{default_world, small_world, Gen, Stats};
use fzharness::suites;
use fzharness::world::install_quiet_panic_hook;

fn item_seed(seed: u64, family: &str, idx: usize) -> u64 {
    let mut h: u64 = seed.wrapping_mul(0x100_0000_01B3) ^ 0xCBF2_9CE4_8422_2325;
    for b in family.bytes() {
        h = (h ^ b as u64).wrapping_mul(0x100_0000_01B3);
    }
    (h ^ idx as u64).wrapping_mul(0x9E37_79B9_7F4A_7C15)
}

struct Params {
    thorough: bool,
    seed: u64,
    steps: usize,
}

fn run_item(family: &str, idx: usize, p: &Params, w: &mut dyn Write) -> Option<Stats> {
    let s = item_seed(p.seed, family, idx);
    match family {
        "corpus" => suites::corpus(idx, s, w, p.thorough),
        "boundary" => suites::boundary(idx, s, w, p.thorough),
        "c14" => suites::registry_exhaustive(idx, s, w, p.thorough),
        "c16" => suites::paging(idx, s, w, p.thorough),
        "c03" => suites::orderings(idx, s, w, p.thorough),
        "mx" => suites::market_exhaustive(idx, s, w, p.thorough),
        "c17" => suites::pure_lines(idx, s, w, p.thorough),
        "random" => {
            let sim = if idx % 3 == 0 { default_world() } else { small_world() };
            let mut g = Gen::start(sim, &format!("random:{}", idx), s, w, p.thorough);
            let steps = p.steps;
            let at: Vec<usize> = if p.thorough { vec![steps / 5, 2 * steps / 5, 3 * steps / 5, 4 * steps / 5, steps - 1] } else { vec![steps / 2, steps - 1] };
            g.random_history(steps, &at, 12);
            g.battery_buy_perturb();
            Some(g.stats)
        }
        "perturb" => {
            // short histories ending in the buy-perturbation battery at several points
            let mut g = Gen::start(small_world(), &format!("perturb:{}", idx), s, w, p.thorough);
            for _ in 0..3 {
                g.random_history(12, &[], 5);
                g.battery_buy_perturb();
            }
            Some(g.stats)
        }
        _ => None,
    }
}

fn main() {
    install_quiet_panic_hook();
    let args: Vec<String> = std::env::args().collect();
    let mut tier = "quick".to_string();
    let mut seed: u64 = 1;
    let mut out = String::new();
    let mut jobs: usize = 16;
    let mut only: Option<String> = None;
    let mut n_random: Option<usize> = None;
    let mut steps: Option<usize> = None;
    let mut pipe: Option<String> = None;
    let mut ops_file: Option<String> = None;
    let mut i = 1;
    while i < args.len() {
        match args[i].as_str() {
            "--tier" => {
                tier = args[i + 1].clone();
                i += 1
            }
            "--seed" => {
                seed = args[i + 1].parse().expect("seed");
                i += 1
            }
            "--out" => {
                out = args[i + 1].clone();
                i += 1
            }
            "--jobs" => {
                jobs = args[i + 1].parse().expect("jobs");
                i += 1
            }
            "--only" => {
                only = Some(args[i + 1].clone());
                i += 1
            }
            "--random" => {
                n_random = Some(args[i + 1].parse().expect("random"));
                i += 1
            }
            "--steps" => {
                steps = Some(args[i + 1].parse().expect("steps"));
                i += 1
            }
            "--pipe" => {
                pipe = Some(args[i + 1].clone());
                i += 1
            }
            "--ops-file" => {
                ops_file = Some(args[i + 1].clone());
                i += 1
            }
            a => panic!("unknown argument {a}"),
        }
        i += 1;
    }
    let thorough = tier == "thorough";
    let p = Params { thorough, seed, steps: steps.unwrap_or(if thorough { 60 } else { 40 }) };

    if let Some(f) = ops_file {
        // re-execute an explicit op list: first line `cfg=…` (world), then one line per operation:
        // `STEP <op>` / `PROBE <op>` / `STEPF <k> <op>` (anything after the op on a line is ignored),
        // `DRAINCHECK` (the drain battery), `QUERIES` (the query battery). Trace to stdout.
        let text = std::fs::read_to_string(&f).expect("read ops file");
        let mut lines = text.lines().filter(|l| !l.trim().is_empty());
        let cfg = lines.next().and_then(|l| fzharness::gen::cfg_from_token(l.trim())).expect("first line must be a cfg= token");
        let stdout = std::io::stdout();
        let mut w = BufWriter::new(stdout.lock());
        let mut g = Gen::start(fzharness::world::Sim::new(cfg), "replay:0", p.seed, &mut w, p.thorough);
        for l in lines {
            let l = l.trim();
            let (kind, rest) = l.split_once(' ').unwrap_or((l, ""));
            match kind {
                "STEP" | "PROBE" => {
                    let op = fzharness::parse::parse_op(&g.h.sim, rest).unwrap_or_else(|e| panic!("cannot parse {l:?}: {e}"));
                    if kind == "STEP" {
                        g.step(&op);
                    } else {
                        g.probe(&op);
                    }
                }
                "STEPF" => {
                    let (k, rest) = rest.split_once(' ').expect("STEPF k op");
                    let op = fzharness::parse::parse_op(&g.h.sim, rest).unwrap_or_else(|e| panic!("cannot parse {l:?}: {e}"));
                    g.stepf(k.parse().expect("k"), &op);
                }
                "DRAINCHECK" => g.battery_drain(),
                "QUERIES" => g.battery_queries(),
                other => panic!("unknown ops-file line kind {other:?}"),
            }
        }
        drop(g);
        w.flush().unwrap();
        return;
    }

    if let Some(o) = only {
        let (fam, idx) = o.split_once(':').expect("--only family:index");
        let stdout = std::io::stdout();
        let mut w = BufWriter::new(stdout.lock());
        let st = run_item(fam, idx.parse().expect("index"), &p, &mut w);
        w.flush().unwrap();
        if st.is_none() {
            eprintln!("no such item {o}");
            std::process::exit(2);
        }
        return;
    }

    // the work list
    let mut items: Vec<(String, usize)> = vec![];
    for fam in ["corpus", "boundary", "c14", "c16", "c03", "mx", "c17"] {
        for idx in 0..64 {
            items.push((fam.to_string(), idx)); // run_item returns None past the end
        }
    }
    let n_random = n_random.unwrap_or(if thorough { 3000 } else { 160 });
    for idx in 0..n_random {
        items.push(("random".to_string(), idx));
    }
    for idx in 0..(n_random / 4) {
        items.push(("perturb".to_string(), idx));
    }

    std::fs::create_dir_all(&out).expect("create out dir");
    let mut handles = vec![];
    for j in 0..jobs {
        let mine: Vec<(String, usize)> = items.iter().enumerate().filter(|(i, _)| i % jobs == j).map(|(_, x)| x.clone()).collect();
        let path = format!("{}/trace_{:02}.txt", out, j);
        let p = Params { thorough: p.thorough, seed: p.seed, steps: p.steps };
        let pipe = pipe.clone();
        handles.push(
            std::thread::Builder::new()
                .stack_size(256 << 20)
                .spawn(move || {
                    install_quiet_panic_hook();
                    let mut total = Stats::default();
                    match &pipe {
                        None => {
                            let f = File::create(&path).expect("create trace file");
                            let mut w = BufWriter::with_capacity(1 << 20, f);
                            for (fam, idx) in mine {
                                if let Some(st) = run_item(&fam, idx, &p, &mut w) {
                                    total.merge(&st);
                                }
                            }
                            w.flush().unwrap();
                        }
                        Some(model) => {
                            // stream straight into the model driver: nothing but its answers touch the disk
                            let ans = File::create(format!("{}.ans", path)).expect("create answer file");
                            let mut child = std::process::Command::new(model)
                                .stdin(std::process::Stdio::piped())
                                .stdout(ans)
                                .spawn()
                                .expect("spawn model driver");
                            {
                                let stdin = child.stdin.take().expect("driver stdin");
                                let mut w = BufWriter::with_capacity(1 << 20, stdin);
                                for (fam, idx) in mine {
                                    if let Some(st) = run_item(&fam, idx, &p, &mut w) {
                                        total.merge(&st);
                                    }
                                }
                                w.flush().expect("flush to driver");
                            }
                            let status = child.wait().expect("wait for driver");
                            if !status.success() {
                                panic!("model driver failed on {}", path);
                            }
                        }
                    }
                    total
                })
                .unwrap(),
        );
    }
    let mut total = Stats::default();
    for h in handles {
        total.merge(&h.join().expect("generator thread"));
    }
    if let Some(what) = fzharness::world::UNACCOUNTED.lock().unwrap().clone() {
        eprintln!("fzgen: UNMODELLED STATE: {}", what);
        std::process::exit(3);
    }
    let mut f = File::create(format!("{}/gen_stats.json", out)).unwrap();
    writeln!(f, "{}", total.to_json()).unwrap();
    eprintln!("fzgen: {} histories, {} lines ({} steps, {} probes, {} faulted, {} queries, {} pure)", total.histories, total.lines, total.steps, total.probes, total.stepf, total.queries, total.pure);
}
