//! Smoke test: one scripted history that touches every op kind, every query kind, a
//! PROBE and a STEPF, printing the protocol lines to stdout and a summary to stderr.

use cosmwasm_std::{coin, coins};
use fzharness::*;
use std::time::Instant;

struct Run {
    h: History,
    ok: usize,
    err: usize,
    dirty: usize,
    panics: usize,
    lines: usize,
}

impl Run {
    fn emit(&mut self, line: String) {
        println!("{}", line);
        self.lines += 1;
    }

    /// STEP; `expect_ok` documents (and checks) what the script author expects.
    fn step(&mut self, what: &str, expect_ok: bool, op: Op) -> Outcome {
        let (out, line) = self.h.step(&op);
        self.emit(line_note(&format!(
            "{} -> {}{}",
            what,
            if out.ok { "ok" } else { "err" },
            out.err_text.as_ref().map(|e| format!(" ({})", e)).unwrap_or_default()
        )));
        self.emit(line);
        for l in History::cpmsg_lines(&out) {
            self.emit(l);
        }
        if out.ok {
            self.ok += 1
        } else {
            self.err += 1
        }
        self.dirty += usize::from(out.dirty_on_fail);
        self.panics += usize::from(out.panicked);
        if out.ok != expect_ok {
            eprintln!("UNEXPECTED: {} -> ok={} err={:?}", what, out.ok, out.err_text);
        }
        out
    }

    fn query(&mut self, q: Query) -> QResp {
        let (r, line) = self.h.query(&q);
        self.emit(line);
        r
    }
}

fn x(sender: &str, funds: Vec<cosmwasm_std::Coin>, msg: MMsg) -> Op {
    Op::X {
        sender: sender.to_string(),
        funds,
        msg,
    }
}

fn main() {
    let t0 = Instant::now();
    let sim = Sim::new_default();
    let build_time = t0.elapsed();

    let tk0 = sim.cw20_addrs()[0].clone();
    let tk1 = sim.cw20_addrs()[1].clone();
    let c0 = sim.cw721_addrs()[0].clone();
    let c1 = sim.cw721_addrs()[1].clone();
    let c2 = sim.cw721_addrs()[2].clone();
    let h0 = sim.hostile_addrs()[0].clone();
    let h1 = sim.hostile_addrs()[1].clone();
    let market = sim.market_addr().to_string();
    // with 3 NFTs per user: alice t000..t002, bobby t003..t005, carol t006.., david t009..
    let (alice, bobby, carol, david) = ("alice", "bobby", "carol", "david");

    let (h, init) = History::start(sim);
    let mut r = Run {
        h,
        ok: 0,
        err: 0,
        dirty: 0,
        panics: 0,
        lines: 0,
    };
    r.emit(line_note(&format!(
        "addresses {:?} denoms {:?} tids {:?}",
        r.h.sim.all_addrs(),
        r.h.sim.all_denoms(),
        r.h.sim.all_tids()
    )));
    r.emit(init);

    // ---------------------------------------------------------------- listing life cycle
    let ask0 = RawGBal {
        native: coins(2000, "uusdcx"),
        cw20: vec![],
        nfts: vec![],
    };
    r.step(
        "alice creates listing 1 with 1000 ujunox",
        true,
        x(
            alice,
            coins(1000, "ujunox"),
            MMsg::CL {
                id: 1,
                create: Create {
                    ask: ask0.clone(),
                    whitelist: None,
                },
            },
        ),
    );
    r.step(
        "invalid whitelist address",
        false,
        x(
            alice,
            coins(5, "uatom"),
            MMsg::CL {
                id: 2,
                create: Create {
                    ask: ask0.clone(),
                    whitelist: Some(RawAddr::Invalid),
                },
            },
        ),
    );
    r.step(
        "T20 add 300 of token1 to listing 1",
        true,
        Op::T20 {
            token: tk1.clone(),
            sender: alice.into(),
            amount: 300,
            inner: Inner::AL { id: 1 },
        },
    );
    r.step(
        "T20 with unparsable hook message",
        false,
        Op::T20 {
            token: tk1.clone(),
            sender: alice.into(),
            amount: 1,
            inner: Inner::Bad,
        },
    );
    r.step(
        "T721 add coll0/t000 to listing 1",
        true,
        Op::T721 {
            coll: c0.clone(),
            sender: alice.into(),
            token_id: "t000".into(),
            inner: Inner::AL { id: 1 },
        },
    );
    r.step(
        "X AddToListing natives",
        true,
        x(alice, vec![coin(7, "uatom")], MMsg::AL { id: 1 }),
    );
    let ask1 = RawGBal {
        native: coins(5000, "uusdcx"),
        cw20: vec![(RawAddr::valid(tk0.clone()), 500)],
        nfts: vec![(RawAddr::valid(c1.clone()), "t003".into())],
    };
    r.step("change ask", true, x(alice, vec![], MMsg::CA { id: 1, ask: ask1 }));
    r.step("finalize too short", false, x(alice, vec![], MMsg::FI { id: 1, seconds: 10 }));
    r.step("finalize 1h", true, x(alice, vec![], MMsg::FI { id: 1, seconds: 3600 }));

    // ---------------------------------------------------------------- registry
    r.step(
        "register coll0 250bps -> payo1",
        true,
        Op::R {
            sender: DEPLOYER.into(),
            msg: RMsg::Reg {
                nft: RawAddr::valid(c0.clone()),
                payout: RawAddr::valid("payo1"),
                bps: 250,
            },
        },
    );
    r.step(
        "register coll1 100bps -> payo2",
        true,
        Op::R {
            sender: DEPLOYER.into(),
            msg: RMsg::Reg {
                nft: RawAddr::valid(c1.clone()),
                payout: RawAddr::valid("payo2"),
                bps: 100,
            },
        },
    );
    r.step(
        "register by non-admin",
        false,
        Op::R {
            sender: carol.into(),
            msg: RMsg::Reg {
                nft: RawAddr::valid(c2.clone()),
                payout: RawAddr::valid("payo2"),
                bps: 100,
            },
        },
    );

    // ---------------------------------------------------------------- bucket via all 3 paths
    r.step("bobby creates bucket 1 with 3000 uusdcx", true, x(bobby, coins(3000, "uusdcx"), MMsg::CB { id: 1 }));
    r.step("X AddToBucket 2000 uusdcx", true, x(bobby, coins(2000, "uusdcx"), MMsg::AB { id: 1 }));
    r.step(
        "T20 AddToBucket 500 token0",
        true,
        Op::T20 {
            token: tk0.clone(),
            sender: bobby.into(),
            amount: 500,
            inner: Inner::AB { id: 1 },
        },
    );
    r.step(
        "T721 AddToBucket coll1/t003",
        true,
        Op::T721 {
            coll: c1.clone(),
            sender: bobby.into(),
            token_id: "t003".into(),
            inner: Inner::AB { id: 1 },
        },
    );

    // ---------------------------------------------------------------- probe, buy, withdraw
    let buy = x(bobby, vec![], MMsg::BL { listing_id: 1, bucket_id: 1 });
    let (_o, line) = r.h.probe(&buy);
    r.emit(line);
    r.step("carol cannot buy with bobby's bucket", false, x(carol, vec![], MMsg::BL { listing_id: 1, bucket_id: 1 }));
    r.step("bobby buys listing 1 with bucket 1", true, buy);

    let wp = x(bobby, vec![], MMsg::WP { id: 1 });
    // STEPF: every message of the withdrawal forced to fail in turn (on forks)
    let n_msgs = r.h.probe(&wp).0.msgs.len();
    for k in 0..=n_msgs {
        let (o, line) = r.h.stepf(k, &wp);
        r.emit(line_note(&format!("STEPF k={} injected={} ok={}", k, o.fault_injected, o.ok)));
        r.emit(line);
    }
    let pool_before = r.h.sim.bank_balance(COMMUNITY_POOL, "ujunox");
    let o = r.step("bobby withdraws purchased listing 1 (fee -> community pool)", true, wp);
    let pool_after = r.h.sim.bank_balance(COMMUNITY_POOL, "ujunox");
    eprintln!(
        "WithdrawPurchased: ok={} msgs={:?} pool ujunox {} -> {}",
        o.ok, o.msgs, pool_before, pool_after
    );
    r.step("alice removes proceeds bucket 1", true, x(alice, vec![], MMsg::RB { id: 1 }));

    // ---------------------------------------------------------------- delete listing
    r.step(
        "carol creates listing 3 via T721",
        true,
        Op::T721 {
            coll: c2.clone(),
            sender: carol.into(),
            token_id: "t006".into(),
            inner: Inner::CL {
                id: 3,
                create: Create {
                    ask: ask0.clone(),
                    whitelist: Some(RawAddr::valid(david)),
                },
            },
        },
    );
    r.step("carol deletes listing 3", true, x(carol, vec![], MMsg::DL { id: 3 }));

    // ---------------------------------------------------------------- fee cycle
    r.step("fee cycle too early", false, x(david, vec![], MMsg::FC));
    r.step(
        "advance 1 week + 2 s, 50 blocks",
        true,
        Op::ADV {
            d_ns: (604_800 + 2) * 1_000_000_000,
            d_height: 50,
        },
    );
    r.step("fee cycle", true, x(david, vec![], MMsg::FC));

    // ---------------------------------------------------------------- registry update / remove
    let upd = Op::R {
        sender: DEPLOYER.into(),
        msg: RMsg::Upd {
            nft: RawAddr::valid(c0.clone()),
            payout: Some(RawAddr::valid("payo2")),
            bps: None,
        },
    };
    r.step("update during cooldown", false, upd.clone());
    r.step("advance 50 blocks", true, Op::ADV { d_ns: 6_000_000_000, d_height: 50 });
    r.step("update after cooldown", true, upd);
    r.step(
        "remove during cooldown",
        false,
        Op::R {
            sender: DEPLOYER.into(),
            msg: RMsg::Rem {
                nft: RawAddr::valid(c0.clone()),
            },
        },
    );
    r.step("advance 100 blocks", true, Op::ADV { d_ns: 1, d_height: 100 });
    r.step(
        "remove",
        true,
        Op::R {
            sender: DEPLOYER.into(),
            msg: RMsg::Rem {
                nft: RawAddr::valid(c0.clone()),
            },
        },
    );

    // ---------------------------------------------------------------- admin changes
    r.step(
        "deplo hands coll2 admin to carol",
        true,
        Op::AD {
            sender: DEPLOYER.into(),
            contract: c2.clone(),
            new_admin: Some(carol.into()),
        },
    );
    r.step(
        "carol (now admin) registers coll2",
        true,
        Op::R {
            sender: carol.into(),
            msg: RMsg::Reg {
                nft: RawAddr::valid(c2.clone()),
                payout: RawAddr::valid(carol),
                bps: 300,
            },
        },
    );
    r.step(
        "deplo no longer admin of coll2",
        false,
        Op::AD {
            sender: DEPLOYER.into(),
            contract: c2.clone(),
            new_admin: None,
        },
    );
    r.step(
        "deplo clears the market admin",
        true,
        Op::AD {
            sender: DEPLOYER.into(),
            contract: market.clone(),
            new_admin: None,
        },
    );

    // ---------------------------------------------------------------- hostile contract
    r.step("david creates bucket 5", true, x(david, coins(100, "uatom"), MMsg::CB { id: 5 }));
    let forged = r.step(
        "hostile#1 forges Receive{sender: david} AddToBucket 5 (known defect: accepted)",
        true,
        x(
            &h0,
            vec![],
            MMsg::RC {
                sender: RawAddr::valid(david),
                amount: 777,
                inner: Inner::AB { id: 5 },
            },
        ),
    );
    eprintln!("forged hostile AddToBucket: ok={}", forged.ok);
    r.step(
        "hostile#2 (no TokenInfo) forges Receive",
        false,
        x(
            &h1,
            vec![],
            MMsg::RC {
                sender: RawAddr::valid(david),
                amount: 1,
                inner: Inner::AB { id: 5 },
            },
        ),
    );
    r.step(
        "hostile#2 forges ReceiveNft{sender: david} AddToBucket 5",
        true,
        x(
            &h1,
            vec![],
            MMsg::RN {
                sender: RawAddr::valid(david),
                token_id: "t000".into(),
                inner: Inner::AB { id: 5 },
            },
        ),
    );
    r.step(
        "hostile#1 creates its own bucket 6 paying 10 ujunox from its balance",
        true,
        x(&h0, coins(10, "ujunox"), MMsg::CB { id: 6 }),
    );
    let forge_max = x(
        &h0,
        vec![],
        MMsg::RC {
            sender: RawAddr::valid(h0.clone()),
            amount: u128::MAX,
            inner: Inner::AB { id: 6 },
        },
    );
    r.step("hostile#1 forges u128::MAX of itself into its bucket 6", true, forge_max.clone());
    let o = r.step("... and again: Uint128 += overflows = panic = tx aborted", false, forge_max);
    eprintln!("overflow forge: ok={} panicked={} err={:?}", o.ok, o.panicked, o.err_text);
    r.step("funds attached to a cw20 Receive are refused", false, x(
        &h0,
        coins(1, "ujunox"),
        MMsg::RC {
            sender: RawAddr::valid(david),
            amount: 1,
            inner: Inner::AB { id: 5 },
        },
    ));
    // the junk asset now rejects transfers: david cannot get his bucket back
    r.h.sim.set_hostile_fails(0, true);
    let init2 = r.h.resync();
    r.emit(line_note("hostile#1 now fails transfers: new INIT"));
    r.emit(init2);
    r.step("david cannot remove bucket 5 (poisoned)", false, x(david, vec![], MMsg::RB { id: 5 }));
    r.h.sim.set_hostile_fails(0, false);
    let init3 = r.h.resync();
    r.emit(init3);
    r.step("david removes bucket 5", true, x(david, vec![], MMsg::RB { id: 5 }));

    // ---------------------------------------------------------------- queries
    r.query(Query::FD);
    r.query(Query::BK {
        owner: RawAddr::valid(h0.clone()),
        page: 1,
    });
    r.query(Query::BK {
        owner: RawAddr::Invalid,
        page: 1,
    });
    r.step(
        "erinn creates whitelisted listing 9",
        true,
        x(
            "erinn",
            coins(400, "uosmo"),
            MMsg::CL {
                id: 9,
                create: Create {
                    ask: ask0.clone(),
                    whitelist: Some(RawAddr::valid("frank")),
                },
            },
        ),
    );
    r.step("erinn finalizes 9", true, x("erinn", vec![], MMsg::FI { id: 9, seconds: 600 }));
    r.query(Query::LO {
        owner: RawAddr::valid("erinn"),
        page: 1,
    });
    r.query(Query::WL {
        owner: RawAddr::valid("frank"),
    });
    r.query(Query::MK { page: 1 });
    r.query(Query::RA);
    let p0 = r.query(Query::MK { page: 0 });
    let p13 = r.query(Query::LO {
        owner: RawAddr::valid("erinn"),
        page: 13,
    });
    // (these two panic with u8 overflow on the pinned tree, and answer after the repo's fix)
    let kind = |r: &QResp| match r {
        QResp::Panic(_) => "panic",
        QResp::Err(_) => "err",
        _ => "ok",
    };
    eprintln!("query MK page 0 -> {}, LO page 13 -> {}", kind(&p0), kind(&p13));

    // ---------------------------------------------------------------- timing
    let t1 = Instant::now();
    let n = 200;
    for i in 0..n {
        let op = x("frank", coins(10 + i as u128, "uosmo"), MMsg::CB { id: 1000 + i });
        let (_o, _line) = r.h.step(&op);
    }
    let per_step = t1.elapsed() / n as u32;
    let t2 = Instant::now();
    for _ in 0..50 {
        let _f = r.h.sim.fork();
    }
    let per_fork = t2.elapsed() / 50;
    let t3 = Instant::now();
    let w = encode_world(&r.h.sim);
    let enc = t3.elapsed();

    eprintln!(
        "smoke: {} scripted ops: {} ok, {} err ({} panics, {} dirty_on_fail); {} lines; world build {:?}; \
         with {} buckets: step+encode {:?}/op, fork {:?}, encode_world {:?} ({} bytes), storage {} keys",
        r.ok + r.err,
        r.ok,
        r.err,
        r.panics,
        r.dirty,
        r.lines,
        build_time,
        r.h.sim.buckets().len(),
        per_step,
        per_fork,
        enc,
        w.len(),
        r.h.sim.snapshot_bytes().len(),
    );
}
