//! `fzharness`: the Rust side of the differential-testing harness for the CosmWasm
//! contracts in /repo (`contracts/marketplace`, `contracts/royalty`, `packages/royalties`).
//!
//! * [`world::Sim`]    : one simulated chain (cw-multi-test 0.16.5 `App`) with the REAL contracts:
//!   apply ops, fork, snapshot, inspect typed state, run queries.
//! * [`ops`]           : operations / messages / queries of PROTOCOL.md as Rust values.
//! * [`encode`]        : the exact text encoding of /verif/PROTOCOL.md.
//! * [`history::History`]: `Sim` + current world text = protocol lines with one call per step.
//! * [`shim`]          : marketplace wrapper (Stargate rewrite, response recorder, fault injector).
//! * [`hostile`]       : attacker-controlled contract (forwarder / fake cw20 / failing asset).
//! * [`storage`]       : shared `BTreeMap` storage (snapshot / restore / byte compare).
//! * [`proto`]         : independent protobuf decoder for `MsgFundCommunityPool`.

pub mod encode;
pub mod gen;
pub mod suites;
pub mod history;
pub mod hostile;
pub mod ops;
pub mod parse;
pub mod proto;
pub mod shim;
pub mod storage;
pub mod surface;
pub mod world;

pub use encode::*;
pub use history::History;
pub use ops::{Create, Inner, MMsg, Op, Query, RMsg, RawAddr, RawGBal, INVALID_ADDR};
pub use shim::{OutMsg, COMMUNITY_POOL};
pub use storage::{RawState, SharedStorage};
pub use world::{Config, ContractRow, MarketState, Meta, Outcome, QResp, Sim, DEPLOYER, JUNO_DENOM, PAYOUTS, USDC_DENOM};
