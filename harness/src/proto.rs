//! An INDEPENDENT, hand-written decoder for the protobuf body of
//! `/cosmos.distribution.v1beta1.MsgFundCommunityPool`:
//!
//! ```text
//! message MsgFundCommunityPool { repeated Coin amount = 1; string depositor = 2; }
//! message Coin                 { string denom = 1;         string amount    = 2; }
//! ```
//!
//! It deliberately shares no code with `anybuf` (which the contract uses to *encode*).
//! The decoder is strict: unknown field numbers, wrong wire types, truncated input,
//! over-long varints and invalid UTF-8 all make the message malformed.

/// Decoded message, amounts still as the decimal strings found on the wire.
#[derive(Clone, Debug, PartialEq, Eq)]
pub struct FundCommunityPool {
    /// (denom, amount-as-string) in wire order
    pub coins: Vec<(String, String)>,
    pub depositor: String,
}

pub const FUND_COMMUNITY_POOL_TYPE_URL: &str = "/cosmos.distribution.v1beta1.MsgFundCommunityPool";

/// Read a base-128 varint; returns (value, bytes consumed).
fn read_varint(buf: &[u8]) -> Option<(u64, usize)> {
    let mut value: u64 = 0;
    for (i, b) in buf.iter().enumerate() {
        if i >= 10 {
            return None; // longer than any u64 varint
        }
        let low = (b & 0x7f) as u64;
        if i == 9 && low > 1 {
            return None; // would overflow 64 bits
        }
        value |= low << (7 * i as u32);
        if b & 0x80 == 0 {
            return Some((value, i + 1));
        }
    }
    None // ran out of input inside a varint
}

/// Read one `(field number, length-delimited payload)`; every field of both messages
/// has wire type 2, anything else is rejected.
fn read_len_field(buf: &[u8]) -> Option<(u64, &[u8], usize)> {
    let (key, n1) = read_varint(buf)?;
    let field = key >> 3;
    let wire_type = key & 7;
    if wire_type != 2 || field == 0 {
        return None;
    }
    let (len, n2) = read_varint(&buf[n1..])?;
    let len = usize::try_from(len).ok()?;
    let start = n1 + n2;
    let end = start.checked_add(len)?;
    if end > buf.len() {
        return None;
    }
    Some((field, &buf[start..end], end))
}

fn decode_coin(mut buf: &[u8]) -> Option<(String, String)> {
    // proto3 scalars: absent = "", repeated occurrence = last one wins
    let mut denom = String::new();
    let mut amount = String::new();
    while !buf.is_empty() {
        let (field, payload, used) = read_len_field(buf)?;
        let s = std::str::from_utf8(payload).ok()?.to_string();
        match field {
            1 => denom = s,
            2 => amount = s,
            _ => return None,
        }
        buf = &buf[used..];
    }
    Some((denom, amount))
}

/// Decode the `value` bytes of the Stargate message. `None` = malformed.
pub fn decode_fund_community_pool(mut buf: &[u8]) -> Option<FundCommunityPool> {
    let mut coins = Vec::new();
    let mut depositor = String::new();
    while !buf.is_empty() {
        let (field, payload, used) = read_len_field(buf)?;
        match field {
            1 => coins.push(decode_coin(payload)?),
            2 => depositor = std::str::from_utf8(payload).ok()?.to_string(),
            _ => return None,
        }
        buf = &buf[used..];
    }
    Some(FundCommunityPool { coins, depositor })
}

/// Strict decimal u128 (what `sdk.Int` would have to contain for our universe):
/// non-empty, ASCII digits only, fits in 128 bits.
pub fn parse_amount(s: &str) -> Option<u128> {
    if s.is_empty() || !s.bytes().all(|b| b.is_ascii_digit()) {
        return None;
    }
    s.parse::<u128>().ok()
}

#[cfg(test)]
mod tests {
    use super::*;

    #[test]
    fn decodes_handmade_bytes() {
        // coin {1:"ujunox", 2:"5"}  = 0a 06 "ujunox" 12 01 "5"           (11 bytes)
        // msg  {1: coin, 2: "contract9"}
        let mut v = vec![0x0a, 11, 0x0a, 6];
        v.extend_from_slice(b"ujunox");
        v.extend_from_slice(&[0x12, 1, b'5']);
        v.extend_from_slice(&[0x12, 9]);
        v.extend_from_slice(b"contract9");
        let m = decode_fund_community_pool(&v).unwrap();
        assert_eq!(m.coins, vec![("ujunox".to_string(), "5".to_string())]);
        assert_eq!(m.depositor, "contract9");
        // truncated
        assert!(decode_fund_community_pool(&v[..v.len() - 1]).is_none());
        // unknown field 3
        let mut w = v.clone();
        w.extend_from_slice(&[0x1a, 0]);
        assert!(decode_fund_community_pool(&w).is_none());
        // wrong wire type (varint) for field 2
        assert!(decode_fund_community_pool(&[0x10, 1]).is_none());
        // empty message is decodable (no coins, empty depositor)
        assert_eq!(decode_fund_community_pool(&[]).unwrap().coins.len(), 0);
    }

    #[test]
    fn amounts() {
        assert_eq!(parse_amount("0"), Some(0));
        assert_eq!(parse_amount("340282366920938463463374607431768211455"), Some(u128::MAX));
        assert_eq!(parse_amount("340282366920938463463374607431768211456"), None);
        assert_eq!(parse_amount("+1"), None);
        assert_eq!(parse_amount(""), None);
    }
}
