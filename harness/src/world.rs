//! `Sim`: one simulated chain (a `cw_multi_test::App` over a [`SharedStorage`]) with the
//! real marketplace (behind the Stargate shim), the real royalty registry, real
//! cw20-base / cw721-base contracts, hostile contracts and a fixed set of accounts.

use crate::hostile;
use crate::ops::{Op, Query};
use crate::shim::{CpRaw, MarketShim, OutMsg, ShimHandles, COMMUNITY_POOL};
use crate::storage::{RawState, SharedStorage};
use anyhow::Result as AnyResult;
use cosmwasm_std::testing::{MockApi, MockStorage};
use cosmwasm_std::{
    to_binary, Addr, BlockInfo, Coin, CosmosMsg, Empty, Order, Storage, Timestamp, Uint128, WasmMsg,
};
use cw20::{Cw20Coin, Cw20ExecuteMsg, Cw20QueryMsg, TokenInfoResponse};
use cw721::{Cw721ExecuteMsg, Cw721QueryMsg, OwnerOfResponse};
use cw_multi_test::{App, AppBuilder, BankKeeper, Contract, ContractWrapper, Executor};
use marketplace::query::{FeeDenomResponse, MultiBucketResponse, MultiListingResponse};
use marketplace::state::{
    listingz, Bucket, FeeDenom, Listing, BUCKETS, BUCKET_ID_USED, FEE_DENOM, LISTING_ID_USED, ROYALTY_REGISTRY,
};
use royalties::RoyaltyInfo;
use std::cell::Cell;
use std::collections::HashMap;
use std::panic::{catch_unwind, AssertUnwindSafe};
use std::rc::Rc;
use std::sync::Once;

/// The concrete `App` type used everywhere (all other modules are the defaults).
pub type SimApp = App<BankKeeper, MockApi, SharedStorage>;

pub const DEPLOYER: &str = "deplo";
pub const PAYOUTS: [&str; 2] = ["payo1", "payo2"];
/// All 5 letters, so that (length, bytes) order == plain byte order.
pub const ALL_USERS: [&str; 6] = ["alice", "bobby", "carol", "david", "erinn", "frank"];
/// extra accounts of worlds with `odd_token_ids`
pub const CASE_TWINS: [&str; 2] = ["ALICE", "Bobby"];
pub const BASE_DENOMS: [&str; 4] = ["ujunox", "uusdcx", "uatom", "uosmo"];
pub const JUNO_DENOM: &str = "ujunox";
pub const USDC_DENOM: &str = "uusdcx";

// ---------------------------------------------------------------------------------------
// Config
// ---------------------------------------------------------------------------------------

#[derive(Clone, Debug)]
pub struct Config {
    /// how many of [`ALL_USERS`] exist (1..=6)
    pub n_users: usize,
    /// extra native denoms "zf00", "zf01", ... (every user gets `native_start` of them too)
    pub n_filler_denoms: usize,
    /// starting balance of every user in every native denom
    pub native_start: u128,
    /// bank funds of hostile contract #1 (index 0); the other hostile contracts get nothing
    pub hostile_funds: Vec<Coin>,
    /// number of honest cw20-base tokens
    pub n_cw20: usize,
    /// starting balance of every user in every cw20 token
    pub cw20_start: u128,
    /// number of honest cw721-base collections
    pub n_cw721: usize,
    /// wasm admin of collection i (missing entries = `Some("deplo")`)
    pub collection_admins: Vec<Option<String>>,
    /// tokens minted to every user in every collection
    pub nfts_per_user_per_collection: usize,
    /// hostile contracts; even indexes (#1, #3, ..) answer TokenInfo, odd ones do not
    pub n_hostile: usize,
    /// start block time in nanoseconds (deliberately not a whole second by default)
    pub start_time_ns: u64,
    pub start_height: u64,
    /// token ids that exist in the name table although nobody minted them
    pub extra_token_ids: Vec<String>,
    /// also mint, in every collection, tokens whose ids differ from an existing id of ANOTHER user only by
    /// surrounding white space or letter case (`"t000 "`, `" t001"`, `"T000"`): distinct tokens for cw721
    pub odd_token_ids: bool,
}

impl Default for Config {
    fn default() -> Self {
        Config {
            n_users: 6,
            n_filler_denoms: 0,
            native_start: u128::MAX / 16,
            hostile_funds: vec![
                Coin::new(1_000_000, JUNO_DENOM),
                Coin::new(1_000_000, USDC_DENOM),
            ],
            n_cw20: 3,
            cw20_start: u128::MAX / 16,
            n_cw721: 3,
            collection_admins: vec![],
            nfts_per_user_per_collection: 3,
            n_hostile: 2,
            start_time_ns: 1_700_000_000_000_000_000 + 123_456_789,
            start_height: 1000,
            extra_token_ids: vec![],
            odd_token_ids: false,
        }
    }
}

// ---------------------------------------------------------------------------------------
// Name tables (PROTOCOL §1)
// ---------------------------------------------------------------------------------------

/// A sorted list of strings and the reverse index.
#[derive(Clone, Debug, Default)]
pub struct NameTable {
    what: &'static str,
    names: Vec<String>,
    index: HashMap<String, u64>,
}

impl NameTable {
    fn new(what: &'static str, mut names: Vec<String>, by_len_first: bool) -> Self {
        if by_len_first {
            names.sort_by(|a, b| (a.len(), a.as_bytes()).cmp(&(b.len(), b.as_bytes())));
        } else {
            names.sort_by(|a, b| a.as_bytes().cmp(b.as_bytes()));
        }
        names.dedup();
        let index = names.iter().enumerate().map(|(i, s)| (s.clone(), i as u64)).collect();
        NameTable { what, names, index }
    }

    pub fn get(&self, s: &str) -> Option<u64> {
        self.index.get(s).copied()
    }

    /// Panics with a clear message when `s` is not in the table.
    pub fn num(&self, s: &str) -> u64 {
        self.get(s)
            .unwrap_or_else(|| panic!("fzharness: {} {:?} is not in the name table {:?}", self.what, s, self.names))
    }

    pub fn name(&self, n: u64) -> &str {
        self.names
            .get(n as usize)
            .unwrap_or_else(|| panic!("fzharness: {} number {} out of range (table has {})", self.what, n, self.names.len()))
    }

    pub fn all(&self) -> &[String] {
        &self.names
    }

    pub fn len(&self) -> usize {
        self.names.len()
    }

    pub fn is_empty(&self) -> bool {
        self.names.is_empty()
    }
}

/// Everything about a world that never changes after construction (shared by forks).
#[derive(Debug)]
pub struct Meta {
    pub config: Config,
    pub users: Vec<String>,
    pub market: String,
    pub registry: String,
    pub cw20s: Vec<String>,
    pub cw721s: Vec<String>,
    pub hostiles: Vec<String>,
    /// minted token ids per honest collection (same order as `cw721s`), ascending
    pub minted: Vec<Vec<String>>,
    pub addrs: NameTable,
    pub denoms: NameTable,
    pub tids: NameTable,
}

// ---------------------------------------------------------------------------------------
// Results
// ---------------------------------------------------------------------------------------

/// Result of applying one op.
#[derive(Clone, Debug, Default)]
pub struct Outcome {
    /// the whole transaction succeeded (and was committed)
    pub ok: bool,
    /// messages of the marketplace's top-level response (as last seen by the shim; may be
    /// non-empty for `ok == false` when the handler succeeded but a dispatched message failed)
    pub msgs: Vec<OutMsg>,
    /// (id, reply_on, gas_limit.is_some()) per SubMsg of that response
    pub subs: Vec<(u64, u8, bool)>,
    /// (denom, amount, depositor as decoded, raw value bytes) per single-coin community-pool msg
    pub cp_raw: Vec<(String, u128, String, Vec<u8>)>,
    /// root cause of the failure / panic message
    pub err_text: Option<String>,
    /// the failure was a caught panic (on chain: abort + revert, i.e. also just an error)
    pub panicked: bool,
    /// storage right after the failed call (before the harness restored the snapshot)
    /// differed from the pre-state. Should never be true (simulator bug / panic mid-commit).
    pub dirty_on_fail: bool,
    /// `apply_with_fault` only: index k existed and the message was replaced
    pub fault_injected: bool,
    /// number of successful marketplace `execute` calls inside this op (0 or 1 normally)
    pub market_calls: usize,
}

/// Result of a marketplace query.
#[derive(Clone, Debug)]
pub enum QResp {
    /// the query returned an error (text = error)
    Err(String),
    /// the query panicked (on chain: the VM aborts, the querier sees an error)
    Panic(String),
    FD(FeeDenomResponse),
    BK(Vec<(u64, Bucket)>),
    /// for LO, WL and MK
    LS(Vec<Listing>),
    RA(Option<Addr>),
}

/// The marketplace's complete typed state, in storage order.
#[derive(Clone, Debug)]
pub struct MarketState {
    pub listings: Vec<((Addr, u64), Listing)>,
    pub buckets: Vec<((Addr, u64), Bucket)>,
    pub listing_ids_used: Vec<u64>,
    pub bucket_ids_used: Vec<u64>,
    pub fee_denom: FeeDenom,
    pub registry: Option<Addr>,
    /// the three listing indexes hold exactly what the primary records imply
    pub idx_ok: bool,
}

/// One row of the CONTRACTS section of the world.
#[derive(Clone, Debug, PartialEq, Eq)]
pub struct ContractRow {
    pub addr: String,
    pub admin: Option<String>,
    /// 0 other (market, registry), 1 honest cw20, 2 honest cw721, 3 hostile
    pub kind: u8,
    /// answers `Cw20QueryMsg::TokenInfo` (determined by really querying)
    pub token_info: bool,
    /// hostile contract currently rejecting Transfer / TransferNft
    pub fails: bool,
}

// ---------------------------------------------------------------------------------------
// Panic handling
// ---------------------------------------------------------------------------------------

thread_local! {
    /// > 0 while we are inside a guarded call: the panic hook stays silent.
    static QUIET_DEPTH: Cell<u32> = const { Cell::new(0) };
}
static HOOK: Once = Once::new();

/// Install (once per process) a panic hook that prints nothing for panics caught by
/// [`guarded`], and defers to the previous hook for every other panic.
pub fn install_quiet_panic_hook() {
    HOOK.call_once(|| {
        let prev = std::panic::take_hook();
        std::panic::set_hook(Box::new(move |info| {
            if QUIET_DEPTH.with(|d| d.get()) == 0 {
                prev(info);
            }
        }));
    });
}

fn panic_text(payload: Box<dyn std::any::Any + Send>) -> String {
    if let Some(s) = payload.downcast_ref::<&str>() {
        (*s).to_string()
    } else if let Some(s) = payload.downcast_ref::<String>() {
        s.clone()
    } else {
        "non-string panic payload".to_string()
    }
}

/// Run `f`, turning a panic into `Err(message)` without printing anything.
fn guarded<T>(f: impl FnOnce() -> T) -> Result<T, String> {
    install_quiet_panic_hook();
    QUIET_DEPTH.with(|d| d.set(d.get() + 1));
    let r = catch_unwind(AssertUnwindSafe(f));
    QUIET_DEPTH.with(|d| d.set(d.get() - 1));
    r.map_err(panic_text)
}

// ---------------------------------------------------------------------------------------
// App construction
// ---------------------------------------------------------------------------------------

/// Code ids; `new_app` stores the codes always in this order so ids agree between forks.
#[derive(Clone, Copy, Debug)]
struct CodeIds {
    cw20: u64,
    cw721: u64,
    hostile: u64,
    royalty: u64,
    market: u64,
}

fn cw20_code() -> Box<dyn Contract<Empty>> {
    Box::new(ContractWrapper::new(
        cw20_base::contract::execute,
        cw20_base::contract::instantiate,
        cw20_base::contract::query,
    ))
}

fn cw721_code() -> Box<dyn Contract<Empty>> {
    Box::new(ContractWrapper::new(
        cw721_base::entry::execute,
        cw721_base::entry::instantiate,
        cw721_base::entry::query,
    ))
}

fn royalty_code() -> Box<dyn Contract<Empty>> {
    Box::new(ContractWrapper::new(
        royalty::contract::execute,
        royalty::contract::instantiate,
        royalty::contract::query,
    ))
}

/// A fresh `App` over `storage` at `block` with all five codes registered. Code lives in
/// memory (not in storage), so this is all a fork needs besides the storage copy.
fn new_app(storage: SharedStorage, block: BlockInfo, shim: ShimHandles) -> (SimApp, CodeIds) {
    let mut app: SimApp = AppBuilder::new()
        .with_storage(storage)
        .with_block(block)
        .build(|_router, _api, _storage| {});
    let ids = CodeIds {
        cw20: app.store_code(cw20_code()),
        cw721: app.store_code(cw721_code()),
        hostile: app.store_code(hostile::contract()),
        royalty: app.store_code(royalty_code()),
        market: app.store_code(MarketShim::boxed(shim)),
    };
    (app, ids)
}

/// "A", "B", .., "Z", "BA", .. : letters only (cw20 symbols must match [a-zA-Z-]{3,12}).
fn alpha(mut i: usize) -> String {
    let mut s = Vec::new();
    loop {
        s.push(b'A' + (i % 26) as u8);
        i /= 26;
        if i == 0 {
            break;
        }
    }
    s.reverse();
    String::from_utf8(s).unwrap()
}

// ---------------------------------------------------------------------------------------
// Sim
// ---------------------------------------------------------------------------------------

pub struct Sim {
    /// The simulated chain. Public for ad-hoc inspection; prefer the methods below.
    pub app: SimApp,
    /// handle to the SAME map the `app` owns
    storage: SharedStorage,
    shim: ShimHandles,
    meta: Rc<Meta>,
}

impl Sim {
    /// Build the default world.
    pub fn new_default() -> Sim {
        Sim::new(Config::default())
    }

    /// Build a world. Panics if the configuration is unusable (this is set-up code).
    pub fn new(config: Config) -> Sim {
        assert!((1..=ALL_USERS.len()).contains(&config.n_users), "n_users must be 1..=6");
        assert!(config.n_filler_denoms <= 100, "at most 100 filler denoms (zf00..zf99)");
        let users: Vec<String> = ALL_USERS[..config.n_users].iter().map(|s| s.to_string()).collect();
        let mut denoms: Vec<String> = BASE_DENOMS.iter().map(|s| s.to_string()).collect();
        denoms.extend((0..config.n_filler_denoms).map(|i| format!("zf{:02}", i)));
        if config.odd_token_ids {
            // denominations that differ from the fee denominations only by case / a suffix: never charged a fee
            denoms.extend(["UJUNOX", "ujunox2", "Uusdcx", "uusdcx.b"].iter().map(|s| s.to_string()));
        }

        let storage = SharedStorage::new();
        let shim = ShimHandles::new();
        let block = BlockInfo {
            height: config.start_height,
            time: Timestamp::from_nanos(config.start_time_ns),
            chain_id: "fuzion-sim-1".to_string(),
        };
        let (mut app, ids) = new_app(storage.clone(), block, shim.clone());
        let deplo = Addr::unchecked(DEPLOYER);

        // ---- native balances of the users
        app.init_modules(|router, _api, st| {
            for u in &users {
                let coins: Vec<Coin> = denoms.iter().map(|d| Coin::new(config.native_start, d.clone())).collect();
                router.bank.init_balance(st, &Addr::unchecked(u), coins).expect("init_balance");
            }
            if config.odd_token_ids {
                // accounts whose names differ from a user's only by letter case: different accounts
                for u in CASE_TWINS {
                    let coins: Vec<Coin> = denoms.iter().map(|d| Coin::new(1_000_000_000u128, d.clone())).collect();
                    router.bank.init_balance(st, &Addr::unchecked(u), coins).expect("init_balance twin");
                }
            }
            // the deployer holds some coins too, so that its non-owner probes are not refused for lack of funds
            let coins: Vec<Coin> = denoms.iter().map(|d| Coin::new(1_000_000_000u128, d.clone())).collect();
            router.bank.init_balance(st, &Addr::unchecked(DEPLOYER), coins).expect("init_balance deployer");
        });

        // ---- honest cw20 tokens
        let mut cw20s = Vec::new();
        for i in 0..config.n_cw20 {
            let msg = cw20_base::msg::InstantiateMsg {
                name: format!("token {}", alpha(i)),
                symbol: format!("TK{}", alpha(i)),
                decimals: 6,
                initial_balances: users
                    .iter()
                    .map(|u| Cw20Coin {
                        address: u.clone(),
                        amount: Uint128::new(config.cw20_start),
                    })
                    .filter(|c| !c.amount.is_zero())
                    .collect(),
                mint: None,
                marketing: None,
            };
            let addr = app
                .instantiate_contract(ids.cw20, deplo.clone(), &msg, &[], format!("cw20-{}", i), None)
                .expect("instantiate cw20");
            cw20s.push(addr.to_string());
        }

        // ---- honest cw721 collections + minting
        let mut cw721s = Vec::new();
        let mut minted: Vec<Vec<String>> = Vec::new();
        let per_coll = users.len() * config.nfts_per_user_per_collection;
        assert!(per_coll <= 1000, "token ids are t000..t999");
        for i in 0..config.n_cw721 {
            let msg = cw721_base::InstantiateMsg {
                name: format!("collection {}", alpha(i)),
                symbol: format!("NF{}", alpha(i)),
                minter: DEPLOYER.to_string(),
            };
            let admin = config
                .collection_admins
                .get(i)
                .cloned()
                .unwrap_or_else(|| Some(DEPLOYER.to_string()));
            let addr = app
                .instantiate_contract(ids.cw721, deplo.clone(), &msg, &[], format!("cw721-{}", i), admin)
                .expect("instantiate cw721");
            let mut ids_here = Vec::new();
            let mut next = 0usize;
            for u in &users {
                for _ in 0..config.nfts_per_user_per_collection {
                    let tid = format!("t{:03}", next);
                    next += 1;
                    let mint = cw721_base::ExecuteMsg::<cw721_base::Extension, Empty>::Mint(cw721_base::MintMsg {
                        token_id: tid.clone(),
                        owner: u.clone(),
                        token_uri: None,
                        extension: None,
                    });
                    app.execute_contract(deplo.clone(), addr.clone(), &mint, &[]).expect("mint");
                    ids_here.push(tid);
                }
            }
            if config.odd_token_ids && users.len() >= 2 && !ids_here.is_empty() {
                let n = config.nfts_per_user_per_collection.max(1);
                // ids_here[0] belongs to users[0], ids_here[n] to users[1]
                let twins = vec![
                    (format!("{} ", ids_here[0]), users[1].clone()),
                    (format!(" {}", ids_here[n.min(ids_here.len() - 1)]), users[0].clone()),
                    (ids_here[0].to_uppercase(), users[users.len() - 1].clone()),
                ];
                for (tid, owner) in twins {
                    let mint = cw721_base::ExecuteMsg::<cw721_base::Extension, Empty>::Mint(cw721_base::MintMsg { token_id: tid.clone(), owner, token_uri: None, extension: None });
                    app.execute_contract(deplo.clone(), addr.clone(), &mint, &[]).expect("mint twin");
                    ids_here.push(tid);
                }
                ids_here.sort_by(|a, b| a.as_bytes().cmp(b.as_bytes()));
            }
            cw721s.push(addr.to_string());
            minted.push(ids_here);
        }

        if config.odd_token_ids {
            // collections whose addresses are prefix-related (contract2 / contract20): a token of the shorter one
            // whose id starts with the rest of the longer address, so that address ++ id coincide
            for i in 0..cw721s.len() {
                for j in 0..cw721s.len() {
                    if i != j && cw721s[j].starts_with(cw721s[i].as_str()) && !minted[j].is_empty() {
                        let suffix = cw721s[j][cw721s[i].len()..].to_string();
                        // a token of collection j owned by users[0]
                        let theirs = minted[j].iter().find(|t| t.starts_with("t0")).cloned().unwrap();
                        let tid = format!("{}{}", suffix, theirs);
                        let mint = cw721_base::ExecuteMsg::<cw721_base::Extension, Empty>::Mint(cw721_base::MintMsg { token_id: tid.clone(), owner: users[0].clone(), token_uri: None, extension: None });
                        app.execute_contract(deplo.clone(), Addr::unchecked(cw721s[i].as_str()), &mint, &[]).expect("mint prefix twin");
                        minted[i].push(tid);
                        minted[i].sort_by(|a, b| a.as_bytes().cmp(b.as_bytes()));
                    }
                }
            }
        }

        // ---- hostile contracts (market address is set below)
        let mut hostiles = Vec::new();
        for i in 0..config.n_hostile {
            let msg = hostile::InstantiateMsg {
                market: None,
                token_info: i % 2 == 0,
                fails: false,
            };
            let addr = app
                .instantiate_contract(ids.hostile, deplo.clone(), &msg, &[], format!("hostile-{}", i), None)
                .expect("instantiate hostile");
            hostiles.push(addr.to_string());
        }

        // ---- marketplace (shim); its instantiate creates the registry through a SubMsg + reply
        let market = app
            .instantiate_contract(
                ids.market,
                deplo.clone(),
                &marketplace::msg::InstantiateMsg {
                    royalty_code_id: ids.royalty,
                },
                &[],
                "fuzion-market",
                Some(DEPLOYER.to_string()),
            )
            .expect("instantiate marketplace");
        let registry: Option<Addr> = app
            .wrap()
            .query_wasm_smart(market.clone(), &marketplace::msg::QueryMsg::GetRoyaltyAddr {})
            .expect("GetRoyaltyAddr");
        let registry = registry.expect("registry address stored by reply");

        for (i, h) in hostiles.iter().enumerate() {
            app.execute_contract(
                deplo.clone(),
                Addr::unchecked(h),
                &hostile::ExecuteMsg::SetMarket {
                    market: market.to_string(),
                },
                &[],
            )
            .expect("SetMarket");
            if i == 0 && !config.hostile_funds.is_empty() {
                let funds = config.hostile_funds.clone();
                app.init_modules(|router, _api, st| {
                    router.bank.init_balance(st, &Addr::unchecked(h), funds).expect("init_balance hostile");
                });
            }
        }

        // ---- name tables
        let mut addr_names: Vec<String> = users.clone();
        addr_names.push(DEPLOYER.to_string());
        if config.odd_token_ids {
            addr_names.extend(CASE_TWINS.iter().map(|s| s.to_string()));
        }
        addr_names.extend(PAYOUTS.iter().map(|s| s.to_string()));
        addr_names.push(COMMUNITY_POOL.to_string());
        addr_names.extend(cw20s.iter().cloned());
        addr_names.extend(cw721s.iter().cloned());
        addr_names.extend(hostiles.iter().cloned());
        addr_names.push(market.to_string());
        addr_names.push(registry.to_string());
        let mut tid_names: Vec<String> = minted.iter().flatten().cloned().collect();
        tid_names.extend(config.extra_token_ids.iter().cloned());

        let meta = Meta {
            users,
            market: market.to_string(),
            registry: registry.to_string(),
            cw20s,
            cw721s,
            hostiles,
            minted,
            addrs: NameTable::new("address", addr_names, true),
            denoms: NameTable::new("denom", denoms, false),
            tids: NameTable::new("token id", tid_names, false),
            config,
        };
        Sim {
            app,
            storage,
            shim,
            meta: Rc::new(meta),
        }
    }

    // ------------------------------------------------------------------ static facts

    pub fn meta(&self) -> &Meta {
        &self.meta
    }
    pub fn config(&self) -> &Config {
        &self.meta.config
    }
    pub fn market_addr(&self) -> &str {
        &self.meta.market
    }
    pub fn registry_addr(&self) -> &str {
        &self.meta.registry
    }
    pub fn cw20_addrs(&self) -> &[String] {
        &self.meta.cw20s
    }
    pub fn cw721_addrs(&self) -> &[String] {
        &self.meta.cw721s
    }
    pub fn hostile_addrs(&self) -> &[String] {
        &self.meta.hostiles
    }
    /// The user accounts ("alice", ...), not the deployer / payout / pool accounts.
    pub fn users(&self) -> &[String] {
        &self.meta.users
    }
    /// Minted token ids of honest collection `coll` (ascending); empty for other addresses.
    pub fn minted_ids(&self, coll: &str) -> &[String] {
        match self.meta.cw721s.iter().position(|c| c == coll) {
            Some(i) => &self.meta.minted[i],
            None => &[],
        }
    }
    pub fn is_hostile(&self, addr: &str) -> bool {
        self.meta.hostiles.iter().any(|h| h == addr)
    }
    pub fn is_contract(&self, addr: &str) -> bool {
        addr == self.meta.market
            || addr == self.meta.registry
            || self.meta.cw20s.iter().any(|a| a == addr)
            || self.meta.cw721s.iter().any(|a| a == addr)
            || self.is_hostile(addr)
    }

    // name tables (PROTOCOL §1); the `*_num` functions panic on unknown names
    pub fn addr_num(&self, s: &str) -> u64 {
        self.meta.addrs.num(s)
    }
    pub fn denom_num(&self, s: &str) -> u64 {
        self.meta.denoms.num(s)
    }
    pub fn tid_num(&self, s: &str) -> u64 {
        self.meta.tids.num(s)
    }
    pub fn addr_name(&self, n: u64) -> &str {
        self.meta.addrs.name(n)
    }
    pub fn denom_name(&self, n: u64) -> &str {
        self.meta.denoms.name(n)
    }
    pub fn tid_name(&self, n: u64) -> &str {
        self.meta.tids.name(n)
    }
    /// All addresses / denoms / token ids in table order.
    pub fn all_addrs(&self) -> &[String] {
        self.meta.addrs.all()
    }
    pub fn all_denoms(&self) -> &[String] {
        self.meta.denoms.all()
    }
    pub fn all_tids(&self) -> &[String] {
        self.meta.tids.all()
    }

    // ------------------------------------------------------------------ snapshots / forks

    /// The ENTIRE chain state (all modules, all contracts) as raw bytes. Block info is not
    /// part of it, see [`Sim::block`].
    pub fn snapshot_bytes(&self) -> RawState {
        self.storage.snapshot()
    }

    pub fn block(&self) -> BlockInfo {
        self.app.block_info()
    }

    /// Overwrite the chain state and block info (e.g. with a snapshot taken earlier from
    /// this `Sim` or one of its forks).
    pub fn restore(&mut self, state: RawState, block: BlockInfo) {
        self.storage.restore(state);
        self.app.set_block(block);
    }

    /// Independent deep copy: own storage map, own recorder, same block, same code ids.
    pub fn fork(&self) -> Sim {
        let storage = self.storage.deep_copy();
        let shim = ShimHandles::new();
        let (app, _ids) = new_app(storage.clone(), self.app.block_info(), shim.clone());
        Sim {
            app,
            storage,
            shim,
            meta: self.meta.clone(),
        }
    }

    // ------------------------------------------------------------------ applying ops

    /// Execute `op`. A failed op leaves the chain byte-identical (snapshot + restore).
    pub fn apply(&mut self, op: &Op) -> Outcome {
        self.apply_inner(op, None)
    }

    /// As [`Sim::apply`], but the k-th (0-based) message dispatched by the marketplace's
    /// top-level response is replaced by a message that is guaranteed to fail.
    pub fn apply_with_fault(&mut self, op: &Op, k: usize) -> Outcome {
        self.apply_inner(op, Some(k))
    }

    fn apply_inner(&mut self, op: &Op, fault: Option<usize>) -> Outcome {
        self.precheck(op);
        *self.shim.recorder.borrow_mut() = Default::default();
        self.shim.fail_index.set(fault);
        let pre_state = self.storage.snapshot();
        let pre_block = self.app.block_info();

        let result = guarded(|| self.exec(op));

        self.shim.fail_index.set(None);
        let rec = self.shim.recorder.borrow().clone();
        let mut out = Outcome {
            ok: false,
            msgs: rec.msgs,
            subs: rec.subs,
            cp_raw: rec.cp_raw.into_iter().map(|CpRaw { denom, amount, depositor, raw }| (denom, amount, depositor, raw)).collect(),
            err_text: None,
            panicked: false,
            dirty_on_fail: false,
            fault_injected: rec.fault_injected,
            market_calls: rec.ok_calls,
        };
        match result {
            Ok(Ok(())) => {
                out.ok = true;
                return out;
            }
            Ok(Err(e)) => out.err_text = Some(e.root_cause().to_string()),
            Err(p) => {
                out.err_text = Some(format!("panic: {}", p));
                out.panicked = true;
            }
        }
        // failure: on chain the tx is reverted. cw-multi-test has already dropped its write
        // cache; we verify that (dirty_on_fail) and restore the snapshot regardless.
        out.dirty_on_fail = !self.storage.equals(&pre_state) || self.app.block_info() != pre_block;
        self.storage.restore(pre_state);
        self.app.set_block(pre_block);
        out
    }

    /// Misuse of the harness (as opposed to a failing op) panics loudly, OUTSIDE the panic
    /// guard, so that generator bugs are not mistaken for `err` outcomes.
    fn precheck(&self, op: &Op) {
        match op {
            Op::X { sender, .. } => assert!(
                self.is_hostile(sender) || !self.is_contract(sender),
                "fzharness: Op::X sender {:?} is an honest contract; only accounts and hostile contracts can send",
                sender
            ),
            Op::ADV { d_ns, d_height } => {
                let b = self.app.block_info();
                assert!(
                    b.time.nanos().checked_add(*d_ns).is_some(),
                    "fzharness: ADV overflows the u64 nanosecond clock"
                );
                assert!(b.height.checked_add(*d_height).is_some(), "fzharness: ADV overflows the block height");
            }
            _ => {}
        }
    }

    fn exec(&mut self, op: &Op) -> AnyResult<()> {
        let market = Addr::unchecked(&self.meta.market);
        match op {
            Op::X { sender, funds, msg } => {
                let real = msg.to_msg();
                if self.is_hostile(sender) {
                    // the hostile contract sends it (and pays `funds` out of its own balance)
                    let fwd = hostile::ExecuteMsg::Forward {
                        msg: to_binary(&real)?,
                        funds: funds.clone(),
                    };
                    self.app
                        .execute_contract(Addr::unchecked(DEPLOYER), Addr::unchecked(sender), &fwd, &[])?;
                } else {
                    self.app.execute_contract(Addr::unchecked(sender), market, &real, funds)?;
                }
            }
            Op::T20 {
                token,
                sender,
                amount,
                inner,
            } => {
                let m = Cw20ExecuteMsg::Send {
                    contract: self.meta.market.clone(),
                    amount: Uint128::new(*amount),
                    msg: inner.to_cw20_binary(),
                };
                self.app
                    .execute_contract(Addr::unchecked(sender), Addr::unchecked(token), &m, &[])?;
            }
            Op::T721 {
                coll,
                sender,
                token_id,
                inner,
            } => {
                let m = Cw721ExecuteMsg::SendNft {
                    contract: self.meta.market.clone(),
                    token_id: token_id.clone(),
                    msg: inner.to_cw721_binary(),
                };
                self.app
                    .execute_contract(Addr::unchecked(sender), Addr::unchecked(coll), &m, &[])?;
            }
            Op::R { sender, msg } => {
                self.app.execute_contract(
                    Addr::unchecked(sender),
                    Addr::unchecked(&self.meta.registry),
                    &msg.to_msg(),
                    &[],
                )?;
            }
            Op::AD {
                sender,
                contract,
                new_admin,
            } => {
                let m = match new_admin {
                    Some(a) => WasmMsg::UpdateAdmin {
                        contract_addr: contract.clone(),
                        admin: a.clone(),
                    },
                    None => WasmMsg::ClearAdmin {
                        contract_addr: contract.clone(),
                    },
                };
                self.app.execute(Addr::unchecked(sender), CosmosMsg::Wasm(m))?;
            }
            Op::ADV { d_ns, d_height } => {
                // overflow was excluded by `precheck`
                let b = self.app.block_info();
                let nanos = b.time.nanos() + *d_ns;
                let height = b.height + *d_height;
                self.app.set_block(BlockInfo {
                    height,
                    time: Timestamp::from_nanos(nanos),
                    chain_id: b.chain_id,
                });
            }
        }
        Ok(())
    }

    // ------------------------------------------------------------------ hostile switches

    /// Flip the `fails` flag of hostile contract `idx` (0-based). This changes the WORLD
    /// (CONTRACTS section) outside of any op: emit a fresh `INIT` line afterwards.
    pub fn set_hostile_fails(&mut self, idx: usize, fails: bool) {
        let h = Addr::unchecked(&self.meta.hostiles[idx]);
        self.app
            .execute_contract(Addr::unchecked(DEPLOYER), h, &hostile::ExecuteMsg::SetFails { fails }, &[])
            .expect("SetFails");
    }

    /// Flip the `tokenInfo` flag of hostile contract `idx`; same caveat as `set_hostile_fails`.
    pub fn set_hostile_token_info(&mut self, idx: usize, on: bool) {
        let h = Addr::unchecked(&self.meta.hostiles[idx]);
        self.app
            .execute_contract(Addr::unchecked(DEPLOYER), h, &hostile::ExecuteMsg::SetTokenInfo { on }, &[])
            .expect("SetTokenInfo");
    }

    pub fn hostile_state(&self, idx: usize) -> hostile::HostileState {
        self.app
            .wrap()
            .query_wasm_smart(self.meta.hostiles[idx].clone(), &hostile::QueryMsg::State {})
            .expect("hostile State query")
    }

    // ------------------------------------------------------------------ marketplace queries

    /// Run a marketplace query through the real wasm query path; distinguishes a returned
    /// error from a panic.
    pub fn query(&self, q: &Query) -> QResp {
        let market = self.meta.market.clone();
        let msg = q.to_msg();
        let w = self.app.wrap();
        // every arm: Result<StdResult<typed>, panic text>
        macro_rules! run {
            ($t:ty, $wrap:expr) => {
                match guarded(|| w.query_wasm_smart::<$t>(market, &msg)) {
                    Err(p) => QResp::Panic(p),
                    Ok(Err(e)) => QResp::Err(e.to_string()),
                    Ok(Ok(v)) => $wrap(v),
                }
            };
        }
        match q {
            Query::FD => run!(FeeDenomResponse, QResp::FD),
            Query::BK { .. } => run!(MultiBucketResponse, |r: MultiBucketResponse| QResp::BK(r.buckets)),
            Query::LO { .. } | Query::WL { .. } | Query::MK { .. } => {
                run!(MultiListingResponse, |r: MultiListingResponse| QResp::LS(r.listings))
            }
            Query::RA => run!(Option<Addr>, QResp::RA),
        }
    }

    // ------------------------------------------------------------------ typed inspection

    pub fn now(&self) -> Timestamp {
        self.app.block_info().time
    }

    pub fn height(&self) -> u64 {
        self.app.block_info().height
    }

    /// A contract's private storage loaded into a `MockStorage` (keys without the
    /// simulator's namespace prefix), ready for `cw_storage_plus` accessors.
    pub fn contract_store(&self, addr: &str) -> MockStorage {
        let mut store = MockStorage::new();
        for (k, v) in self.app.dump_wasm_raw(&Addr::unchecked(addr)) {
            store.set(&k, &v);
        }
        store
    }

    /// The marketplace's complete typed state (one storage dump).
    pub fn market_state(&self) -> MarketState {
        let store = self.contract_store(&self.meta.market);
        let listings: Vec<((Addr, u64), Listing)> = listingz()
            .range(&store, None, None, Order::Ascending)
            .collect::<Result<_, _>>()
            .expect("fzharness: undecodable listing record");
        let buckets: Vec<((Addr, u64), Bucket)> = BUCKETS
            .range(&store, None, None, Order::Ascending)
            .collect::<Result<_, _>>()
            .expect("fzharness: undecodable bucket record");
        let listing_ids_used: Vec<u64> = LISTING_ID_USED
            .keys(&store, None, None, Order::Ascending)
            .collect::<Result<_, _>>()
            .expect("fzharness: undecodable LISTING_ID_USED key");
        let bucket_ids_used: Vec<u64> = BUCKET_ID_USED
            .keys(&store, None, None, Order::Ascending)
            .collect::<Result<_, _>>()
            .expect("fzharness: undecodable BUCKET_ID_USED key");
        let fee_denom = FEE_DENOM.load(&store).expect("fzharness: FEE_DENOM missing");
        let registry = ROYALTY_REGISTRY
            .may_load(&store)
            .expect("fzharness: undecodable ROYALTY_REGISTRY")
            .flatten();
        let idx_ok = listing_indexes_ok(&store, &listings);
        {
            // the typed state must account for every byte of the contract's storage
            let mut expected = MockStorage::new();
            for ((owner, id), l) in &listings {
                let _ = listingz().save(&mut expected, (owner, *id), l);
            }
            for ((owner, id), b) in &buckets {
                BUCKETS.save(&mut expected, (owner.clone(), *id), b).expect("re-save bucket");
            }
            for id in &listing_ids_used {
                LISTING_ID_USED.save(&mut expected, *id, &true).expect("re-save id");
            }
            for id in &bucket_ids_used {
                BUCKET_ID_USED.save(&mut expected, *id, &true).expect("re-save id");
            }
            FEE_DENOM.save(&mut expected, &fee_denom).expect("re-save fee denom");
            if let Some(r) = ROYALTY_REGISTRY.may_load(&store).expect("fzharness: undecodable ROYALTY_REGISTRY") {
                ROYALTY_REGISTRY.save(&mut expected, &r).expect("re-save registry");
            }
            note_unaccounted("marketplace", &store, &expected, idx_ok);
        }
        MarketState {
            listings,
            buckets,
            listing_ids_used,
            bucket_ids_used,
            fee_denom,
            registry,
            idx_ok,
        }
    }

    /// Primary listing records `((key owner, key id), Listing)` in storage order.
    pub fn listings(&self) -> Vec<((Addr, u64), Listing)> {
        self.market_state().listings
    }

    /// Bucket records `((key owner, key id), Bucket)` in storage order.
    pub fn buckets(&self) -> Vec<((Addr, u64), Bucket)> {
        self.market_state().buckets
    }

    pub fn fee_denom(&self) -> FeeDenom {
        self.market_state().fee_denom
    }

    /// Registry entries `(collection, RoyaltyInfo)` in storage order.
    pub fn registry_entries(&self) -> Vec<(Addr, RoyaltyInfo)> {
        let store = self.contract_store(&self.meta.registry);
        let entries: Vec<(Addr, RoyaltyInfo)> = royalty::state::REGISTRY
            .range(&store, None, None, Order::Ascending)
            .collect::<Result<_, _>>()
            .expect("fzharness: undecodable registry record");
        let mut expected = MockStorage::new();
        for (a, r) in &entries {
            royalty::state::REGISTRY.save(&mut expected, a, r).expect("re-save registry record");
        }
        note_unaccounted("royalty registry", &store, &expected, true);
        entries
    }

    pub fn bank_balance(&self, addr: &str, denom: &str) -> u128 {
        match self.app.wrap().query_balance(addr, denom) {
            Ok(c) => c.amount.u128(),
            Err(_) => self.bank_balances(addr).iter().find(|c| c.denom == denom).map_or(0, |c| c.amount.u128()),
        }
    }

    /// All non-zero native balances of `addr`.
    pub fn bank_balances(&self, addr: &str) -> Vec<Coin> {
        match self.app.wrap().query_all_balances(addr) {
            Ok(v) => v,
            Err(_) => {
                // the bank *query* validates the address (a name like "ALICE" is refused as not normalised) although the
                // bank keeps such accounts like any other: read the record the keeper stores, `bank` / `balances` / addr
                let mut key: Vec<u8> = vec![0, 4];
                key.extend_from_slice(b"bank");
                key.extend_from_slice(&[0, 8]);
                key.extend_from_slice(b"balances");
                key.extend_from_slice(addr.as_bytes());
                let raw = self.app.read_module(|_router, _api, storage| storage.get(&key));
                match raw {
                    None => vec![],
                    Some(bytes) => {
                        let mut coins: Vec<Coin> = cosmwasm_std::from_slice(&bytes).expect("fzharness: undecodable bank balance record");
                        coins.retain(|c| !c.amount.is_zero());
                        coins
                    }
                }
            }
        }
    }

    pub fn cw20_balance(&self, token: &str, holder: &str) -> u128 {
        let r: cw20::BalanceResponse = self
            .app
            .wrap()
            .query_wasm_smart(
                token,
                &Cw20QueryMsg::Balance {
                    address: holder.to_string(),
                },
            )
            .expect("cw20 balance query");
        r.balance.u128()
    }

    /// Owner of `tid` in honest collection `coll`; `None` if there is no such token.
    pub fn nft_owner(&self, coll: &str, tid: &str) -> Option<String> {
        let r: Result<OwnerOfResponse, _> = self.app.wrap().query_wasm_smart(
            coll,
            &Cw721QueryMsg::OwnerOf {
                token_id: tid.to_string(),
                include_expired: None,
            },
        );
        r.ok().map(|o| o.owner)
    }

    /// Every non-zero balance of honest cw20 `token`, read straight from the token's storage
    /// (`cw20_base::state::BALANCES`, the map the `Balance` query reads), in key order.
    /// Unlike per-address queries this also sees holders outside the address table.
    pub fn cw20_holders(&self, token: &str) -> Vec<(String, u128)> {
        let store = self.contract_store(token);
        cw20_base::state::BALANCES
            .range(&store, None, None, Order::Ascending)
            .map(|r| {
                let (a, v) = r.expect("fzharness: undecodable cw20 balance record");
                (a.to_string(), v.u128())
            })
            .filter(|(_, v)| *v != 0)
            .collect()
    }

    /// `(token id, owner)` of every existing token of honest collection `coll`, read straight
    /// from the collection's storage (the record the `OwnerOf` query reads), ascending ids.
    pub fn nft_owners(&self, coll: &str) -> Vec<(String, String)> {
        let store = self.contract_store(coll);
        let c = cw721_base::Cw721Contract::<cw721_base::Extension, Empty, Empty, Empty>::default();
        c.tokens
            .range(&store, None, None, Order::Ascending)
            .map(|r| {
                let (tid, info) = r.expect("fzharness: undecodable cw721 token record");
                (tid, info.owner.to_string())
            })
            .collect()
    }

    pub fn contract_admin(&self, addr: &str) -> Option<String> {
        self.app
            .wrap()
            .query_wasm_contract_info(addr)
            .expect("contract info query")
            .admin
    }

    /// Does `addr` answer `Cw20QueryMsg::TokenInfo` with a valid `TokenInfoResponse`?
    /// (Exactly the check `execute_receive` performs.)
    pub fn answers_token_info(&self, addr: &str) -> bool {
        guarded(|| {
            self.app
                .wrap()
                .query_wasm_smart::<TokenInfoResponse>(addr, &Cw20QueryMsg::TokenInfo {})
                .is_ok()
        })
        .unwrap_or(false)
    }

    /// All contracts in address-table order (CONTRACTS section of the world).
    pub fn contracts(&self) -> Vec<ContractRow> {
        let m = &self.meta;
        let mut rows = Vec::new();
        for a in m.addrs.all() {
            let kind = if *a == m.market || *a == m.registry {
                0
            } else if m.cw20s.contains(a) {
                1
            } else if m.cw721s.contains(a) {
                2
            } else if m.hostiles.contains(a) {
                3
            } else {
                continue; // an account
            };
            let fails = match m.hostiles.iter().position(|h| h == a) {
                Some(i) => self.hostile_state(i).fails,
                None => false,
            };
            rows.push(ContractRow {
                addr: a.clone(),
                admin: self.contract_admin(a),
                kind,
                token_info: self.answers_token_info(a),
                fails,
            });
        }
        rows
    }
}

// ---------------------------------------------------------------------------------------
// Completeness of the typed view: no storage the model does not account for
// ---------------------------------------------------------------------------------------

/// First storage entry found that the typed state (re-saved through the repo's own accessors)
/// does not reproduce byte for byte. `fzgen` refuses to report a clean exploration when set:
/// the model's state would no longer be the whole state of the contract.
pub static UNACCOUNTED: std::sync::Mutex<Option<String>> = std::sync::Mutex::new(None);

/// cw2's version record, written once at instantiation and never read by any handler.
const CW2_KEY: &[u8] = b"contract_info";

fn note_unaccounted(which: &str, real: &MockStorage, expected: &MockStorage, listings_ok: bool) {
    let strip = |s: &MockStorage| -> Vec<(Vec<u8>, Vec<u8>)> {
        s.range(None, None, Order::Ascending)
            .filter(|(k, _)| k.as_slice() != CW2_KEY)
            // listing index damage is reported separately (idxOk, oracle oIdx)
            .filter(|(k, _)| listings_ok || !in_listing_namespace(k))
            .collect()
    };
    let (have, want) = (strip(real), strip(expected));
    if have == want {
        return;
    }
    let odd = have.iter().find(|kv| !want.contains(kv)).or_else(|| want.iter().find(|kv| !have.contains(kv)));
    if let Some((k, v)) = odd {
        let mut g = UNACCOUNTED.lock().unwrap();
        if g.is_none() {
            *g = Some(format!(
                "{} storage is not what its typed records say: key {:?} value {:?}",
                which,
                String::from_utf8_lossy(k),
                String::from_utf8_lossy(&v[..v.len().min(80)])
            ));
        }
    }
}

// ---------------------------------------------------------------------------------------
// Index consistency (idxOk)
// ---------------------------------------------------------------------------------------

/// The storage namespaces that belong to `listingz()`: the primary map and its three indexes.
const LISTING_NAMESPACES: [&[u8]; 4] = [
    b"listings_im",
    b"listing__id",
    b"listing__finalized__date",
    b"listing__whitelisted__buyer",
];

fn in_listing_namespace(key: &[u8]) -> bool {
    LISTING_NAMESPACES.iter().any(|ns| {
        // cw-storage-plus keys start with the 2-byte big-endian length of the namespace
        key.len() >= 2 + ns.len()
            && key[0] == (ns.len() >> 8) as u8
            && key[1] == (ns.len() & 0xff) as u8
            && &key[2..2 + ns.len()] == *ns
    })
}

/// Exact check: re-save every primary record into an empty store through the repo's own
/// `listingz()` (which maintains the indexes with the repo's own index functions:
/// id -> l.id, finalized_date -> finalized seconds or 0, whitelisted_buyer -> (addr or "1", id))
/// and require that the resulting raw key/value set equals the listing-related part of the
/// real storage byte for byte. A unique-index clash while re-saving also means "not ok".
fn listing_indexes_ok(real: &MockStorage, primaries: &[((Addr, u64), Listing)]) -> bool {
    let mut expected = MockStorage::new();
    for ((owner, id), l) in primaries {
        if listingz().save(&mut expected, (owner, *id), l).is_err() {
            return false;
        }
    }
    let want: Vec<(Vec<u8>, Vec<u8>)> = expected.range(None, None, Order::Ascending).collect();
    let have: Vec<(Vec<u8>, Vec<u8>)> = real
        .range(None, None, Order::Ascending)
        .filter(|(k, _)| in_listing_namespace(k))
        .collect();
    want == have
}
