//! `History`: a `Sim` plus the text of its current world, producing protocol lines.
//! This is the convenient way to drive a history from a generator:
//!
//! ```ignore
//! let (mut h, init) = History::start(Sim::new_default());
//! println!("{init}");
//! let (out, line) = h.step(&op);        // applies to the main world
//! let (out, line) = h.probe(&op);       // applies to a throw-away fork
//! let (out, line) = h.stepf(2, &op);    // fork + fault injection on message #2
//! let (resp, line) = h.query(&q);
//! ```

use crate::encode::{encode_world, line_cpmsg, line_init, line_probe, line_query, line_stepf, line_with_post};
use crate::ops::{Op, Query};
use crate::world::{Outcome, QResp, Sim};

pub struct History {
    pub sim: Sim,
    /// `encode_world(&sim)`, kept up to date by `step` / `resync`
    world: String,
}

impl History {
    /// Returns the history and its `INIT` line.
    pub fn start(sim: Sim) -> (History, String) {
        let line = line_init(&sim);
        let world = line["INIT ".len()..].to_string();
        (History { sim, world }, line)
    }

    /// An independent copy (fork of the chain + same world text); no line is produced.
    pub fn fork(&self) -> History {
        History { sim: self.sim.fork(), world: self.world.clone() }
    }

    /// Text of the current world.
    pub fn world(&self) -> &str {
        &self.world
    }

    /// Re-encode the world after `sim` was changed behind our back (e.g.
    /// `set_hostile_fails`); returns a fresh `INIT` line for the driver.
    pub fn resync(&mut self) -> String {
        self.world = encode_world(&self.sim);
        format!("INIT {}", self.world)
    }

    /// Apply `op` to the main world: `STEP` line.
    pub fn step(&mut self, op: &Op) -> (Outcome, String) {
        let out = self.sim.apply(op);
        let (line, post_world) = line_with_post("STEP", &self.sim, op, &out, &self.world);
        self.world = post_world;
        (out, line)
    }

    /// Apply `op` to a fork (main world untouched): `PROBE` line.
    pub fn probe(&self, op: &Op) -> (Outcome, String) {
        let mut f = self.sim.fork();
        let out = f.apply(op);
        let line = line_probe(&f, op, &out, &self.world);
        (out, line)
    }

    /// Apply `op` to a fork with the k-th dispatched message forced to fail: `STEPF` line.
    pub fn stepf(&self, k: usize, op: &Op) -> (Outcome, String) {
        let mut f = self.sim.fork();
        let out = f.apply_with_fault(op, k);
        let line = line_stepf(k, &f, op, &out, &self.world);
        (out, line)
    }

    /// `QUERY` line on the main world.
    pub fn query(&self, q: &Query) -> (QResp, String) {
        let r = self.sim.query(q);
        let line = line_query(&self.sim, q, &r);
        (r, line)
    }

    /// `CPMSG` lines for every community-pool message recorded in `out`.
    pub fn cpmsg_lines(out: &Outcome) -> Vec<String> {
        out.cp_raw
            .iter()
            .map(|(denom, amount, depositor, raw)| line_cpmsg(denom, *amount, depositor, raw))
            .collect()
    }
}
