//! The marketplace SHIM: a `cw_multi_test::Contract` that forwards to the real
//! `marketplace::contract::{instantiate, execute, query, reply}` and, for `execute`,
//!
//! 1. RECORDS the messages of the returned `Response` (decoded into the `OutMsg`
//!    forms of PROTOCOL.md §5) into a shared recorder,
//! 2. REWRITES every `CosmosMsg::Stargate` (which cw-multi-test 0.16.5 cannot route:
//!    it `bail!`s) into what the chain would do with it, and
//! 3. optionally INJECTS A FAULT: the k-th message is replaced by one that is
//!    guaranteed to fail.
//!
//! The contract logic itself is untouched: the real entry points run on the real
//! storage with the real `deps`/`env`/`info`.

use crate::proto::{decode_fund_community_pool, parse_amount, FUND_COMMUNITY_POOL_TYPE_URL};
use anyhow::{anyhow, bail, Result as AnyResult};
use cosmwasm_std::{
    from_slice, BankMsg, Binary, Coin, CosmosMsg, Deps, DepsMut, Empty, Env, MessageInfo, Reply,
    ReplyOn, Response, Uint128, WasmMsg,
};
use cw20::Cw20ExecuteMsg;
use cw721::Cw721ExecuteMsg;
use cw_multi_test::Contract;
use std::cell::{Cell, RefCell};
use std::rc::Rc;

/// The account that stands in for the distribution module's community pool.
pub const COMMUNITY_POOL: &str = "community_pool";
/// Denom nobody owns; sending it always fails.
pub const MALFORMED_DENOM: &str = "__malformed__";

/// One message of the marketplace's top-level response, decoded (PROTOCOL §5 OUTMSG).
/// Addresses / denoms / token ids are kept as strings; `encode` maps them to numbers.
#[derive(Clone, Debug, PartialEq, Eq)]
pub enum OutMsg {
    /// `BankMsg::Send`
    B { to: String, coins: Vec<Coin> },
    /// `WasmMsg::Execute` (no funds) carrying `Cw20ExecuteMsg::Transfer`
    C { token: String, to: String, amount: u128 },
    /// `WasmMsg::Execute` (no funds) carrying `Cw721ExecuteMsg::TransferNft`
    F { coll: String, token_id: String, to: String },
    /// Stargate `MsgFundCommunityPool`. `well_formed` = the independent decoder accepted
    /// the bytes, every amount is a decimal u128 and there is at least one coin.
    /// When not well formed, `depositor` is empty and `coins` is empty.
    P { well_formed: bool, depositor: String, coins: Vec<Coin> },
    /// anything else
    U,
}

/// Raw material for a `CPMSG` line: a Stargate community-pool message that decoded to
/// exactly one coin (which is all `get_cp_msg` ever produces).
#[derive(Clone, Debug, PartialEq, Eq)]
pub struct CpRaw {
    pub denom: String,
    pub amount: u128,
    /// depositor exactly as decoded from the bytes
    pub depositor: String,
    /// the raw `value` bytes of the Stargate message
    pub raw: Vec<u8>,
}

/// What the shim saw during the last *successful* `marketplace::contract::execute`
/// call. Cleared by `Sim` before every op.
#[derive(Clone, Debug, Default)]
pub struct Recorded {
    pub msgs: Vec<OutMsg>,
    /// per SubMsg: (id, reply_on [0 never, 1 success, 2 error, 3 always], gas_limit.is_some())
    pub subs: Vec<(u64, u8, bool)>,
    pub cp_raw: Vec<CpRaw>,
    /// number of marketplace `execute` calls that returned `Ok` since the last clear
    /// (more than 1 would mean re-entrancy; the recorder keeps the last one)
    pub ok_calls: usize,
    /// whether the fault injector actually replaced a message
    pub fault_injected: bool,
}

/// Handles shared between `Sim` and the shim registered inside its `App`.
#[derive(Clone, Default)]
pub struct ShimHandles {
    pub recorder: Rc<RefCell<Recorded>>,
    /// `Some(k)`: replace the k-th (0-based) message of the next marketplace response
    pub fail_index: Rc<Cell<Option<usize>>>,
}

impl ShimHandles {
    pub fn new() -> Self {
        Self::default()
    }
}

pub struct MarketShim {
    handles: ShimHandles,
}

impl MarketShim {
    pub fn new(handles: ShimHandles) -> Self {
        MarketShim { handles }
    }

    pub fn boxed(handles: ShimHandles) -> Box<dyn Contract<Empty>> {
        Box::new(Self::new(handles))
    }
}

pub fn reply_on_code(r: &ReplyOn) -> u8 {
    match r {
        ReplyOn::Never => 0,
        ReplyOn::Success => 1,
        ReplyOn::Error => 2,
        ReplyOn::Always => 3,
    }
}

/// A message that fails on the simulated chain whoever sends it: nobody owns
/// `__malformed__`, so the bank refuses (and the amount is impossible anyway).
pub fn failing_msg() -> CosmosMsg<Empty> {
    CosmosMsg::Bank(BankMsg::Send {
        to_address: COMMUNITY_POOL.to_string(),
        amount: vec![Coin {
            denom: MALFORMED_DENOM.to_string(),
            amount: Uint128::MAX,
        }],
    })
}

/// Result of looking at one Stargate message.
struct StargateView {
    out: OutMsg,
    cp_raw: Option<CpRaw>,
    /// what the chain would effectively execute
    replacement: CosmosMsg<Empty>,
}

fn view_stargate(type_url: &str, value: &Binary, contract_addr: &str) -> StargateView {
    if type_url != FUND_COMMUNITY_POOL_TYPE_URL {
        // unknown / not whitelisted message type: the chain rejects it
        return StargateView {
            out: OutMsg::U,
            cp_raw: None,
            replacement: failing_msg(),
        };
    }
    let malformed = || StargateView {
        out: OutMsg::P {
            well_formed: false,
            depositor: String::new(),
            coins: vec![],
        },
        cp_raw: None,
        replacement: failing_msg(),
    };
    let Some(decoded) = decode_fund_community_pool(value.as_slice()) else {
        return malformed();
    };
    let mut coins: Vec<Coin> = Vec::with_capacity(decoded.coins.len());
    for (denom, amount) in &decoded.coins {
        let Some(a) = parse_amount(amount) else {
            return malformed();
        };
        coins.push(Coin {
            denom: denom.clone(),
            amount: Uint128::new(a),
        });
    }
    if coins.is_empty() {
        return malformed();
    }
    let cp_raw = if coins.len() == 1 {
        Some(CpRaw {
            denom: coins[0].denom.clone(),
            amount: coins[0].amount.u128(),
            depositor: decoded.depositor.clone(),
            raw: value.to_vec(),
        })
    } else {
        None
    };
    // The chain additionally requires: the signer (depositor) is the calling contract,
    // and `sdk.Coins.IsValid` (non-empty denoms, strictly ascending, amounts > 0).
    let coins_valid = coins.iter().all(|c| !c.denom.is_empty() && !c.amount.is_zero())
        && coins.windows(2).all(|w| w[0].denom < w[1].denom);
    let replacement = if decoded.depositor == contract_addr && coins_valid {
        CosmosMsg::Bank(BankMsg::Send {
            to_address: COMMUNITY_POOL.to_string(),
            amount: coins.clone(),
        })
    } else {
        failing_msg()
    };
    StargateView {
        out: OutMsg::P {
            well_formed: true,
            depositor: decoded.depositor,
            coins,
        },
        cp_raw,
        replacement,
    }
}

/// Decode a non-Stargate message into its OUTMSG form.
pub fn view_plain(msg: &CosmosMsg<Empty>) -> OutMsg {
    match msg {
        CosmosMsg::Bank(BankMsg::Send { to_address, amount }) => OutMsg::B {
            to: to_address.clone(),
            coins: amount.clone(),
        },
        CosmosMsg::Wasm(WasmMsg::Execute {
            contract_addr,
            msg,
            funds,
        }) if funds.is_empty() => {
            if let Ok(Cw20ExecuteMsg::Transfer { recipient, amount }) = from_slice::<Cw20ExecuteMsg>(msg.as_slice()) {
                OutMsg::C {
                    token: contract_addr.clone(),
                    to: recipient,
                    amount: amount.u128(),
                }
            } else if let Ok(Cw721ExecuteMsg::TransferNft { recipient, token_id }) =
                from_slice::<Cw721ExecuteMsg>(msg.as_slice())
            {
                OutMsg::F {
                    coll: contract_addr.clone(),
                    token_id,
                    to: recipient,
                }
            } else {
                OutMsg::U
            }
        }
        _ => OutMsg::U,
    }
}

impl Contract<Empty> for MarketShim {
    fn execute(&self, deps: DepsMut, env: Env, info: MessageInfo, msg: Vec<u8>) -> AnyResult<Response<Empty>> {
        // exactly what ContractWrapper does: parse, call, map the error
        let parsed: marketplace::msg::ExecuteMsg = from_slice(&msg)?;
        let contract_addr = env.contract.address.to_string();
        let mut resp = marketplace::contract::execute(deps, env, info, parsed).map_err(|e| anyhow!(e))?;

        let mut rec = Recorded {
            ok_calls: self.handles.recorder.borrow().ok_calls + 1,
            ..Recorded::default()
        };
        let fail_index = self.handles.fail_index.get();

        for (i, sub) in resp.messages.iter_mut().enumerate() {
            rec.subs.push((sub.id, reply_on_code(&sub.reply_on), sub.gas_limit.is_some()));
            // (a) record, (b) rewrite Stargate
            if let CosmosMsg::Stargate { type_url, value } = &sub.msg {
                let view = view_stargate(type_url, value, &contract_addr);
                rec.msgs.push(view.out);
                if let Some(cp) = view.cp_raw {
                    rec.cp_raw.push(cp);
                }
                sub.msg = view.replacement;
            } else {
                rec.msgs.push(view_plain(&sub.msg));
            }
            // (c) fault injection (the SubMsg envelope id / reply_on / gas_limit is kept)
            if fail_index == Some(i) {
                sub.msg = failing_msg();
                rec.fault_injected = true;
            }
        }
        *self.handles.recorder.borrow_mut() = rec;
        Ok(resp)
    }

    fn instantiate(&self, deps: DepsMut, env: Env, info: MessageInfo, msg: Vec<u8>) -> AnyResult<Response<Empty>> {
        let parsed: marketplace::msg::InstantiateMsg = from_slice(&msg)?;
        marketplace::contract::instantiate(deps, env, info, parsed).map_err(|e| anyhow!(e))
    }

    fn query(&self, deps: Deps, env: Env, msg: Vec<u8>) -> AnyResult<Binary> {
        let parsed: marketplace::msg::QueryMsg = from_slice(&msg)?;
        marketplace::contract::query(deps, env, parsed).map_err(|e| anyhow!(e))
    }

    fn reply(&self, deps: DepsMut, env: Env, msg: Reply) -> AnyResult<Response<Empty>> {
        marketplace::contract::reply(deps, env, msg).map_err(|e| anyhow!(e))
    }

    fn sudo(&self, _deps: DepsMut, _env: Env, _msg: Vec<u8>) -> AnyResult<Response<Empty>> {
        bail!("sudo not implemented for contract")
    }

    fn migrate(&self, _deps: DepsMut, _env: Env, _msg: Vec<u8>) -> AnyResult<Response<Empty>> {
        bail!("migrate not implemented for contract")
    }
}
