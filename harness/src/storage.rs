//! `SharedStorage`: the whole chain state of a `cw_multi_test::App` in one
//! reference-counted `BTreeMap`, so that the harness can snapshot it, restore it,
//! copy it into a fork and byte-compare it from the outside while the `App` owns
//! "the" storage object.
//!
//! NOTE: block info (time / height) is *not* part of the storage, it lives in the
//! `App` itself; `Sim` handles that separately.

use cosmwasm_std::{Order, Record, Storage};
use std::cell::RefCell;
use std::collections::BTreeMap;
use std::ops::Bound;
use std::rc::Rc;

/// Raw chain state: every key/value pair of every module and contract.
pub type RawState = BTreeMap<Vec<u8>, Vec<u8>>;

/// A cheaply clonable *handle* to one shared map. `clone()` gives another handle to
/// the SAME map; use [`SharedStorage::deep_copy`] for an independent copy.
#[derive(Clone, Default)]
pub struct SharedStorage(pub Rc<RefCell<RawState>>);

impl SharedStorage {
    pub fn new() -> Self {
        Self::default()
    }

    /// Independent storage with the given content.
    pub fn from_state(state: RawState) -> Self {
        SharedStorage(Rc::new(RefCell::new(state)))
    }

    /// An owned copy of the complete state.
    pub fn snapshot(&self) -> RawState {
        self.0.borrow().clone()
    }

    /// Replace the complete state.
    pub fn restore(&self, state: RawState) {
        *self.0.borrow_mut() = state;
    }

    /// New, independent storage with a copy of the current content.
    pub fn deep_copy(&self) -> Self {
        Self::from_state(self.snapshot())
    }

    /// Byte-compare the current content with `other` without cloning.
    pub fn equals(&self, other: &RawState) -> bool {
        *self.0.borrow() == *other
    }

    pub fn len(&self) -> usize {
        self.0.borrow().len()
    }

    pub fn is_empty(&self) -> bool {
        self.0.borrow().is_empty()
    }
}

impl Storage for SharedStorage {
    fn get(&self, key: &[u8]) -> Option<Vec<u8>> {
        self.0.borrow().get(key).cloned()
    }

    fn set(&mut self, key: &[u8], value: &[u8]) {
        // same rule as cosmwasm's MemoryStorage: empty values are not representable on chain
        if value.is_empty() {
            panic!("SharedStorage: attempt to store an empty value (not supported by cosmwasm backends)");
        }
        self.0.borrow_mut().insert(key.to_vec(), value.to_vec());
    }

    fn remove(&mut self, key: &[u8]) {
        self.0.borrow_mut().remove(key);
    }

    /// `start` inclusive, `end` exclusive; an inverted or empty interval is empty.
    /// The result is collected (owned), so no borrow of the map outlives this call.
    fn range<'a>(
        &'a self,
        start: Option<&[u8]>,
        end: Option<&[u8]>,
        order: Order,
    ) -> Box<dyn Iterator<Item = Record> + 'a> {
        if let (Some(s), Some(e)) = (start, end) {
            if s >= e {
                return Box::new(std::iter::empty());
            }
        }
        let lo: Bound<&[u8]> = start.map_or(Bound::Unbounded, Bound::Included);
        let hi: Bound<&[u8]> = end.map_or(Bound::Unbounded, Bound::Excluded);
        let map = self.0.borrow();
        let iter = map.range::<[u8], _>((lo, hi)).map(|(k, v)| (k.clone(), v.clone()));
        let items: Vec<Record> = match order {
            Order::Ascending => iter.collect(),
            Order::Descending => iter.rev().collect(),
        };
        Box::new(items.into_iter())
    }
}

#[cfg(test)]
mod tests {
    use super::*;

    #[test]
    fn range_both_orders_and_bounds() {
        let mut s = SharedStorage::new();
        for k in [b"a", b"b", b"c", b"d"] {
            s.set(k, b"x");
        }
        let asc: Vec<_> = s.range(Some(b"b"), Some(b"d"), Order::Ascending).map(|r| r.0).collect();
        assert_eq!(asc, vec![b"b".to_vec(), b"c".to_vec()]);
        let desc: Vec<_> = s.range(None, Some(b"c"), Order::Descending).map(|r| r.0).collect();
        assert_eq!(desc, vec![b"b".to_vec(), b"a".to_vec()]);
        assert_eq!(s.range(Some(b"d"), Some(b"a"), Order::Ascending).count(), 0);
        assert_eq!(s.range(Some(b"b"), Some(b"b"), Order::Ascending).count(), 0);
        let snap = s.snapshot();
        s.remove(b"a");
        assert!(!s.equals(&snap));
        s.restore(snap.clone());
        assert!(s.equals(&snap));
    }
}
