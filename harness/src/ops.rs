//! Operations, messages and queries of PROTOCOL.md §4/§6 as Rust values holding real
//! strings / typed amounts, plus their conversion into the contracts' real message types.

use cosmwasm_std::{to_binary, Binary, Coin, Uint128};
use cw20::Cw20ReceiveMsg;
use cw721::Cw721ReceiveMsg;
use marketplace::msg::{
    CreateListingMsg, Cw20CoinUnverified, ExecuteMsg as MarketExecuteMsg, GenericBalanceUnvalidated,
    NftUnverified, QueryMsg as MarketQueryMsg, ReceiveMsg, ReceiveNftMsg,
};
use royalties::msg::ExecuteMsg as RoyaltyExecuteMsg;

/// The string used for every address that must NOT validate (upper case + blank).
pub const INVALID_ADDR: &str = "INVALID ADDR";

/// A `String` field that the contract passes through `addr_validate`.
#[derive(Clone, Debug, PartialEq, Eq)]
pub enum RawAddr {
    /// an address of the world's address table (validates)
    Valid(String),
    /// sent as [`INVALID_ADDR`]
    Invalid,
    /// another string that does not validate either (e.g. "1", "", "ab", "ALICE"); encoded like `Invalid`
    Odd(String),
}

impl RawAddr {
    pub fn valid(s: impl Into<String>) -> Self {
        RawAddr::Valid(s.into())
    }

    /// The string that actually goes on the wire.
    pub fn wire(&self) -> String {
        match self {
            RawAddr::Valid(s) => s.clone(),
            RawAddr::Invalid => INVALID_ADDR.to_string(),
            RawAddr::Odd(s) => s.clone(),
        }
    }
}

/// `GenericBalanceUnvalidated` with typed amounts.
#[derive(Clone, Debug, Default, PartialEq, Eq)]
pub struct RawGBal {
    pub native: Vec<Coin>,
    pub cw20: Vec<(RawAddr, u128)>,
    pub nfts: Vec<(RawAddr, String)>,
}

impl RawGBal {
    pub fn natives(native: Vec<Coin>) -> Self {
        RawGBal {
            native,
            ..Default::default()
        }
    }

    pub fn to_msg(&self) -> GenericBalanceUnvalidated {
        GenericBalanceUnvalidated {
            native: self.native.clone(),
            cw20: self
                .cw20
                .iter()
                .map(|(a, amt)| Cw20CoinUnverified {
                    address: a.wire(),
                    amount: Uint128::new(*amt),
                })
                .collect(),
            nfts: self
                .nfts
                .iter()
                .map(|(a, tid)| NftUnverified {
                    contract_address: a.wire(),
                    token_id: tid.clone(),
                })
                .collect(),
        }
    }
}

/// `CreateListingMsg`
#[derive(Clone, Debug, PartialEq, Eq)]
pub struct Create {
    pub ask: RawGBal,
    pub whitelist: Option<RawAddr>,
}

impl Create {
    pub fn to_msg(&self) -> CreateListingMsg {
        CreateListingMsg {
            ask: self.ask.to_msg(),
            whitelisted_buyer: self.whitelist.as_ref().map(RawAddr::wire),
        }
    }
}

/// The inner (hook) message of a cw20 `Send` / cw721 `SendNft`. The tags stand for the
/// `*Cw20` variant when travelling through `T20` / `RC` and for the `*Cw721` variant
/// when travelling through `T721` / `RN`.
#[derive(Clone, Debug, PartialEq, Eq)]
pub enum Inner {
    /// bytes that do not parse (`b"not json"`)
    Bad,
    CL { id: u64, create: Create },
    AL { id: u64 },
    CB { id: u64 },
    AB { id: u64 },
}

impl Inner {
    /// Binary for the cw20 entry point (`ReceiveMsg`).
    pub fn to_cw20_binary(&self) -> Binary {
        let m = match self {
            Inner::Bad => return Binary::from(b"not json".as_slice()),
            Inner::CL { id, create } => ReceiveMsg::CreateListingCw20 {
                listing_id: *id,
                create_msg: create.to_msg(),
            },
            Inner::AL { id } => ReceiveMsg::AddToListingCw20 { listing_id: *id },
            Inner::CB { id } => ReceiveMsg::CreateBucketCw20 { bucket_id: *id },
            Inner::AB { id } => ReceiveMsg::AddToBucketCw20 { bucket_id: *id },
        };
        to_binary(&m).expect("serialize ReceiveMsg")
    }

    /// Binary for the cw721 entry point (`ReceiveNftMsg`).
    pub fn to_cw721_binary(&self) -> Binary {
        let m = match self {
            Inner::Bad => return Binary::from(b"not json".as_slice()),
            Inner::CL { id, create } => ReceiveNftMsg::CreateListingCw721 {
                listing_id: *id,
                create_msg: create.to_msg(),
            },
            Inner::AL { id } => ReceiveNftMsg::AddToListingCw721 { listing_id: *id },
            Inner::CB { id } => ReceiveNftMsg::CreateBucketCw721 { bucket_id: *id },
            Inner::AB { id } => ReceiveNftMsg::AddToBucketCw721 { bucket_id: *id },
        };
        to_binary(&m).expect("serialize ReceiveNftMsg")
    }
}

/// A message executed directly on the marketplace (PROTOCOL `MSG`).
#[derive(Clone, Debug, PartialEq, Eq)]
pub enum MMsg {
    /// FeeCycle
    FC,
    /// CreateListing
    CL { id: u64, create: Create },
    /// AddToListing
    AL { id: u64 },
    /// ChangeAsk
    CA { id: u64, ask: RawGBal },
    /// Finalize
    FI { id: u64, seconds: u64 },
    /// DeleteListing
    DL { id: u64 },
    /// CreateBucket
    CB { id: u64 },
    /// AddToBucket
    AB { id: u64 },
    /// RemoveBucket
    RB { id: u64 },
    /// BuyListing
    BL { listing_id: u64, bucket_id: u64 },
    /// WithdrawPurchased
    WP { id: u64 },
    /// `Receive(Cw20ReceiveMsg{sender, amount, msg})` sent DIRECTLY (forged unless the
    /// caller really is a cw20 that moved the tokens)
    RC { sender: RawAddr, amount: u128, inner: Inner },
    /// `ReceiveNft(Cw721ReceiveMsg{sender, token_id, msg})` sent directly
    RN { sender: RawAddr, token_id: String, inner: Inner },
}

impl MMsg {
    pub fn to_msg(&self) -> MarketExecuteMsg {
        match self {
            MMsg::FC => MarketExecuteMsg::FeeCycle {},
            MMsg::CL { id, create } => MarketExecuteMsg::CreateListing {
                listing_id: *id,
                create_msg: create.to_msg(),
            },
            MMsg::AL { id } => MarketExecuteMsg::AddToListing { listing_id: *id },
            MMsg::CA { id, ask } => MarketExecuteMsg::ChangeAsk {
                listing_id: *id,
                new_ask: ask.to_msg(),
            },
            MMsg::FI { id, seconds } => MarketExecuteMsg::Finalize {
                listing_id: *id,
                seconds: *seconds,
            },
            MMsg::DL { id } => MarketExecuteMsg::DeleteListing { listing_id: *id },
            MMsg::CB { id } => MarketExecuteMsg::CreateBucket { bucket_id: *id },
            MMsg::AB { id } => MarketExecuteMsg::AddToBucket { bucket_id: *id },
            MMsg::RB { id } => MarketExecuteMsg::RemoveBucket { bucket_id: *id },
            MMsg::BL { listing_id, bucket_id } => MarketExecuteMsg::BuyListing {
                listing_id: *listing_id,
                bucket_id: *bucket_id,
            },
            MMsg::WP { id } => MarketExecuteMsg::WithdrawPurchased { listing_id: *id },
            MMsg::RC { sender, amount, inner } => MarketExecuteMsg::Receive(Cw20ReceiveMsg {
                sender: sender.wire(),
                amount: Uint128::new(*amount),
                msg: inner.to_cw20_binary(),
            }),
            MMsg::RN {
                sender,
                token_id,
                inner,
            } => MarketExecuteMsg::ReceiveNft(Cw721ReceiveMsg {
                sender: sender.wire(),
                token_id: token_id.clone(),
                msg: inner.to_cw721_binary(),
            }),
        }
    }
}

/// A message executed on the royalty registry (PROTOCOL `ROYMSG`).
#[derive(Clone, Debug, PartialEq, Eq)]
pub enum RMsg {
    Reg { nft: RawAddr, payout: RawAddr, bps: u64 },
    Upd { nft: RawAddr, payout: Option<RawAddr>, bps: Option<u64> },
    Rem { nft: RawAddr },
}

impl RMsg {
    pub fn to_msg(&self) -> RoyaltyExecuteMsg {
        match self {
            RMsg::Reg { nft, payout, bps } => RoyaltyExecuteMsg::Register {
                nft_contract: nft.wire(),
                payout_addr: payout.wire(),
                bps: *bps,
            },
            RMsg::Upd { nft, payout, bps } => RoyaltyExecuteMsg::Update {
                nft_contract: nft.wire(),
                new_payout_addr: payout.as_ref().map(RawAddr::wire),
                new_bps: *bps,
            },
            RMsg::Rem { nft } => RoyaltyExecuteMsg::Remove { nft_contract: nft.wire() },
        }
    }
}

/// One step of a history (PROTOCOL `OP`).
#[derive(Clone, Debug, PartialEq, Eq)]
pub enum Op {
    /// `sender` (an account, or a hostile contract through its `Forward`) executes `msg`
    /// on the marketplace with `funds` attached.
    X { sender: String, funds: Vec<Coin>, msg: MMsg },
    /// `sender` executes cw20 `Send{contract: market, amount, msg: inner}` on `token`.
    T20 { token: String, sender: String, amount: u128, inner: Inner },
    /// `sender` executes cw721 `SendNft{contract: market, token_id, msg: inner}` on `coll`.
    T721 { coll: String, sender: String, token_id: String, inner: Inner },
    /// `sender` executes `msg` on the registry (no funds).
    R { sender: String, msg: RMsg },
    /// `WasmMsg::UpdateAdmin` (`Some`) / `ClearAdmin` (`None`) on `contract` by `sender`.
    AD { sender: String, contract: String, new_admin: Option<String> },
    /// block time += `d_ns` nanoseconds, height += `d_height`.
    ADV { d_ns: u64, d_height: u64 },
}

/// A marketplace query (PROTOCOL `Q`).
#[derive(Clone, Debug, PartialEq, Eq)]
pub enum Query {
    /// GetFeeDenom
    FD,
    /// GetBuckets
    BK { owner: RawAddr, page: u8 },
    /// GetListingsByOwner
    LO { owner: RawAddr, page: u8 },
    /// GetListingsByWhitelist
    WL { owner: RawAddr },
    /// GetListingsForMarket
    MK { page: u8 },
    /// GetRoyaltyAddr
    RA,
}

impl Query {
    pub fn to_msg(&self) -> MarketQueryMsg {
        match self {
            Query::FD => MarketQueryMsg::GetFeeDenom {},
            Query::BK { owner, page } => MarketQueryMsg::GetBuckets {
                bucket_owner: owner.wire(),
                page_num: *page,
            },
            Query::LO { owner, page } => MarketQueryMsg::GetListingsByOwner {
                owner: owner.wire(),
                page_num: *page,
            },
            Query::WL { owner } => MarketQueryMsg::GetListingsByWhitelist { owner: owner.wire() },
            Query::MK { page } => MarketQueryMsg::GetListingsForMarket { page_num: *page },
            Query::RA => MarketQueryMsg::GetRoyaltyAddr {},
        }
    }
}

#[cfg(test)]
mod tests {
    use super::*;
    use cosmwasm_std::from_binary;

    #[test]
    fn inner_bad_does_not_parse() {
        assert!(from_binary::<ReceiveMsg>(&Inner::Bad.to_cw20_binary()).is_err());
        assert!(from_binary::<ReceiveNftMsg>(&Inner::Bad.to_cw721_binary()).is_err());
        let ok = Inner::AB { id: 7 };
        assert_eq!(
            from_binary::<ReceiveMsg>(&ok.to_cw20_binary()).unwrap(),
            ReceiveMsg::AddToBucketCw20 { bucket_id: 7 }
        );
        assert_eq!(
            from_binary::<ReceiveNftMsg>(&ok.to_cw721_binary()).unwrap(),
            ReceiveNftMsg::AddToBucketCw721 { bucket_id: 7 }
        );
    }
}
