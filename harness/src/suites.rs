//! Scripted and enumerated families: corpus (spike histories), boundary suite, exhaustive
//! registry histories, paging, competing-op orderings, pure-function lines.

use std::io::Write;

use cosmwasm_std::testing::mock_dependencies;
use cosmwasm_std::{Addr, Coin, Uint128};
use cw20::Cw20CoinVerified;
use marketplace::msg::{Cw20CoinUnverified, GenericBalanceUnvalidated, NftUnverified};
use marketplace::state::{genbal_cmp, FeeDenom, GenericBalance, Nft};
use royalties::RoyaltyInfo;

use crate::encode::{encode_gbal, encode_outmsg, encode_raw_gbal, encode_royinfo};
use crate::gen::*;
use crate::ops::{Create, Inner, MMsg, Op, Query, RMsg, RawAddr, RawGBal};
use crate::shim::view_plain;
use crate::world::{Config, Sim, DEPLOYER, JUNO_DENOM, PAYOUTS, USDC_DENOM};

fn natives(v: &[(u128, &str)]) -> Vec<Coin> {
    v.iter().map(|(a, d)| coin(*a, d)).collect()
}
fn ask_native(v: &[(u128, &str)]) -> RawGBal {
    RawGBal::natives(natives(v))
}
fn create(v: &[(u128, &str)]) -> Create {
    Create { ask: ask_native(v), whitelist: None }
}
fn va(s: &str) -> RawAddr {
    RawAddr::valid(s)
}

/// The funds of bucket `(owner, id)`. When the implementation under test did not produce that bucket (a purchase that
/// should have happened was refused, or the bucket was filed elsewhere) the scenario goes on with a stand-in: the steps
/// that follow are still compared with the model one by one, and the deviation itself was reported at the step where
/// it happened. Scenario code never panics on what the implementation does.
fn funds_of(g: &Gen, owner: &str, id: u64) -> GenericBalance {
    g.h.sim
        .buckets()
        .into_iter()
        .find(|((o, i), _)| o.as_str() == owner && *i == id)
        .map(|(_, b)| b.funds)
        .unwrap_or_else(|| GenericBalance { native: natives(&[(1, "uosmo")]), cw20: vec![], nfts: vec![] })
}

// ---------------------------------------------------------------------------------------
// corpus: the spike histories of DESIGN.md Appendix B (D1..D6)
// ---------------------------------------------------------------------------------------

pub fn corpus(idx: usize, seed: u64, w: &mut dyn Write, thorough: bool) -> Option<Stats> {
    match idx {
        0 => {
            // D1: pending fee of a proceeds bucket when the bucket is reused to buy
            let mut g = Gen::start(small_world(), "corpus:0 D1-fee-overwrite", seed, w, thorough);
            g.step(&x("alice", natives(&[(1000, "uatom")]), MMsg::CL { id: 1, create: create(&[(1000, JUNO_DENOM)]) }));
            g.step(&x("alice", vec![], MMsg::FI { id: 1, seconds: 600 }));
            g.step(&x("bobby", natives(&[(1000, JUNO_DENOM)]), MMsg::CB { id: 1 }));
            g.step(&x("bobby", vec![], MMsg::BL { listing_id: 1, bucket_id: 1 }));
            g.step(&x("carol", natives(&[(7, "uatom")]), MMsg::CL { id: 2, create: create(&[(995, JUNO_DENOM)]) }));
            g.step(&x("carol", vec![], MMsg::FI { id: 2, seconds: 600 }));
            g.step(&x("alice", vec![], MMsg::BL { listing_id: 2, bucket_id: 1 }));
            g.step(&x("bobby", vec![], MMsg::WP { id: 1 }));
            g.step(&x("alice", vec![], MMsg::WP { id: 2 }));
            g.step(&x("carol", vec![], MMsg::RB { id: 1 }));
            g.battery_drain();
            // a longer reuse chain with a top-up in between and a denomination switch
            g.step(&x("alice", natives(&[(50, "uosmo")]), MMsg::CL { id: 3, create: create(&[(40_000, JUNO_DENOM), (40_000, USDC_DENOM)]) }));
            g.step(&x("alice", vec![], MMsg::FI { id: 3, seconds: 1_209_600 }));
            g.step(&x("bobby", natives(&[(40_000, JUNO_DENOM), (40_000, USDC_DENOM)]), MMsg::CB { id: 3 }));
            g.step(&x("bobby", vec![], MMsg::BL { listing_id: 3, bucket_id: 3 }));
            g.step(&Op::ADV { d_ns: 604_801_000_000_000, d_height: 100_000 });
            g.step(&x("david", vec![], MMsg::FC));
            g.step(&x("alice", natives(&[(200, JUNO_DENOM)]), MMsg::AB { id: 3 }));
            g.step(&x("carol", natives(&[(9, "uatom")]), MMsg::CL { id: 4, create: create(&[(40_000, JUNO_DENOM), (40_000, USDC_DENOM)]) }));
            g.step(&x("carol", vec![], MMsg::FI { id: 4, seconds: 600 }));
            g.step(&x("alice", vec![], MMsg::BL { listing_id: 4, bucket_id: 3 }));
            g.battery_queries();
            g.battery_faults();
            g.battery_drain();
            // reuse where the second purchase computes NO new fee on the bucket side: 200 ujunox leaves 199
            g.step(&x("david", natives(&[(3, "uosmo")]), MMsg::CL { id: 5, create: create(&[(200, JUNO_DENOM)]) }));
            g.step(&x("david", vec![], MMsg::FI { id: 5, seconds: 600 }));
            g.step(&x("bobby", natives(&[(200, JUNO_DENOM)]), MMsg::CB { id: 5 }));
            g.step(&x("bobby", vec![], MMsg::BL { listing_id: 5, bucket_id: 5 }));
            g.step(&x("carol", natives(&[(3, "uosmo")]), MMsg::CL { id: 6, create: create(&[(199, JUNO_DENOM)]) }));
            g.step(&x("carol", vec![], MMsg::FI { id: 6, seconds: 600 }));
            g.step(&x("david", vec![], MMsg::BL { listing_id: 6, bucket_id: 5 }));
            g.step(&x("carol", vec![], MMsg::RB { id: 5 }));
            // … and where the fee denomination was switched between the two purchases (fee-bearing bucket of the OTHER denomination only)
            g.step(&x("david", natives(&[(3, "uosmo")]), MMsg::CL { id: 7, create: create(&[(5000, USDC_DENOM)]) }));
            g.step(&x("david", vec![], MMsg::FI { id: 7, seconds: 1_209_600 }));
            g.step(&x("bobby", natives(&[(5000, USDC_DENOM)]), MMsg::CB { id: 7 }));
            g.step(&x("bobby", vec![], MMsg::BL { listing_id: 7, bucket_id: 7 }));
            g.step(&Op::ADV { d_ns: 604_801_000_000_000, d_height: 100_000 });
                        g.step(&x("alice", vec![], MMsg::FC));
            g.step(&x("carol", natives(&[(3, "uosmo")]), MMsg::CL { id: 8, create: create(&[(4975, USDC_DENOM)]) }));
            g.step(&x("carol", vec![], MMsg::FI { id: 8, seconds: 600 }));
            g.step(&x("david", vec![], MMsg::BL { listing_id: 8, bucket_id: 7 }));
            g.step(&x("carol", vec![], MMsg::RB { id: 7 }));
            // NFT / cw20 / native top-up of a proceeds bucket that carries a fee, then withdrawal
            g.step(&x("david", natives(&[(3, "uosmo"), (2000, JUNO_DENOM), (3000, USDC_DENOM)]), MMsg::CL { id: 9, create: create(&[(1000, JUNO_DENOM), (1000, USDC_DENOM)]) }));
            g.step(&x("david", vec![], MMsg::FI { id: 9, seconds: 600 }));
            g.step(&x("bobby", natives(&[(1000, JUNO_DENOM), (1000, USDC_DENOM)]), MMsg::CB { id: 9 }));
            g.step(&x("bobby", vec![], MMsg::BL { listing_id: 9, bucket_id: 9 }));
            let c0 = g.h.sim.cw721_addrs()[0].clone();
            let t0 = g.h.sim.cw20_addrs()[0].clone();
            let tid = g.h.sim.nft_owners(&c0).into_iter().find(|(_, o)| o == "david").map(|(t, _)| t).unwrap_or_else(|| "t000".to_string());
            g.step(&Op::T721 { coll: c0, sender: "david".into(), token_id: tid, inner: Inner::AB { id: 9 } });
            g.step(&Op::T20 { token: t0, sender: "david".into(), amount: 7, inner: Inner::AB { id: 9 } });
            g.step(&x("david", natives(&[(5, JUNO_DENOM), (6, "uatom")]), MMsg::AB { id: 9 }));
            g.battery_faults();
            g.step(&x("david", vec![], MMsg::RB { id: 9 }));
            // a purchased, fee-bearing listing whose original expiration has passed: its buyer must still
            // take it with WithdrawPurchased (fee to the pool), never with DeleteListing
            g.battery_owner_exits();
            g.step(&Op::ADV { d_ns: 700_000_000_000, d_height: 100 });
            g.step(&x("bobby", vec![], MMsg::DL { id: 9 }));
            g.step(&x("david", vec![], MMsg::DL { id: 9 }));
            g.battery_owner_exits();
            g.step(&x("bobby", vec![], MMsg::WP { id: 9 }));
            g.battery_drain();
            // a fee-bearing proceeds bucket buys a listing that contains an NFT (seller-side royalty branch taken,
            // first with an unregistered, then with a registered collection): the pending fee is deposited by that purchase
            let c1 = g.h.sim.cw721_addrs()[1].clone();
            for (round, base) in [20u64, 30].iter().enumerate() {
                if round == 1 {
                    g.step(&Op::R { sender: DEPLOYER.into(), msg: RMsg::Reg { nft: va(&c1), payout: va(PAYOUTS[0]), bps: 300 } });
                }
                let (l1, l2) = (*base, *base + 1);
                g.step(&x("carol", natives(&[(3, "uosmo")]), MMsg::CL { id: l1, create: create(&[(1000, JUNO_DENOM), (1000, USDC_DENOM)]) }));
                g.step(&x("carol", vec![], MMsg::FI { id: l1, seconds: 600 }));
                g.step(&x("bobby", natives(&[(1000, JUNO_DENOM), (1000, USDC_DENOM)]), MMsg::CB { id: l1 }));
                g.step(&x("bobby", vec![], MMsg::BL { listing_id: l1, bucket_id: l1 }));
                let held = funds_of(&g, "carol", l1);
                let tid = g.h.sim.nft_owners(&c1).into_iter().find(|(_, o)| o == "alice").map(|(t, _)| t).unwrap_or_else(|| "t000".to_string());
                g.step(&Op::T721 { coll: c1.clone(), sender: "alice".into(), token_id: tid, inner: Inner::CL { id: l2, create: Create { ask: gbal_to_raw(&held), whitelist: None } } });
                g.step(&x("alice", natives(&[(2, "uosmo")]), MMsg::AL { id: l2 }));
                g.step(&x("alice", vec![], MMsg::FI { id: l2, seconds: 600 }));
                g.step(&x("carol", vec![], MMsg::BL { listing_id: l2, bucket_id: l1 }));
                g.battery_faults();
                g.step(&x("alice", vec![], MMsg::RB { id: l1 }));
                g.step(&x("carol", vec![], MMsg::WP { id: l2 }));
                g.step(&x("bobby", vec![], MMsg::WP { id: l1 }));
            }
            g.battery_drain();
            // the holder of a fee-bearing proceeds bucket buys his OWN listing with it: the pending fee is deposited by that
            // purchase like by any other
            g.step(&x("carol", natives(&[(2, "uosmo")]), MMsg::CL { id: 36, create: create(&[(3000, JUNO_DENOM), (3000, USDC_DENOM)]) }));
            g.step(&x("carol", vec![], MMsg::FI { id: 36, seconds: 600 }));
            g.step(&x("david", natives(&[(3000, JUNO_DENOM), (3000, USDC_DENOM)]), MMsg::CB { id: 36 }));
            g.step(&x("david", vec![], MMsg::BL { listing_id: 36, bucket_id: 36 }));
            let held = funds_of(&g, "carol", 36);
            g.step(&x("carol", natives(&[(4, "uosmo")]), MMsg::CL { id: 37, create: Create { ask: gbal_to_raw(&held), whitelist: None } }));
            g.step(&x("carol", vec![], MMsg::FI { id: 37, seconds: 600 }));
            g.step(&x("carol", vec![], MMsg::BL { listing_id: 37, bucket_id: 36 }));
            g.battery_faults();
            g.step(&x("carol", vec![], MMsg::WP { id: 37 }));
            g.step(&x("carol", vec![], MMsg::RB { id: 36 }));
            g.step(&x("david", vec![], MMsg::WP { id: 36 }));
            // one bucket travels through three purchases without being withdrawn (a fee is pending at each hop and is
            // deposited by the next purchase), topped up between hops so that it matches the next ask
            g.step(&x("alice", natives(&[(1, "uosmo")]), MMsg::CL { id: 41, create: create(&[(2000, JUNO_DENOM), (2000, USDC_DENOM)]) }));
            g.step(&x("alice", vec![], MMsg::FI { id: 41, seconds: 600 }));
            g.step(&x("bobby", natives(&[(2000, JUNO_DENOM), (2000, USDC_DENOM)]), MMsg::CB { id: 41 }));
            g.step(&x("bobby", vec![], MMsg::BL { listing_id: 41, bucket_id: 41 }));
            let mut holder = "alice";
            for (hop, (seller, lid)) in [("carol", 42u64), ("david", 43), ("bobby", 44)].iter().enumerate() {
                let held = funds_of(&g, holder, 41);
                g.step(&x(seller, natives(&[(1 + hop as u128, "uosmo")]), MMsg::CL { id: *lid, create: Create { ask: gbal_to_raw(&held), whitelist: if hop == 1 { Some(RawAddr::valid(holder)) } else { None } } }));
                g.step(&x(seller, vec![], MMsg::FI { id: *lid, seconds: 600 }));
                g.step(&x(holder, vec![], MMsg::BL { listing_id: *lid, bucket_id: 41 }));
                g.battery_faults();
                holder = seller;
            }
            g.battery_queries();
            g.step(&x(holder, vec![], MMsg::RB { id: 41 }));
            g.battery_drain();
            Some(g.stats)
        }
        1 => {
            // D6 + D3: coins attached to Finalize; sub-second expiry vs. market query
            let mut g = Gen::start(small_world(), "corpus:1 D6-D3", seed, w, thorough);
            g.step(&x("alice", natives(&[(10, "uatom")]), MMsg::CL { id: 3, create: create(&[(10, JUNO_DENOM)]) }));
            g.step(&x("alice", natives(&[(77, USDC_DENOM)]), MMsg::FI { id: 3, seconds: 600 }));
            g.step(&x("alice", vec![], MMsg::FI { id: 3, seconds: 600 }));
            g.step(&x("bobby", natives(&[(10, JUNO_DENOM)]), MMsg::CB { id: 3 }));
            // every non-deposit kind with one and with several denominations attached, in states where it would succeed
            g.step(&x("carol", natives(&[(10, "uatom")]), MMsg::CL { id: 4, create: create(&[(10, JUNO_DENOM)]) }));
            g.step(&x("carol", vec![], MMsg::FI { id: 4, seconds: 600 }));
            g.step(&x("david", natives(&[(10, JUNO_DENOM)]), MMsg::CB { id: 4 }));
            for f in [natives(&[(25, JUNO_DENOM)]), natives(&[(3, "uatom"), (4, JUNO_DENOM)])] {
                g.step(&x("david", f.clone(), MMsg::BL { listing_id: 4, bucket_id: 4 }));
                g.step(&x("david", f.clone(), MMsg::RB { id: 4 }));
                g.step(&x("carol", f.clone(), MMsg::CA { id: 4, ask: ask_native(&[(1, JUNO_DENOM)]) }));
            }
            g.step(&x("david", vec![], MMsg::BL { listing_id: 4, bucket_id: 4 }));
            for f in [natives(&[(25, JUNO_DENOM)]), natives(&[(3, "uatom"), (4, JUNO_DENOM)])] {
                g.step(&x("david", f.clone(), MMsg::WP { id: 4 }));
                g.step(&x("carol", f.clone(), MMsg::RB { id: 4 }));
            }
            g.step(&x("david", vec![], MMsg::WP { id: 4 }));
            g.step(&x("carol", vec![], MMsg::RB { id: 4 }));
            // 0.1 s after expiry
            g.step(&Op::ADV { d_ns: 600_100_000_000, d_height: 100 });
            g.query(&Query::MK { page: 1 });
            g.step(&x("bobby", vec![], MMsg::BL { listing_id: 3, bucket_id: 3 }));
            g.battery_funds();
            g.battery_drain();
            Some(g.stats)
        }
        2 => {
            // D4 + D2: fee query vs. cycle; page 13
            let mut g = Gen::start(small_world(), "corpus:2 D4-D2", seed, w, thorough);
            g.query(&Query::FD);
            g.step(&x("carol", vec![], MMsg::FC));
            g.step(&x("bobby", natives(&[(10, JUNO_DENOM)]), MMsg::CB { id: 3 }));
            for p in [1u8, 12, 13, 14, 100, 255] {
                g.query(&Query::BK { owner: va("bobby"), page: p });
                g.query(&Query::LO { owner: va("bobby"), page: p });
                g.query(&Query::MK { page: p });
            }
            // to the last refused second, then the first accepted one
            let now = g.h.sim.now().nanos();
            let since = now / 1_000_000_000;
            let mark = (since + 604_800) * 1_000_000_000 + 999_999_999;
            g.step(&Op::ADV { d_ns: mark - now, d_height: 5 });
            g.query(&Query::FD);
            g.step(&x("carol", vec![], MMsg::FC));
            g.step(&Op::ADV { d_ns: 1, d_height: 0 });
            g.query(&Query::FD);
            g.step(&x("carol", vec![], MMsg::FC));
            g.query(&Query::FD);
            g.step(&x("alice", vec![], MMsg::FC));
            Some(g.stats)
        }
        3 => {
            // D5: forged receive freezes a bucket (known finding C18)
            let mut g = Gen::start(small_world(), "corpus:3 D5-forged-receive", seed, w, thorough);
            let h1 = g.h.sim.hostile_addrs()[0].clone();
            let h2 = g.h.sim.hostile_addrs()[1].clone();
            g.step(&x("bobby", natives(&[(10, JUNO_DENOM)]), MMsg::CB { id: 3 }));
            g.step(&x("alice", natives(&[(10, "uatom")]), MMsg::CL { id: 5, create: create(&[(10, JUNO_DENOM)]) }));
            g.battery_forge();
            g.step(&x(&h1, vec![], MMsg::RC { sender: va("bobby"), amount: 5, inner: Inner::AB { id: 3 } }));
            g.step(&x(&h2, vec![], MMsg::RN { sender: va("alice"), token_id: "t001".into(), inner: Inner::AL { id: 5 } }));
            // the junk token's Transfer fails: bobby's bucket (10 ujunox + junk) is frozen
            g.h.sim.set_hostile_fails(0, true);
            let init = g.h.resync();
            g.emit(&init);
            g.step(&x("bobby", vec![], MMsg::RB { id: 3 }));
            g.battery_faults();
            g.h.sim.set_hostile_fails(0, false);
            let init = g.h.resync();
            g.emit(&init);
            g.step(&x("bobby", vec![], MMsg::RB { id: 3 }));
            // the same (collection, token id) can never be recorded twice, whoever calls the hook:
            // a contract's own listing 60 and bucket 61, topped up twice with the same token id
            let cr = create(&[(1, JUNO_DENOM)]);
            g.step(&x(&h2, vec![], MMsg::RN { sender: va(&h2), token_id: "t002".into(), inner: Inner::CL { id: 60, create: cr } }));
            g.step(&x(&h2, vec![], MMsg::RN { sender: va(&h2), token_id: "t003".into(), inner: Inner::AL { id: 60 } }));
            g.step(&x(&h2, vec![], MMsg::RN { sender: va(&h2), token_id: "t003".into(), inner: Inner::AL { id: 60 } })); // duplicate: refused
            g.step(&x(&h2, vec![], MMsg::RN { sender: va(&h2), token_id: "t002".into(), inner: Inner::AL { id: 60 } })); // duplicate: refused
            g.step(&x(&h2, vec![], MMsg::RN { sender: va(&h2), token_id: "t002".into(), inner: Inner::CB { id: 61 } }));
            g.step(&x(&h2, vec![], MMsg::RN { sender: va(&h2), token_id: "t002".into(), inner: Inner::AB { id: 61 } })); // duplicate: refused
            g.step(&x(&h2, vec![], MMsg::RN { sender: va(&h2), token_id: "t003".into(), inner: Inner::AB { id: 61 } }));
            g.step(&x(&h1, vec![], MMsg::RC { sender: va(&h1), amount: 5, inner: Inner::CB { id: 62 } }));
            g.step(&x(&h1, vec![], MMsg::RC { sender: va(&h1), amount: 6, inner: Inner::AB { id: 62 } })); // merges
            g.step(&x(&h2, vec![], MMsg::DL { id: 60 }));
            g.step(&x(&h2, vec![], MMsg::RB { id: 61 }));
            g.h.sim.set_hostile_fails(0, true);
            let init = g.h.resync();
            g.emit(&init);
            g.step(&x("bobby", vec![], MMsg::RB { id: 3 }));
            g.step(&x("alice", vec![], MMsg::FI { id: 5, seconds: 600 }));
            g.battery_forge();
            Some(g.stats)
        }
        4 => {
            // id collisions across creation paths and owners, followed by the trades that would exploit
            // them; NFTs with the SAME token id from different collections deposited in the other order
            let mut g = Gen::start(default_world(), "corpus:4 id-collisions same-token-ids", seed, w, thorough);
            let t = g.h.sim.cw20_addrs()[0].clone();
            let colls = g.h.sim.cw721_addrs().to_vec();
            let paths = ["X", "T20", "T721"];
            let mut id = 100u64;
            for (pi, p1) in paths.iter().enumerate() {
                for (pj, p2) in paths.iter().enumerate() {
                    id += 1;
                    // alice: bucket `id` through p1 (kept), and a finalized listing asking 50 uatom
                    let a_nft = g.h.sim.nft_owners(&colls[0]).into_iter().filter(|(_, o)| o == "alice").map(|(t, _)| t).next();
                    let op1 = match *p1 {
                        "X" => x("alice", natives(&[(40, JUNO_DENOM)]), MMsg::CB { id }),
                        "T20" => Op::T20 { token: t.clone(), sender: "alice".into(), amount: 40, inner: Inner::CB { id } },
                        _ => match a_nft {
                            Some(tid) => Op::T721 { coll: colls[0].clone(), sender: "alice".into(), token_id: tid, inner: Inner::CB { id } },
                            None => x("alice", natives(&[(40, JUNO_DENOM)]), MMsg::CB { id }),
                        },
                    };
                    g.step(&op1);
                    let lid = 1000 + id;
                    g.step(&x("alice", natives(&[(7, "uosmo")]), MMsg::CL { id: lid, create: create(&[(50, "uatom")]) }));
                    g.step(&x("alice", vec![], MMsg::FI { id: lid, seconds: 600 }));
                    // bobby tries to open a bucket with the SAME id through p2 (must be refused), holding the ask
                    let b_nft = g.h.sim.nft_owners(&colls[1]).into_iter().filter(|(_, o)| o == "bobby").map(|(t, _)| t).next();
                    let op2 = match *p2 {
                        "X" => x("bobby", natives(&[(50, "uatom")]), MMsg::CB { id }),
                        "T20" => Op::T20 { token: t.clone(), sender: "bobby".into(), amount: 50, inner: Inner::CB { id } },
                        _ => match b_nft {
                            Some(tid) => Op::T721 { coll: colls[1].clone(), sender: "bobby".into(), token_id: tid, inner: Inner::CB { id } },
                            None => x("bobby", natives(&[(50, "uatom")]), MMsg::CB { id }),
                        },
                    };
                    let o2 = g.step(&op2);
                    if o2.ok && *p2 != "X" {
                        // make it match the ask
                        g.step(&x("bobby", natives(&[(50, "uatom")]), MMsg::AB { id }));
                    }
                    // … and to buy alice's listing with it (would overwrite alice's bucket `id`)
                    g.step(&x("bobby", vec![], MMsg::BL { listing_id: lid, bucket_id: id }));
                    // the same for listing ids: carol re-creates alice's listing id through p2
                    let op3 = match *p2 {
                        "X" => x("carol", natives(&[(5, JUNO_DENOM)]), MMsg::CL { id: lid, create: create(&[(5, "uatom")]) }),
                        "T20" => Op::T20 { token: t.clone(), sender: "carol".into(), amount: 5, inner: Inner::CL { id: lid, create: create(&[(5, "uatom")]) } },
                        _ => {
                            let c_nft = g.h.sim.nft_owners(&colls[2]).into_iter().filter(|(_, o)| o == "carol").map(|(t, _)| t).next();
                            match c_nft {
                                Some(tid) => Op::T721 { coll: colls[2].clone(), sender: "carol".into(), token_id: tid, inner: Inner::CL { id: lid, create: create(&[(5, "uatom")]) } },
                                None => x("carol", natives(&[(5, JUNO_DENOM)]), MMsg::CL { id: lid, create: create(&[(5, "uatom")]) }),
                            }
                        }
                    };
                    g.step(&op3);
                    // listing ids and bucket ids are separate spaces: a listing may take the bucket's id and vice versa
                    g.step(&x("david", natives(&[(5, "uosmo")]), MMsg::CL { id, create: create(&[(5, "uatom")]) }));
                    g.step(&x("david", natives(&[(5, "uosmo")]), MMsg::CB { id: lid }));
                    g.step(&x("david", vec![], MMsg::DL { id }));
                    g.step(&x("david", vec![], MMsg::RB { id: lid }));
                    // alice cashes out what is hers
                    g.step(&x("alice", vec![], MMsg::RB { id }));
                    let _ = (pi, pj);
                }
            }
            g.battery_drain();
            // the id of a bucket that changed hands in a sale, or was withdrawn, stays reserved: nobody may open a new
            // bucket under it. Otherwise the next sale by the same seller paid with such a bucket would overwrite the
            // seller's unwithdrawn proceeds (a non-owner changing a bucket that is not theirs: C04, C09, C01).
            for (k, second_buyer) in ["david", "frank"].iter().enumerate() {
                let n = 4100 + 10 * k as u64;
                for lid in [n + 1, n + 2] {
                    g.step(&x("carol", natives(&[(7, "uosmo")]), MMsg::CL { id: lid, create: create(&[(50, "uatom")]) }));
                    g.step(&x("carol", vec![], MMsg::FI { id: lid, seconds: 600 }));
                }
                // frank buys the first listing with bucket n: (carol, n) now holds carol's proceeds
                g.step(&x("frank", natives(&[(50, "uatom")]), MMsg::CB { id: n }));
                g.step(&x("frank", vec![], MMsg::BL { listing_id: n + 1, bucket_id: n }));
                // somebody (another account, or frank again) opens a bucket under the same id — must be refused —
                // and pays for carol's second listing with it
                g.step(&x(*second_buyer, natives(&[(50, "uatom")]), MMsg::CB { id: n }));
                g.step(&x(*second_buyer, vec![], MMsg::BL { listing_id: n + 2, bucket_id: n }));
                // carol takes her proceeds; the id stays reserved after the withdrawal too
                g.step(&x("carol", vec![], MMsg::RB { id: n }));
                g.step(&x(*second_buyer, natives(&[(50, "uatom")]), MMsg::CB { id: n }));
                g.step(&x(*second_buyer, vec![], MMsg::BL { listing_id: n + 2, bucket_id: n }));
                g.step(&x("carol", vec![], MMsg::RB { id: n }));
                g.step(&x("frank", vec![], MMsg::WP { id: n + 1 }));
                g.step(&x(*second_buyer, vec![], MMsg::WP { id: n + 2 }));
                g.step(&x(*second_buyer, vec![], MMsg::RB { id: n }));
            }
            g.battery_drain();
            // goods of every kind in ONE record (NFT + CW20 + two native denominations): purchased and withdrawn,
            // deleted while preparing, deleted after expiry; every message of those payouts faulted in turn
            for (k, fate) in ["buy", "delete-preparing", "delete-expired"].iter().enumerate() {
                let lid = 3000 + k as u64;
                let e_nft = g.h.sim.nft_owners(&colls[0]).into_iter().filter(|(_, o)| o == "erinn").map(|(t, _)| t).next();
                g.step(&x("erinn", natives(&[(30, "uatom"), (40, "uosmo")]), MMsg::CL { id: lid, create: create(&[(60, "uatom")]) }));
                g.step(&Op::T20 { token: t.clone(), sender: "erinn".into(), amount: 45, inner: Inner::AL { id: lid } });
                if let Some(tid) = e_nft {
                    g.step(&Op::T721 { coll: colls[0].clone(), sender: "erinn".into(), token_id: tid, inner: Inner::AL { id: lid } });
                }
                match *fate {
                    "buy" => {
                        g.step(&x("erinn", vec![], MMsg::FI { id: lid, seconds: 600 }));
                        g.step(&x("frank", natives(&[(60, "uatom")]), MMsg::CB { id: lid }));
                        g.step(&x("frank", vec![], MMsg::BL { listing_id: lid, bucket_id: lid }));
                        g.battery_faults();
                        g.step(&x("frank", vec![], MMsg::WP { id: lid }));
                        g.step(&x("erinn", vec![], MMsg::RB { id: lid }));
                    }
                    "delete-preparing" => {
                        g.battery_faults();
                        g.step(&x("erinn", vec![], MMsg::DL { id: lid }));
                    }
                    _ => {
                        g.step(&x("erinn", vec![], MMsg::FI { id: lid, seconds: 600 }));
                        g.step(&Op::ADV { d_ns: 600_000_000_000, d_height: 10 });
                        g.battery_faults();
                        g.step(&x("erinn", vec![], MMsg::DL { id: lid }));
                    }
                }
            }
            g.battery_drain();
            // same token id in two collections: ask [c0#T, c1#T], bucket deposited c1 first, and vice versa
            let d_ids: Vec<String> = g.h.sim.nft_owners(&colls[0]).into_iter().filter(|(_, o)| o == "david").map(|(t, _)| t).collect();
            for (k, tid) in d_ids.iter().take(2).enumerate() {
                let lid = 2000 + k as u64;
                let ask = RawGBal { native: vec![], cw20: vec![], nfts: vec![(va(&colls[0]), tid.clone()), (va(&colls[1]), tid.clone())] };
                g.step(&x("erinn", natives(&[(9, "uosmo")]), MMsg::CL { id: lid, create: Create { ask, whitelist: None } }));
                g.step(&x("erinn", vec![], MMsg::FI { id: lid, seconds: 600 }));
                let (first, second) = if k == 0 { (1usize, 0usize) } else { (0usize, 1usize) };
                g.step(&Op::T721 { coll: colls[first].clone(), sender: "david".into(), token_id: tid.clone(), inner: Inner::CB { id: lid } });
                g.step(&Op::T721 { coll: colls[second].clone(), sender: "david".into(), token_id: tid.clone(), inner: Inner::AB { id: lid } });
                g.step(&x("david", vec![], MMsg::BL { listing_id: lid, bucket_id: lid }));
                g.step(&x("david", vec![], MMsg::WP { id: lid }));
                g.step(&x("erinn", vec![], MMsg::RB { id: lid }));
            }
            g.battery_drain();
            Some(g.stats)
        }
        _ => None,
    }
}

// ---------------------------------------------------------------------------------------
// boundary suite
// ---------------------------------------------------------------------------------------

pub fn boundary(idx: usize, seed: u64, w: &mut dyn Write, thorough: bool) -> Option<Stats> {
    match idx {
        0 => {
            // ids through all six creation paths, and reuse after delete / sale / withdrawal
            let mut g = Gen::start(small_world(), "boundary:0 ids", seed, w, thorough);
            let t = g.h.sim.cw20_addrs()[0].clone();
            let c = g.h.sim.cw721_addrs()[0].clone();
            let ids = [0u64, 1, MAX_SAFE_INT - 1, MAX_SAFE_INT, MAX_SAFE_INT + 1, u64::MAX];
            for (i, id) in ids.iter().enumerate() {
                g.push();
                g.step(&x("alice", natives(&[(5, JUNO_DENOM)]), MMsg::CL { id: *id, create: create(&[(5, "uatom")]) }));
                g.step(&x("alice", natives(&[(5, JUNO_DENOM)]), MMsg::CB { id: *id }));
                g.pop();
                g.push();
                g.step(&Op::T20 { token: t.clone(), sender: "alice".into(), amount: 5, inner: Inner::CL { id: *id, create: create(&[(5, "uatom")]) } });
                g.step(&Op::T20 { token: t.clone(), sender: "alice".into(), amount: 5, inner: Inner::CB { id: *id } });
                g.pop();
                g.push();
                let tid = format!("t00{}", i % 2);
                g.step(&Op::T721 { coll: c.clone(), sender: "alice".into(), token_id: tid.clone(), inner: Inner::CL { id: *id, create: create(&[(5, "uatom")]) } });
                g.pop();
                g.push();
                g.step(&Op::T721 { coll: c.clone(), sender: "alice".into(), token_id: tid, inner: Inner::CB { id: *id } });
                g.pop();
            }
            // lifecycle: id 7 listing created, deleted, recreated by anybody through any path
            g.step(&x("alice", natives(&[(5, JUNO_DENOM)]), MMsg::CL { id: 7, create: create(&[(5, "uatom")]) }));
            g.step(&x("alice", vec![], MMsg::DL { id: 7 }));
            g.step(&x("alice", natives(&[(5, JUNO_DENOM)]), MMsg::CL { id: 7, create: create(&[(5, "uatom")]) }));
            g.step(&x("bobby", natives(&[(5, JUNO_DENOM)]), MMsg::CL { id: 7, create: create(&[(5, "uatom")]) }));
            g.step(&Op::T20 { token: t.clone(), sender: "bobby".into(), amount: 5, inner: Inner::CL { id: 7, create: create(&[(5, "uatom")]) } });
            g.step(&Op::T721 { coll: c.clone(), sender: "bobby".into(), token_id: "t002".into(), inner: Inner::CL { id: 7, create: create(&[(5, "uatom")]) } });
            // bucket 8: created, removed, recreated
            g.step(&x("alice", natives(&[(5, JUNO_DENOM)]), MMsg::CB { id: 8 }));
            g.step(&x("alice", vec![], MMsg::RB { id: 8 }));
            g.step(&x("alice", natives(&[(5, JUNO_DENOM)]), MMsg::CB { id: 8 }));
            g.step(&Op::T20 { token: t.clone(), sender: "carol".into(), amount: 5, inner: Inner::CB { id: 8 } });
            g.step(&Op::T721 { coll: c.clone(), sender: "bobby".into(), token_id: "t002".into(), inner: Inner::CB { id: 8 } });
            // an id taken through one path is refused through every other path, by anybody
            g.step(&Op::T721 { coll: c.clone(), sender: "bobby".into(), token_id: "t003".into(), inner: Inner::CB { id: 20 } });
            g.step(&x("carol", natives(&[(5, JUNO_DENOM)]), MMsg::CB { id: 20 }));
            g.step(&Op::T20 { token: t.clone(), sender: "carol".into(), amount: 5, inner: Inner::CB { id: 20 } });
            g.step(&Op::T20 { token: t.clone(), sender: "carol".into(), amount: 5, inner: Inner::CB { id: 21 } });
            g.step(&x("bobby", natives(&[(5, JUNO_DENOM)]), MMsg::CB { id: 21 }));
            g.step(&Op::T721 { coll: c.clone(), sender: "bobby".into(), token_id: "t002".into(), inner: Inner::CB { id: 21 } });
            g.step(&Op::T721 { coll: c.clone(), sender: "bobby".into(), token_id: "t002".into(), inner: Inner::CL { id: 22, create: create(&[(5, "uatom")]) } });
            g.step(&x("carol", natives(&[(5, JUNO_DENOM)]), MMsg::CL { id: 22, create: create(&[(5, "uatom")]) }));
            g.step(&Op::T20 { token: t.clone(), sender: "carol".into(), amount: 5, inner: Inner::CL { id: 22, create: create(&[(5, "uatom")]) } });
            g.step(&Op::T20 { token: t.clone(), sender: "carol".into(), amount: 5, inner: Inner::CL { id: 23, create: create(&[(5, "uatom")]) } });
            g.step(&x("bobby", natives(&[(5, JUNO_DENOM)]), MMsg::CL { id: 23, create: create(&[(5, "uatom")]) }));
            // ids that a narrowing cast would fold onto ids already used (7, 8, 20…22) are fresh, and address
            // the record they name and no other
            for k in [1u64 << 8, 1 << 16, 1 << 32] {
                g.step(&x("david", natives(&[(5, JUNO_DENOM)]), MMsg::CL { id: 7 + k, create: create(&[(5, "uatom")]) }));
                g.step(&x("david", natives(&[(5, JUNO_DENOM)]), MMsg::CB { id: 8 + k }));
                g.step(&x("david", natives(&[(3, "uatom")]), MMsg::AL { id: 7 + k }));
                g.step(&x("alice", natives(&[(3, "uatom")]), MMsg::AB { id: 8 + k }));
            }
            g.step(&x("david", vec![], MMsg::DL { id: 7 + (1 << 32) }));
            g.step(&x("david", vec![], MMsg::RB { id: 8 + (1 << 16) }));
            // sold + withdrawn: listing 9 / bucket 9
            g.step(&x("alice", natives(&[(500, JUNO_DENOM)]), MMsg::CL { id: 9, create: create(&[(5, "uatom")]) }));
            g.step(&x("alice", vec![], MMsg::FI { id: 9, seconds: 600 }));
            g.step(&x("bobby", natives(&[(5, "uatom")]), MMsg::CB { id: 9 }));
            g.step(&x("bobby", vec![], MMsg::BL { listing_id: 9, bucket_id: 9 }));
            g.step(&x("carol", natives(&[(5, JUNO_DENOM)]), MMsg::CL { id: 9, create: create(&[(5, "uatom")]) }));
            g.step(&x("carol", natives(&[(5, JUNO_DENOM)]), MMsg::CB { id: 9 }));
            g.step(&x("bobby", vec![], MMsg::WP { id: 9 }));
            g.step(&x("alice", vec![], MMsg::RB { id: 9 }));
            g.step(&x("carol", natives(&[(5, JUNO_DENOM)]), MMsg::CL { id: 9, create: create(&[(5, "uatom")]) }));
            g.step(&x("carol", natives(&[(5, JUNO_DENOM)]), MMsg::CB { id: 9 }));
            g.step(&x("bobby", vec![], MMsg::WP { id: 9 }));
            g.step(&x("alice", vec![], MMsg::RB { id: 9 }));
            Some(g.stats)
        }
        1 => {
            // lifetimes and expiry instants
            let mut g = Gen::start(small_world(), "boundary:1 lifetimes-expiry", seed, w, thorough);
            g.step(&x("alice", natives(&[(5, JUNO_DENOM)]), MMsg::CL { id: 1, create: create(&[(5, "uatom")]) }));
            for s in [0u64, 1, 599, 1_209_601, u64::MAX, 1 << 40] {
                g.probe(&x("alice", vec![], MMsg::FI { id: 1, seconds: s }));
            }
            for s in [600u64, 601, 1_209_599, 1_209_600] {
                g.push();
                g.step(&x("alice", vec![], MMsg::FI { id: 1, seconds: s }));
                g.step(&x("bobby", natives(&[(5, "uatom")]), MMsg::CB { id: 1 }));
                // re-finalize, re-price, top up, delete before expiry: all refused
                g.probe(&x("alice", vec![], MMsg::FI { id: 1, seconds: 1_209_600 }));
                g.probe(&x("alice", vec![], MMsg::CA { id: 1, ask: ask_native(&[(1, "uatom")]) }));
                g.probe(&x("alice", natives(&[(5, JUNO_DENOM)]), MMsg::AL { id: 1 }));
                g.probe(&x("alice", vec![], MMsg::DL { id: 1 }));
                let d = s * 1_000_000_000;
                g.step(&Op::ADV { d_ns: d - 1, d_height: 1 });
                g.probe(&x("alice", vec![], MMsg::DL { id: 1 }));
                g.probe(&x("bobby", vec![], MMsg::BL { listing_id: 1, bucket_id: 1 }));
                g.query(&Query::MK { page: 1 });
                g.step(&Op::ADV { d_ns: 1, d_height: 0 });
                g.probe(&x("alice", vec![], MMsg::DL { id: 1 }));
                g.probe(&x("bobby", vec![], MMsg::BL { listing_id: 1, bucket_id: 1 }));
                g.query(&Query::MK { page: 1 });
                g.step(&Op::ADV { d_ns: 1, d_height: 0 });
                g.probe(&x("alice", vec![], MMsg::DL { id: 1 }));
                g.probe(&x("bobby", vec![], MMsg::BL { listing_id: 1, bucket_id: 1 }));
                g.query(&Query::MK { page: 1 });
                g.step(&x("alice", vec![], MMsg::DL { id: 1 }));
                g.pop();
            }
            Some(g.stats)
        }
        2 => {
            // week mark for the fee cycle: -1 s, 0, +1 s with arbitrary ns, several attempts per block
            let mut g = Gen::start(small_world(), "boundary:2 fee-cycle", seed, w, thorough);
            for round in 0..3 {
                let now = g.h.sim.now().nanos();
                let since = match g.h.sim.fee_denom() {
                    FeeDenom::JUNO(s) | FeeDenom::USDC(s) => s,
                };
                let mark = (since + 604_800) * 1_000_000_000;
                let targets = [mark - 1_000_000_000 + 999_999_999, mark, mark + 999_999_999, mark + 1_000_000_000];
                let mut cur = now;
                for t in targets {
                    if t > cur {
                        g.step(&Op::ADV { d_ns: t - cur, d_height: 3 });
                        cur = t;
                    }
                    g.query(&Query::FD);
                    let u = ["alice", "bobby", DEPLOYER][round % 3];
                    g.step(&x(u, vec![], MMsg::FC));
                    g.step(&x("carol", vec![], MMsg::FC)); // second attempt in the same block
                    g.query(&Query::FD);
                }
                // a trade after each switch: fee in the denomination in force
                let lid = 100 + round as u64;
                g.step(&x("alice", natives(&[(1000, JUNO_DENOM), (1000, USDC_DENOM)]), MMsg::CL { id: lid, create: create(&[(2000, JUNO_DENOM), (2000, USDC_DENOM)]) }));
                g.step(&x("alice", vec![], MMsg::FI { id: lid, seconds: 600 }));
                g.step(&x("bobby", natives(&[(2000, JUNO_DENOM), (2000, USDC_DENOM)]), MMsg::CB { id: lid }));
                g.step(&x("bobby", vec![], MMsg::BL { listing_id: lid, bucket_id: lid }));
            }
            // withdraw after further switches: recorded fees unaffected
            g.step(&x("bobby", vec![], MMsg::WP { id: 100 }));
            g.step(&x("alice", vec![], MMsg::RB { id: 101 }));
            g.battery_drain();
            Some(g.stats)
        }
        3 | 4 | 5 | 6 | 7 | 8 => {
            // royalty gate: sums 4990 / 5000 / 5010 on the seller side (3,4,5) and buyer side (6,7,8)
            let sums = [4990u64, 5000, 5010];
            let which = (idx - 3) % 3;
            let buyer_side = idx >= 6;
            let mut g = Gen::start(royalty_world(18), &format!("boundary:{} royalty-gate sum={} side={}", idx, sums[which], if buyer_side { "buyer" } else { "seller" }), seed, w, thorough);
            let colls = g.h.sim.cw721_addrs().to_vec();
            // 16 x 300 = 4800, + one of 190 / 200 / 210
            let last = [190u64, 200, 210][which];
            for (i, c) in colls.iter().take(17).enumerate() {
                let bps = if i < 16 { 300 } else { last };
                let payout = if i % 3 == 0 { PAYOUTS[0] } else if i % 3 == 1 { PAYOUTS[1] } else { "carol" };
                g.step(&Op::R { sender: DEPLOYER.into(), msg: RMsg::Reg { nft: va(c), payout: va(payout), bps } });
            }
            // alice owns two tokens of every collection (first user)
            let nft_owner = "alice";
            let tid = g.h.sim.nft_owners(&colls[0]).into_iter().find(|(_, o)| o == nft_owner).map(|(t, _)| t).unwrap();
            let mut nfts = GenericBalance { native: vec![], cw20: vec![], nfts: vec![] };
            for c in colls.iter().take(17) {
                nfts.nfts.push(Nft { contract_address: Addr::unchecked(c.as_str()), token_id: tid.clone() });
            }
            // an unregistered collection mixed in
            nfts.nfts.push(Nft { contract_address: Addr::unchecked(colls[17].as_str()), token_id: tid.clone() });
            // and a second NFT of the first collection, not adjacent to the first one: a collection counts once
            let tid2 = g.h.sim.nft_owners(&colls[0]).into_iter().filter(|(t, o)| o == nft_owner && *t != tid).map(|(t, _)| t).next().expect("second token");
            nfts.nfts.push(Nft { contract_address: Addr::unchecked(colls[0].as_str()), token_id: tid2 });
            let t = g.h.sim.cw20_addrs()[0].clone();
            let fung = GenericBalance {
                native: natives(&[(10_000, JUNO_DENOM), (33_333, USDC_DENOM), (1, "uatom")]),
                cw20: vec![Cw20CoinVerified { address: Addr::unchecked(t.as_str()), amount: Uint128::new(20_001) }],
                nfts: vec![],
            };
            if !buyer_side {
                // alice sells the NFTs for fungibles: royalties charged to the bucket
                let cr = Create { ask: gbal_to_raw(&fung), whitelist: None };
                let ops = g.deposit_ops(nft_owner, &nfts, 1, Some(cr));
                for op in ops {
                    g.step(&op);
                }
                g.step(&x(nft_owner, vec![], MMsg::FI { id: 1, seconds: 600 }));
                let ops = g.deposit_ops("bobby", &fung, 1, None);
                for op in ops {
                    g.step(&op);
                }
                g.step(&x("bobby", vec![], MMsg::BL { listing_id: 1, bucket_id: 1 }));
            } else {
                // bobby sells fungibles for alice's NFTs: royalties charged to the listing goods
                let cr = Create { ask: gbal_to_raw(&nfts), whitelist: None };
                let ops = g.deposit_ops("bobby", &fung, 1, Some(cr));
                for op in ops {
                    g.step(&op);
                }
                g.step(&x("bobby", vec![], MMsg::FI { id: 1, seconds: 600 }));
                let ops = g.deposit_ops(nft_owner, &nfts, 1, None);
                for op in ops {
                    g.step(&op);
                }
                g.step(&x(nft_owner, vec![], MMsg::BL { listing_id: 1, bucket_id: 1 }));
            }
            g.battery_faults();
            g.battery_drain();
            Some(g.stats)
        }
        9 => {
            // 24 / 25 / 26 assets
            let mut g = Gen::start(denom_world(), "boundary:9 asset-cap", seed, w, thorough);
            let ds: Vec<String> = g.h.sim.all_denoms().to_vec();
            let mk = |n: usize| -> Vec<Coin> { ds.iter().take(n).map(|d| coin(3, d)).collect() };
            g.step(&x("alice", mk(24), MMsg::CB { id: 1 }));
            g.step(&x("alice", vec![coin(3, &ds[24])], MMsg::AB { id: 1 })); // 25: ok
            g.step(&x("alice", vec![coin(3, &ds[25])], MMsg::AB { id: 1 })); // 26: refused
            g.step(&x("alice", vec![coin(3, &ds[0])], MMsg::AB { id: 1 })); // merge into 25: ok
            let t = g.h.sim.cw20_addrs()[0].clone();
            g.step(&Op::T20 { token: t.clone(), sender: "alice".into(), amount: 5, inner: Inner::AB { id: 1 } }); // 26th via cw20: refused
            let c = g.h.sim.cw721_addrs()[0].clone();
            let tid = g.h.sim.minted_ids(&c)[0].clone();
            g.step(&Op::T721 { coll: c.clone(), sender: "alice".into(), token_id: tid.clone(), inner: Inner::AB { id: 1 } });
            // creation itself is not capped (observation recorded in DESIGN.md)
            g.step(&x("bobby", mk(26), MMsg::CB { id: 2 }));
            g.step(&x("bobby", vec![coin(3, &ds[0])], MMsg::AB { id: 2 })); // can never be topped up
            g.step(&x("bobby", vec![], MMsg::RB { id: 2 }));
            // listings: same via AL
            g.step(&x("carol", mk(24), MMsg::CL { id: 3, create: create(&[(1, JUNO_DENOM)]) }));
            g.step(&x("carol", vec![coin(3, &ds[24])], MMsg::AL { id: 3 }));
            g.step(&x("carol", vec![coin(3, &ds[25])], MMsg::AL { id: 3 }));
            g.step(&Op::T20 { token: t.clone(), sender: "carol".into(), amount: 5, inner: Inner::AL { id: 3 } });
            // one top-up carrying TWO new denominations must not cross the cap either (listing 5 / bucket 6 hold 24)
            g.step(&x("alice", mk(24), MMsg::CL { id: 5, create: create(&[(1, JUNO_DENOM)]) }));
            g.step(&x("alice", vec![coin(3, &ds[24]), coin(3, &ds[25])], MMsg::AL { id: 5 })); // 26: refused
            g.step(&x("alice", vec![coin(3, &ds[0]), coin(3, &ds[24]), coin(3, &ds[25])], MMsg::AL { id: 5 })); // refused
            g.step(&x("alice", vec![coin(3, &ds[0]), coin(3, &ds[24])], MMsg::AL { id: 5 })); // merge + 1 new = 25: ok
            g.step(&x("alice", vec![coin(3, &ds[1]), coin(3, &ds[2])], MMsg::AL { id: 5 })); // merges only on a full listing: ok
            g.step(&x("alice", vec![coin(3, &ds[25])], MMsg::AL { id: 5 })); // 26: refused
            g.step(&x("bobby", mk(24), MMsg::CB { id: 6 }));
            g.step(&x("bobby", vec![coin(3, &ds[24]), coin(3, &ds[25])], MMsg::AB { id: 6 })); // refused
            g.step(&x("bobby", vec![coin(3, &ds[0]), coin(3, &ds[24])], MMsg::AB { id: 6 })); // ok (25)
            g.step(&x("bobby", vec![coin(3, &ds[1]), coin(3, &ds[2])], MMsg::AB { id: 6 })); // merges only: ok
            g.step(&x("bobby", vec![coin(3, &ds[25])], MMsg::AB { id: 6 })); // refused
            // asks with 25 / 26 items
            let ask25 = RawGBal::natives(mk(25));
            let ask26 = RawGBal::natives(mk(26));
            g.step(&x("carol", vec![], MMsg::CA { id: 3, ask: ask25.clone() }));
            g.step(&x("carol", vec![], MMsg::CA { id: 3, ask: ask26.clone() }));
            g.step(&x("carol", natives(&[(1, JUNO_DENOM)]), MMsg::CL { id: 4, create: Create { ask: ask26, whitelist: None } }));
            g.step(&x("carol", natives(&[(1, JUNO_DENOM)]), MMsg::CL { id: 4, create: Create { ask: ask25, whitelist: None } }));
            g.step(&x("carol", vec![], MMsg::FI { id: 3, seconds: 600 }));
            // a full listing, and one created over the cap in a single message, finalize for both ends of the range
            g.step(&x("alice", vec![], MMsg::FI { id: 5, seconds: 1_209_600 }));
            g.step(&x("bobby", mk(26), MMsg::CL { id: 7, create: create(&[(1, JUNO_DENOM)]) }));
            g.step(&x("bobby", vec![], MMsg::FI { id: 7, seconds: 600 }));
            g.step(&x("alice", vec![], MMsg::BL { listing_id: 3, bucket_id: 1 }));
            g.battery_faults();
            g.battery_drain();
            Some(g.stats)
        }
        10 => {
            // malformed deposits and asks
            let mut g = Gen::start(small_world(), "boundary:10 malformed", seed, w, thorough);
            let t = g.h.sim.cw20_addrs()[0].clone();
            let c = g.h.sim.cw721_addrs()[0].clone();
            let bad_asks: Vec<RawGBal> = vec![
                RawGBal::default(),
                ask_native(&[(0, JUNO_DENOM)]),
                ask_native(&[(5, JUNO_DENOM), (5, JUNO_DENOM)]),
                ask_native(&[(5, JUNO_DENOM), (6, "uatom"), (7, JUNO_DENOM)]),
                RawGBal { native: vec![], cw20: vec![(RawAddr::Invalid, 5)], nfts: vec![] },
                RawGBal { native: vec![], cw20: vec![(va(&t), 0)], nfts: vec![] },
                RawGBal { native: vec![], cw20: vec![(va(&t), 5), (va(&t), 6)], nfts: vec![] },
                RawGBal { native: vec![], cw20: vec![(va(&t), 5), (va(&c), 6), (va(&t), 7)], nfts: vec![] },
                RawGBal { native: natives(&[(5, JUNO_DENOM), (6, "uatom"), (7, "uosmo"), (8, "uatom")]), cw20: vec![], nfts: vec![] },
                RawGBal { native: vec![], cw20: vec![], nfts: vec![(RawAddr::Invalid, "t000".into())] },
                RawGBal { native: vec![], cw20: vec![], nfts: vec![(va(&c), "t000".into()), (va(&c), "t000".into())] },
                RawGBal { native: natives(&[(1, JUNO_DENOM)]), cw20: vec![(va(&t), 1)], nfts: vec![(va(&c), "t000".into()), (va(&c), "t001".into()), (va(&c), "t000".into())] },
            ];
            g.step(&x("alice", natives(&[(5, JUNO_DENOM)]), MMsg::CL { id: 1, create: create(&[(5, "uatom")]) }));
            for (i, a) in bad_asks.iter().enumerate() {
                g.probe(&x("alice", vec![], MMsg::CA { id: 1, ask: a.clone() }));
                g.probe(&x("alice", natives(&[(5, JUNO_DENOM)]), MMsg::CL { id: 50 + i as u64, create: Create { ask: a.clone(), whitelist: None } }));
                let line = validate_line(&g.h.sim, a);
                g.emit(&line);
            }
            let good_asks: Vec<RawGBal> = vec![
                ask_native(&[(1, JUNO_DENOM)]),
                RawGBal { native: vec![], cw20: vec![(va(&t), 1)], nfts: vec![] },
                RawGBal { native: vec![], cw20: vec![], nfts: vec![(va(&c), "t000".into()), (va(&c), "t001".into())] },
                // an ask naming an account as a token and an NFT nobody minted: allowed (only address syntax is validated)
                RawGBal { native: vec![], cw20: vec![(va("bobby"), 1)], nfts: vec![(va("carol"), "t005".into())] },
            ];
            for a in &good_asks {
                g.probe(&x("alice", vec![], MMsg::CA { id: 1, ask: a.clone() }));
                let line = validate_line(&g.h.sim, a);
                g.emit(&line);
            }
            // whitelist: invalid, self, other
            for wl in [Some(RawAddr::Invalid), Some(va("alice")), Some(va("bobby")), None] {
                g.probe(&x("alice", natives(&[(5, JUNO_DENOM)]), MMsg::CL { id: 70, create: Create { ask: ask_native(&[(1, JUNO_DENOM)]), whitelist: wl.clone() } }));
                g.probe(&Op::T20 { token: t.clone(), sender: "alice".into(), amount: 5, inner: Inner::CL { id: 70, create: Create { ask: ask_native(&[(1, JUNO_DENOM)]), whitelist: wl.clone() } } });
                g.probe(&Op::T721 { coll: c.clone(), sender: "alice".into(), token_id: "t000".into(), inner: Inner::CL { id: 70, create: Create { ask: ask_native(&[(1, JUNO_DENOM)]), whitelist: wl } } });
            }
            // deposits: empty, zero, duplicate, zero next to non-zero
            for f in [vec![], natives(&[(0, JUNO_DENOM)]), natives(&[(5, JUNO_DENOM), (5, JUNO_DENOM)]), natives(&[(5, JUNO_DENOM), (0, "uatom")]), natives(&[(5, "uatom"), (5, JUNO_DENOM)])] {
                g.probe(&x("alice", f.clone(), MMsg::CB { id: 80 }));
                g.probe(&x("alice", f.clone(), MMsg::AL { id: 1 }));
                g.probe(&x("alice", f.clone(), MMsg::CL { id: 81, create: create(&[(5, "uatom")]) }));
            }
            g.step(&x("alice", natives(&[(5, JUNO_DENOM)]), MMsg::CB { id: 2 }));
            for f in [vec![], natives(&[(0, JUNO_DENOM)]), natives(&[(5, JUNO_DENOM), (5, JUNO_DENOM)]), natives(&[(5, JUNO_DENOM), (0, "uatom")])] {
                g.probe(&x("alice", f, MMsg::AB { id: 2 }));
            }
            g.probe(&Op::T20 { token: t.clone(), sender: "alice".into(), amount: 0, inner: Inner::AB { id: 2 } });
            // u128 overflow on merge: top up to the brim via a hostile token (the only way to name > supply)
            let h1 = g.h.sim.hostile_addrs()[0].clone();
            g.step(&x(&h1, vec![], MMsg::RC { sender: va("alice"), amount: u128::MAX - 5, inner: Inner::CB { id: 90 } }));
            g.step(&x(&h1, vec![], MMsg::RC { sender: va("alice"), amount: 5, inner: Inner::AB { id: 90 } }));
            g.step(&x(&h1, vec![], MMsg::RC { sender: va("alice"), amount: 1, inner: Inner::AB { id: 90 } }));
            Some(g.stats)
        }
        11 => {
            // amount alphabet x both fee denominations x royalties on both sides
            let mut g = Gen::start(default_world(), "boundary:11 amounts", seed, w, thorough);
            let colls = g.h.sim.cw721_addrs().to_vec();
            g.step(&Op::R { sender: DEPLOYER.into(), msg: RMsg::Reg { nft: va(&colls[0]), payout: va(PAYOUTS[0]), bps: 33 } });
            g.step(&Op::R { sender: DEPLOYER.into(), msg: RMsg::Reg { nft: va(&colls[1]), payout: va(PAYOUTS[0]), bps: 300 } });
            g.step(&Op::R { sender: DEPLOYER.into(), msg: RMsg::Reg { nft: va(&colls[2]), payout: va("bobby"), bps: 10 } });
            let t = g.h.sim.cw20_addrs()[0].clone();
            let amounts: Vec<u128> = vec![1, 199, 200, 201, 303, 304, 399, 400, 999, 1000, 1001, 3333, 3334, 9999, 10_000, 10_001, 33_334, (1 << 64) - 1, (1 << 64) + 1, 1 << 100, u128::MAX / 64];
            let mut id = 10;
            for round in 0..2 {
                for (i, a) in amounts.iter().enumerate() {
                    id += 1;
                    let seller = ["alice", "carol", "david"][i % 3];
                    let buyer = "bobby";
                    // seller sells one NFT of collection i%3 (+ some cw20) for a bucket of natives of this amount
                    let coll = &colls[i % 3];
                    let own: Vec<String> = g.h.sim.nft_owners(coll).into_iter().filter(|(_, o)| o == seller).map(|(t, _)| t).collect();
                    if own.is_empty() {
                        continue;
                    }
                    let ask = natives(&[(*a, JUNO_DENOM), (*a, USDC_DENOM), (*a, "uatom")]);
                    let cr = Create { ask: RawGBal { native: ask.clone(), cw20: vec![(va(&t), *a)], nfts: vec![] }, whitelist: None };
                    g.step(&Op::T721 { coll: coll.clone(), sender: seller.into(), token_id: own[0].clone(), inner: Inner::CL { id, create: cr } });
                    g.step(&x(seller, natives(&[(*a, JUNO_DENOM)]), MMsg::AL { id }));
                    g.step(&x(seller, vec![], MMsg::FI { id, seconds: 600 }));
                    g.step(&x(buyer, ask, MMsg::CB { id }));
                    g.step(&Op::T20 { token: t.clone(), sender: buyer.into(), amount: *a, inner: Inner::AB { id } });
                    g.step(&x(buyer, vec![], MMsg::BL { listing_id: id, bucket_id: id }));
                    g.step(&x(buyer, vec![], MMsg::WP { id }));
                    g.step(&x(seller, vec![], MMsg::RB { id }));
                }
                if round == 0 {
                    g.step(&Op::ADV { d_ns: 604_802_000_000_000, d_height: 100_000 });
                    g.step(&x("erinn", vec![], MMsg::FC));
                }
            }
            g.battery_drain();
            Some(g.stats)
        }
        12 => {
            // registry: heights 99 / 100 / 101, partial updates, bps alphabet, hand-over, no-admin contract
            let mut g = Gen::start(
                Sim::new(Config { n_users: 3, n_cw20: 1, n_cw721: 3, nfts_per_user_per_collection: 1, collection_admins: vec![Some(DEPLOYER.into()), Some("alice".into()), None], ..Config::default() }),
                "boundary:12 registry",
                seed,
                w,
                thorough,
            );
            let colls = g.h.sim.cw721_addrs().to_vec();
            for bps in [0u64, 9, 10, 11, 299, 300, 301, 5000, u64::MAX, (1 << 16) + 100, (1 << 32) + 300, u64::MAX - 65_535 + 250, (1 << 8) + 300] {
                g.probe(&Op::R { sender: DEPLOYER.into(), msg: RMsg::Reg { nft: va(&colls[0]), payout: va(PAYOUTS[0]), bps } });
            }
            // not a contract / invalid / no-admin contract / wrong admin
            g.probe(&Op::R { sender: DEPLOYER.into(), msg: RMsg::Reg { nft: va("carol"), payout: va(PAYOUTS[0]), bps: 100 } });
            g.probe(&Op::R { sender: DEPLOYER.into(), msg: RMsg::Reg { nft: RawAddr::Invalid, payout: va(PAYOUTS[0]), bps: 100 } });
            g.probe(&Op::R { sender: DEPLOYER.into(), msg: RMsg::Reg { nft: va(&colls[0]), payout: RawAddr::Invalid, bps: 100 } });
            g.probe(&Op::R { sender: DEPLOYER.into(), msg: RMsg::Reg { nft: va(&colls[2]), payout: va(PAYOUTS[0]), bps: 100 } });
            g.probe(&Op::R { sender: "alice".into(), msg: RMsg::Reg { nft: va(&colls[2]), payout: va(PAYOUTS[0]), bps: 100 } });
            g.probe(&Op::R { sender: "alice".into(), msg: RMsg::Reg { nft: va(&colls[0]), payout: va(PAYOUTS[0]), bps: 100 } });
            g.step(&Op::R { sender: DEPLOYER.into(), msg: RMsg::Reg { nft: va(&colls[0]), payout: va(PAYOUTS[0]), bps: 100 } });
            g.step(&Op::R { sender: "alice".into(), msg: RMsg::Reg { nft: va(&colls[1]), payout: va("alice"), bps: 300 } });
            g.probe(&Op::R { sender: DEPLOYER.into(), msg: RMsg::Reg { nft: va(&colls[0]), payout: va(PAYOUTS[1]), bps: 50 } }); // already registered
            for dh in [99u64, 1, 1] {
                g.step(&Op::ADV { d_ns: 6_000_000_000, d_height: dh });
                g.probe(&Op::R { sender: DEPLOYER.into(), msg: RMsg::Upd { nft: va(&colls[0]), payout: None, bps: Some(200) } });
                g.probe(&Op::R { sender: DEPLOYER.into(), msg: RMsg::Upd { nft: va(&colls[0]), payout: Some(va(PAYOUTS[1])), bps: None } });
                g.probe(&Op::R { sender: DEPLOYER.into(), msg: RMsg::Upd { nft: va(&colls[0]), payout: None, bps: None } });
                g.probe(&Op::R { sender: DEPLOYER.into(), msg: RMsg::Upd { nft: va(&colls[0]), payout: Some(RawAddr::Invalid), bps: None } });
                g.probe(&Op::R { sender: DEPLOYER.into(), msg: RMsg::Upd { nft: va(&colls[0]), payout: None, bps: Some(301) } });
                g.probe(&Op::R { sender: DEPLOYER.into(), msg: RMsg::Upd { nft: va(&colls[0]), payout: None, bps: Some(9) } });
                for wide in [(1u64 << 16) + 100, (1 << 32) + 10, u64::MAX - 65_535 + 250, u64::MAX] {
                    g.probe(&Op::R { sender: DEPLOYER.into(), msg: RMsg::Upd { nft: va(&colls[0]), payout: None, bps: Some(wide) } });
                }
                g.probe(&Op::R { sender: DEPLOYER.into(), msg: RMsg::Rem { nft: va(&colls[0]) } });
                g.probe(&Op::R { sender: "alice".into(), msg: RMsg::Rem { nft: va(&colls[0]) } });
                g.probe(&Op::R { sender: "alice".into(), msg: RMsg::Upd { nft: va(&colls[0]), payout: None, bps: Some(200) } });
            }
            // a payout-only update restarts the cooldown like any other modification
            g.step(&Op::R { sender: DEPLOYER.into(), msg: RMsg::Upd { nft: va(&colls[0]), payout: Some(va(PAYOUTS[1])), bps: None } });
            g.battery_queries();
            for dh in [0u64, 1, 98, 1, 1] {
                if dh > 0 {
                    g.step(&Op::ADV { d_ns: 6_000_000_000, d_height: dh });
                }
                g.probe(&Op::R { sender: DEPLOYER.into(), msg: RMsg::Upd { nft: va(&colls[0]), payout: None, bps: Some(150) } });
                g.probe(&Op::R { sender: DEPLOYER.into(), msg: RMsg::Upd { nft: va(&colls[0]), payout: Some(va("alice")), bps: None } });
                g.probe(&Op::R { sender: DEPLOYER.into(), msg: RMsg::Rem { nft: va(&colls[0]) } });
            }
            // … and so does an update that changes nothing
            g.step(&Op::R { sender: DEPLOYER.into(), msg: RMsg::Upd { nft: va(&colls[0]), payout: None, bps: None } });
            g.probe(&Op::R { sender: DEPLOYER.into(), msg: RMsg::Rem { nft: va(&colls[0]) } });
            g.step(&Op::ADV { d_ns: 6_000_000_000, d_height: 100 });
            // hand-over: the old admin loses the right, the new one gains it
            g.step(&Op::AD { sender: DEPLOYER.into(), contract: colls[0].clone(), new_admin: Some("bobby".into()) });
            g.probe(&Op::R { sender: DEPLOYER.into(), msg: RMsg::Upd { nft: va(&colls[0]), payout: None, bps: Some(200) } });
            g.step(&Op::R { sender: "bobby".into(), msg: RMsg::Upd { nft: va(&colls[0]), payout: None, bps: Some(200) } });
            g.probe(&Op::R { sender: "bobby".into(), msg: RMsg::Rem { nft: va(&colls[0]) } });
            g.step(&Op::ADV { d_ns: 6_000_000_000, d_height: 100 });
            // cooldown over: every kind of change follows the CURRENT admin (bobby), not the instantiator / previous admin
            for who in [DEPLOYER, "alice", "bobby"] {
                g.probe(&Op::R { sender: who.into(), msg: RMsg::Rem { nft: va(&colls[0]) } });
                g.probe(&Op::R { sender: who.into(), msg: RMsg::Upd { nft: va(&colls[0]), payout: Some(va("alice")), bps: Some(11) } });
            }
            // a collection whose admin was never its instantiator (instantiated by the deployer with admin alice)
            for who in [DEPLOYER, "bobby", "alice"] {
                g.probe(&Op::R { sender: who.into(), msg: RMsg::Rem { nft: va(&colls[1]) } });
                g.probe(&Op::R { sender: who.into(), msg: RMsg::Upd { nft: va(&colls[1]), payout: None, bps: Some(12) } });
            }
            g.step(&Op::AD { sender: "bobby".into(), contract: colls[0].clone(), new_admin: None });
            g.probe(&Op::R { sender: "bobby".into(), msg: RMsg::Rem { nft: va(&colls[0]) } });
            g.probe(&Op::R { sender: DEPLOYER.into(), msg: RMsg::Rem { nft: va(&colls[0]) } });
            Some(g.stats)
        }
        15 | 16 | 17 | 18 => {
            // royalty gate on NFT-for-NFT trades (no fungible on the paying side): sums 5010 / 5000, both sides
            let last = if idx % 2 == 1 { 210u64 } else { 200 };
            let buyer_side = idx >= 17;
            let mut g = Gen::start(royalty_world(18), &format!("boundary:{} royalty-gate nft-for-nft last={} side={}", idx, last, if buyer_side { "buyer" } else { "seller" }), seed, w, thorough);
            let colls = g.h.sim.cw721_addrs().to_vec();
            for (i, c) in colls.iter().take(17).enumerate() {
                let bps = if i < 16 { 300 } else { last };
                g.step(&Op::R { sender: DEPLOYER.into(), msg: RMsg::Reg { nft: va(c), payout: va(PAYOUTS[i % 2]), bps } });
            }
            let a_tid = g.h.sim.nft_owners(&colls[0]).into_iter().find(|(_, o)| o == "alice").map(|(t, _)| t).unwrap();
            let b_tid = g.h.sim.nft_owners(&colls[17]).into_iter().find(|(_, o)| o == "bobby").map(|(t, _)| t).unwrap();
            let many = GenericBalance { native: vec![], cw20: vec![], nfts: colls.iter().take(17).map(|c| Nft { contract_address: Addr::unchecked(c.as_str()), token_id: a_tid.clone() }).collect() };
            let single = GenericBalance { native: vec![], cw20: vec![], nfts: vec![Nft { contract_address: Addr::unchecked(colls[17].as_str()), token_id: b_tid.clone() }] };
            let (lister, goods, ask, payer, pay) = if !buyer_side { ("alice", &many, &single, "bobby", &single) } else { ("bobby", &single, &many, "alice", &many) };
            let cr = Create { ask: gbal_to_raw(ask), whitelist: None };
            for op in g.deposit_ops(lister, goods, 1, Some(cr)) {
                g.step(&op);
            }
            g.step(&x(lister, vec![], MMsg::FI { id: 1, seconds: 600 }));
            for op in g.deposit_ops(payer, pay, 1, None) {
                g.step(&op);
            }
            g.step(&x(payer, vec![], MMsg::BL { listing_id: 1, bucket_id: 1 }));
            g.battery_drain();
            Some(g.stats)
        }
        13 | 14 => {
            // royalty mixes: several NFTs of one collection interleaved with other collections
            // (registered and unregistered) on the seller side (13) / buyer side (14), both fee denominations
            let buyer_side = idx == 14;
            let mut g = Gen::start(default_world(), &format!("boundary:{} royalty-mix side={}", idx, if buyer_side { "buyer" } else { "seller" }), seed, w, thorough);
            let colls = g.h.sim.cw721_addrs().to_vec();
            g.step(&Op::R { sender: DEPLOYER.into(), msg: RMsg::Reg { nft: va(&colls[0]), payout: va(PAYOUTS[0]), bps: 100 } });
            g.step(&Op::R { sender: DEPLOYER.into(), msg: RMsg::Reg { nft: va(&colls[1]), payout: va(PAYOUTS[1]), bps: 300 } });
            // colls[2] stays unregistered
            let t = g.h.sim.cw20_addrs()[0].clone();
            let orders: Vec<Vec<usize>> = vec![vec![0, 1, 0], vec![0, 2, 0, 1, 0], vec![1, 0, 1], vec![2, 0], vec![0, 0, 1], vec![2, 2]];
            let mut id = 30u64;
            for round in 0..2 {
                for (k, order) in orders.iter().enumerate() {
                    id += 1;
                    let nft_side = ["alice", "carol", "david", "erinn", "frank", "alice"][k];
                    let fung_side = "bobby";
                    // NFTs of nft_side in the given collection order (fresh token each time)
                    let mut used: Vec<(String, String)> = vec![];
                    let mut nft_ops_assets: Vec<(String, String)> = vec![];
                    for ci in order {
                        let c = &colls[*ci];
                        let own: Vec<String> = g.h.sim.nft_owners(c).into_iter().filter(|(tid, o)| o == nft_side && !used.contains(&(c.clone(), tid.clone()))).map(|(t, _)| t).collect();
                        if let Some(tid) = own.first() {
                            used.push((c.clone(), tid.clone()));
                            nft_ops_assets.push((c.clone(), tid.clone()));
                        }
                    }
                    if nft_ops_assets.is_empty() {
                        continue;
                    }
                    let amt: u128 = [10_000u128, 33_333, 199, 20_000][k % 4];
                    let fung = GenericBalance {
                        native: natives(&[(amt, JUNO_DENOM), (amt + 1, USDC_DENOM), (amt, "uatom")]),
                        cw20: vec![Cw20CoinVerified { address: Addr::unchecked(t.as_str()), amount: Uint128::new(amt) }],
                        nfts: vec![],
                    };
                    let nfts_g = GenericBalance {
                        native: vec![],
                        cw20: vec![],
                        nfts: nft_ops_assets.iter().map(|(c, tid)| Nft { contract_address: Addr::unchecked(c.as_str()), token_id: tid.clone() }).collect(),
                    };
                    // deposits in exactly this order (no shuffling): first creates, the rest top up
                    let (lister, lister_assets, cr, payer, payer_assets) = if !buyer_side {
                        (nft_side, &nfts_g, Create { ask: gbal_to_raw(&fung), whitelist: None }, fung_side, &fung)
                    } else {
                        (fung_side, &fung, Create { ask: gbal_to_raw(&nfts_g), whitelist: None }, nft_side, &nfts_g)
                    };
                    let mut first = true;
                    for n in &lister_assets.nfts {
                        let inner = if first { Inner::CL { id, create: cr.clone() } } else { Inner::AL { id } };
                        g.step(&Op::T721 { coll: n.contract_address.to_string(), sender: lister.into(), token_id: n.token_id.clone(), inner });
                        first = false;
                    }
                    if !lister_assets.native.is_empty() {
                        let msg = if first { MMsg::CL { id, create: cr.clone() } } else { MMsg::AL { id } };
                        g.step(&x(lister, lister_assets.native.clone(), msg));
                        first = false;
                    }
                    for c in &lister_assets.cw20 {
                        g.step(&Op::T20 { token: c.address.to_string(), sender: lister.into(), amount: c.amount.u128(), inner: Inner::AL { id } });
                    }
                    g.step(&x(lister, vec![], MMsg::FI { id, seconds: 600 }));
                    let mut first = true;
                    for n in &payer_assets.nfts {
                        let inner = if first { Inner::CB { id } } else { Inner::AB { id } };
                        g.step(&Op::T721 { coll: n.contract_address.to_string(), sender: payer.into(), token_id: n.token_id.clone(), inner });
                        first = false;
                    }
                    if !payer_assets.native.is_empty() {
                        let msg = if first { MMsg::CB { id } } else { MMsg::AB { id } };
                        g.step(&x(payer, payer_assets.native.clone(), msg));
                    }
                    for c in &payer_assets.cw20 {
                        g.step(&Op::T20 { token: c.address.to_string(), sender: payer.into(), amount: c.amount.u128(), inner: Inner::AB { id } });
                    }
                    g.step(&x(payer, vec![], MMsg::BL { listing_id: id, bucket_id: id }));
                    g.step(&x(payer, vec![], MMsg::WP { id }));
                    g.step(&x(lister, vec![], MMsg::RB { id }));
                }
                if round == 0 {
                    g.step(&Op::ADV { d_ns: 604_802_000_000_000, d_height: 100_000 });
                    g.step(&x("erinn", vec![], MMsg::FC));
                }
            }
            g.battery_drain();
            Some(g.stats)
        }
        21 | 22 | 23 | 24 => {
            // a full side: 25 NFTs of 25 distinct registered collections at 210 bps (5250: refused) / 200 bps
            // (5000: allowed), seller side (21, 22) and buyer side (23, 24); every collection counts
            let bps = if idx % 2 == 1 { 210u64 } else { 200 };
            let buyer_side = idx >= 23;
            let mut g = Gen::start(royalty_world(26), &format!("boundary:{} full-side 25 x {} bps side={}", idx, bps, if buyer_side { "buyer" } else { "seller" }), seed, w, thorough);
            let colls = g.h.sim.cw721_addrs().to_vec();
            for (i, c) in colls.iter().take(25).enumerate() {
                g.step(&Op::R { sender: DEPLOYER.into(), msg: RMsg::Reg { nft: va(c), payout: va(PAYOUTS[i % 2]), bps } });
            }
            let many = GenericBalance {
                native: vec![],
                cw20: vec![],
                nfts: colls
                    .iter()
                    .take(25)
                    .map(|c| {
                        let tid = g.h.sim.nft_owners(c).into_iter().find(|(_, o)| o == "alice").map(|(t, _)| t).unwrap();
                        Nft { contract_address: Addr::unchecked(c.as_str()), token_id: tid }
                    })
                    .collect(),
            };
            let fung = GenericBalance { native: natives(&[(10_000, JUNO_DENOM), (777, "uatom")]), cw20: vec![], nfts: vec![] };
            let (lister, goods, ask, payer, pay) = if !buyer_side { ("alice", &many, &fung, "bobby", &fung) } else { ("bobby", &fung, &many, "alice", &many) };
            for op in g.deposit_ops(lister, goods, 1, Some(Create { ask: gbal_to_raw(ask), whitelist: None })) {
                g.step(&op);
            }
            g.step(&x(lister, vec![], MMsg::FI { id: 1, seconds: 600 }));
            for op in g.deposit_ops(payer, pay, 1, None) {
                g.step(&op);
            }
            g.step(&x(payer, vec![], MMsg::BL { listing_id: 1, bucket_id: 1 }));
            // the registry answers for all 25 at once, and for 26 names with an unregistered one
            g.battery_queries();
            g.battery_drain();
            Some(g.stats)
        }
        26 => {
            // asks far beyond the cap (counts that a narrowing cast folds back under it), prefix-related collection
            // addresses with token ids that make address ++ id coincide, and accounts that differ only by case
            let extra: Vec<String> = (0..290).map(|i| format!("x{:03}", i)).collect();
            let sim = Sim::new(Config { n_users: 3, n_cw20: 1, n_cw721: 21, nfts_per_user_per_collection: 1, n_hostile: 0, odd_token_ids: true, extra_token_ids: extra.clone(), ..Config::default() });
            let mut g = Gen::start(sim, "boundary:26 wide asks, prefix twins, case twins", seed, w, thorough);
            let colls = g.h.sim.cw721_addrs().to_vec();
            g.step(&x("alice", natives(&[(5, JUNO_DENOM)]), MMsg::CL { id: 1, create: create(&[(5, "uatom")]) }));
            for n in [25usize, 26, 255, 256, 257, 281, 282] {
                let ask = RawGBal { native: vec![], cw20: vec![], nfts: extra.iter().take(n).map(|t| (va(&colls[0]), t.clone())).collect() };
                g.probe(&x("alice", vec![], MMsg::CA { id: 1, ask: ask.clone() }));
                g.probe(&x("bobby", natives(&[(5, JUNO_DENOM)]), MMsg::CL { id: 100 + n as u64, create: Create { ask: ask.clone(), whitelist: None } }));
                let line = validate_line(&g.h.sim, &ask);
                g.emit(&line);
            }
            // prefix-related addresses: every (shorter, longer) pair of collections, both tokens in one bucket / listing / ask
            let mut id = 200u64;
            for i in 0..colls.len() {
                for j in 0..colls.len() {
                    if i == j || !colls[j].starts_with(colls[i].as_str()) {
                        continue;
                    }
                    let suffix = colls[j][colls[i].len()..].to_string();
                    let long_tid = g.h.sim.nft_owners(&colls[j]).into_iter().find(|(t, o)| o == "alice" && t.starts_with("t0")).map(|(t, _)| t).unwrap_or_else(|| "t000".to_string());
                    let short_tid = format!("{}{}", suffix, long_tid);
                    id += 1;
                    g.step(&Op::T721 { coll: colls[j].clone(), sender: "alice".into(), token_id: long_tid.clone(), inner: Inner::CB { id } });
                    g.step(&Op::T721 { coll: colls[i].clone(), sender: "alice".into(), token_id: short_tid.clone(), inner: Inner::AB { id } });
                    let both = RawGBal { native: vec![], cw20: vec![], nfts: vec![(va(&colls[j]), long_tid.clone()), (va(&colls[i]), short_tid.clone())] };
                    g.probe(&x("alice", vec![], MMsg::CA { id: 1, ask: both.clone() }));
                    let line = validate_line(&g.h.sim, &both);
                    g.emit(&line);
                    g.step(&x("alice", vec![], MMsg::RB { id }));
                    id += 1;
                    g.step(&Op::T721 { coll: colls[i].clone(), sender: "alice".into(), token_id: short_tid.clone(), inner: Inner::CL { id, create: Create { ask: both.clone(), whitelist: None } } });
                    g.step(&Op::T721 { coll: colls[j].clone(), sender: "alice".into(), token_id: long_tid.clone(), inner: Inner::AL { id } });
                    g.step(&x("alice", vec![], MMsg::DL { id }));
                }
            }
            // a listing reserved for alice: ALICE and Bobby are other accounts, however alike the names
            g.step(&x("carol", natives(&[(9, "uosmo")]), MMsg::CL { id: 300, create: Create { ask: RawGBal::natives(natives(&[(7, "uatom")])), whitelist: Some(va("alice")) } }));
            g.step(&x("carol", vec![], MMsg::FI { id: 300, seconds: 600 }));
            for (k, who) in ["ALICE", "Bobby", "bobby", "alice"].iter().enumerate() {
                g.step(&x(who, natives(&[(7, "uatom")]), MMsg::CB { id: 310 + k as u64 }));
                g.step(&x(who, vec![], MMsg::BL { listing_id: 300, bucket_id: 310 + k as u64 }));
            }
            // … nor can they touch alice's or bobby's records
            for who in ["ALICE", "Bobby"] {
                g.probe(&x(who, vec![], MMsg::RB { id: 312 }));
                g.probe(&x(who, vec![], MMsg::WP { id: 300 }));
                g.probe(&x(who, natives(&[(1, "uatom")]), MMsg::AB { id: 312 }));
                g.probe(&x(who, vec![], MMsg::DL { id: 1 }));
            }
            g.battery_queries();
            g.battery_drain();
            Some(g.stats)
        }
        28 => {
            // the largest payouts there are: a fee-bearing record holding one native denomination and 24 NFTs pays out with
            // 26 messages (bank send, 24 transfers, community-pool deposit); both sides of a purchase, then every exit
            let mut g = Gen::start(royalty_world(26), "boundary:28 payouts of 26 messages", seed, w, thorough);
            let colls = g.h.sim.cw721_addrs().to_vec();
            let side = |g: &Gen, who: &str| -> GenericBalance {
                GenericBalance {
                    native: natives(&[(1000, JUNO_DENOM)]),
                    cw20: vec![],
                    nfts: colls
                        .iter()
                        .take(24)
                        .map(|c| {
                            let tid = g.h.sim.nft_owners(c).into_iter().find(|(_, o)| o == who).map(|(t, _)| t).unwrap();
                            Nft { contract_address: Addr::unchecked(c.as_str()), token_id: tid }
                        })
                        .collect(),
                }
            };
            let goods = side(&g, "alice");
            let pay = side(&g, "bobby");
            for op in g.deposit_ops("alice", &goods, 1, Some(Create { ask: gbal_to_raw(&pay), whitelist: None })) {
                g.step(&op);
            }
            g.step(&x("alice", vec![], MMsg::FI { id: 1, seconds: 600 }));
            for op in g.deposit_ops("bobby", &pay, 1, None) {
                g.step(&op);
            }
            g.step(&x("bobby", vec![], MMsg::BL { listing_id: 1, bucket_id: 1 }));
            g.battery_queries();
            g.battery_faults();
            g.step(&x("bobby", vec![], MMsg::WP { id: 1 }));
            g.step(&x("alice", vec![], MMsg::RB { id: 1 }));
            g.battery_drain();
            Some(g.stats)
        }
        27 => {
            // a clock that no longer fits 32 bits of seconds: the week rule, lifetimes and expiry behave as ever
            let start_s: u64 = (1u64 << 32) - 1000;
            let sim = Sim::new(Config { n_users: 3, n_cw20: 1, n_cw721: 1, nfts_per_user_per_collection: 1, n_hostile: 0, start_time_ns: start_s * 1_000_000_000 + 123_456_789, ..Config::default() });
            let mut g = Gen::start(sim, "boundary:27 clock beyond 32 bits", seed, w, thorough);
            g.step(&x("alice", natives(&[(1000, JUNO_DENOM), (1000, USDC_DENOM)]), MMsg::CL { id: 1, create: create(&[(1000, JUNO_DENOM), (1000, USDC_DENOM)]) }));
            g.step(&x("alice", vec![], MMsg::FI { id: 1, seconds: 1_209_600 }));
            g.step(&x("alice", natives(&[(5, "uatom")]), MMsg::CL { id: 2, create: create(&[(5, "uosmo")]) }));
            g.step(&x("alice", vec![], MMsg::FI { id: 2, seconds: 600 }));
            g.probe(&x("bobby", vec![], MMsg::FC));
            g.query(&Query::FD);
            g.step(&Op::ADV { d_ns: 999_000_000_000, d_height: 10 }); // 1 s before 2^32
            g.probe(&x("alice", vec![], MMsg::DL { id: 2 }));
            g.step(&Op::ADV { d_ns: 2_000_000_000, d_height: 1 }); // 1 s after 2^32: listing 2 (600 s) has expired, listing 1 has not
            g.query(&Query::MK { page: 1 });
            g.probe(&x("alice", vec![], MMsg::DL { id: 1 }));
            g.step(&x("alice", vec![], MMsg::DL { id: 2 }));
            g.step(&x("bobby", natives(&[(1000, JUNO_DENOM), (1000, USDC_DENOM)]), MMsg::CB { id: 1 }));
            for d in [604_800u64 - 1001 - 1, 1, 1, 1] {
                // week - 1 s, week, week + 1 s, week + 2 s after instantiation
                g.step(&Op::ADV { d_ns: d * 1_000_000_000, d_height: 1 });
                g.query(&Query::FD);
                g.probe(&x("carol", vec![], MMsg::FC));
            }
            g.step(&x("carol", vec![], MMsg::FC));
            g.probe(&x("carol", vec![], MMsg::FC));
            g.step(&x("bobby", vec![], MMsg::BL { listing_id: 1, bucket_id: 1 }));
            g.step(&Op::ADV { d_ns: 604_801_000_000_000, d_height: 100_000 });
            g.step(&x("alice", vec![], MMsg::FC));
            g.query(&Query::FD);
            g.step(&x("bobby", vec![], MMsg::WP { id: 1 }));
            g.step(&x("alice", vec![], MMsg::RB { id: 1 }));
            g.battery_drain();
            Some(g.stats)
        }
        25 => {
            // token ids are opaque strings: ids that differ only by surrounding white space or letter case are
            // different tokens of different owners; every deposit path records and every payout returns exactly
            // the token that was sent
            let sim = Sim::new(Config { n_users: 3, n_cw20: 1, n_cw721: 2, nfts_per_user_per_collection: 1, n_hostile: 0, odd_token_ids: true, ..Config::default() });
            let mut g = Gen::start(sim, "boundary:25 token-id twins", seed, w, thorough);
            let colls = g.h.sim.cw721_addrs().to_vec();
            let users: Vec<String> = g.users();
            let mut id = 40u64;
            for c in &colls {
                // buckets: everybody parks every token they own, one bucket per token
                let owned = g.h.sim.nft_owners(c);
                let mut made: Vec<(String, u64)> = vec![];
                for (tid, owner) in &owned {
                    id += 1;
                    g.step(&Op::T721 { coll: c.clone(), sender: owner.clone(), token_id: tid.clone(), inner: Inner::CB { id } });
                    made.push((owner.clone(), id));
                }
                g.battery_queries();
                for (owner, bid) in &made {
                    g.step(&x(owner, vec![], MMsg::RB { id: *bid }));
                }
                // listings: one listing per user holding all their tokens of this collection (create + top-ups), then deleted
                for u in &users {
                    let mine: Vec<String> = g.h.sim.nft_owners(c).into_iter().filter(|(_, o)| o == u).map(|(t, _)| t).collect();
                    if mine.is_empty() {
                        continue;
                    }
                    id += 1;
                    for (k, tid) in mine.iter().enumerate() {
                        let inner = if k == 0 { Inner::CL { id, create: create(&[(5, "uatom")]) } } else { Inner::AL { id } };
                        g.step(&Op::T721 { coll: c.clone(), sender: u.clone(), token_id: tid.clone(), inner });
                    }
                }
                // a bucket topped up with a twin of a token another user's listing holds
                g.battery_nonowner();
                for (_, l) in g.h.sim.listings() {
                    g.step(&x(l.creator.as_str(), vec![], MMsg::DL { id: l.id }));
                }
            }
            // denominations that look like the fee denominations are ordinary assets: only the exact ones carry a fee,
            // before and after a switch
            for round in 0..2u64 {
                let l = 80 + round;
                let goods = natives(&[(1000, JUNO_DENOM), (1000, "UJUNOX"), (1000, "ujunox2"), (1000, USDC_DENOM), (1000, "Uusdcx"), (1000, "uusdcx.b")]);
                let pay = natives(&[(400, "UJUNOX"), (400, "ujunox2"), (400, "Uusdcx"), (400, "uusdcx.b"), (3, "uatom")]);
                g.step(&x("alice", goods, MMsg::CL { id: l, create: Create { ask: RawGBal::natives(pay.clone()), whitelist: None } }));
                g.step(&x("alice", vec![], MMsg::FI { id: l, seconds: 600 }));
                g.step(&x("bobby", pay, MMsg::CB { id: l }));
                g.step(&x("bobby", vec![], MMsg::BL { listing_id: l, bucket_id: l }));
                g.step(&x("bobby", vec![], MMsg::WP { id: l }));
                g.step(&x("alice", vec![], MMsg::RB { id: l }));
                g.step(&Op::ADV { d_ns: 604_801_000_000_000, d_height: 100_000 });
                g.step(&x("carol", vec![], MMsg::FC));
            }
            g.battery_drain();
            Some(g.stats)
        }
        19 | 20 => {
            // 17 NFTs alternating between two collections registered at 300 bps each: the royalties due are
            // 6 % (each collection counts once per side), far below the 50 % gate - the purchase must go through
            let buyer_side = idx == 20;
            let sim = Sim::new(Config { n_users: 3, n_cw20: 1, n_cw721: 2, nfts_per_user_per_collection: 9, n_hostile: 0, ..Config::default() });
            let mut g = Gen::start(sim, &format!("boundary:{} alternating-collections side={}", idx, if buyer_side { "buyer" } else { "seller" }), seed, w, thorough);
            let colls = g.h.sim.cw721_addrs().to_vec();
            g.step(&Op::R { sender: DEPLOYER.into(), msg: RMsg::Reg { nft: va(&colls[0]), payout: va(PAYOUTS[0]), bps: 300 } });
            g.step(&Op::R { sender: DEPLOYER.into(), msg: RMsg::Reg { nft: va(&colls[1]), payout: va(PAYOUTS[1]), bps: 300 } });
            let mine = |g: &Gen, c: &String| -> Vec<String> { g.h.sim.nft_owners(c).into_iter().filter(|(_, o)| o == "alice").map(|(t, _)| t).collect() };
            let (a, b) = (mine(&g, &colls[0]), mine(&g, &colls[1]));
            let mut seq: Vec<(String, String)> = vec![];
            for i in 0..17 {
                let (c, ts) = if i % 2 == 0 { (&colls[0], &a) } else { (&colls[1], &b) };
                seq.push((c.clone(), ts[i / 2].clone()));
            }
            let nfts_g = GenericBalance { native: vec![], cw20: vec![], nfts: seq.iter().map(|(c, t)| Nft { contract_address: Addr::unchecked(c.as_str()), token_id: t.clone() }).collect() };
            let t = g.h.sim.cw20_addrs()[0].clone();
            let fung = GenericBalance {
                native: natives(&[(10_000, JUNO_DENOM), (33_333, USDC_DENOM)]),
                cw20: vec![Cw20CoinVerified { address: Addr::unchecked(t.as_str()), amount: Uint128::new(20_001) }],
                nfts: vec![],
            };
            // deposits in exactly this order
            let nft_deposits = |g: &mut Gen, who: &str, create: Option<Create>, bucket: bool| {
                let mut first = true;
                for (c, tid) in &seq {
                    let inner = match (bucket, first) {
                        (false, true) => Inner::CL { id: 1, create: create.clone().unwrap() },
                        (false, false) => Inner::AL { id: 1 },
                        (true, true) => Inner::CB { id: 1 },
                        (true, false) => Inner::AB { id: 1 },
                    };
                    g.step(&Op::T721 { coll: c.clone(), sender: who.into(), token_id: tid.clone(), inner });
                    first = false;
                }
            };
            if !buyer_side {
                nft_deposits(&mut g, "alice", Some(Create { ask: gbal_to_raw(&fung), whitelist: None }), false);
                g.step(&x("alice", vec![], MMsg::FI { id: 1, seconds: 600 }));
                for op in g.deposit_ops("bobby", &fung, 1, None) {
                    g.step(&op);
                }
                g.step(&x("bobby", vec![], MMsg::BL { listing_id: 1, bucket_id: 1 }));
                g.step(&x("bobby", vec![], MMsg::WP { id: 1 }));
                g.step(&x("alice", vec![], MMsg::RB { id: 1 }));
            } else {
                for op in g.deposit_ops("bobby", &fung, 1, Some(Create { ask: gbal_to_raw(&nfts_g), whitelist: None })) {
                    g.step(&op);
                }
                g.step(&x("bobby", vec![], MMsg::FI { id: 1, seconds: 600 }));
                nft_deposits(&mut g, "alice", None, true);
                g.step(&x("alice", vec![], MMsg::BL { listing_id: 1, bucket_id: 1 }));
                g.step(&x("alice", vec![], MMsg::WP { id: 1 }));
                g.step(&x("bobby", vec![], MMsg::RB { id: 1 }));
            }
            g.battery_drain();
            Some(g.stats)
        }
        _ => None,
    }
}

// ---------------------------------------------------------------------------------------
// C14: exhaustive registry histories over a boundary alphabet (DFS with PUSH/POP)
// ---------------------------------------------------------------------------------------

pub fn registry_exhaustive(idx: usize, seed: u64, w: &mut dyn Write, thorough: bool) -> Option<Stats> {
    // one item per first letter of the alphabet, so that the work splits over the jobs
    let sim = Sim::new(Config { n_users: 2, n_cw20: 0, n_cw721: 2, nfts_per_user_per_collection: 1, n_hostile: 0, collection_admins: vec![Some(DEPLOYER.into()), None], ..Config::default() });
    let c0 = sim.cw721_addrs()[0].clone();
    let c1 = sim.cw721_addrs()[1].clone();
    let alphabet: Vec<Op> = vec![
        Op::R { sender: DEPLOYER.into(), msg: RMsg::Reg { nft: va(&c0), payout: va(PAYOUTS[0]), bps: 100 } },
        Op::R { sender: "alice".into(), msg: RMsg::Reg { nft: va(&c0), payout: va("alice"), bps: 300 } },
        Op::R { sender: DEPLOYER.into(), msg: RMsg::Reg { nft: va(&c0), payout: va(PAYOUTS[0]), bps: 301 } },
        Op::R { sender: DEPLOYER.into(), msg: RMsg::Reg { nft: va(&c1), payout: va(PAYOUTS[0]), bps: 10 } },
        Op::R { sender: DEPLOYER.into(), msg: RMsg::Upd { nft: va(&c0), payout: None, bps: Some(300) } },
        Op::R { sender: DEPLOYER.into(), msg: RMsg::Upd { nft: va(&c0), payout: Some(va(PAYOUTS[1])), bps: None } },
        Op::R { sender: "alice".into(), msg: RMsg::Upd { nft: va(&c0), payout: Some(va("alice")), bps: Some(10) } },
        Op::R { sender: DEPLOYER.into(), msg: RMsg::Upd { nft: va(&c0), payout: None, bps: Some(9) } },
        Op::R { sender: DEPLOYER.into(), msg: RMsg::Rem { nft: va(&c0) } },
        Op::R { sender: "alice".into(), msg: RMsg::Rem { nft: va(&c0) } },
        Op::ADV { d_ns: 6_000_000_000, d_height: 99 },
        Op::ADV { d_ns: 6_000_000_000, d_height: 1 },
        Op::AD { sender: DEPLOYER.into(), contract: c0.clone(), new_admin: Some("alice".into()) },
        Op::AD { sender: "alice".into(), contract: c0.clone(), new_admin: Some(DEPLOYER.into()) },
    ];
    if idx >= alphabet.len() {
        return None;
    }
    let depth = if thorough { 4 } else { 3 };
    let mut g = Gen::start(sim, &format!("c14:{} exhaustive depth {}", idx, depth), seed, w, thorough);
    fn dfs(g: &mut Gen, alphabet: &[Op], depth: usize) {
        if depth == 0 {
            return;
        }
        for op in alphabet {
            g.push();
            g.step(op);
            dfs(g, alphabet, depth - 1);
            g.pop();
        }
    }
    g.push();
    g.step(&alphabet[idx]);
    dfs(&mut g, &alphabet, depth - 1);
    g.pop();
    Some(g.stats)
}

// ---------------------------------------------------------------------------------------
// small-scope exhaustive exploration of the marketplace itself (DFS with PUSH/POP): every sequence
// of up to `depth` operations over a fixed alphabet around one listing and two competing buckets
// ---------------------------------------------------------------------------------------

pub fn market_exhaustive(idx: usize, seed: u64, w: &mut dyn Write, thorough: bool) -> Option<Stats> {
    let sim = Sim::new(Config { n_users: 3, n_cw20: 1, n_cw721: 1, nfts_per_user_per_collection: 1, n_hostile: 0, ..Config::default() });
    let coll = sim.cw721_addrs()[0].clone();
    let a_tid = sim.nft_owners(&coll).into_iter().find(|(_, o)| o == "alice").map(|(t, _)| t).unwrap();
    let ask = create(&[(400, USDC_DENOM)]);
    let alphabet: Vec<Op> = vec![
        x("alice", natives(&[(300, JUNO_DENOM)]), MMsg::CL { id: 1, create: ask.clone() }),
        Op::T721 { coll: coll.clone(), sender: "alice".into(), token_id: a_tid.clone(), inner: Inner::AL { id: 1 } },
        x("alice", vec![], MMsg::FI { id: 1, seconds: 600 }),
        x("alice", vec![], MMsg::CA { id: 1, ask: ask_native(&[(401, USDC_DENOM)]) }),
        x("alice", vec![], MMsg::DL { id: 1 }),
        x("bobby", natives(&[(400, USDC_DENOM)]), MMsg::CB { id: 1 }),
        x("bobby", natives(&[(1, USDC_DENOM)]), MMsg::AB { id: 1 }),
        x("bobby", vec![], MMsg::BL { listing_id: 1, bucket_id: 1 }),
        x("bobby", vec![], MMsg::WP { id: 1 }),
        x("bobby", vec![], MMsg::RB { id: 1 }),
        x("alice", vec![], MMsg::RB { id: 1 }),
        x("carol", natives(&[(400, USDC_DENOM)]), MMsg::CB { id: 2 }),
        x("carol", vec![], MMsg::BL { listing_id: 1, bucket_id: 2 }),
        x("alice", vec![], MMsg::BL { listing_id: 1, bucket_id: 1 }),
        Op::ADV { d_ns: 600_000_000_000, d_height: 100 },
        Op::ADV { d_ns: 1, d_height: 0 },
        Op::ADV { d_ns: 604_801_000_000_000, d_height: 100_800 },
        x("carol", vec![], MMsg::FC),
        Op::R { sender: DEPLOYER.into(), msg: RMsg::Reg { nft: va(&coll), payout: va(PAYOUTS[0]), bps: 300 } },
    ];
    if idx >= alphabet.len() {
        return None;
    }
    let depth = if thorough { 6 } else { 4 };
    let mut g = Gen::start(sim, &format!("mx:{} market-exhaustive depth {}", idx, depth), seed, w, thorough);
    fn dfs(g: &mut Gen, alphabet: &[Op], depth: usize, drain_at: usize) {
        if depth == drain_at {
            g.battery_drain();
        }
        if depth == 0 {
            return;
        }
        for op in alphabet {
            g.push();
            let out = g.step(op);
            // a refused operation leaves the state as it was: nothing new below it
            if out.ok {
                dfs(g, alphabet, depth - 1, drain_at);
            }
            g.pop();
        }
    }
    g.push();
    let out = g.step(&alphabet[idx]);
    if out.ok {
        dfs(&mut g, &alphabet, depth - 1, if thorough { 2 } else { 1 });
    }
    g.pop();
    Some(g.stats)
}

// ---------------------------------------------------------------------------------------
// C16: paging with many records
// ---------------------------------------------------------------------------------------

pub fn paging(idx: usize, seed: u64, w: &mut dyn Write, thorough: bool) -> Option<Stats> {
    if idx > 1 {
        return None;
    }
    let sim = Sim::new(Config { n_users: 3, n_cw20: 1, n_cw721: 1, nfts_per_user_per_collection: 1, n_hostile: 0, ..Config::default() });
    let mut g = Gen::start(sim, &format!("c16:{} paging", idx), seed, w, thorough);
    let marks: Vec<usize> = if thorough { vec![0, 1, 19, 20, 21, 40, 41, 241, 260, 300] } else { vec![0, 1, 19, 20, 21, 41, 241, 281] };
    let top = *marks.last().unwrap();
    let all_pages: Vec<u8> = (1..=255u8).collect();
    let some_pages: Vec<u8> = vec![1, 2, 3, 12, 13, 14, 127, 128, 254, 255];
    let mut n = 0usize;
    // interleave ids so storage order != creation order; bobby owns some in between
    for k in 0..=top {
        if marks.contains(&k) {
            let pages = if k == top || k <= 21 { &all_pages } else { &some_pages };
            for p in pages {
                if idx == 0 {
                    g.query(&Query::BK { owner: va("alice"), page: *p });
                } else {
                    g.query(&Query::LO { owner: va("alice"), page: *p });
                }
            }
            if idx == 1 {
                for p in [1u8, 2, 3, 13, 14, 255] {
                    g.query(&Query::MK { page: p });
                }
                g.query(&Query::WL { owner: va("bobby") });
            }
            g.query(&Query::BK { owner: va("bobby"), page: 1 });
            g.query(&Query::LO { owner: va("carol"), page: 1 });
        }
        if k == top {
            break;
        }
        n += 1;
        let id = if n % 2 == 0 { 10_000 - n as u64 } else { n as u64 };
        if idx == 0 {
            g.step(&x("alice", natives(&[(1, "uatom")]), MMsg::CB { id }));
            if n % 50 == 0 {
                g.step(&x("bobby", natives(&[(1, "uatom")]), MMsg::CB { id: 20_000 + n as u64 }));
            }
        } else {
            let wl = if n % 3 == 0 { Some(va("bobby")) } else { None };
            g.step(&x("alice", natives(&[(1, "uatom")]), MMsg::CL { id, create: Create { ask: ask_native(&[(1, JUNO_DENOM)]), whitelist: wl } }));
            if n % 2 == 1 {
                g.step(&x("alice", vec![], MMsg::FI { id, seconds: 600 + (n as u64 % 7) * 100 }));
            }
            if n % 10 == 0 {
                g.step(&Op::ADV { d_ns: 1_000_000_007, d_height: 1 });
            }
        }
    }
    // expire some, query with ns times
    if idx == 1 {
        g.step(&Op::ADV { d_ns: 700_000_000_123, d_height: 10 });
        for p in [1u8, 2, 7, 13] {
            g.query(&Query::MK { page: p });
        }
        g.query(&Query::WL { owner: va("bobby") });
    }
    Some(g.stats)
}

// ---------------------------------------------------------------------------------------
// C03: all orderings of competing op sets (DFS with PUSH/POP)
// ---------------------------------------------------------------------------------------

pub fn orderings(idx: usize, seed: u64, w: &mut dyn Write, thorough: bool) -> Option<Stats> {
    if idx > 2 {
        return None;
    }
    let mut g = Gen::start(small_world(), &format!("c03:{} orderings", idx), seed, w, thorough);
    // listing 1 by alice; bobby and carol hold identical buckets 1 and 2
    g.step(&x("alice", natives(&[(1000, "uatom"), (400, JUNO_DENOM)]), MMsg::CL { id: 1, create: create(&[(1000, JUNO_DENOM)]) }));
    g.step(&x("alice", vec![], MMsg::FI { id: 1, seconds: 600 }));
    g.step(&x("bobby", natives(&[(1000, JUNO_DENOM)]), MMsg::CB { id: 1 }));
    g.step(&x("carol", natives(&[(1000, JUNO_DENOM)]), MMsg::CB { id: 2 }));
    // time: exp-1ns / exp / exp+1ns
    let d = 600_000_000_000u64;
    let adv = match idx {
        0 => d - 1,
        1 => d,
        _ => d + 1,
    };
    g.step(&Op::ADV { d_ns: adv, d_height: 50 });
    let ops: Vec<Op> = vec![
        x("bobby", vec![], MMsg::BL { listing_id: 1, bucket_id: 1 }),
        x("carol", vec![], MMsg::BL { listing_id: 1, bucket_id: 2 }),
        x("alice", vec![], MMsg::DL { id: 1 }),
        x("bobby", vec![], MMsg::WP { id: 1 }),
        x("carol", vec![], MMsg::WP { id: 1 }),
        x("alice", vec![], MMsg::RB { id: 1 }),
        x("bobby", vec![], MMsg::RB { id: 1 }),
    ];
    let depth = if thorough { 6 } else { 4 };
    fn dfs(g: &mut Gen, ops: &[Op], used: &mut Vec<bool>, depth: usize) {
        if depth == 0 {
            return;
        }
        for i in 0..ops.len() {
            if used[i] {
                continue;
            }
            used[i] = true;
            g.push();
            g.step(&ops[i]);
            dfs(g, ops, used, depth - 1);
            g.pop();
            used[i] = false;
        }
    }
    let mut used = vec![false; ops.len()];
    dfs(&mut g, &ops, &mut used, depth);
    Some(g.stats)
}

// ---------------------------------------------------------------------------------------
// C17: pure-function lines (direct calls of calc_fee_coin / royalties / genbal_cmp / validate)
// ---------------------------------------------------------------------------------------

pub fn validate_line(sim: &Sim, a: &RawGBal) -> String {
    let mut deps = mock_dependencies();
    let unv = GenericBalanceUnvalidated {
        native: a.native.clone(),
        cw20: a.cw20.iter().map(|(r, amt)| Cw20CoinUnverified { address: r.wire(), amount: Uint128::new(*amt) }).collect(),
        nfts: a.nfts.iter().map(|(r, t)| NftUnverified { contract_address: r.wire(), token_id: t.clone() }).collect(),
    };
    let r = unv.validate(&deps.as_mut());
    match r {
        Ok(g) => format!("VALIDATE {} ok {}", encode_raw_gbal(sim, a), encode_gbal(sim, &g)),
        Err(_) => format!("VALIDATE {} err", encode_raw_gbal(sim, a)),
    }
}

fn fee_line(sim: &Sim, juno: bool, g: &GenericBalance) -> String {
    let fd = if juno { FeeDenom::JUNO(1) } else { FeeDenom::USDC(1) };
    let r = std::panic::catch_unwind(std::panic::AssertUnwindSafe(|| marketplace::utils::calc_fee_coin(&fd, g)));
    let head = format!("FEE {} {}", if juno { 0 } else { 1 }, encode_gbal(sim, g));
    match r {
        Ok(Ok((fee, g2))) => {
            let f = match fee {
                None => "N".to_string(),
                Some(c) => format!("S {} {}", sim.denom_num(&c.denom), c.amount.u128()),
            };
            format!("{} ok {} {}", head, f, encode_gbal(sim, &g2))
        }
        _ => format!("{} err", head),
    }
}

fn roy_line(sim: &Sim, g: &GenericBalance, rs: &[Option<RoyaltyInfo>]) -> String {
    let mut head = format!("ROY {} {}", encode_gbal(sim, g), rs.len());
    for r in rs {
        match r {
            None => head.push_str(" N"),
            Some(i) => {
                head.push_str(" S ");
                head.push_str(&encode_royinfo(sim, i));
            }
        }
    }
    let mut g2 = g.clone();
    let r = std::panic::catch_unwind(std::panic::AssertUnwindSafe(|| g2.royalties(rs.to_vec())));
    match r {
        Err(_) => format!("{} panic", head),
        Ok(Err(_)) => format!("{} err", head),
        Ok(Ok((msgs, sum))) => {
            let mut s = format!("{} ok {} {}", head, encode_gbal(sim, &g2), msgs.len());
            for m in &msgs {
                s.push(' ');
                s.push_str(&encode_outmsg(sim, &view_plain(m)));
            }
            format!("{} {}", s, sum)
        }
    }
}

fn cmp_line(sim: &Sim, a: &GenericBalance, b: &GenericBalance) -> String {
    let r = genbal_cmp(a, b).is_ok();
    format!("CMP {} {} {}", encode_gbal(sim, a), encode_gbal(sim, b), if r { 1 } else { 0 })
}

pub fn pure_lines(idx: usize, seed: u64, w: &mut dyn Write, thorough: bool) -> Option<Stats> {
    let n_chunks = 16usize;
    if idx >= n_chunks {
        return None;
    }
    let sim = small_world();
    let mut g = Gen::start(sim, &format!("c17:{} pure", idx), seed, w, thorough);
    let t0 = g.h.sim.cw20_addrs()[0].clone();
    let t1 = g.h.sim.cw20_addrs()[1].clone();
    let c0 = g.h.sim.cw721_addrs()[0].clone();
    let ri = |bps: u64, p: &str| Some(RoyaltyInfo { last_updated: 5, bps, payout_addr: Addr::unchecked(p) });
    // rate sets from the boundary alphabet {10, 11, 33, 100, 299, 300}^<=3, plus the two long ones
    let alpha = [10u64, 11, 33, 100, 299, 300];
    let mut rate_sets: Vec<Vec<Option<RoyaltyInfo>>> = vec![vec![], vec![None]];
    for a in alpha {
        rate_sets.push(vec![ri(a, PAYOUTS[0])]);
        for b in alpha {
            rate_sets.push(vec![ri(a, PAYOUTS[0]), None, ri(b, PAYOUTS[1])]);
        }
    }
    if thorough {
        for a in alpha {
            for b in alpha {
                for c in alpha {
                    rate_sets.push(vec![ri(a, PAYOUTS[0]), ri(b, PAYOUTS[1]), ri(c, PAYOUTS[0])]);
                }
            }
        }
    }
    rate_sets.push((0..17).map(|i| ri(300, PAYOUTS[i % 2])).collect()); // 5100: refused
    rate_sets.push((0..17).map(|i| ri(if i < 16 { 300 } else { 200 }, PAYOUTS[i % 2])).collect()); // 5000
    rate_sets.push((0..25).map(|i| ri(200, PAYOUTS[i % 2])).collect()); // 25 entries, 5000
    rate_sets.push((0..25).map(|_| ri(10, "alice")).collect());
    let top: u128 = if thorough { 50_000 } else { 2_000 };
    let mut a: u128 = idx as u128;
    let mut k = 0usize;
    while a <= top {
        let gb = GenericBalance {
            native: natives(&[(a.max(0), JUNO_DENOM), (a / 3 + 1, "uatom")]).into_iter().filter(|c| !c.amount.is_zero() || a == 0).collect(),
            cw20: vec![Cw20CoinVerified { address: Addr::unchecked(t0.as_str()), amount: Uint128::new(a + 1) }],
            nfts: vec![Nft { contract_address: Addr::unchecked(c0.as_str()), token_id: "t000".into() }],
        };
        let l = fee_line(&g.h.sim, true, &gb);
        g.emit(&l);
        let l = fee_line(&g.h.sim, false, &gb);
        g.emit(&l);
        // every amount against a rotating slice of the rate sets (all sets for small amounts)
        let per = if a <= 400 || thorough { rate_sets.len() } else { 6 };
        for j in 0..per {
            let rs = &rate_sets[(k + j) % rate_sets.len()];
            let l = roy_line(&g.h.sim, &gb, rs);
            g.emit(&l);
            g.stats.pure += 1;
        }
        g.stats.pure += 2;
        k += 7;
        a += n_chunks as u128;
    }
    // boundary-dense sampling up to 2^128-1
    let mut big: Vec<u128> = vec![];
    for p in [8u32, 16, 31, 32, 33, 63, 64, 65, 96, 100, 120, 126, 127] {
        let b = 1u128 << p;
        big.extend([b - 1, b, b + 1]);
    }
    big.extend([u128::MAX, u128::MAX - 1, u128::MAX / 2, u128::MAX / 2 + 1, u128::MAX / 10_000 * 10_000, u128::MAX / 5 * 5]);
    for m in [200u128, 1000, 10_000, 334, 34, 91] {
        for q in [1u128, 7, 1 << 40, 1 << 90] {
            let v = m.saturating_mul(q);
            big.extend([v.saturating_sub(1), v, v.saturating_add(1)]);
        }
    }
    for _ in 0..(if thorough { 400 } else { 40 }) {
        let hi = g.rng.next() as u128;
        let lo = g.rng.next() as u128;
        let sh = g.rng.below(120) as u32;
        big.push(((hi << 64) | lo) >> sh);
    }
    for (i, a) in big.iter().enumerate() {
        if i % n_chunks != idx {
            continue;
        }
        let gb = GenericBalance {
            native: natives(&[(*a, USDC_DENOM), (*a, JUNO_DENOM), (5, "uosmo")]).into_iter().filter(|c| !c.amount.is_zero()).collect(),
            cw20: vec![
                Cw20CoinVerified { address: Addr::unchecked(t0.as_str()), amount: Uint128::new(*a) },
                Cw20CoinVerified { address: Addr::unchecked(t1.as_str()), amount: Uint128::new(a / 2 + 1) },
            ],
            nfts: vec![],
        };
        let l = fee_line(&g.h.sim, i % 2 == 0, &gb);
        g.emit(&l);
        g.stats.pure += 1;
        for j in 0..8 {
            let rs = &rate_sets[(i * 5 + j * 11) % rate_sets.len()];
            let l = roy_line(&g.h.sim, &gb, rs);
            g.emit(&l);
            g.stats.pure += 1;
        }
    }
    // the reply entry point: only id 1 (the registry instantiation) is accepted
    if idx == 0 {
        use cosmwasm_std::testing::mock_env;
        use cosmwasm_std::{Binary, Reply, SubMsgResponse, SubMsgResult};
        for id in [0u64, 1, 2, 3, 7, u64::MAX] {
            for (tag, addr) in [("V", g.h.sim.registry_addr().to_string()), ("I", crate::ops::INVALID_ADDR.to_string())] {
                let mut deps = mock_dependencies();
                // MsgInstantiateContractResponse { address = 1 }
                let mut data = vec![0x0Au8, addr.len() as u8];
                data.extend_from_slice(addr.as_bytes());
                let r = marketplace::contract::reply(
                    deps.as_mut(),
                    mock_env(),
                    Reply { id, result: SubMsgResult::Ok(SubMsgResponse { events: vec![], data: Some(Binary::from(data)) }) },
                );
                let a = if tag == "V" { format!("V {}", g.h.sim.addr_num(&addr)) } else { "I".to_string() };
                let l = format!("REPLY {} {} {}", id, a, if r.is_ok() { "ok" } else { "err" });
                g.emit(&l);
                g.stats.pure += 1;
            }
        }
    }
    // out-of-range rates straight into the function (u64 sum overflow = abort)
    if idx == 0 {
        let gb = GenericBalance { native: natives(&[(1000, JUNO_DENOM)]), cw20: vec![], nfts: vec![] };
        for rs in [vec![ri(u64::MAX, "alice"), ri(1, "alice")], vec![ri(5001, "alice")], vec![ri(5000, "alice")], vec![ri(0, "alice")]] {
            let l = roy_line(&g.h.sim, &gb, &rs);
            g.emit(&l);
            g.stats.pure += 1;
        }
    }
    // genbal_cmp on random and adversarial (duplicate-bearing) balances
    let n_cmp = if thorough { 600 } else { 80 };
    for _ in 0..n_cmp {
        let mk = |g: &mut Gen| -> GenericBalance {
            let mut b = GenericBalance { native: vec![], cw20: vec![], nfts: vec![] };
            for _ in 0..g.rng.below(4) {
                let d = *g.rng.pick(&[JUNO_DENOM, USDC_DENOM, "uatom"]);
                b.native.push(coin(1 + g.rng.below(3) as u128, d));
            }
            for _ in 0..g.rng.below(3) {
                let t = if g.rng.chance(50) { t0.clone() } else { t1.clone() };
                b.cw20.push(Cw20CoinVerified { address: Addr::unchecked(t), amount: Uint128::new(1 + g.rng.below(2) as u128) });
            }
            for _ in 0..g.rng.below(3) {
                b.nfts.push(Nft { contract_address: Addr::unchecked(c0.as_str()), token_id: format!("t00{}", g.rng.below(3)) });
            }
            b
        };
        let a = mk(&mut g);
        let mut b = if g.rng.chance(50) { a.clone() } else { mk(&mut g) };
        if g.rng.chance(50) {
            g.rng.shuffle(&mut b.native);
            g.rng.shuffle(&mut b.cw20);
            g.rng.shuffle(&mut b.nfts);
        }
        let l = cmp_line(&g.h.sim, &a, &b);
        g.emit(&l);
        g.stats.pure += 1;
    }
    Some(g.stats)
}
