//! Self-checks of the harness (not of the contracts).

use cosmwasm_std::{coin, coins, Addr, Coin, CosmosMsg};
use fzharness::*;

fn x(sender: &str, funds: Vec<Coin>, msg: MMsg) -> Op {
    Op::X {
        sender: sender.to_string(),
        funds,
        msg,
    }
}

fn ask() -> RawGBal {
    RawGBal::natives(coins(100, "uatom"))
}

/// A small world with a few listings / buckets / moved assets.
fn busy_world() -> Sim {
    let mut sim = Sim::new_default();
    let tk = sim.cw20_addrs()[0].clone();
    let c0 = sim.cw721_addrs()[0].clone();
    let ops = vec![
        x("alice", coins(1000, "ujunox"), MMsg::CL { id: 1, create: Create { ask: ask(), whitelist: None } }),
        x("bobby", coins(100, "uatom"), MMsg::CB { id: 1 }),
        Op::T20 { token: tk.clone(), sender: "carol".into(), amount: 5, inner: Inner::CB { id: 2 } },
        Op::T721 { coll: c0.clone(), sender: "alice".into(), token_id: "t001".into(), inner: Inner::AL { id: 1 } },
        x("alice", vec![], MMsg::FI { id: 1, seconds: 600 }),
        x("carol", coins(3, "uosmo"), MMsg::CL { id: 7, create: Create { ask: ask(), whitelist: Some(RawAddr::valid("alice")) } }),
    ];
    for op in &ops {
        let o = sim.apply(op);
        assert!(o.ok, "{:?} -> {:?}", op, o.err_text);
    }
    sim
}

#[test]
fn storage_readers_agree_with_queries() {
    let sim = busy_world();
    for tk in sim.cw20_addrs() {
        let mut via_query: Vec<(String, u128)> = sim
            .all_addrs()
            .iter()
            .map(|a| (a.clone(), sim.cw20_balance(tk, a)))
            .filter(|(_, b)| *b != 0)
            .collect();
        let mut via_store = sim.cw20_holders(tk);
        via_query.sort();
        via_store.sort();
        assert_eq!(via_query, via_store);
    }
    for c in sim.cw721_addrs() {
        let via_query: Vec<(String, String)> = sim
            .minted_ids(c)
            .iter()
            .map(|t| (t.clone(), sim.nft_owner(c, t).unwrap()))
            .collect();
        assert_eq!(via_query, sim.nft_owners(c));
    }
    assert_eq!(sim.nft_owner(&sim.cw721_addrs()[0], "t001").unwrap(), sim.market_addr());
    assert_eq!(sim.nft_owner(&sim.cw721_addrs()[0], "nope"), None);
}

#[test]
fn fork_is_deep_and_identical() {
    let mut sim = busy_world();
    let before = sim.snapshot_bytes();
    let world_before = encode_world(&sim);
    let mut f = sim.fork();
    assert_eq!(f.snapshot_bytes(), before);
    assert_eq!(encode_world(&f), world_before);
    assert_eq!(f.block(), sim.block());

    // the fork evolves alone
    let buy = x("bobby", vec![], MMsg::BL { listing_id: 1, bucket_id: 1 });
    let o = f.apply(&buy);
    assert!(o.ok, "{:?}", o.err_text);
    assert!(f.apply(&Op::ADV { d_ns: 5, d_height: 1 }).ok);
    assert_eq!(sim.snapshot_bytes(), before);
    assert_eq!(encode_world(&sim), world_before);
    assert_ne!(f.snapshot_bytes(), before);

    // same op on the original gives the same result as on the fork (determinism)
    let o2 = sim.apply(&buy);
    assert_eq!(o2.msgs, o.msgs);
    assert!(sim.apply(&Op::ADV { d_ns: 5, d_height: 1 }).ok);
    assert_eq!(sim.snapshot_bytes(), f.snapshot_bytes());
    assert_eq!(encode_world(&sim), encode_world(&f));
}

#[test]
fn failed_ops_leave_no_trace() {
    let mut sim = busy_world();
    let before = sim.snapshot_bytes();
    let block = sim.block();
    let bad = vec![
        x("bobby", vec![], MMsg::BL { listing_id: 1, bucket_id: 9 }),
        x("bobby", coins(1, "nosuchdenom"), MMsg::CB { id: 50 }),
        x("alice", vec![], MMsg::WP { id: 1 }),
        Op::T20 { token: sim.cw20_addrs()[0].clone(), sender: "alice".into(), amount: 0, inner: Inner::CB { id: 51 } },
        Op::T721 { coll: sim.cw721_addrs()[0].clone(), sender: "bobby".into(), token_id: "t000".into(), inner: Inner::CB { id: 52 } },
        Op::R { sender: "alice".into(), msg: RMsg::Rem { nft: RawAddr::Invalid } },
        Op::AD { sender: "alice".into(), contract: sim.market_addr().to_string(), new_admin: None },
    ];
    for op in &bad {
        let o = sim.apply(op);
        assert!(!o.ok, "{:?} unexpectedly ok", op);
        assert!(!o.dirty_on_fail, "{:?} dirty", op);
        assert!(o.err_text.is_some());
        assert_eq!(sim.snapshot_bytes(), before);
        assert_eq!(sim.block(), block);
        assert_eq!(encode_outcome(&sim, &o), "err");
    }
}

#[test]
fn fault_injection_reverts_everything() {
    let mut sim = busy_world();
    assert!(sim.apply(&x("bobby", vec![], MMsg::BL { listing_id: 1, bucket_id: 1 })).ok);
    let before = sim.snapshot_bytes();
    let wp = x("bobby", vec![], MMsg::WP { id: 1 });
    let n = sim.fork().apply(&wp).msgs.len();
    assert_eq!(n, 3); // bank send, nft transfer, community pool
    for k in 0..n {
        let mut f = sim.fork();
        let o = f.apply_with_fault(&wp, k);
        assert!(o.fault_injected && !o.ok && !o.dirty_on_fail, "k={}", k);
        assert_eq!(o.msgs.len(), n, "the recorder still shows the handler's messages");
        assert_eq!(f.snapshot_bytes(), before);
        // the injector is disarmed afterwards
        assert!(f.apply(&wp).ok);
    }
    let o = sim.fork().apply_with_fault(&wp, n);
    assert!(o.ok && !o.fault_injected);
}

#[test]
fn panics_are_caught_and_reverted() {
    let mut sim = Sim::new_default();
    let h0 = sim.hostile_addrs()[0].clone();
    assert!(sim.apply(&x(&h0, coins(10, "ujunox"), MMsg::CB { id: 6 })).ok);
    let forge = x(
        &h0,
        vec![],
        MMsg::RC { sender: RawAddr::valid(h0.clone()), amount: u128::MAX, inner: Inner::AB { id: 6 } },
    );
    assert!(sim.apply(&forge).ok);
    let before = sim.snapshot_bytes();
    // Uint128 `+=` overflow inside GenericBalance::add_tokens panics
    let o = sim.apply(&forge);
    assert!(!o.ok && o.panicked, "{:?}", o);
    assert!(!o.dirty_on_fail);
    assert_eq!(sim.snapshot_bytes(), before);
    // and the simulator is still usable
    assert!(sim.apply(&x("alice", coins(1, "uatom"), MMsg::CB { id: 8 })).ok);
}

#[test]
fn idx_ok_detects_a_broken_index() {
    let mut sim = busy_world();
    assert!(sim.market_state().idx_ok);
    let good = sim.snapshot_bytes();
    let block = sim.block();
    let contains = |k: &Vec<u8>, needle: &[u8]| k.windows(needle.len()).any(|w| w == needle);
    for needle in [&b"listing__id"[..], b"listing__finalized__date", b"listing__whitelisted__buyer"] {
        // drop one entry of that index
        let mut broken = good.clone();
        let key = broken.keys().find(|k| contains(k, needle)).expect("index entry exists").clone();
        broken.remove(&key);
        sim.restore(broken, block.clone());
        assert!(!sim.market_state().idx_ok, "missing {:?} entry not detected", String::from_utf8_lossy(needle));
        assert!(!encode_world(&sim).is_empty());
        // add a stray entry to that index
        let mut broken = good.clone();
        let mut stray = key.clone();
        stray.push(b'x');
        broken.insert(stray, good[&key].clone());
        sim.restore(broken, block.clone());
        assert!(!sim.market_state().idx_ok, "stray {:?} entry not detected", String::from_utf8_lossy(needle));
    }
    sim.restore(good, block);
    assert!(sim.market_state().idx_ok);
}

#[test]
fn decoder_agrees_with_the_contracts_encoder() {
    use marketplace::state::GetComPoolMsg;
    for (amt, denom, who) in [(5u128, "ujunox", "contract8"), (u128::MAX, "uusdcx", "c"), (0, "", "")] {
        let msg = coin(amt, denom).get_cp_msg(Addr::unchecked(who)).unwrap();
        let CosmosMsg::Stargate { type_url, value } = msg else { panic!("not stargate") };
        assert_eq!(type_url, fzharness::proto::FUND_COMMUNITY_POOL_TYPE_URL);
        let d = fzharness::proto::decode_fund_community_pool(value.as_slice()).expect("decodes");
        assert_eq!(d.depositor, who);
        // proto3: an empty string field is simply absent; anybuf omits it as well
        assert_eq!(d.coins, vec![(denom.to_string(), amt.to_string())]);
    }
}

#[test]
fn name_tables_follow_the_protocol_order() {
    let sim = Sim::new(Config { n_hostile: 4, ..Config::default() }); // 12 contracts: contract10, contract11
    let a = sim.all_addrs();
    for w in a.windows(2) {
        assert!((w[0].len(), w[0].as_bytes()) < (w[1].len(), w[1].as_bytes()));
    }
    assert!(sim.addr_num("contract9") < sim.addr_num("contract10"));
    assert_eq!(sim.addr_name(sim.addr_num("community_pool")), "community_pool");
    assert_eq!(sim.all_denoms(), &["uatom", "ujunox", "uosmo", "uusdcx"]);
    assert_eq!(sim.tid_num("t000"), 0);
    assert_eq!(sim.all_tids().len(), 18);
    // INIT of two independently built default worlds is identical (determinism)
    assert_eq!(line_init(&Sim::new_default()), line_init(&Sim::new_default()));
}

#[test]
fn query_panics_are_reported_as_panic() {
    // block time below two weeks: `current_time - 1_209_600` underflows in get_listings_for_market
    let sim = Sim::new(Config { start_time_ns: 5_000_000_000, ..Config::default() });
    let r = sim.query(&Query::MK { page: 1 });
    assert!(matches!(r, QResp::Panic(_)), "{:?}", r);
    assert_eq!(encode_qresp(&sim, &r), "panic");
    let r = sim.query(&Query::BK { owner: RawAddr::Invalid, page: 1 });
    assert!(matches!(r, QResp::Err(_)), "{:?}", r);
    assert_eq!(line_query(&sim, &Query::BK { owner: RawAddr::Invalid, page: 1 }, &r), "QUERY BK I 1 err");
    assert_eq!(line_query(&sim, &Query::RA, &sim.query(&Query::RA)), format!("QUERY RA ok RA S {}", sim.addr_num(sim.registry_addr())));
}
