#!/usr/bin/env python3
"""Regenerates /verif/MANIFEST.json. A property is claimed iff it has a Props/<id>*.lean file
(committed) and appears in CLAIMED below; everything else is listed under not_applicable."""
import glob, json, os, sys

V = os.path.dirname(os.path.dirname(os.path.abspath(__file__)))
props = [json.loads(l) for l in open(os.path.join(V, "properties.jsonl"))]

TECH = "Lean 4 theorems about a hand-written executable model + per-step correspondence check of the model against the real contracts (cw-multi-test) with the theorems' predicates as oracles"

TEXT = {
 "C01": ("invariant by induction over all op lists (accounting lemma per handler + ledger lemma); checkC01 evaluated on every implementation state; C01 abstraction (owed/held per asset, NFT sets) compared with the model per step", "4 C01"),
 "C02": ("exact iff characterisation of buy acceptance (handler and step level), genbal_cmp = permutation equality, refused ⇒ world unchanged; oracle: implementation acceptance = BuyTerms on its own pre-state, buy matrix in forks, perturbed buckets, expiry instants to the ns", "4 C02"),
 "C03": ("swap effect theorem, claim-only-by theorems, sold-at-most-once over all op lists; trace monitors soldOnce / withdrawnOnce on the implementation, all orderings of competing op sets", "4 C03"),
 "C04": ("refusal theorems for every owner-only message by a non-owner (via id uniqueness + filing), frame theorem, wallets-never-decrease theorem; non-owner × kind × record × path probe matrix in forks", "4 C04"),
 "C05": ("exact effect specification of deposits and payouts (ledgers + records) as theorems about the model; implementation compared with the model's step on all ledgers and records", "4 C05"),
 "C06": ("fee and royalty effect of a purchase equals the declarative floor formulas (C17 lemmas) for all amounts; implementation post-purchase records, fees and payout deltas compared with the model", "4 C06"),
 "C07": ("exit-always-possible theorems from the invariants; fork-and-drain of every sampled implementation state", "4 C07"),
 "C08": ("finalize iff 600..1209600, frame theorem for non-preparing listings under every op, binding-until-expiry, forward-only status; per-id monitor on implementation traces, lifetime and time alphabets", "4 C08"),
 "C09": ("ids invariant (unique live ids, used ⊇ live, 0 marked) preserved by every handler and every op list; creation ⇒ fresh legal id; used sets only grow; createdOnce monitor + uniqueness on every dump", "4 C09"),
 "C10": ("pending-fee conservation per handler and over histories (ghost ledger), also over histories with injected faults (C10Faults), well-formedness and timeliness of pool messages, protobuf encode/decode round-trip for all byte strings; ghost-ledger monitor + byte comparison of every emitted message with encodeFund", "4 C10"),
 "C11": ("gate theorems (sum > 5000 ⇒ refused, = 5000 accepted), payouts ≤ half and remainder ≥ 1 for all amounts and all entry lists, lifted to every purchase from every reachable state (C11Reach); boundary sums 4990/5000/5010 on both sides with 17+ collections", "4 C11"),
 "C12": ("well-formedness invariant preserved by every handler and every op list, exact acceptance iffs for asks, creations and top-ups, payable-message theorem; checkWF on every dump, malformed stream, 25/26", "4 C12"),
 "C13": ("cycle iff (seconds and ns form), only-cycle frame over all handlers and ops, monotone stamp, >604800 s between switches over all histories, charged-now; week mark ±1 s alphabets", "4 C13"),
 "C14": ("exact iffs for register/update/remove, only-entry frame, bps invariant and key uniqueness over all histories, history-level provenance of every entry change (C14Reach), lookup specs; exhaustive registry histories over a boundary alphabet (depth 3 quick / 4 thorough)", "4 C14"),
 "C15": ("PARTIAL: abort ⇒ original world, fault at any message index aborts, retry = unfaulted, reply only id 1, and for histories with faults: all-or-nothing from every state, a faulty history = the fault-free history of its survivors, invariants and exits preserved (C15Reach) — theorems about the model's transaction semantics (modelled after cw-multi-test, not verified); fault injection at every message position of payout-bearing ops + sub-message shape oracle on every response", "4 C15, 5"),
 "C16": ("paging cover/exactness theorems, market/whitelist soundness and completeness, fee query vs cycle iff; every page 1..255 on owners with up to 260 records, ns times, fee query vs cycle attempts", "4 C16"),
 "C17": ("conservation, floor rounding, totality (no overflow/abort), message shape for all naturals < 2^128 and all legal entry lists, lifted to every purchase from every reachable state (C17Reach); direct differential calls of calc_fee_coin / royalties (exhaustive 0..2000 quick, 0..50000 thorough, boundary sampling to 2^128-1)", "4 C17"),
 "C18": ("PARTIAL: the full statement is false of the code (known finding D5, counterexample proved in Lean and replayed); partial frame theorem for everything a forged call still cannot do, lifted to whole histories that contain forged calls (C18Reach); every observed breach is classified by call site, listed ones print KNOWN-FINDING, any other is a VIOLATION", "4 C18, 3, 5"),
 "C19": ("refusal theorem for every non-deposit kind with funds and for the hooks, failed ⇒ world unchanged, successful non-deposit op never debits its sender; message kind × coin set × state probe matrix in forks", "4 C19"),
}

CLAIMED = sys.argv[1:] if len(sys.argv) > 1 else []
have = {os.path.basename(p)[:3] for p in glob.glob(os.path.join(V, "lean", "Fuzion", "Props", "C*.lean"))}
checks, na = [], []
for p in props:
    pid = p["id"]
    if pid in CLAIMED and pid in have:
        text, ref = TEXT[pid]
        checks.append({
            "property_id": pid,
            "quick_cmd": "./check %s quick" % pid,
            "thorough_cmd": "./check %s thorough" % pid,
            "evidence_file": "evidence/%s.json" % pid,
            "replay_cmd_template": "./check %s --replay {path}" % pid,
            "engine": "lean-model+correspondence",
            "level_claimed": {"category": "proof", "text": text, "design_ref": "DESIGN.md §" + ref},
            "level_note": "trusted: Lean kernel (axioms ⊆ {propext, Classical.choice, Quot.sound}, audited every run), the hand-written model and theorem statements, the correspondence check (harness, shim, codec, generator coverage — sampled); modelled not verified: bank, dispatch/rollback, honest cw20/cw721, addr_validate, admin lookup; gas out of scope",
            "technique": TECH,
        })
    else:
        na.append({"property_id": pid, "reason": "not claimed yet: its theorems are still being proved in this session (the shared correspondence exploration already covers it); nothing in the technique rules it out"})
m = {
 "version": 1,
 "setup_cmd": "./setup.sh",
 "hooks": {"guard": "fuzion_market_verif", "enable": "no hooks are needed: the harness links only public items of the crates in /repo (guard name reserved)",
           "baseline_off_cmd": "cd /repo && cargo test --workspace --no-fail-fast --offline", "source_commits": [], "add_only": True},
 "engines": [{"name": "lean-model+correspondence", "path": "check", "serves_properties": [c["property_id"] for c in checks],
              "kind_free_text": "Lean 4 project /verif/lean (model, invariants, property theorems, line-protocol driver fzmodel) + Rust harness /verif/harness (fzgen) + orchestrator /verif/check"}],
 "checks": checks,
 "not_applicable": na,
 "notes": "Genuine defects repaired by fix: commits in /repo: f53646d (D1), a53caa7 (D2), 4d01511 (D3), 59d3d8a (D4), fbf206d (D6); recorded known finding: D5 (C18), see known_findings.json and DESIGN.md §3.",
}
# an empty list is kept on purpose: every one of the 19 properties is claimed (C15 and C18 as partial, see DESIGN.md §5)
json.dump(m, open(os.path.join(V, "MANIFEST.json"), "w"), indent=1)
print("claimed:", [c["property_id"] for c in checks], "not claimed:", [x["property_id"] for x in na])
