#!/usr/bin/env python3
"""Prints the markdown table of /verif/seeded/*/meta.json for DESIGN.md."""
import glob, json, os
V = os.path.dirname(os.path.dirname(os.path.abspath(__file__)))
print("| seed | what the change does | needs to manifest | caught by (quick) | own property |")
print("|---|---|---|---|---|")
for d in sorted(glob.glob(os.path.join(V, "seeded", "*"))):
    try:
        m = json.load(open(os.path.join(d, "meta.json")))
    except Exception:
        continue
    def cut(x, n):
        x = " ".join(str(x).split())
        return x if len(x) <= n else x[: n - 1] + "…"
    print("| %s | %s | %s | %s | %s |" % (os.path.basename(d), cut(m.get("summary", ""), 170).replace("|", "/"), cut(m.get("needs_to_manifest", ""), 150).replace("|", "/"),
          " ".join(m.get("checks_fired", [])) or "— (missed)", "yes" if m.get("caught_by_own_property") else "no"))
