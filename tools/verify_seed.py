#!/usr/bin/env python3
"""Confirms a seeded change delivered by an independent sub-agent and records it under
/verif/seeded/<id>/: (a) HEAD+patch: the repository's suite passes, (b) HEAD+patch+demo: the demo
fails, (c) HEAD+demo: the demo passes; then runs all 19 checks against /repo with the patch applied
(tools/trymutant.py) and writes meta.json.   usage: verify_seed.py /tmp/wt/C06 A"""
import json, os, re, shutil, subprocess, sys

V = os.path.dirname(os.path.dirname(os.path.abspath(__file__)))


def run(cmd, cwd):
    return subprocess.run(cmd, cwd=cwd, shell=True, capture_output=True, text=True)


def suite(cwd, flt=""):
    r = run("cargo test --workspace --offline %s 2>&1 | grep -E '^test result|^test .* (FAILED|ok)$|error(\\[|:)'" % flt, cwd)
    out = r.stdout
    passed = sum(int(m) for m in re.findall(r"(\d+) passed", out))
    failed = sum(int(m) for m in re.findall(r"(\d+) failed", out))
    err = "error" in out and passed == 0
    return passed, failed, err, out


def main():
    wt, X = sys.argv[1], sys.argv[2]
    seed = os.path.join(wt, "SEED", X)
    meta = json.load(open(os.path.join(seed, "meta.json")))
    pid = meta.get("property", os.path.basename(wt))
    name = meta.get("demo_test_name", "")
    run("git checkout -- . && git clean -fdq -e SEED -e target", wt)
    res = {}
    r = run("git apply SEED/%s/patch.diff" % X, wt)
    assert r.returncode == 0, "patch does not apply: " + r.stderr
    p, f, e, out = suite(wt)
    res["a_patch_suite"] = {"passed": p, "failed": f}
    r = run("git apply SEED/%s/demo.diff" % X, wt)
    assert r.returncode == 0, "demo does not apply on patch: " + r.stderr
    p2, f2, e2, out2 = suite(wt, "-- " + name if name else "")
    res["b_patch_demo"] = {"passed": p2, "failed": f2}
    run("git checkout -- . && git clean -fdq -e SEED -e target", wt)
    r = run("git apply SEED/%s/demo.diff" % X, wt)
    assert r.returncode == 0, "demo does not apply on HEAD: " + r.stderr
    p3, f3, e3, out3 = suite(wt, "-- " + name if name else "")
    res["c_demo_only"] = {"passed": p3, "failed": f3}
    run("git checkout -- . && git clean -fdq -e SEED -e target", wt)
    ok = (p >= 30 and f == 0) and (f2 >= 1) and (f3 == 0 and p3 >= 1)
    res["confirmed"] = ok
    print("confirm:", json.dumps(res))
    if not ok:
        print(out[-1500:], out2[-1500:], out3[-1500:])
        return 1
    # run the checks
    r = subprocess.run([os.path.join(V, "tools", "trymutant.py"), os.path.join(seed, "patch.diff")], cwd=V, capture_output=True, text=True, env=dict(os.environ, VERIF_SELFTEST="1"))
    print(r.stdout[-6000:])
    last = json.loads(r.stdout.strip().split("\n")[-1])
    dst = os.path.join(V, "seeded", "%s_%s" % (pid, sys.argv[3] if len(sys.argv) > 3 else X))
    os.makedirs(dst, exist_ok=True)
    shutil.copy(os.path.join(seed, "patch.diff"), os.path.join(dst, "patch.diff"))
    shutil.copy(os.path.join(seed, "demo.diff"), os.path.join(dst, "demo.diff"))
    meta.update({"breaks_property": pid, "confirmation": res,
                 "what_i_ran": "tools/verify_seed.py %s %s: (a) cargo test --workspace --offline with patch.diff; (b) + demo.diff: demo test fails; (c) demo.diff alone: passes; then tools/trymutant.py patch.diff (all 19 quick checks against /repo with the patch applied, undone afterwards)" % (wt, X),
                 "checks_fired": last["fired"], "checks_silent": last["silent"], "caught_by_own_property": pid in last["fired"],
                 "check_output": [l for l in r.stdout.split("\n") if l.startswith("FIRED") or l.startswith("        ↳")]})
    json.dump(meta, open(os.path.join(dst, "meta.json"), "w"), indent=1)
    print("recorded in", dst, "caught by own property:", pid in last["fired"])
    return 0


if __name__ == "__main__":
    sys.exit(main())
