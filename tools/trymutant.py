#!/usr/bin/env python3
"""Self-test helper (never part of a registered check): applies a patch to /repo's working tree,
optionally runs the repository's own suite, runs `./check <P> quick` for the given properties
(default: all 19) and undoes the patch.  Prints one line per property.

  tools/trymutant.py <patch.diff> [--suite] [--props C01,C02] [--tier quick]
"""
import json, os, subprocess, sys, time

V = os.path.dirname(os.path.dirname(os.path.abspath(__file__)))
REPO = "/repo"


def main():
    args = sys.argv[1:]
    patch = os.path.abspath(args[0])
    suite = "--suite" in args
    props = ["C%02d" % i for i in range(1, 20)]
    tier = "quick"
    for i, a in enumerate(args):
        if a == "--props":
            props = args[i + 1].split(",")
        if a == "--tier":
            tier = args[i + 1]
    st = subprocess.run(["git", "-C", REPO, "status", "--porcelain", "--untracked-files=no"], capture_output=True, text=True).stdout.strip()
    if st:
        print("refusing: /repo has uncommitted changes:\n" + st)
        return 2
    r = subprocess.run(["git", "-C", REPO, "apply", patch], capture_output=True, text=True)
    if r.returncode != 0:
        print("patch does not apply:", r.stderr)
        return 2
    res = {"patch": patch, "fired": [], "silent": [], "suite": None}
    try:
        if suite:
            t = subprocess.run("cd /repo && cargo test --workspace --offline 2>&1 | grep -E '^test result'", shell=True, capture_output=True, text=True).stdout
            passed = sum(int(l.split(" passed")[0].split()[-1]) for l in t.strip().split("\n") if " passed" in l)
            failed = sum(int(l.split(" failed")[0].split()[-1]) for l in t.strip().split("\n") if " failed" in l)
            res["suite"] = {"passed": passed, "failed": failed}
            print("suite: %d passed, %d failed" % (passed, failed))
        env = dict(os.environ)
        env.setdefault("VERIF_NO_SHRINK", "1")  # batch self-tests do not need minimised replays
        for p in props:
            t0 = time.time()
            c = subprocess.run([os.path.join(V, "check"), p, tier], cwd=V, capture_output=True, text=True, env=env)
            lines = [l for l in c.stdout.split("\n") if l.startswith("VIOLATION") or l.startswith("KNOWN")]
            tag = "FIRED " if c.returncode != 0 else "silent"
            (res["fired"] if c.returncode != 0 else res["silent"]).append(p)
            print("%s %s %.1fs %s" % (tag, p, time.time() - t0, " | ".join(l[:160] for l in lines if l.startswith("VIOLATION"))))
            for l in lines:
                if l.startswith("VIOLATION") and "replay=" in l:
                    path = l.split("replay=")[1].split()[0]
                    try:
                        rep = json.load(open(path))
                        print("        ↳ %s @ %s line %s" % (str(rep.get("what"))[:200], rep.get("history"), rep.get("line_in_history")))
                    except Exception:
                        pass
    finally:
        subprocess.run(["git", "-C", REPO, "checkout", "--", "."], check=True)
    print(json.dumps(res))
    return 0


if __name__ == "__main__":
    sys.exit(main())
