#!/usr/bin/env python3
"""Re-runs all 19 quick checks against every recorded seeded change (patch applied to /repo, then
undone) and refreshes checks_fired / checks_silent / caught_by_own_property in its meta.json."""
import glob, json, os, subprocess, sys
V = os.path.dirname(os.path.dirname(os.path.abspath(__file__)))
only = sys.argv[1:]
for d in sorted(glob.glob(os.path.join(V, "seeded", "*"))):
    name = os.path.basename(d)
    if only and name not in only:
        continue
    mp = os.path.join(d, "meta.json")
    meta = json.load(open(mp))
    r = subprocess.run([os.path.join(V, "tools", "trymutant.py"), os.path.join(d, "patch.diff")], cwd=V, capture_output=True, text=True, env=dict(os.environ, VERIF_SELFTEST="1"))
    try:
        last = json.loads(r.stdout.strip().split("\n")[-1])
    except Exception:
        print(name, "FAILED to run:", r.stdout[-500:], r.stderr[-500:])
        continue
    pid = meta.get("breaks_property", name[:3])
    meta.update({"checks_fired": last["fired"], "checks_silent": last["silent"], "caught_by_own_property": pid in last["fired"],
                 "check_output": [l for l in r.stdout.split("\n") if l.startswith("FIRED") or l.startswith("        ↳")]})
    json.dump(meta, open(mp, "w"), indent=1)
    print(name, "fired:", " ".join(last["fired"]), "| own:", pid in last["fired"], flush=True)
