-- This module serves as the root of the `Fuzion` library.
-- Import modules here that should be built as part of the library.
import Fuzion.Basic
