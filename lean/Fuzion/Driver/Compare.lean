/-
  Fuzion.Driver.Compare — comparison of an implementation step with the model's step
  (components and per-property abstractions) and the implementation-side oracles.
  Trusted correspondence machinery.
-/
import Fuzion.Driver.Codec
import Fuzion.Inv.Defs
namespace Fuzion.Cmp
open Fuzion Fuzion.Codec

def dedupNats (l : List Nat) : List Nat := sortNats l

/-! ### component comparison (both sides accepted the op) -/

/-- what C08 reads of a listing: everything but the pending fee, and the goods only while the
    listing is not sold (a purchase deducts fee and royalties from them: C06's business) -/
def eraseFeeL (l : Listing) : Listing :=
  { l with fee := none, forSale := if l.status == .closed then GBal.empty else l.forSale }

def nftCodes (l : List Nft) : List (List Nat) := sortCodes (l.map (fun n => [n.coll, n.tid]))

/-- the C01 defect of a world: per asset `held - owed`, NFTs recorded but not held and held but not
    recorded (honest collections). All zero / empty iff `checkC01`. -/
def defect01 (w : World) (natives tokens : List Nat) : List Int × List Int × List (List Nat) × List (List Nat) :=
  let rec_ := (recordedNfts w.mkt).filter (fun n => w.isHonest721 n.coll)
  let held := heldNfts w
  (natives.map (fun d => (lget w.bank (w.self, d) : Int) - (owedNative w.mkt d : Int)),
   tokens.map (fun t => (lget w.cw20 (t, w.self) : Int) - (owedCw20 w.mkt t : Int)),
   nftCodes (rec_.filter (fun n => !held.contains n)) ++ nftCodes (rec_.filter (fun n => decide (rec_.count n > 1))),
   nftCodes (held.filter (fun n => !rec_.contains n)))

/-- C01 abstraction: the accounting *defect* agrees (what the invariant `held = owed` reads);
    absolute amounts are the business of C05 / C06. -/
def abs01Eq (a b : World) : Bool :=
  let ds := dedupNats (nativeUniverse a ++ nativeUniverse b)
  let ts := dedupNats (cw20Universe a ++ cw20Universe b)
  defect01 a ds ts == defect01 b ds ts

/-- C10 abstraction: pending fees and pool balance per fee denomination -/
def abs10Eq (a b : World) : Bool :=
  [a.junoD, a.usdcD].all (fun d =>
    pendingFee a.mkt d == pendingFee b.mkt d && lget a.bank (a.pool, d) == lget b.bank (b.pool, d))

/-- C03 abstraction: who may claim what -/
def abs03 (w : World) : List (List Nat) :=
  sortCodes (w.mkt.listings.map (fun p =>
      [0, p.1.1, p.1.2, p.2.creator, (match p.2.status with | .preparing => 0 | .finalized => 1 | .closed => 2),
       (match p.2.claimant with | none => 0 | some c => c + 1)]) ++
    w.mkt.buckets.map (fun p => [1, p.1.1, p.1.2, p.2.owner]))

def poolCodes (l : List (List Nat)) : List (List Nat) :=
  l.filter (fun c => match c with | 4 :: _ => true | 9 :: _ => true | _ => false)

/-- names of the components on which implementation and model post-states differ -/
def compDiffs (iw mw : World) (io : ImplOutcome) (mo : Outcome) : List String :=
  let icodes := sortCodes (io.msgs.map implMsgCode)
  let mcodes := sortCodes (mo.msgs.map outMsgCode)
  let checks : List (String × Bool) := [
    ("L", canonListings iw.mkt.listings == canonListings mw.mkt.listings),
    ("B", canonBuckets iw.mkt.buckets == canonBuckets mw.mkt.buckets),
    ("U", sortNats iw.mkt.listingUsed == sortNats mw.mkt.listingUsed &&
          sortNats iw.mkt.bucketUsed == sortNats mw.mkt.bucketUsed),
    ("F", iw.mkt.feeKind == mw.mkt.feeKind && iw.mkt.feeSince == mw.mkt.feeSince),
    ("G", iw.mkt.registry == mw.mkt.registry),
    ("R", canonReg iw.reg == canonReg mw.reg),
    ("K", ledgerEq iw.bank mw.bank),
    ("T", ledgerEq iw.cw20 mw.cw20),
    ("N", nftLedgerEq iw.nft mw.nft),
    ("A", canonContracts iw.contracts == canonContracts mw.contracts),
    ("C", iw.nowNs == mw.nowNs && iw.height == mw.height),
    ("M", icodes == mcodes),
    ("a01", abs01Eq iw mw),
    ("a08", canonListings (iw.mkt.listings.map (fun p => (p.1, eraseFeeL p.2))) ==
            canonListings (mw.mkt.listings.map (fun p => (p.1, eraseFeeL p.2)))),
    ("a09", sortNats iw.mkt.listingUsed == sortNats mw.mkt.listingUsed &&
            sortNats iw.mkt.bucketUsed == sortNats mw.mkt.bucketUsed &&
            sortNats (listingIds iw.mkt) == sortNats (listingIds mw.mkt) &&
            sortNats (bucketIds iw.mkt) == sortNats (bucketIds mw.mkt)),
    ("a03", abs03 iw == abs03 mw)
  ]
  (checks.filter (fun p => !p.2)).map (·.1)

/-! ### oracles -/

def opSender : Op → Option Nat
  | .exec s .. => some s
  | .send20 _ s .. => some s
  | .send721 _ s .. => some s
  | .royalty s _ => some s
  | .setAdmin s .. => some s
  | .advance .. => none

def isDepositOp : Op → Bool
  | .exec _ _ m => m.takesCoins
  | .send20 .. => true
  | .send721 .. => true
  | _ => false

/-- wallets of everybody in `who` do not decrease from `a` to `b` -/
def walletsKept (a b : World) (who : Nat → Bool) : Bool :=
  a.bank.all (fun p => !who p.1.1 || decide (lget b.bank p.1 ≥ p.2)) &&
  a.cw20.all (fun p => !who p.1.2 || decide (lget b.cw20 p.1 ≥ p.2)) &&
  a.nft.all (fun p => !who p.2 || alookup p.1 b.nft == some p.2)

def statusRank : Status → Nat
  | .preparing => 0
  | .finalized => 1
  | .closed => 2

/-- C08 per-id monitor over one implementation step -/
def monotone08 (a b : World) : Bool :=
  a.mkt.listings.all (fun p =>
    let l := p.2
    match findById l.id b.mkt.listings with
    | none =>
      (match l.status with
       | .preparing => true
       | .finalized => (match l.expiresAt with | some e => decide (a.nowNs ≥ e) | none => false)
       | .closed => true) && decide (l.id ∈ b.mkt.listingUsed)
    | some (_, l') =>
      decide (statusRank l'.status ≥ statusRank l.status) &&
      (match l.status with
       | .preparing =>
         (match l'.status with
          | .preparing => true
          | .finalized => l'.finalizedAt == some a.nowNs && canonGBal l'.forSale == canonGBal l.forSale &&
                          canonGBal l'.ask == canonGBal l.ask && l'.whitelist == l.whitelist
          | .closed => false)
       | _ =>
         canonGBal l'.ask == canonGBal l.ask && l'.whitelist == l.whitelist &&
         l'.expiresAt == l.expiresAt && l'.finalizedAt == l.finalizedAt &&
         (l'.status != l.status || (canonGBal l'.forSale == canonGBal l.forSale && l'.creator == l.creator))))

def subsetNats (a b : List Nat) : Bool := a.all (fun x => decide (x ∈ b))

/-- Oracles on one side of a purchase: `pre` = the side's balance before, `post` after, `fee` the
    recorded fee, `fd` the fee denomination in force. Returns the names of the failed parts:
    `f` fee value is not the floor formula (C06), `w` a recorded fee was not withheld from the
    side (C10: a fee that is recorded must have been deducted), `h` more than half left / nothing
    stayed / NFTs changed (C11, C06). -/
def sideFails (fd : Nat) (pre post : GBal) (fee : Option Coin) : List String :=
  let fOk := pre.native.all (fun c =>
      decide (feeAmt fee c.key = (if c.key = fd then c.amount * 5 / 1000 else 0))) &&
    (match fee with | none => true | some f => decide (f.key = fd) && decide (f.amount ≠ 0) && decide (coinAmt pre.native f.key ≠ 0))
  let wOk := pre.native.all (fun c => decide (coinAmt post.native c.key + feeAmt fee c.key ≤ c.amount)) &&
    (match fee with | none => true | some f => decide (coinAmt post.native f.key + f.amount ≤ coinAmt pre.native f.key))
  let hOk := pre.native.all (fun c =>
      let f := feeAmt fee c.key
      let y := coinAmt post.native c.key
      decide (1 ≤ y) && decide (2 * (c.amount - f - y) ≤ c.amount - f)) &&
    pre.cw20.all (fun c =>
      let y := coinAmt post.cw20 c.key
      decide (1 ≤ y) && decide (y ≤ c.amount) && decide (2 * (c.amount - y) ≤ c.amount)) &&
    nftCodes pre.nfts == nftCodes post.nfts
  -- `d`: the fee is charged in the denomination in force (C13)
  let dOk := match fee with
    | some f => decide (f.key = fd)
    | none => decide (coinAmt pre.native fd * 5 / 1000 = 0)
  (if fOk then [] else ["f"]) ++ (if wOk then [] else ["w"]) ++ (if hOk then [] else ["h"]) ++
  (if dOk then [] else ["d"])

/-- purchase oracle: fee and royalty bounds on both traded records -/
def buyOracle (a b : World) (lid bid : Nat) : List String :=
  match findById lid a.mkt.listings, findById lid b.mkt.listings with
  | some (_, l), some (_, l') =>
    let fd := feeDenomOf a.env a.mkt.feeKind
    sideFails fd l.forSale l'.forSale l'.fee ++
    (match (a.mkt.buckets.find? (fun p => decide (p.1.2 = bid))), (b.mkt.buckets.find? (fun p => decide (p.1.2 = bid))) with
     | some (_, bk), some (_, bk') => sideFails fd bk.funds bk'.funds bk'.fee
     | _, _ => ["x"])
  | _, _ => ["x"]

/-- a balance without the entries that name `caller` as token / collection -/
def stripCaller (g : GBal) (caller : Nat) : GBal :=
  ⟨g.native, g.cw20.filter (fun c => c.key != caller), g.nfts.filter (fun n => n.coll != caller)⟩

/-- which pre-existing records of somebody other than `caller` changed. What the unchanged code lets a
    forging contract do (the recorded finding, `C18_partial_receive`) is confined to entries that name the
    forger itself as token or collection; a change that reaches anything else — another asset, the
    pending fee, the owner, the ask — carries the suffix `!beyond` and is not the recorded finding. -/
def changedRecords (a b : World) (caller : Nat) : List String :=
  (a.mkt.listings.filterMap (fun p =>
    if p.1.1 = caller then none
    else
      match alookup p.1 b.mkt.listings with
      | some l' => if canonListing l' == canonListing p.2 then none
                   else
                     let confined := canonListing { l' with forSale := stripCaller l'.forSale caller } ==
                                     canonListing { p.2 with forSale := stripCaller p.2.forSale caller }
                     some ("listing:" ++ (match p.2.status with | .preparing => "prep" | .finalized => "fin" | .closed => "closed") ++
                           (if confined then "" else "!beyond"))
      | none => some "listing:removed")) ++
  (a.mkt.buckets.filterMap (fun p =>
    if p.1.1 = caller then none
    else
      match alookup p.1 b.mkt.buckets with
      | some b' => if canonBucket b' == canonBucket p.2 then none
                   else
                     let confined := canonBucket { b' with funds := stripCaller b'.funds caller } ==
                                     canonBucket { p.2 with funds := stripCaller p.2.funds caller }
                     some (if confined then "bucket" else "bucket!beyond")
      | none => some "bucket:removed"))

end Fuzion.Cmp
