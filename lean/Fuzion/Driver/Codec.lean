/-
  Fuzion.Driver.Codec — parser for PROTOCOL.md and canonical forms used for comparison.
  Part of the trusted correspondence machinery (no theorems are about this file).
-/
import Fuzion.Model.Chain
import Fuzion.Model.Query
namespace Fuzion.Codec
open Fuzion

abbrev P := StateT (List String) Option

def tok : P String := fun s =>
  match s with
  | [] => none
  | t :: r => some (t, r)

def nat : P Nat := do
  let t ← tok
  match t.toNat? with
  | some n => pure n
  | none => failure

def rep {α : Type} (p : P α) : Nat → P (List α)
  | 0 => pure []
  | n + 1 => do
    let x ← p
    let xs ← rep p n
    pure (x :: xs)

def listOf {α : Type} (p : P α) : P (List α) := do
  let n ← nat
  rep p n

def opt {α : Type} (p : P α) : P (Option α) := do
  let t ← tok
  if t == "N" then pure none
  else if t == "S" then do
    let x ← p
    pure (some x)
  else failure

def bool01 : P Bool := do
  let n ← nat
  pure (n != 0)

def coin : P Coin := do
  let k ← nat
  let a ← nat
  pure ⟨k, a⟩

def nft : P Nft := do
  let c ← nat
  let t ← nat
  pure ⟨c, t⟩

def gbal : P GBal := do
  let n ← listOf coin
  let c ← listOf coin
  let f ← listOf nft
  pure ⟨n, c, f⟩

def rawAddr : P RawAddr := do
  let t ← tok
  if t == "I" then pure .invalid
  else if t == "V" then do
    let a ← nat
    pure (.valid a)
  else failure

def optRaw : P (Option RawAddr) := do
  let t ← tok
  if t == "N" then pure none
  else if t == "I" then pure (some .invalid)
  else if t == "V" then do
    let a ← nat
    pure (some (.valid a))
  else failure

def rawPair : P (RawAddr × Nat) := do
  let a ← rawAddr
  let n ← nat
  pure (a, n)

def rawGBal : P RawGBal := do
  let n ← listOf coin
  let c ← listOf rawPair
  let f ← listOf rawPair
  pure ⟨n, c, f⟩

def status : P Status := do
  let n ← nat
  match n with
  | 0 => pure .preparing
  | 1 => pure .finalized
  | 2 => pure .closed
  | _ => failure

def listing : P Listing := do
  let creator ← nat
  let id ← nat
  let fin ← opt nat
  let exp ← opt nat
  let st ← status
  let cl ← opt nat
  let wl ← opt nat
  let fs ← gbal
  let ask ← gbal
  let fee ← opt coin
  pure { creator := creator, id := id, finalizedAt := fin, expiresAt := exp, status := st,
         claimant := cl, whitelist := wl, forSale := fs, ask := ask, fee := fee }

def bucket : P Bucket := do
  let o ← nat
  let f ← gbal
  let fee ← opt coin
  pure ⟨o, f, fee⟩

def keyed {α : Type} (p : P α) : P ((Nat × Nat) × α) := do
  let a ← nat
  let b ← nat
  let x ← p
  pure ((a, b), x)

def royInfo : P RoyaltyInfo := do
  let l ← nat
  let b ← nat
  let p ← nat
  pure ⟨l, b, p⟩

def feeKind : P FeeKind := do
  let n ← nat
  match n with
  | 0 => pure .juno
  | 1 => pure .usdc
  | _ => failure

def triple : P ((Nat × Nat) × Nat) := do
  let a ← nat
  let b ← nat
  let c ← nat
  pure ((a, b), c)

def contract : P (Nat × ContractInfo) := do
  let a ← nat
  let adm ← opt nat
  let k ← nat
  let ti ← bool01
  let fl ← bool01
  pure (a, ⟨adm, k, ti, fl⟩)

/-- WORLD; also returns the `idxOk` flag -/
def world : P (World × Bool) := do
  let self ← nat
  let pool ← nat
  let regAddr ← nat
  let junoD ← nat
  let usdcD ← nat
  let nowNs ← nat
  let height ← nat
  let ls ← listOf (keyed listing)
  let bs ← listOf (keyed bucket)
  let lu ← listOf nat
  let bu ← listOf nat
  let fk ← feeKind
  let fs ← nat
  let ra ← opt nat
  let idxOk ← bool01
  let reg ← listOf (do let c ← nat; let i ← royInfo; pure (c, i))
  let bank ← listOf triple
  let cw20 ← listOf triple
  let nfts ← listOf triple
  let cs ← listOf contract
  pure ({ self := self, pool := pool, regAddr := regAddr, junoD := junoD, usdcD := usdcD,
          nowNs := nowNs, height := height,
          mkt := { listings := ls, buckets := bs, listingUsed := lu, bucketUsed := bu,
                   feeKind := fk, feeSince := fs, registry := ra },
          reg := reg, bank := bank, cw20 := cw20, nft := nfts, contracts := cs }, idxOk)

def createMsg : P CreateMsg := do
  let a ← rawGBal
  let w ← optRaw
  pure ⟨a, w⟩

def inner : P (Option Inner) := do
  let t ← tok
  if t == "BAD" then pure none
  else if t == "CL" then do
    let id ← nat
    let c ← createMsg
    pure (some (.createListing id c))
  else if t == "AL" then do
    let id ← nat
    pure (some (.addToListing id))
  else if t == "CB" then do
    let id ← nat
    pure (some (.createBucket id))
  else if t == "AB" then do
    let id ← nat
    pure (some (.addToBucket id))
  else failure

/-- MSG; returns the tag too (for reporting) -/
def execMsg : P (String × ExecMsg) := do
  let t ← tok
  if t == "FC" then pure (t, .feeCycle)
  else if t == "CL" then do
    let id ← nat
    let c ← createMsg
    pure (t, .createListing id c)
  else if t == "AL" then do
    let id ← nat
    pure (t, .addToListing id)
  else if t == "CA" then do
    let id ← nat
    let a ← rawGBal
    pure (t, .changeAsk id a)
  else if t == "FI" then do
    let id ← nat
    let s ← nat
    pure (t, .finalize id s)
  else if t == "DL" then do
    let id ← nat
    pure (t, .deleteListing id)
  else if t == "CB" then do
    let id ← nat
    pure (t, .createBucket id)
  else if t == "AB" then do
    let id ← nat
    pure (t, .addToBucket id)
  else if t == "RB" then do
    let id ← nat
    pure (t, .removeBucket id)
  else if t == "BL" then do
    let l ← nat
    let b ← nat
    pure (t, .buy l b)
  else if t == "WP" then do
    let id ← nat
    pure (t, .withdrawPurchased id)
  else if t == "RC" then do
    let s ← rawAddr
    let a ← nat
    let i ← inner
    pure (t, .receive s a i)
  else if t == "RN" then do
    let s ← rawAddr
    let a ← nat
    let i ← inner
    pure (t, .receiveNft s a i)
  else failure

def innerTag : Option Inner → String
  | none => "BAD"
  | some (.createListing ..) => "CL"
  | some (.addToListing ..) => "AL"
  | some (.createBucket ..) => "CB"
  | some (.addToBucket ..) => "AB"

def royMsg : P (String × RoyMsg) := do
  let t ← tok
  if t == "REG" then do
    let n ← rawAddr
    let p ← rawAddr
    let b ← nat
    pure (t, .register n p b)
  else if t == "UPD" then do
    let n ← rawAddr
    let p ← optRaw
    let b ← opt nat
    pure (t, .update n p b)
  else if t == "REM" then do
    let n ← rawAddr
    pure (t, .remove n)
  else failure

/-- OP; returns a kind string like `X.BL`, `X.RC.AB`, `T20.CL`, `R.REG`, `AD`, `ADV` -/
def op : P (String × Op) := do
  let t ← tok
  if t == "X" then do
    let s ← nat
    let f ← listOf coin
    let (tag, m) ← execMsg
    let tag' := match m with
      | .receive _ _ i => tag ++ "." ++ innerTag i
      | .receiveNft _ _ i => tag ++ "." ++ innerTag i
      | _ => tag
    pure ("X." ++ tag', .exec s f m)
  else if t == "T20" then do
    let tk ← nat
    let s ← nat
    let a ← nat
    let i ← inner
    pure ("T20." ++ innerTag i, .send20 tk s a i)
  else if t == "T721" then do
    let c ← nat
    let s ← nat
    let tid ← nat
    let i ← inner
    pure ("T721." ++ innerTag i, .send721 c s tid i)
  else if t == "R" then do
    let s ← nat
    let (tag, m) ← royMsg
    pure ("R." ++ tag, .royalty s m)
  else if t == "AD" then do
    let s ← nat
    let c ← nat
    let n ← opt nat
    pure ("AD", .setAdmin s c n)
  else if t == "ADV" then do
    let a ← nat
    let b ← nat
    pure ("ADV", .advance a b)
  else failure

/-- implementation-side emitted message -/
inductive ImplMsg
  | msg (m : OutMsg)
  | pool (wellFormed : Bool) (depositor : Nat) (coins : List Coin)
  | unknown
deriving Repr, Inhabited

def implMsg : P ImplMsg := do
  let t ← tok
  if t == "B" then do
    let to ← nat
    let cs ← listOf coin
    pure (.msg (.bankSend to cs))
  else if t == "C" then do
    let tk ← nat
    let to ← nat
    let a ← nat
    pure (.msg (.cw20Transfer tk to a))
  else if t == "F" then do
    let c ← nat
    let tid ← nat
    let to ← nat
    pure (.msg (.nftTransfer c tid to))
  else if t == "P" then do
    let wf ← bool01
    let d ← nat
    let cs ← listOf coin
    pure (.pool wf d cs)
  else if t == "U" then pure .unknown
  else failure

structure ImplOutcome where
  ok : Bool
  dirty : Bool
  msgs : List ImplMsg
  subs : List (Nat × Nat × Bool)
deriving Repr, Inhabited

def outcome : P ImplOutcome := do
  let t ← tok
  if t == "err" then pure ⟨false, false, [], []⟩
  else if t == "errd" then pure ⟨false, true, [], []⟩
  else if t == "errm" then do
    let ms ← listOf implMsg
    pure ⟨false, false, ms, []⟩
  else if t == "ok" then do
    let ms ← listOf implMsg
    let ss ← listOf (do let a ← nat; let b ← nat; let c ← bool01; pure (a, b, c))
    pure ⟨true, false, ms, ss⟩
  else failure

/-- POST := `=` | WORLD -/
def post (pre : World) : P (World × Bool × Bool) := fun s =>
  match s with
  | "=" :: r => some ((pre, true, true), r)
  | _ =>
    match world s with
    | some ((w, idx), r) => some ((w, idx, false), r)
    | none => none

/-! ### canonical forms -/

def lexLe : List Nat → List Nat → Bool
  | [], _ => true
  | _ :: _, [] => false
  | a :: as, b :: bs => if a < b then true else if b < a then false else lexLe as bs

def sortCoins (l : List Coin) : List Coin :=
  l.mergeSort (fun a b => lexLe [a.key, a.amount] [b.key, b.amount])
def sortNfts (l : List Nft) : List Nft :=
  l.mergeSort (fun a b => lexLe [a.coll, a.tid] [b.coll, b.tid])

def canonGBal (g : GBal) : GBal := ⟨sortCoins g.native, sortCoins g.cw20, sortNfts g.nfts⟩

def canonListing (l : Listing) : Listing :=
  { l with forSale := canonGBal l.forSale, ask := canonGBal l.ask }
def canonBucket (b : Bucket) : Bucket := { b with funds := canonGBal b.funds }

def canonListings (l : List ((Nat × Nat) × Listing)) : List ((Nat × Nat) × Listing) :=
  (l.map (fun p => (p.1, canonListing p.2))).mergeSort (fun a b => lexLe [a.1.1, a.1.2] [b.1.1, b.1.2])
def canonBuckets (l : List ((Nat × Nat) × Bucket)) : List ((Nat × Nat) × Bucket) :=
  (l.map (fun p => (p.1, canonBucket p.2))).mergeSort (fun a b => lexLe [a.1.1, a.1.2] [b.1.1, b.1.2])

def sortNats (l : List Nat) : List Nat := (l.mergeSort (fun a b => decide (a ≤ b))).eraseDups

/-- ledgers agree as total functions -/
def ledgerEq (a b : Ledger) : Bool :=
  (akeys a ++ akeys b).all (fun k => lget a k == lget b k)

/-- the NFT ledger maps a token to its owner: compared by lookup, so that "owned by address 0" and
    "no such token" differ (with `lget` both read 0 — found by `Props/CompareSound.lean`) -/
def nftLedgerEq (a b : Ledger) : Bool :=
  (akeys a ++ akeys b).all (fun k => alookup k a == alookup k b)

def canonReg (r : Registry) : List (Nat × RoyaltyInfo) :=
  r.mergeSort (fun a b => decide (a.1 ≤ b.1))
def canonContracts (r : List (Nat × ContractInfo)) : List (Nat × ContractInfo) :=
  r.mergeSort (fun a b => decide (a.1 ≤ b.1))

def outMsgCode : OutMsg → List Nat
  | .bankSend to cs => 1 :: to :: (sortCoins cs).flatMap (fun c => [c.key, c.amount])
  | .cw20Transfer t to a => [2, t, to, a]
  | .nftTransfer c t to => [3, c, t, to]
  | .fundPool d c => [4, d, c.key, c.amount]

def implMsgCode : ImplMsg → List Nat
  | .msg m => outMsgCode m
  | .pool true d cs => 4 :: d :: cs.flatMap (fun c => [c.key, c.amount])
  | .pool false _ _ => [9]
  | .unknown => [8]

def sortCodes (l : List (List Nat)) : List (List Nat) := l.mergeSort lexLe

end Fuzion.Codec
