/-
  Fuzion.Driver.Print — the inverse of the parser of `Codec.lean` for the parts of PROTOCOL.md that
  carry state and operations (WORLD, OP, OUTCOME).

  Used in two ways:
  * at run time the driver re-prints what it parsed from every INIT / STEP / PROBE / STEPF line and
    requires the result to be the line's own tokens (`echo…` below): whatever the harness wrote is then
    recoverable from the parsed value, i.e. the parser dropped or confused nothing on that line;
  * `Props/CodecRoundtrip.lean` proves `parse (print x ++ rest) = some (x, rest)` for all values: the
    printer is injective, so two different worlds / operations never share a line.
-/
import Fuzion.Driver.Codec
namespace Fuzion.Codec
open Fuzion

def pNat (n : Nat) : List String := [Nat.repr n]

def pList {α : Type} (p : α → List String) (l : List α) : List String :=
  Nat.repr l.length :: l.flatMap p

def pOpt {α : Type} (p : α → List String) : Option α → List String
  | none => ["N"]
  | some x => "S" :: p x

def pBool (b : Bool) : List String := [if b then "1" else "0"]

def pCoin (c : Coin) : List String := [Nat.repr c.key, Nat.repr c.amount]
def pNft (n : Nft) : List String := [Nat.repr n.coll, Nat.repr n.tid]

def pGBal (g : GBal) : List String := pList pCoin g.native ++ pList pCoin g.cw20 ++ pList pNft g.nfts

def pRawAddr : RawAddr → List String
  | .invalid => ["I"]
  | .valid a => ["V", Nat.repr a]

def pOptRaw : Option RawAddr → List String
  | none => ["N"]
  | some a => pRawAddr a

def pRawPair (p : RawAddr × Nat) : List String := pRawAddr p.1 ++ [Nat.repr p.2]

def pRawGBal (g : RawGBal) : List String := pList pCoin g.native ++ pList pRawPair g.cw20 ++ pList pRawPair g.nfts

def pStatus : Status → List String
  | .preparing => ["0"]
  | .finalized => ["1"]
  | .closed => ["2"]

def pListing (l : Listing) : List String :=
  [Nat.repr l.creator, Nat.repr l.id] ++ pOpt pNat l.finalizedAt ++ pOpt pNat l.expiresAt ++ pStatus l.status ++
  pOpt pNat l.claimant ++ pOpt pNat l.whitelist ++ pGBal l.forSale ++ pGBal l.ask ++ pOpt pCoin l.fee

def pBucket (b : Bucket) : List String := [Nat.repr b.owner] ++ pGBal b.funds ++ pOpt pCoin b.fee

def pKeyed {α : Type} (p : α → List String) (x : (Nat × Nat) × α) : List String :=
  [Nat.repr x.1.1, Nat.repr x.1.2] ++ p x.2

def pRoyInfo (r : RoyaltyInfo) : List String := [Nat.repr r.lastUpdated, Nat.repr r.bps, Nat.repr r.payout]

def pFeeKind : FeeKind → List String
  | .juno => ["0"]
  | .usdc => ["1"]

def pTriple (x : (Nat × Nat) × Nat) : List String := [Nat.repr x.1.1, Nat.repr x.1.2, Nat.repr x.2]

def pContract (x : Nat × ContractInfo) : List String :=
  [Nat.repr x.1] ++ pOpt pNat x.2.admin ++ [Nat.repr x.2.kind] ++ pBool x.2.tokenInfo ++ pBool x.2.fails

def pRegEntry (x : Nat × RoyaltyInfo) : List String := Nat.repr x.1 :: pRoyInfo x.2

/-- WORLD (with the `idxOk` flag) -/
def pWorld (w : World) (idxOk : Bool) : List String :=
  [Nat.repr w.self, Nat.repr w.pool, Nat.repr w.regAddr, Nat.repr w.junoD, Nat.repr w.usdcD,
   Nat.repr w.nowNs, Nat.repr w.height] ++
  pList (pKeyed pListing) w.mkt.listings ++ pList (pKeyed pBucket) w.mkt.buckets ++
  pList pNat w.mkt.listingUsed ++ pList pNat w.mkt.bucketUsed ++
  pFeeKind w.mkt.feeKind ++ [Nat.repr w.mkt.feeSince] ++ pOpt pNat w.mkt.registry ++ pBool idxOk ++
  pList pRegEntry w.reg ++ pList pTriple w.bank ++ pList pTriple w.cw20 ++ pList pTriple w.nft ++
  pList pContract w.contracts

def pCreateMsg (c : CreateMsg) : List String := pRawGBal c.ask ++ pOptRaw c.whitelist

def pInner : Option Inner → List String
  | none => ["BAD"]
  | some (.createListing id c) => ["CL", Nat.repr id] ++ pCreateMsg c
  | some (.addToListing id) => ["AL", Nat.repr id]
  | some (.createBucket id) => ["CB", Nat.repr id]
  | some (.addToBucket id) => ["AB", Nat.repr id]

def pExecMsg : ExecMsg → List String
  | .feeCycle => ["FC"]
  | .createListing id c => ["CL", Nat.repr id] ++ pCreateMsg c
  | .addToListing id => ["AL", Nat.repr id]
  | .changeAsk id a => ["CA", Nat.repr id] ++ pRawGBal a
  | .finalize id s => ["FI", Nat.repr id, Nat.repr s]
  | .deleteListing id => ["DL", Nat.repr id]
  | .createBucket id => ["CB", Nat.repr id]
  | .addToBucket id => ["AB", Nat.repr id]
  | .removeBucket id => ["RB", Nat.repr id]
  | .buy l b => ["BL", Nat.repr l, Nat.repr b]
  | .withdrawPurchased id => ["WP", Nat.repr id]
  | .receive s a i => ["RC"] ++ pRawAddr s ++ [Nat.repr a] ++ pInner i
  | .receiveNft s a i => ["RN"] ++ pRawAddr s ++ [Nat.repr a] ++ pInner i

def pRoyMsg : RoyMsg → List String
  | .register n p b => ["REG"] ++ pRawAddr n ++ pRawAddr p ++ [Nat.repr b]
  | .update n p b => ["UPD"] ++ pRawAddr n ++ pOptRaw p ++ pOpt pNat b
  | .remove n => ["REM"] ++ pRawAddr n

def pOp : Op → List String
  | .exec s f m => ["X", Nat.repr s] ++ pList pCoin f ++ pExecMsg m
  | .send20 tk s a i => ["T20", Nat.repr tk, Nat.repr s, Nat.repr a] ++ pInner i
  | .send721 c s tid i => ["T721", Nat.repr c, Nat.repr s, Nat.repr tid] ++ pInner i
  | .royalty s m => ["R", Nat.repr s] ++ pRoyMsg m
  | .setAdmin s c n => ["AD", Nat.repr s, Nat.repr c] ++ pOpt pNat n
  | .advance a b => ["ADV", Nat.repr a, Nat.repr b]

/-- the kind string the parser attaches to an operation -/
def opKind : Op → String
  | .exec _ _ m =>
    "X." ++ (match m with
      | .feeCycle => "FC" | .createListing .. => "CL" | .addToListing .. => "AL" | .changeAsk .. => "CA"
      | .finalize .. => "FI" | .deleteListing .. => "DL" | .createBucket .. => "CB" | .addToBucket .. => "AB"
      | .removeBucket .. => "RB" | .buy .. => "BL" | .withdrawPurchased .. => "WP"
      | .receive _ _ i => "RC" ++ "." ++ innerTag i
      | .receiveNft _ _ i => "RN" ++ "." ++ innerTag i)
  | .send20 _ _ _ i => "T20." ++ innerTag i
  | .send721 _ _ _ i => "T721." ++ innerTag i
  | .royalty _ m => "R." ++ (match m with | .register .. => "REG" | .update .. => "UPD" | .remove .. => "REM")
  | .setAdmin .. => "AD"
  | .advance .. => "ADV"

def pImplMsg : ImplMsg → List String
  | .msg (.bankSend to cs) => ["B", Nat.repr to] ++ pList pCoin cs
  | .msg (.cw20Transfer tk to a) => ["C", Nat.repr tk, Nat.repr to, Nat.repr a]
  | .msg (.nftTransfer c tid to) => ["F", Nat.repr c, Nat.repr tid, Nat.repr to]
  | .msg (.fundPool d c) => ["P", "1", Nat.repr d, "1", Nat.repr c.key, Nat.repr c.amount]  -- never produced by the parser
  | .pool wf d cs => ["P"] ++ pBool wf ++ [Nat.repr d] ++ pList pCoin cs
  | .unknown => ["U"]

def pSub (x : Nat × Nat × Bool) : List String := [Nat.repr x.1, Nat.repr x.2.1] ++ pBool x.2.2

/-- OUTCOME; the four forms of the protocol (`err`, `errd`, `errm`, `ok`) -/
def pOutcome (o : ImplOutcome) : List String :=
  if o.ok then ["ok"] ++ pList pImplMsg o.msgs ++ pList pSub o.subs
  else if o.dirty then ["errd"]
  else if o.msgs.isEmpty then ["err"]
  else ["errm"] ++ pList pImplMsg o.msgs

end Fuzion.Codec
