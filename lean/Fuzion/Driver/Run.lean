/-
  Fuzion.Driver.Run — the line-protocol driver (`fzmodel`).  One answer line per input line.
  Answer format (tokens separated by one space):
    A <lineNo> <LINE> <opKind> i=<ok|err|errd> m=<ok|err.<guard>> D=<comps|-> O=<oracles|-> K=<classes|-> [N=<note>]
    A <lineNo> QUERY <q> agree=<0|1> O=<…|->
    A <lineNo> <FEE|ROY|CMP|VALIDATE|CPMSG> agree=<0|1> O=<…|->
    E <lineNo> <reason>            (line could not be parsed)
-/
import Fuzion.Driver.Oracles
import Fuzion.Driver.Print
import Fuzion.Model.Proto
namespace Fuzion.Run
open Fuzion Fuzion.Codec Fuzion.Cmp Fuzion.Orc

structure DState where
  cur : World := default
  started : Bool := false
  sold : List Nat := []
  wdL : List Nat := []
  wdB : List Nat := []
  crL : List Nat := []
  crB : List Nat := []
  charged : List (Nat × Nat) := []
  drain : Bool := false
deriving Inhabited

def join (l : List String) : String := if l.isEmpty then "-" else ",".intercalate l

def errName (e : Option Err) : String :=
  match e with
  | none => "ok"
  | some e => "err." ++ ((reprStr e).splitOn ".").getLast!

def ghostOk (w : World) (charged : List (Nat × Nat)) : Bool :=
  [w.junoD, w.usdcD].all (fun d => lget w.bank (w.pool, d) + pendingFee w.mkt d == (alookup d charged).getD 0)

def ghostInit (w : World) : List (Nat × Nat) :=
  [w.junoD, w.usdcD].map (fun d => (d, lget w.bank (w.pool, d) + pendingFee w.mkt d))

def ghostAdd (ch : List (Nat × Nat)) (f : Option Coin) : List (Nat × Nat) :=
  match f with
  | none => ch
  | some c => ainsert c.key ((alookup c.key ch).getD 0 + c.amount) ch

/-- ids created by an op (listing id, bucket id), if it is a creation -/
def creationIds : Op → Option Nat × Option Nat
  | .exec _ _ (.createListing id _) => (some id, none)
  | .exec _ _ (.createBucket id) => (none, some id)
  | .exec _ _ (.receive _ _ (some (.createListing id _))) => (some id, none)
  | .exec _ _ (.receive _ _ (some (.createBucket id))) => (none, some id)
  | .exec _ _ (.receiveNft _ _ (some (.createListing id _))) => (some id, none)
  | .exec _ _ (.receiveNft _ _ (some (.createBucket id))) => (none, some id)
  | .send20 _ _ _ (some (.createListing id _)) => (some id, none)
  | .send20 _ _ _ (some (.createBucket id)) => (none, some id)
  | .send721 _ _ _ (some (.createListing id _)) => (some id, none)
  | .send721 _ _ _ (some (.createBucket id)) => (none, some id)
  | _ => (none, none)

/-- (listing id, bucket id) an op is aimed at -/
def opTargets : Op → Option Nat × Option Nat
  | .exec _ _ m =>
    (match m with
     | .createListing id _ | .addToListing id | .changeAsk id _ | .finalize id _ | .deleteListing id
     | .withdrawPurchased id => (some id, none)
     | .createBucket id | .addToBucket id | .removeBucket id => (none, some id)
     | .buy l b => (some l, some b)
     | .receive _ _ (some i) | .receiveNft _ _ (some i) =>
       (match i with
        | .createListing id _ | .addToListing id => (some id, none)
        | .createBucket id | .addToBucket id => (none, some id))
     | _ => (none, none))
  | .send20 _ _ _ (some i) | .send721 _ _ _ (some i) =>
    (match i with
     | .createListing id _ | .addToListing id => (some id, none)
     | .createBucket id | .addToBucket id => (none, some id))
  | _ => (none, none)

/-- a coarse description of the situation an op meets (for counting distinct cases) -/
def opShape (w : World) (op : Op) : String :=
  let (tl, tb) := opTargets op
  let sender := opSender op
  let ls := match tl with
    | none => "-"
    | some id =>
      match findById id w.mkt.listings with
      | none => if id ∈ w.mkt.listingUsed then "u" else "n"
      | some (k, l) =>
        (match l.status with | .preparing => "p" | .finalized => "f" | .closed => "c") ++
        (if some k.1 == sender then "o" else "x") ++
        (match l.expiresAt with | some e => if w.nowNs + NS ≤ e then "<" else if w.nowNs < e then "~" else if w.nowNs == e then "=" else ">" | none => "")
  let bs := match tb with
    | none => "-"
    | some id =>
      match w.mkt.buckets.find? (fun p => decide (p.1.2 = id)) with
      | none => if id ∈ w.mkt.bucketUsed then "u" else "n"
      | some (k, b) => "b" ++ (if some k.1 == sender then "o" else "x") ++ (if b.fee.isSome then "$" else "")
  let n := w.mkt.listings.length + w.mkt.buckets.length
  let nc := if n == 0 then "0" else if n ≤ 5 then "s" else if n ≤ 40 then "m" else "L"
  let fc := match op with
    | .exec _ f _ => if f.isEmpty then "" else if f.length == 1 then "+1" else "+n"
    | _ => ""
  let rs := match op with
    | .royalty s msg =>
      let c := match msg with | .register n _ _ => n | .update n _ _ => n | .remove n => n
      (match c with
       | .invalid => "I"
       | .valid c =>
         (match alookup c w.reg with
          | none => "n"
          | some e => "r" ++ (if w.height < e.lastUpdated + COOLDOWN then "<" else if w.height == e.lastUpdated + COOLDOWN then "=" else ">")) ++
         (if isAdmin w.regEnv s c then "a" else if (w.regEnv.adminOf c).isNone then "?" else "x")) ++
      (match msg with
       | .register _ p b => (if bpsOk b then "b" else "B") ++ (if p == .invalid then "P" else "")
       | .update _ p b => (match b with | none => "-" | some b => if bpsOk b then "b" else "B") ++
                          (match p with | none => "-" | some .invalid => "P" | some _ => "p")
       | .remove _ => "")
    | .exec _ _ .feeCycle =>
      let t := w.nowNs / NS
      if t < w.mkt.feeSince + WEEK then "w<" else if t == w.mkt.feeSince + WEEK then "w=" else "w>"
    | _ => ""
  ls ++ "/" ++ bs ++ "/" ++ nc ++ fc ++ rs

structure StepIn where
  line : String            -- STEP / PROBE / STEPF
  fault : Option Nat
  kind : String
  op : Op
  io : ImplOutcome
  pw : World
  idxOk : Bool
  same : Bool

def processStep (st : DState) (si : StepIn) : DState × String := Id.run do
  let cur := st.cur
  let failFn : Nat → Bool := match si.fault with | some k => fun i => i == k | none => noFault
  let (mw, mo) := stepF failFn cur si.op
  let io := si.io
  let pw := si.pw
  let mut diffs : List String := []
  if io.ok != mo.ok then diffs := ["ok"]
  else if io.ok then diffs := compDiffs pw mw io mo
  -- oracles ---------------------------------------------------------------------------------
  let mut orc : List String := []
  let mut klass : List String := []
  let unchanged := si.same
  if !io.ok && (!unchanged || io.dirty) then orc := orc ++ ["o02n"]
  if !checkC01 pw then orc := orc ++ ["o01"]
  if !checkIds pw.mkt then orc := orc ++ ["o09"]
  if !checkWF pw then orc := orc ++ ["o12"]
  if !(si.idxOk && pw.mkt.registry == some pw.regAddr) then orc := orc ++ ["oIdx"]
  let sender := opSender si.op
  -- C04: nobody else's wallet decreases
  if !oracle04 cur pw si.op then orc := orc ++ ["o04"]
  -- C19: a non-deposit op never debits its sender
  if !oracle19 cur pw si.op then orc := orc ++ ["o19"]
  -- C04: records filed under somebody other than the acting wallet are untouched (Oracles.lean)
  if !oracle04r cur pw si.op then orc := orc ++ ["o04r"]
  if !monotone08 cur pw then orc := orc ++ ["o08"]
  if !oracle09m cur pw then orc := orc ++ ["o09m"]
  -- C13
  if !oracle13 cur pw si.op io.ok then orc := orc ++ ["o13"]
  -- C16: a cycle accepted before the `next_change` the fee query announces for this state
  if !oracle16n cur si.op io.ok then orc := orc ++ ["o16n"]
  -- C14
  if !oracle14 cur pw si.op io.ok then orc := orc ++ ["o14"]
  if !pw.reg.all (fun p => bpsOk p.2.bps) then orc := orc ++ ["o14b"]
  -- sub-message shape
  if !io.subs.all (fun s => s.1 == 0 && s.2.1 == 0 && !s.2.2) then orc := orc ++ ["oSub"]
  -- monitors (only for adopted steps) ---------------------------------------------------------
  let mut st' := st
  let adopt := si.line == "STEP"
  if io.ok then
    match si.op with
    | .exec _ _ (.buy lid bid) =>
      if st.sold.contains lid then orc := orc ++ ["o03"]
      let bo := buyOracle cur pw lid bid
      if bo.contains "f" then orc := orc ++ ["o06f"]
      if bo.contains "w" then orc := orc ++ ["o10w"]
      if bo.contains "h" then orc := orc ++ ["o11h"]
      if bo.contains "x" then orc := orc ++ ["o03x"]
      if bo.contains "d" then orc := orc ++ ["o13d"]
      if adopt then
        let lf := match findById lid pw.mkt.listings with
          | some (_, l) => l.fee
          | none => (match findById lid mw.mkt.listings with | some (_, l) => l.fee | none => none)
        let bf := match pw.mkt.buckets.find? (fun p => decide (p.1.2 = bid)) with
          | some (_, b) => b.fee
          | none => (match mw.mkt.buckets.find? (fun p => decide (p.1.2 = bid)) with | some (_, b) => b.fee | none => none)
        st' := { st' with sold := lid :: st'.sold, charged := ghostAdd (ghostAdd st'.charged lf) bf }
    | .exec _ _ (.withdrawPurchased lid) =>
      if st.wdL.contains lid then orc := orc ++ ["o03"]
      if adopt then st' := { st' with wdL := lid :: st'.wdL }
    | .exec _ _ (.removeBucket bid) =>
      if st.wdB.contains bid then orc := orc ++ ["o03"]
      if adopt then st' := { st' with wdB := bid :: st'.wdB }
    | _ => pure ()
    let (cl, cb) := creationIds si.op
    match cl with
    | some id =>
      if st.crL.contains id || id == 0 || id ≥ MAX_SAFE_INT || cur.mkt.listingUsed.contains id then orc := orc ++ ["o09c"]
      if adopt then st' := { st' with crL := id :: st'.crL }
    | none => pure ()
    match cb with
    | some id =>
      if st.crB.contains id || id == 0 || id ≥ MAX_SAFE_INT || cur.mkt.bucketUsed.contains id then orc := orc ++ ["o09c"]
      if adopt then st' := { st' with crB := id :: st'.crB }
    | none => pure ()
  if adopt && !ghostOk pw st'.charged then orc := orc ++ ["o10"]
  -- C04: the bucket id a purchase is paid with names one bucket only
  if !oracle04b cur si.op io.ok then orc := orc ++ ["o04b"]
  -- C10: the pool messages of a response are exactly the recorded fees that leave the records
  if (io.ok || !io.msgs.isEmpty) && si.fault.isNone then
    if !oracle10m cur si.op (sortCodes (io.msgs.map implMsgCode)) then orc := orc ++ ["o10m"]
    -- C13: a recorded fee is paid in the denomination it was recorded in, whatever is in force now
    if !oracle13r cur si.op (sortCodes (io.msgs.map implMsgCode)) then orc := orc ++ ["o13r"]
    -- a pool message that does not decode / names another depositor (the chain rejects it)
    if io.msgs.any (fun m => match m with | .pool false _ _ => true | .pool true d _ => d != cur.self | _ => false) then
      orc := orc ++ ["o10d"]
  -- C02: acceptance of a purchase is exactly the published terms (on the implementation pre-state)
  match si.op with
  | .exec buyer funds (.buy lid bid) =>
    if funds.isEmpty && si.fault.isNone && !hasForeignAsset cur then
      if io.ok != buyTerms cur buyer lid bid then orc := orc ++ ["o02t"]
  | _ => pure ()
  -- C15
  match si.fault with
  | some k =>
    if !oracle15 cur si.op k io.ok unchanged then orc := orc ++ ["o15"]
    -- C10: the failed message was the community-pool deposit, yet the proceeds left
    if !oracle10f cur si.op k io.ok then orc := orc ++ ["o10f"]
  | none => pure ()
  -- C07 drain mode
  if st.drain && !io.ok && adopt then orc := orc ++ ["o07"]
  -- C18 classification of forged hook calls that were accepted
  match isForgedHook cur si.op with
  | some (h, tag) =>
    if io.ok then
      klass := (changedRecords cur pw h).map (fun c => tag ++ "." ++ c)
  | none => pure ()
  if adopt then st' := { st' with cur := pw }
  let fl := match si.fault with | some k => s!"{si.line}{k}" | none => si.line
  let extra := match si.op with
    | .exec _ _ (.buy lid bid) =>
      (match findById lid cur.mkt.listings, cur.mkt.buckets.find? (fun (p : (Nat × Nat) × Bucket) => decide (p.1.2 = bid)) with
       | some (_, l), some (_, b) => s!"bps:{sideBps cur l.forSale}:{sideBps cur b.funds}"
       | _, _ => "-")
    | .exec s _ (.receive u _ _) => if u == RawAddr.valid s then "own" else "other"
    | .exec s _ (.receiveNft u _ _) => if u == RawAddr.valid s then "own" else "other"
    | _ => "-"
  let ans := s!"{fl} {si.kind} i={if io.ok then "ok" else if io.dirty then "errd" else "err"} m={errName mo.err} D={join diffs} O={join orc} K={join klass} S={opShape cur si.op} X={extra}"
  return (st', ans)

/-! ### queries -/

inductive QResp
  | err
  | panic
  | fee (k : FeeKind) (denom next : Nat)
  | buckets (l : List (Nat × Bucket))
  | listings (l : List Listing)
  | addr (a : Option Nat)
deriving Repr, Inhabited

def qresp : P QResp := do
  let t ← tok
  if t == "err" then pure .err
  else if t == "panic" then pure .panic
  else if t == "ok" then do
    let k ← tok
    if k == "FD" then do
      let fk ← feeKind
      let d ← nat
      let n ← nat
      pure (.fee fk d n)
    else if k == "BK" then do
      let l ← listOf (do let i ← nat; let b ← bucket; pure (i, b))
      pure (.buckets l)
    else if k == "LS" then do
      let l ← listOf listing
      pure (.listings l)
    else if k == "RA" then do
      let a ← opt nat
      pure (.addr a)
    else failure
  else failure

def processQuery (st : DState) : P String := do
  let w := st.cur
  let q ← tok
  let mut orc : List String := []
  if q == "FD" then do
    let r ← qresp
    let mr := qFeeDenom w.mkt w.env
    let agree : Bool := match r with
      | .fee k d n => k == mr.kind && d == mr.denom && n == mr.nextChange
      | _ => false
    -- oracle: cycle accepted now  ↔  now_s ≥ next_change
    match r with
    | .fee k d n =>
      let cycOk := match cycleFee w.mkt w.env with | .ok _ => true | .error _ => false
      if cycOk != decide (w.nowNs / NS ≥ n) then orc := orc ++ ["o16f"]
      if !(d == feeDenomOf w.env w.mkt.feeKind && k == w.mkt.feeKind) then orc := orc ++ ["o16d"]
    | _ => orc := orc ++ ["o16e"]
    pure s!"QUERY FD agree={if agree then 1 else 0} O={join orc}"
  else if q == "BK" then do
    let o ← rawAddr
    let p ← nat
    let r ← qresp
    let mr := qBuckets w.mkt o p
    let agree : Bool := match r, mr with
      | .err, none => true
      | .buckets l, some ml => l.map (fun x => (x.1, canonBucket x.2)) == ml.map (fun x => (x.1, canonBucket x.2))
      | _, _ => false
    if (match r with | .panic => true | _ => false) then orc := orc ++ ["o16p"]
    pure s!"QUERY BK{p} agree={if agree then 1 else 0} O={join orc}"
  else if q == "LO" then do
    let o ← rawAddr
    let p ← nat
    let r ← qresp
    let mr := qListingsByOwner w.mkt o p
    let agree : Bool := match r, mr with
      | .err, none => true
      | .listings l, some ml => l.map canonListing == ml.map canonListing
      | _, _ => false
    if (match r with | .panic => true | _ => false) then orc := orc ++ ["o16p"]
    pure s!"QUERY LO{p} agree={if agree then 1 else 0} O={join orc}"
  else if q == "WL" then do
    let o ← rawAddr
    let r ← qresp
    let mr := qWhitelisted w.mkt w.nowNs o
    let agree : Bool := match r, mr with
      | .err, none => true
      | .listings l, some ml => l.map canonListing == ml.map canonListing
      | _, _ => false
    match r with
    | .listings l =>
      if !l.all (fun x => purchasable w.nowNs x && x.whitelist == rawValid o) then orc := orc ++ ["o16w"]
      -- completeness: every purchasable listing reserved for o is returned
      match rawValid o with
      | some a =>
        if !(w.mkt.listings.all (fun p => !(purchasable w.nowNs p.2 && p.2.whitelist == some a) ||
              l.any (fun x => x.id == p.2.id))) then orc := orc ++ ["o16c"]
      | none => pure ()
    | .panic => orc := orc ++ ["o16p"]
    | _ => pure ()
    pure s!"QUERY WL agree={if agree then 1 else 0} O={join orc}"
  else if q == "MK" then do
    let p ← nat
    let r ← qresp
    let mr := qMarket w.mkt w.nowNs p
    let agree : Bool := match r, mr with
      | .err, none => true
      | .panic, none => true
      | .listings l, some ml => l.map canonListing == ml.map canonListing
      | _, _ => false
    match r with
    | .listings l =>
      if !l.all (fun x => purchasable w.nowNs x) then orc := orc ++ ["o16w"]
    | .panic => if mr.isSome then orc := orc ++ ["o16p"]
    | _ => pure ()
    pure s!"QUERY MK{p} agree={if agree then 1 else 0} O={join orc}"
  else if q == "MKALL" then do
    -- union of all pages 1..k as returned by the implementation: must be exactly the purchasable set
    let l ← listOf nat
    let want := sortNats ((w.mkt.listings.filter (fun p => purchasable w.nowNs p.2)).map (·.2.id))
    let got := l.mergeSort (fun a b => decide (a ≤ b))
    if got != want then orc := orc ++ ["o16c"]
    pure s!"QUERY MKALL agree=1 O={join orc}"
  else if q == "RS" then do
    -- registry: single lookup (strings that are not names of the world cannot be registered: none)
    let a ← rawAddr
    let t ← tok
    if t == "err" then pure s!"QUERY RS agree=0 O=o14q"
    else do
      let _ ← tok
      let r ← opt royInfo
      let mr := match rawValid a with | some c => regSingle w.reg c | none => none
      pure s!"QUERY RS agree={if r == mr then 1 else 0} O=-"
  else if q == "RM" then do
    let cs ← listOf rawAddr
    let t ← tok
    let want : Option (List (Option RoyaltyInfo)) :=
      if cs.isEmpty then none
      else some (cs.map (fun a => match rawValid a with | some c => regSingle w.reg c | none => none))
    if t == "err" then pure s!"QUERY RM{cs.length} agree={if want.isNone then 1 else 0} O=-"
    else do
      let _ ← tok
      let rs ← listOf (opt royInfo)
      pure s!"QUERY RM{cs.length} agree={if some rs == want then 1 else 0} O={if rs.length == cs.length then "-" else "o14q"}"
  else if q == "RA" then do
    let r ← qresp
    let agree : Bool := match r with
      | .addr a => a == qRoyaltyAddr w.mkt
      | _ => false
    pure s!"QUERY RA agree={if agree then 1 else 0} O={join orc}"
  else failure

/-! ### pure-function lines -/

def gbalConserved (pre post : GBal) (outNative outCw20 : Nat → Nat) : Bool :=
  (dedupNats (keys pre.native ++ keys post.native)).all (fun k =>
    coinAmt pre.native k == coinAmt post.native k + outNative k) &&
  (dedupNats (keys pre.cw20 ++ keys post.cw20)).all (fun k =>
    coinAmt pre.cw20 k == coinAmt post.cw20 k + outCw20 k) &&
  nftCodes pre.nfts == nftCodes post.nfts

def magClass (a : Nat) : String :=
  if a == 0 then "0" else if a < 200 then "a" else if a < 10000 then "b" else if a < 2^32 then "c"
  else if a < 2^64 then "d" else if a < 2^100 then "e" else "f"

def processFee (st : DState) : P String := do
  let fk ← feeKind
  let g ← gbal
  let t ← tok
  let fd := feeDenomOf st.cur.env fk
  let mr := calcFeeCoin fd g
  if t == "err" then
    pure s!"FEE agree={if mr.isNone then 1 else 0} O=o17e"
  else do
    let fee ← opt coin
    let g' ← gbal
    let agree : Bool := match mr with
      | some (mf, mg) => mf == fee && canonGBal mg == canonGBal g'
      | none => false
    let mut orc : List String := []
    if !gbalConserved g g' (fun k => feeAmt fee k) (fun _ => 0) then orc := orc ++ ["o17c"]
    match fee with
    | some f => if !(f.key == fd && f.amount == coinAmt g.native fd * 5 / 1000 && f.amount != 0) then orc := orc ++ ["o17f"]
    | none => if !(coinAmt g.native fd * 5 / 1000 == 0) then orc := orc ++ ["o17f"]
    pure s!"FEE agree={if agree then 1 else 0} O={join orc} S={if fk == .juno then "J" else "U"}:{if fee.isSome then "fee" else "nofee"}:{magClass (coinAmt g.native fd)}:{g.native.length}"

def processRoy : P String := do
  let g ← gbal
  let rs ← listOf (opt royInfo)
  let t ← tok
  let mr := royalties g rs
  if t == "err" then
    pure s!"ROY agree={match mr with | .err => 1 | _ => 0} O=- S=err:n{rs.length}"
  else if t == "panic" then
    -- an abort is a C17 failure only inside the property's domain (≤ 25 registry-legal rates)
    let legal := rs.length ≤ 25 && (rs.filterMap id).all (fun e => bpsOk e.bps)
    pure s!"ROY agree={match mr with | .panic => 1 | _ => 0} O={if legal then "o17p" else "-"}"
  else do
    let g' ← gbal
    let ms ← listOf implMsg
    let s ← nat
    let agree : Bool := match mr with
      | .ok mg mm msum => canonGBal mg == canonGBal g' && sortCodes (mm.map outMsgCode) == sortCodes (ms.map implMsgCode) && msum == s
      | _ => false
    let outN (k : Nat) : Nat := (ms.map (fun m => match m with
      | .msg (.bankSend _ cs) => coinAmt cs k
      | _ => 0)).sum
    let outC (k : Nat) : Nat := (ms.map (fun m => match m with
      | .msg (.cw20Transfer t _ a) => if t = k then a else 0
      | _ => 0)).sum
    let mut orc : List String := []
    if !gbalConserved g g' outN outC then orc := orc ++ ["o17c"]
    -- floor rounding, one payout per non-zero (asset, entry) pair, to the entry's address
    let entries := rs.filterMap id
    let expect : List (List Nat) :=
      g.native.flatMap (fun c => entries.filterMap (fun e =>
        if c.amount * e.bps / 10000 = 0 then none else some [1, e.payout, c.key, c.amount * e.bps / 10000])) ++
      g.cw20.flatMap (fun c => entries.filterMap (fun e =>
        if c.amount * e.bps / 10000 = 0 then none else some [2, c.key, e.payout, c.amount * e.bps / 10000]))
    if sortCodes expect != sortCodes (ms.map implMsgCode) then orc := orc ++ ["o17m"]
    -- C11: at most half leaves, at least 1 stays (per entry, position-wise after canonical sort by key)
    let halfOk (pre post : List Coin) : Bool :=
      pre.all (fun c => let y := coinAmt post c.key
        decide (y ≤ coinAmt pre c.key) && decide (2 * (coinAmt pre c.key - y) ≤ coinAmt pre c.key) &&
        (c.amount == 0 || decide (1 ≤ y)))
    if !(halfOk g.native g'.native && halfOk g.cw20 g'.cw20) then orc := orc ++ ["o11r"]
    let amax := (g.native ++ g.cw20).foldl (fun m c => max m c.amount) 0
    pure s!"ROY agree={if agree then 1 else 0} O={join orc} S=ok:n{rs.length}:m{ms.length}:{magClass amax}:s{s / 1000}"

def processCmp : P String := do
  let a ← gbal
  let b ← gbal
  let r ← nat
  let agree := genbalCmp a b == (r != 0)
  pure s!"CMP agree={if agree then 1 else 0} O=-"

def processValidate : P String := do
  let r ← rawGBal
  let t ← tok
  let mr := validateAsk r
  if t == "err" then pure s!"VALIDATE agree={if mr.isNone then 1 else 0} O=-"
  else do
    let g ← gbal
    let agree : Bool := match mr with | some mg => mg == g | none => false
    pure s!"VALIDATE agree={if agree then 1 else 0} O={if checkValid g then "-" else "o12v"}"

def processCpmsg : P String := do
  let d ← listOf nat
  let amount ← nat
  let dep ← listOf nat
  let raw ← listOf nat
  let enc := Proto.encodeFund d (Proto.digits amount) dep
  let dec := Proto.decodeFund raw
  let decOk : Bool := match dec with
    | some (d', a', dep') => d' == d && Proto.ofDigits a' == amount && a' == Proto.digits amount && dep' == dep
    | none => false
  pure s!"CPMSG agree={if enc == raw then 1 else 0} O={if decOk then "-" else "o10d"}"

/-! ### the loop -/

def processLine (st : DState) (lineNo : Nat) (line : String) : DState × String :=
  let toks := (line.trimAscii.toString.splitOn " ").filter (· ≠ "")
  match toks with
  | [] => (st, s!"E {lineNo} empty")
  | "NOTE" :: rest => (st, s!"A {lineNo} NOTE {" ".intercalate (rest.take 8)}")
  | "INIT" :: rest =>
    match world rest with
    | some ((w, idx), remaining) =>
      -- echo: what was parsed prints back to exactly the tokens consumed
      if pWorld w idx != rest.take (rest.length - remaining.length) then (st, s!"E {lineNo} codec-echo INIT") else
      let orc := (if checkC01 w then [] else ["o01"]) ++ (if checkIds w.mkt then [] else ["o09"]) ++
                 (if checkWF w then [] else ["o12"]) ++
                 (if idx && w.mkt.registry == some w.regAddr then [] else ["oIdx"])
      ({ cur := w, started := true, charged := ghostInit w }, s!"A {lineNo} INIT O={join orc}")
    | none => (st, s!"E {lineNo} bad-world")
  | "INST" :: _ =>
    -- the state right after instantiation + reply equals the model's `instantiate`
    let w := st.cur
    let m0 := instantiate w.nowNs (some w.regAddr)
    let same := w.mkt.listings.isEmpty && w.mkt.buckets.isEmpty &&
      sortNats w.mkt.listingUsed == sortNats m0.listingUsed && sortNats w.mkt.bucketUsed == sortNats m0.bucketUsed &&
      w.mkt.feeKind == m0.feeKind && w.mkt.feeSince == m0.feeSince && w.mkt.registry == m0.registry
    -- the registry is created without an admin (`WasmMsg::Instantiate { admin: None, .. }`): nobody can migrate it
    let regAdminNone := match alookup w.regAddr w.contracts with
      | some ci => ci.admin.isNone
      | none => false
    (st, s!"A {lineNo} INST agree={if same then 1 else 0} O={if regAdminNone then "-" else "oRegAdmin"}")
  | "REPLY" :: rest =>
    let p : P String := do
      let id ← nat
      let a ← rawAddr
      let t ← tok
      let mr := match reply st.cur.mkt id a with | .ok _ => true | .error _ => false
      pure s!"REPLY agree={if mr == (t == "ok") then 1 else 0} O={if id != 1 && t == "ok" then "o15r" else "-"}"
    (match p rest with
     | some (ans, _) => (st, s!"A {lineNo} {ans}")
     | none => (st, s!"E {lineNo} bad-REPLY"))
  | "DRAIN" :: _ => ({ st with drain := true }, s!"A {lineNo} DRAIN")
  | "ENDDRAIN" :: _ =>
    let w := st.cur
    let empty := w.mkt.listings.isEmpty && w.mkt.buckets.isEmpty &&
      w.bank.all (fun p => p.1.1 != w.self || p.2 == 0) &&
      w.cw20.all (fun p => p.1.2 != w.self || p.2 == 0) &&
      w.nft.all (fun p => p.2 != w.self)
    -- records all gone but assets left: the holdings are unaccounted for (C01 as well)
    let norec := w.mkt.listings.isEmpty && w.mkt.buckets.isEmpty
    ({ st with drain := false }, s!"A {lineNo} ENDDRAIN O={if empty then "-" else if norec then "o07e,o01e" else "o07e"}")
  | kind :: rest =>
    if !st.started then (st, s!"E {lineNo} no-init") else
    if kind == "STEP" || kind == "PROBE" || kind == "STEPF" then
      let p : P StepIn := do
        let fault ← if kind == "STEPF" then (do let k ← nat; pure (some k)) else pure none
        let (k, o) ← op
        let io ← outcome
        let (pw, idx, same) ← post st.cur
        pure { line := kind, fault := fault, kind := k, op := o, io := io, pw := pw, idxOk := idx, same := same }
      match p rest with
      | some (si, []) =>
        -- echo: operation, outcome and post-state print back to exactly the line's tokens
        let echo := (match si.fault with | some k => [Nat.repr k] | none => []) ++ pOp si.op ++ pOutcome si.io ++
          (if si.same then ["="] else pWorld si.pw si.idxOk)
        if echo != rest || opKind si.op != si.kind then (st, s!"E {lineNo} codec-echo {kind}") else
        let (st', ans) := processStep st si
        (st', s!"A {lineNo} {ans}")
      | some (_, _ :: _) => (st, s!"E {lineNo} trailing-tokens")
      | none => (st, s!"E {lineNo} bad-step")
    else
      let p : Option (P String) :=
        if kind == "QUERY" then some (processQuery st)
        else if kind == "FEE" then some (processFee st)
        else if kind == "ROY" then some processRoy
        else if kind == "CMP" then some processCmp
        else if kind == "VALIDATE" then some processValidate
        else if kind == "CPMSG" then some processCpmsg
        else none
      match p with
      | none => (st, s!"E {lineNo} unknown-line-kind {kind}")
      | some p =>
        match p rest with
        | some (ans, []) => (st, s!"A {lineNo} {ans}")
        | some (_, _ :: _) => (st, s!"E {lineNo} trailing-tokens")
        | none => (st, s!"E {lineNo} bad-{kind}")

/-- `PUSH` / `POP` bracket a sub-history evaluated on a fork: the whole driver state
    (world and monitors) is saved and restored. -/
partial def loop (hin hout : IO.FS.Stream) (st : DState) (stack : List DState) (n : Nat) : IO Unit := do
  let line ← hin.getLine
  if line.isEmpty then return ()
  if line.startsWith "PUSH" then
    hout.putStrLn s!"A {n} PUSH"
    loop hin hout st (st :: stack) (n + 1)
  else if line.startsWith "POP" then
    match stack with
    | [] =>
      hout.putStrLn s!"E {n} pop-without-push"
      loop hin hout st [] (n + 1)
    | s :: rest =>
      hout.putStrLn s!"A {n} POP"
      loop hin hout s rest (n + 1)
  else
    let (st', ans) := processLine st n line
    hout.putStrLn ans
    -- a new history (INIT) at top level drops any unbalanced stack
    loop hin hout st' stack (n + 1)

end Fuzion.Run
