/-
  Fuzion.Driver.Oracles — the transition oracles the driver evaluates on every implementation
  step (`cur` = pre-state, `pw` = the implementation's post-state), as named pure functions so that
  theorems can be stated about them (Props/OracleSound.lean: on the model's own steps they all
  hold, i.e. an implementation that behaves like the model never trips them).
-/
import Fuzion.Driver.Compare
namespace Fuzion.Orc
open Fuzion Fuzion.Codec Fuzion.Cmp

/-- a receive hook called directly (`exec`) is forged by definition: honest tokens only call it
    from inside `send20` / `send721`. Callers that are not contracts get the prefix `acct.` -/
def isForgedHook (w : World) : Op → Option (Nat × String)
  | .exec s _ (.receive _ _ i) =>
    some (s, (if (w.kindOf s).isSome then "" else "acct.") ++ "RC." ++ innerTag i)
  | .exec s _ (.receiveNft _ _ i) =>
    some (s, (if (w.kindOf s).isSome then "" else "acct.") ++ "RN." ++ innerTag i)
  | _ => none


/-- the wallet on whose behalf an op acts (for hooks reached through an honest token: the real
    depositor named by the token; for a hook called directly: the caller) -/
def actorOf (cur : World) : Op → Option Nat
  | .exec s _ (.receive (.valid u) _ _) => if cur.isHonest20 s then some u else some s
  | .exec s _ (.receiveNft (.valid u) _ _) => if cur.isHonest721 s then some u else some s
  | .exec s _ _ => some s
  | .send20 _ s _ _ => some s
  | .send721 _ s _ _ => some s
  | _ => none

/-- C04 (`o04r`): records filed under somebody other than the acting wallet are untouched, except
    the finalized, unexpired listing that a purchase takes. A hook called directly by a *contract*
    is the C18 matter and is judged there. -/
def oracle04r (cur pw : World) (op : Op) : Bool :=
  let contractForges := match isForgedHook cur op with
    | some (caller, _) => (cur.kindOf caller).isSome
    | none => false
  if contractForges then true
  else
    match actorOf cur op with
    | some actor =>
      let boughtLid : Option Nat := match op with | .exec _ _ (.buy lid _) => some lid | _ => none
      let lOk := cur.mkt.listings.all (fun p =>
        p.1.1 == actor || alookup p.1 pw.mkt.listings == some p.2 ||
        (boughtLid == some p.2.id && p.2.status == .finalized &&
          (match p.2.expiresAt with | some e => decide (cur.nowNs ≤ e) | none => false)))
      let bOk := cur.mkt.buckets.all (fun p => p.1.1 == actor || alookup p.1 pw.mkt.buckets == some p.2)
      lOk && bOk
    | none =>
      canonListings cur.mkt.listings == canonListings pw.mkt.listings &&
      canonBuckets cur.mkt.buckets == canonBuckets pw.mkt.buckets

/-- C04 (`o04`): nobody but the op's sender (and the marketplace) is debited -/
def oracle04 (cur pw : World) (op : Op) : Bool :=
  walletsKept cur pw (fun y => some y != opSender op && y != cur.self)

/-- C19 (`o19`): an op that is not a deposit never debits its sender -/
def oracle19 (cur pw : World) (op : Op) : Bool :=
  isDepositOp op || walletsKept cur pw (fun y => some y == opSender op && y != cur.self)

/-- C09 (`o09m`): the id logs only grow -/
def oracle09m (cur pw : World) : Bool :=
  subsetNats cur.mkt.listingUsed pw.mkt.listingUsed && subsetNats cur.mkt.bucketUsed pw.mkt.bucketUsed

/-- C13 (`o13`): the fee item changes only by an accepted cycle, which flips the denomination,
    stamps the current second, and comes more than a week after the previous stamp -/
def oracle13 (cur pw : World) (op : Op) (ok : Bool) : Bool :=
  let feeChanged := !(cur.mkt.feeKind == pw.mkt.feeKind && cur.mkt.feeSince == pw.mkt.feeSince)
  if feeChanged then
    let isFC := match op with | .exec _ _ .feeCycle => true | _ => false
    isFC && ok && cur.mkt.feeKind != pw.mkt.feeKind && pw.mkt.feeSince == cur.nowNs / NS &&
      decide (cur.nowNs / NS > cur.mkt.feeSince + WEEK)
  else true

/-- C14 (`o14`): the registry changes only by an accepted registry message -/
def oracle14 (cur pw : World) (op : Op) (ok : Bool) : Bool :=
  let regChanged := !(canonReg cur.reg == canonReg pw.reg)
  let isR := match op with | .royalty .. => true | _ => false
  !(regChanged && !(isR && ok))

/-- C16 (`o16n`): no cycle is accepted before the `next_change` the fee query announces -/
def oracle16n (cur : World) (op : Op) (ok : Bool) : Bool :=
  match op with
  | .exec _ _ .feeCycle => !(ok && decide (cur.nowNs / NS < (qFeeDenom cur.mkt cur.env).nextChange))
  | _ => true

/-- C10 (`o10m`): the community-pool messages of a response (as sorted codes) are exactly the
    recorded fees that leave the records with this op -/
def oracle10m (cur : World) (op : Op) (codes : List (List Nat)) : Bool :=
  let feeCode (f : Option Coin) : List (List Nat) :=
    match f with | some f => [[4, cur.self, f.key, f.amount]] | none => []
  let expectPool : Option (List (List Nat)) := match op with
    | .exec _ _ (.withdrawPurchased lid) =>
      (match findById lid cur.mkt.listings with
       | some (_, l) => some (feeCode l.fee)
       | none => none)
    | .exec _ _ (.removeBucket bid) =>
      (match cur.mkt.buckets.find? (fun (p : (Nat × Nat) × Bucket) => decide (p.1.2 = bid)) with
       | some (_, b) => some (feeCode b.fee)
       | none => none)
    | .exec _ _ (.buy _ bid) =>
      (match cur.mkt.buckets.find? (fun (p : (Nat × Nat) × Bucket) => decide (p.1.2 = bid)) with
       | some (_, b) => some (feeCode b.fee)
       | none => none)
    | _ => some []
  match expectPool with
  | some e => poolCodes codes == sortCodes e
  | none => true

/-- C15 (fault injection): the `k`-th message of the response the model computes without fault is made
    to fail; then the operation as a whole must fail (`ioOk = false`) and leave the world as it was
    (`unchanged`). `true` = fine. -/
def oracle15 (cur : World) (op : Op) (k : Nat) (ioOk unchanged : Bool) : Bool :=
  let mo0 := (stepF noFault cur op).2
  !(mo0.ok && decide (k < mo0.msgs.length) && (ioOk || !unchanged))

/-- C10 (fault injection): the message made to fail is the community-pool deposit; then the
    proceeds must not leave (`ioOk = false`). `true` = fine. -/
def oracle10f (cur : World) (op : Op) (k : Nat) (ioOk : Bool) : Bool :=
  let mo0 := (stepF noFault cur op).2
  !(mo0.ok && decide (k < mo0.msgs.length) && ioOk &&
    (match mo0.msgs[k]? with | some (.fundPool ..) => true | _ => false))

/-- the pool messages `o10m` expects for this op (same table as in `oracle10m`) -/
def expectPool13 (cur : World) (op : Op) : Option (List (List Nat)) :=
  let feeCode (f : Option Coin) : List (List Nat) :=
    match f with | some f => [[4, cur.self, f.key, f.amount]] | none => []
  match op with
    | .exec _ _ (.withdrawPurchased lid) =>
      (match findById lid cur.mkt.listings with
       | some (_, l) => some (feeCode l.fee)
       | none => none)
    | .exec _ _ (.removeBucket bid) =>
      (match cur.mkt.buckets.find? (fun (p : (Nat × Nat) × Bucket) => decide (p.1.2 = bid)) with
       | some (_, b) => some (feeCode b.fee)
       | none => none)
    | .exec _ _ (.buy _ bid) =>
      (match cur.mkt.buckets.find? (fun (p : (Nat × Nat) × Bucket) => decide (p.1.2 = bid)) with
       | some (_, b) => some (feeCode b.fee)
       | none => none)
    | _ => some []

/-- denomination field of a pool-message code `[4, depositor, denom, amount]` -/
def codeDenom (c : List Nat) : Option Nat := c[2]?

/-- C13 (`o13r`): "a fee already recorded is unaffected by later switches" — the community-pool
    messages of a response carry the denominations of the recorded fees that leave with this op
    (whatever the denomination in force now). Weaker than `o10m`, which also compares amounts. -/
def oracle13r (cur : World) (op : Op) (codes : List (List Nat)) : Bool :=
  match expectPool13 cur op with
  | some e => (poolCodes codes).map codeDenom == (sortCodes e).map codeDenom
  | none => true

theorem o13r_of_o10m (cur : World) (op : Op) (codes : List (List Nat))
    (h : oracle10m cur op codes = true) : oracle13r cur op codes = true := by
  unfold oracle13r
  have he : oracle10m cur op codes =
      (match expectPool13 cur op with
       | some e => poolCodes codes == sortCodes e
       | none => true) := by
    unfold oracle10m expectPool13; rfl
  rw [he] at h
  split
  · next e heq =>
    rw [heq] at h
    simp only [beq_iff_eq] at h ⊢
    rw [h]
  · rfl

/-- C04 (`o04b`): a purchase is paid with a bucket id that names exactly one bucket; with two buckets
    under one id the proceeds filed under `(seller, id)` overwrite or shadow a bucket of somebody
    who is not a party to the payment. `true` = fine. -/
def oracle04b (cur : World) (op : Op) (ok : Bool) : Bool :=
  match op with
  | .exec _ _ (.buy _ bid) =>
    !(ok && decide (1 < (cur.mkt.buckets.filter (fun p => decide (p.1.2 = bid))).length))
  | _ => true

end Fuzion.Orc
