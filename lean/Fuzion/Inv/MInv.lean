/-
  Fuzion.Inv.MInv — the inductive invariants of the marketplace's storage, as propositions.
  (`checkIds` / `checkWF` in Inv/Defs.lean are their executable forms evaluated by the driver on
  implementation states.)
-/
import Fuzion.Inv.Defs
namespace Fuzion

/-- keys and ids: storage keys are unique; every record is filed under its owner and id; at most
    one live listing and one live bucket per id; live ids have been marked used; id 0 is marked. -/
structure IdsInv (m : Market) : Prop where
  lkeys : (akeys m.listings).Nodup
  bkeys : (akeys m.buckets).Nodup
  lfiled : ∀ p ∈ m.listings, p.1 = (p.2.creator, p.2.id)
  bfiled : ∀ p ∈ m.buckets, p.1.1 = p.2.owner
  lidInj : ∀ p ∈ m.listings, ∀ q ∈ m.listings, p.2.id = q.2.id → p.1 = q.1
  bidInj : ∀ p ∈ m.buckets, ∀ q ∈ m.buckets, p.1.2 = q.1.2 → p.1 = q.1
  lused : ∀ p ∈ m.listings, p.2.id ∈ m.listingUsed
  bused : ∀ p ∈ m.buckets, p.1.2 ∈ m.bucketUsed
  zeroL : 0 ∈ m.listingUsed
  zeroB : 0 ∈ m.bucketUsed

/-- every record is well-formed (C12); `j`, `u` are the two fee denominations -/
structure WFInv (j u : Nat) (m : Market) : Prop where
  lwf : ∀ p ∈ m.listings, wfListing j u p.1 p.2 = true
  bwf : ∀ p ∈ m.buckets, wfBucket j u p.1 p.2 = true

/-- the state right after instantiation -/
theorem IdsInv.init (nowNs : Nat) (r : Option Nat) : IdsInv (instantiate nowNs r) := by
  constructor <;> simp [instantiate, akeys]

theorem WFInv.init (j u nowNs : Nat) (r : Option Nat) : WFInv j u (instantiate nowNs r) := by
  constructor <;> simp [instantiate]

end Fuzion
