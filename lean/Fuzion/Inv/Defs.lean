/-
  Fuzion.Inv.Defs — the decidable predicates the property theorems are about.  The SAME
  definitions are evaluated by the driver on every implementation state (the oracle is the
  theorem's own predicate).  Import-free (linked into `fzmodel`).
-/
import Fuzion.Model.Chain
namespace Fuzion

/-! ### C12: well-formed records -/

/-- a stored balance: at least one asset, no zero amount, no duplicate denom / token / NFT -/
def wfBal (g : GBal) : Bool :=
  allNonzero g.native && allNonzero g.cw20 && decide (1 ≤ g.count) &&
  decide (keys g.native).Nodup && decide (keys g.cw20).Nodup && decide g.nfts.Nodup

/-- an ask: `wfBal` and at most 25 items (= `check_valid`) -/
def wfAsk (g : GBal) : Bool := checkValid g

def wfFee (junoD usdcD : Nat) : Option Coin → Bool
  | none => true
  | some c => decide (c.amount ≠ 0) && (decide (c.key = junoD) || decide (c.key = usdcD))

/-- finalized / expiration times are consistent: `exp = fin + s·10⁹` with `600 ≤ s ≤ 1209600` -/
def wfTimes (fin exp : Option Nat) : Bool :=
  match fin, exp with
  | some f, some e =>
    decide (f ≤ e) && decide ((e - f) % NS = 0) && decide (MIN_LIFE ≤ (e - f) / NS) &&
      decide ((e - f) / NS ≤ TWO_WEEKS)
  | _, _ => false

def wfListing (junoD usdcD : Nat) (k : Nat × Nat) (l : Listing) : Bool :=
  decide (k = (l.creator, l.id)) && wfBal l.forSale && wfAsk l.ask &&
  (match l.status with
   | .preparing => l.finalizedAt.isNone && l.expiresAt.isNone && l.claimant.isNone && l.fee.isNone
   | .finalized => wfTimes l.finalizedAt l.expiresAt && l.claimant.isNone && l.fee.isNone
   | .closed => wfTimes l.finalizedAt l.expiresAt && decide (l.claimant = some l.creator) &&
                wfFee junoD usdcD l.fee)

def wfBucket (junoD usdcD : Nat) (k : Nat × Nat) (b : Bucket) : Bool :=
  decide (k.1 = b.owner) && wfBal b.funds && wfFee junoD usdcD b.fee

def checkWF (w : World) : Bool :=
  w.mkt.listings.all (fun p => wfListing w.junoD w.usdcD p.1 p.2) &&
  w.mkt.buckets.all (fun p => wfBucket w.junoD w.usdcD p.1 p.2)

/-! ### C09: ids -/

def listingIds (m : Market) : List Nat := m.listings.map (·.2.id)
def bucketIds (m : Market) : List Nat := m.buckets.map (·.1.2)

def checkIds (m : Market) : Bool :=
  decide (akeys m.listings).Nodup && decide (akeys m.buckets).Nodup &&
  decide (listingIds m).Nodup && decide (bucketIds m).Nodup &&
  (listingIds m).all (fun i => decide (i ∈ m.listingUsed)) &&
  (bucketIds m).all (fun i => decide (i ∈ m.bucketUsed)) &&
  decide (0 ∈ m.listingUsed) && decide (0 ∈ m.bucketUsed)

/-! ### C01: accounting -/

def coinAmt (l : List Coin) (k : Nat) : Nat :=
  ((l.filter (fun c => decide (c.key = k))).map (·.amount)).sum

def feeAmt (f : Option Coin) (k : Nat) : Nat :=
  match f with
  | some c => if c.key = k then c.amount else 0
  | none => 0

def listingsSum (f : Listing → Nat) (m : Market) : Nat := (m.listings.map (fun p => f p.2)).sum
def bucketsSum (f : Bucket → Nat) (m : Market) : Nat := (m.buckets.map (fun p => f p.2)).sum

/-- pending community-pool fees in denomination `d` -/
def pendingFee (m : Market) (d : Nat) : Nat :=
  listingsSum (fun l => feeAmt l.fee d) m + bucketsSum (fun b => feeAmt b.fee d) m

/-- everything the records promise in native denomination `d` (goods + pending fees) -/
def owedNative (m : Market) (d : Nat) : Nat :=
  listingsSum (fun l => coinAmt l.forSale.native d) m + bucketsSum (fun b => coinAmt b.funds.native d) m +
  pendingFee m d

def owedCw20 (m : Market) (t : Nat) : Nat :=
  listingsSum (fun l => coinAmt l.forSale.cw20 t) m + bucketsSum (fun b => coinAmt b.funds.cw20 t) m

def recordedNfts (m : Market) : List Nft :=
  m.listings.flatMap (·.2.forSale.nfts) ++ m.buckets.flatMap (·.2.funds.nfts)

def heldNfts (w : World) : List Nft :=
  (w.nft.filter (fun p => decide (p.2 = w.self))).map (fun p => ⟨p.1.1, p.1.2⟩)

/-- native denominations that occur in the marketplace's wallet or in any record -/
def nativeUniverse (w : World) : List Nat :=
  ((w.bank.filter (fun p => decide (p.1.1 = w.self))).map (·.1.2)) ++
  w.mkt.listings.flatMap (fun p => keys p.2.forSale.native ++ (match p.2.fee with | some c => [c.key] | none => [])) ++
  w.mkt.buckets.flatMap (fun p => keys p.2.funds.native ++ (match p.2.fee with | some c => [c.key] | none => []))

/-- honest CW20 tokens that occur in the marketplace's holdings or in any record -/
def cw20Universe (w : World) : List Nat :=
  (((w.cw20.filter (fun p => decide (p.1.2 = w.self))).map (·.1.1)) ++
   w.mkt.listings.flatMap (fun p => keys p.2.forSale.cw20) ++
   w.mkt.buckets.flatMap (fun p => keys p.2.funds.cw20)).filter w.isHonest20

/-- C01 on honest assets: per native denom and per honest CW20 token `held = owed`; the NFTs of
    honest collections the marketplace owns are exactly the recorded ones, each recorded once. -/
def checkC01 (w : World) : Bool :=
  (nativeUniverse w).all (fun d => decide (lget w.bank (w.self, d) = owedNative w.mkt d)) &&
  (cw20Universe w).all (fun t => decide (lget w.cw20 (t, w.self) = owedCw20 w.mkt t)) &&
  (let rec_ := (recordedNfts w.mkt).filter (fun n => w.isHonest721 n.coll)
   decide rec_.Nodup && rec_.all (fun n => decide (n ∈ heldNfts w)) &&
   (heldNfts w).all (fun n => decide (n ∈ rec_)))

/-- `true` iff some record holds an asset of a contract that is not an honest token (only
    possible through a forged receive call, C18) -/
def hasForeignAsset (w : World) : Bool :=
  w.mkt.listings.any (fun p => p.2.forSale.cw20.any (fun c => !w.isHonest20 c.key) ||
                               p.2.forSale.nfts.any (fun n => !w.isHonest721 n.coll)) ||
  w.mkt.buckets.any (fun p => p.2.funds.cw20.any (fun c => !w.isHonest20 c.key) ||
                              p.2.funds.nfts.any (fun n => !w.isHonest721 n.coll))

/-! ### C02: the published terms -/

def sideBps (w : World) (g : GBal) : Nat :=
  (((collections g).map (regSingle w.reg)).filterMap id |>.map (·.bps)).sum

/-- `BuyTerms` (decidable form). `strict = true` uses `now < exp` (the property leaves `now = exp`
    free; the code accepts it). -/
def buyTerms (w : World) (buyer lid bid : Nat) : Bool :=
  match findById lid w.mkt.listings, alookup (buyer, bid) w.mkt.buckets with
  | some (_, l), some b =>
    decide (l.status = .finalized) && l.claimant.isNone &&
    (match l.expiresAt with | some e => decide (w.nowNs ≤ e) | none => true) &&
    (match l.whitelist with | none => true | some x => decide (x = buyer)) &&
    decide (b.owner = buyer) && genbalCmp b.funds l.ask &&
    decide (sideBps w l.forSale ≤ 5000) && decide (sideBps w b.funds ≤ 5000)
  | _, _ => false

/-! ### C16: purchasable listing (listing-side half of the terms) -/
def purchasable (nowNs : Nat) (l : Listing) : Bool :=
  decide (l.status = .finalized) && l.claimant.isNone &&
  (match l.expiresAt with | some e => decide (nowNs ≤ e) | none => false)

/-! ### C08: rank of a listing id -/
def rankOf (m : Market) (id : Nat) : Nat :=
  match findById id m.listings with
  | none => if id ∈ m.listingUsed then 3 else 0
  | some (_, l) => match l.status with | .preparing => 0 | .finalized => 1 | .closed => 2

end Fuzion
