/-
  Fuzion.Lemmas.ForgeReachLemmas — helper lemmas for Props/C18Reach.lean: forged hook calls along
  histories.

  * `Op.forgedBy P20 P721 op`: `op` is a direct call of the CW20 hook by a caller satisfying `P20`,
    or of the CW721 hook by a caller satisfying `P721` (coins attached or not).
  * `forged_step_cases` / `forged_step_cases_nft`: such a call is a no-op, or carries no coins and
    replaces the marketplace record by the handler's result.
  * `ForgeRel P20 P721 m m'`: every record of `m` is still in `m'` under the same key, with the same
    fields, the same native coins, the same amount of every CW20 token not in `P20`, no smaller
    amount of any token, and its NFT list extended by NFTs of collections in `P721` only; a listing
    not in preparation is equal.  Reflexive, transitive, established by one forged step
    (`forged_step_rel`) and hence by every list of them (`forged_run_rel`).
  * the set of contract addresses never changes (`run_kindOf_isSome`).
-/
import Fuzion.Props.C18Partial
import Fuzion.Props.C19
import Fuzion.Props.C09
namespace Fuzion

/-! ### which addresses are contracts never changes -/

theorem stepF_kindOf_isSome (fail : Nat → Bool) (w : World) (op : Op) (a : Nat) :
    ((stepF fail w op).1.kindOf a).isSome = (w.kindOf a).isSome := by
  cases ho : op.asExec with
  | some tr =>
    obtain ⟨c, f, msg⟩ := tr
    rcases stepF_market (fail := fail) (w := w) ho with ⟨e, h⟩ | ⟨m', msgs, w2, _, _, hc, h⟩
    · rw [h]
    · rw [h, hc.kindOf]
  | none =>
    cases op with
    | exec s fu m => simp [Op.asExec] at ho
    | send20 t s a i => simp [Op.asExec] at ho
    | send721 co s t i => simp [Op.asExec] at ho
    | royalty s m =>
      rcases stepF_royalty fail w s m with ⟨e, _, h⟩ | ⟨r, _, h⟩ <;> rw [h] <;> rfl
    | setAdmin s c n =>
      simp only [stepF]
      split
      · rfl
      · rename_i ci hci
        split
        · rfl
        · simp only [World.kindOf] at hci ⊢
          rw [alookup_ainsert]
          by_cases h : a = c
          · subst h; simp [hci]
          · simp [h]
    | advance x y => rfl

theorem run_kindOf_isSome (w : World) (ops : List Op) (a : Nat) :
    ((run w ops).kindOf a).isSome = (w.kindOf a).isSome := by
  induction ops generalizing w with
  | nil => rfl
  | cons op ops ih =>
    simp only [run]
    rw [ih]
    exact stepF_kindOf_isSome noFault w op a

/-! ### one forged call -/

/-- a direct CW20 hook call, coins attached or not: no-op, or no coins and the handler's result -/
theorem forged_step_cases (w : World) (c : Nat) (f : List Coin) (s : RawAddr) (x : Nat)
    (i : Option Inner) :
    ((step w (.exec c f (.receive s x i))).2.ok = false ∧
      (step w (.exec c f (.receive s x i))).1 = w) ∨
    (f = [] ∧ ∃ m', receive w.mkt w.env c [] s x i = .ok (m', []) ∧
      step w (.exec c f (.receive s x i)) = ({ w with mkt := m' }, ⟨true, none, []⟩)) := by
  cases hok : (step w (.exec c f (.receive s x i))).2.ok with
  | false => exact .inl ⟨rfl, C19_failed_noop noFault w _ hok⟩
  | true =>
    obtain ⟨hf, _⟩ := (C18_partial_gate_world w c f s x i).1 hok
    subst hf
    rcases C18_partial_step w c s x i with ⟨h1, _⟩ | h
    · rw [h1] at hok; cases hok
    · exact .inr ⟨rfl, h⟩

theorem forged_step_cases_nft (w : World) (c : Nat) (f : List Coin) (s : RawAddr) (x : Nat)
    (i : Option Inner) :
    ((step w (.exec c f (.receiveNft s x i))).2.ok = false ∧
      (step w (.exec c f (.receiveNft s x i))).1 = w) ∨
    (f = [] ∧ ∃ m', receiveNft w.mkt w.env c [] s x i = .ok (m', []) ∧
      step w (.exec c f (.receiveNft s x i)) = ({ w with mkt := m' }, ⟨true, none, []⟩)) := by
  cases hok : (step w (.exec c f (.receiveNft s x i))).2.ok with
  | false => exact .inl ⟨rfl, C19_failed_noop noFault w _ hok⟩
  | true =>
    obtain ⟨hf, _⟩ := (C18_partial_gate_world w c f s x i).2 hok
    subst hf
    rcases C18_partial_step_nft w c s x i with ⟨h1, _⟩ | h
    · rw [h1] at hok; cases hok
    · exact .inr ⟨rfl, h⟩

/-! ### the relation "same records, plus junk of the forgers" -/

/-- `op` is a direct call of the CW20 hook by a caller in `P20` or of the CW721 hook by a caller in
    `P721` -/
def Op.forgedBy (P20 P721 : Nat → Prop) : Op → Prop
  | .exec c _ (.receive _ _ _) => P20 c
  | .exec c _ (.receiveNft _ _ _) => P721 c
  | _ => False

/-- `g'` is `g` plus, possibly, CW20 amounts of tokens in `P20` and NFTs of collections in `P721` -/
structure GBalExt (P20 P721 : Nat → Prop) (g g' : GBal) : Prop where
  native : g'.native = g.native
  cw20_same : ∀ t, ¬ P20 t → coinAmt g'.cw20 t = coinAmt g.cw20 t
  cw20_le : ∀ t, coinAmt g.cw20 t ≤ coinAmt g'.cw20 t
  nfts : ∃ extra, g'.nfts = g.nfts ++ extra ∧ ∀ n ∈ extra, P721 n.coll

theorem GBalExt.refl (P20 P721 : Nat → Prop) (g : GBal) : GBalExt P20 P721 g g :=
  ⟨rfl, fun _ _ => rfl, fun _ => Nat.le_refl _, [], by simp, by simp⟩

theorem GBalExt.trans {P20 P721 : Nat → Prop} {a b c : GBal} (h1 : GBalExt P20 P721 a b)
    (h2 : GBalExt P20 P721 b c) : GBalExt P20 P721 a c := by
  obtain ⟨e1, he1, hp1⟩ := h1.nfts
  obtain ⟨e2, he2, hp2⟩ := h2.nfts
  refine ⟨h2.native.trans h1.native, fun t ht => (h2.cw20_same t ht).trans (h1.cw20_same t ht),
    fun t => Nat.le_trans (h1.cw20_le t) (h2.cw20_le t), e1 ++ e2, ?_, ?_⟩
  · rw [he2, he1, List.append_assoc]
  · intro n hn
    rcases List.mem_append.1 hn with h | h
    · exact hp1 n h
    · exact hp2 n h

structure ListingExt (P20 P721 : Nat → Prop) (l l' : Listing) : Prop where
  frozen : l.status ≠ .preparing → l' = l
  creator : l'.creator = l.creator
  id : l'.id = l.id
  status : l'.status = l.status
  ask : l'.ask = l.ask
  whitelist : l'.whitelist = l.whitelist
  claimant : l'.claimant = l.claimant
  finalizedAt : l'.finalizedAt = l.finalizedAt
  expiresAt : l'.expiresAt = l.expiresAt
  fee : l'.fee = l.fee
  goods : GBalExt P20 P721 l.forSale l'.forSale

theorem ListingExt.refl (P20 P721 : Nat → Prop) (l : Listing) : ListingExt P20 P721 l l :=
  ⟨fun _ => rfl, rfl, rfl, rfl, rfl, rfl, rfl, rfl, rfl, rfl, GBalExt.refl _ _ _⟩

theorem ListingExt.trans {P20 P721 : Nat → Prop} {a b c : Listing} (h1 : ListingExt P20 P721 a b)
    (h2 : ListingExt P20 P721 b c) : ListingExt P20 P721 a c := by
  refine ⟨?_, h2.creator.trans h1.creator, h2.id.trans h1.id, h2.status.trans h1.status,
    h2.ask.trans h1.ask, h2.whitelist.trans h1.whitelist, h2.claimant.trans h1.claimant,
    h2.finalizedAt.trans h1.finalizedAt, h2.expiresAt.trans h1.expiresAt, h2.fee.trans h1.fee,
    h1.goods.trans h2.goods⟩
  intro hs
  have e1 := h1.frozen hs
  subst e1
  exact h2.frozen hs

structure BucketExt (P20 P721 : Nat → Prop) (b b' : Bucket) : Prop where
  owner : b'.owner = b.owner
  fee : b'.fee = b.fee
  funds : GBalExt P20 P721 b.funds b'.funds

theorem BucketExt.refl (P20 P721 : Nat → Prop) (b : Bucket) : BucketExt P20 P721 b b :=
  ⟨rfl, rfl, GBalExt.refl _ _ _⟩

theorem BucketExt.trans {P20 P721 : Nat → Prop} {a b c : Bucket} (h1 : BucketExt P20 P721 a b)
    (h2 : BucketExt P20 P721 b c) : BucketExt P20 P721 a c :=
  ⟨h2.owner.trans h1.owner, h2.fee.trans h1.fee, h1.funds.trans h2.funds⟩

structure ForgeRel (P20 P721 : Nat → Prop) (m m' : Market) : Prop where
  feeKind : m'.feeKind = m.feeKind
  feeSince : m'.feeSince = m.feeSince
  registry : m'.registry = m.registry
  listing : ∀ k l, alookup k m.listings = some l →
    ∃ l', alookup k m'.listings = some l' ∧ ListingExt P20 P721 l l'
  bucket : ∀ k b, alookup k m.buckets = some b →
    ∃ b', alookup k m'.buckets = some b' ∧ BucketExt P20 P721 b b'

theorem ForgeRel.refl (P20 P721 : Nat → Prop) (m : Market) : ForgeRel P20 P721 m m :=
  ⟨rfl, rfl, rfl, fun _ l h => ⟨l, h, ListingExt.refl _ _ _⟩,
    fun _ b h => ⟨b, h, BucketExt.refl _ _ _⟩⟩

theorem ForgeRel.trans {P20 P721 : Nat → Prop} {a b c : Market} (h1 : ForgeRel P20 P721 a b)
    (h2 : ForgeRel P20 P721 b c) : ForgeRel P20 P721 a c := by
  refine ⟨h2.feeKind.trans h1.feeKind, h2.feeSince.trans h1.feeSince,
    h2.registry.trans h1.registry, ?_, ?_⟩
  · intro k l hl
    obtain ⟨l1, hl1, r1⟩ := h1.listing k l hl
    obtain ⟨l2, hl2, r2⟩ := h2.listing k l1 hl1
    exact ⟨l2, hl2, r1.trans r2⟩
  · intro k x hx
    obtain ⟨b1, hb1, r1⟩ := h1.bucket k x hx
    obtain ⟨b2, hb2, r2⟩ := h2.bucket k b1 hb1
    exact ⟨b2, hb2, r1.trans r2⟩

/-- an accepted CW20 hook call by a caller in `P20` -/
theorem receive_rel {P20 P721 : Nat → Prop} {m m' : Market} {env : Env} {caller : Nat}
    {sender : RawAddr} {amount : Nat} {inner : Option Inner} {out : List OutMsg} (hI : IdsInv m)
    (hP : P20 caller) (h : receive m env caller [] sender amount inner = .ok (m', out)) :
    ForgeRel P20 P721 m m' := by
  obtain ⟨_, user, _, c1, c2, c3, _, _, _, _, hl, hb⟩ := C18_partial_receive hI h
  refine ⟨c1, c2, c3, ?_, ?_⟩
  · intro k l hk
    obtain ⟨l', e, f0, f1, f2, f3, f4, f5, f6, f7, f8, f9, g1, g2, g3, g4, _⟩ := hl k l hk
    refine ⟨l', e, f0, f1, f2, f3, f4, f5, f6, f7, f8, f9, g1, ?_, ?_, [], by simp [g2], by simp⟩
    · intro t ht
      exact g3 t (fun e => ht (e ▸ hP))
    · intro t
      by_cases ht : t = caller
      · subst ht; exact g4
      · exact Nat.le_of_eq (g3 t ht).symm
  · intro k b hk
    obtain ⟨b', e, f1, f2, g1, g2, g3, g4, _⟩ := hb k b hk
    refine ⟨b', e, f1, f2, g1, ?_, ?_, [], by simp [g2], by simp⟩
    · intro t ht
      exact g3 t (fun e => ht (e ▸ hP))
    · intro t
      by_cases ht : t = caller
      · subst ht; exact g4
      · exact Nat.le_of_eq (g3 t ht).symm

/-- an accepted CW721 hook call by a caller in `P721` -/
theorem receiveNft_rel {P20 P721 : Nat → Prop} {m m' : Market} {env : Env} {caller : Nat}
    {sender : RawAddr} {tid : Nat} {inner : Option Inner} {out : List OutMsg} (hI : IdsInv m)
    (hP : P721 caller) (h : receiveNft m env caller [] sender tid inner = .ok (m', out)) :
    ForgeRel P20 P721 m m' := by
  obtain ⟨_, user, _, c1, c2, c3, _, _, _, _, hl, hb⟩ := C18_partial_receiveNft hI h
  refine ⟨c1, c2, c3, ?_, ?_⟩
  · intro k l hk
    obtain ⟨l', e, f0, f1, f2, f3, f4, f5, f6, f7, f8, f9, g1, g2, g3⟩ := hl k l hk
    refine ⟨l', e, f0, f1, f2, f3, f4, f5, f6, f7, f8, f9, g1, fun t _ => by rw [g2],
      fun t => by rw [g2]; exact Nat.le_refl _, ?_⟩
    rcases g3 with rfl | g3
    · exact ⟨[], by simp, by simp⟩
    · refine ⟨[⟨caller, tid⟩], g3, ?_⟩
      intro n hn
      simp only [List.mem_singleton] at hn
      subst hn
      exact hP
  · intro k b hk
    obtain ⟨b', e, f1, f2, g1, g2, g3⟩ := hb k b hk
    refine ⟨b', e, f1, f2, g1, fun t _ => by rw [g2], fun t => by rw [g2]; exact Nat.le_refl _, ?_⟩
    rcases g3 with rfl | g3
    · exact ⟨[], by simp, by simp⟩
    · refine ⟨[⟨caller, tid⟩], g3, ?_⟩
      intro n hn
      simp only [List.mem_singleton] at hn
      subst hn
      exact hP

/-- one forged step: only the marketplace record changes, and it changes within `ForgeRel` -/
theorem forged_step_rel {P20 P721 : Nat → Prop} (w : World) (hI : IdsInv w.mkt) (op : Op)
    (h : op.forgedBy P20 P721) :
    (step w op).1 = { w with mkt := (step w op).1.mkt } ∧
    ForgeRel P20 P721 w.mkt (step w op).1.mkt := by
  cases op with
  | exec c f msg =>
    cases msg with
    | receive s x i =>
      rcases forged_step_cases w c f s x i with ⟨_, hs⟩ | ⟨_, m', hx, hs⟩
      · rw [hs]; exact ⟨rfl, ForgeRel.refl _ _ _⟩
      · rw [hs]; exact ⟨rfl, receive_rel hI h hx⟩
    | receiveNft s x i =>
      rcases forged_step_cases_nft w c f s x i with ⟨_, hs⟩ | ⟨_, m', hx, hs⟩
      · rw [hs]; exact ⟨rfl, ForgeRel.refl _ _ _⟩
      · rw [hs]; exact ⟨rfl, receiveNft_rel hI h hx⟩
    | _ => exact h.elim
  | _ => exact h.elim

theorem mktOnly_trans {w w1 w2 : World} (e1 : w1 = { w with mkt := w1.mkt })
    (e2 : w2 = { w1 with mkt := w2.mkt }) : w2 = { w with mkt := w2.mkt } := by
  cases w; cases w1; cases w2
  simp only [World.mk.injEq] at e1 e2 ⊢
  simp_all

/-- any list of forged steps -/
theorem forged_run_rel {P20 P721 : Nat → Prop} (w : World) (hI : IdsInv w.mkt) (ops : List Op)
    (h : ∀ op ∈ ops, op.forgedBy P20 P721) :
    run w ops = { w with mkt := (run w ops).mkt } ∧ ForgeRel P20 P721 w.mkt (run w ops).mkt := by
  induction ops generalizing w with
  | nil => exact ⟨rfl, ForgeRel.refl _ _ _⟩
  | cons op ops ih =>
    obtain ⟨e1, r1⟩ := forged_step_rel w hI op (h op (List.mem_cons_self ..))
    obtain ⟨e2, r2⟩ := ih (step w op).1 (C09_inv_step op hI)
      (fun o ho => h o (List.mem_cons_of_mem _ ho))
    simp only [run]
    refine ⟨?_, r1.trans r2⟩
    exact mktOnly_trans e1 e2

end Fuzion
