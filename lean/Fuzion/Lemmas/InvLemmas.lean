/-
  Fuzion.Lemmas.InvLemmas — helper lemmas for the two storage invariants `IdsInv` (C09) and
  `WFInv` (C12): the four ways a record table changes, the well-formedness facts about the
  balance helpers, one "shape" lemma per marketplace handler, and the lift to `step` / `run`.
  Core library only.
-/
import Fuzion.Inv.MInv
import Fuzion.Lemmas.RegistryLemmas
import Fuzion.Lemmas.AList
import Fuzion.Props.C11
namespace Fuzion

/-! ## 1. the listing half and the bucket half of `IdsInv` -/

/-- the listing half of `IdsInv` -/
structure LIds (ls : List ((Nat × Nat) × Listing)) (us : List Nat) : Prop where
  keys : (akeys ls).Nodup
  filed : ∀ p ∈ ls, p.1 = (p.2.creator, p.2.id)
  inj : ∀ p ∈ ls, ∀ q ∈ ls, p.2.id = q.2.id → p.1 = q.1
  used : ∀ p ∈ ls, p.2.id ∈ us
  zero : 0 ∈ us

/-- the bucket half of `IdsInv` -/
structure BIds (bs : List ((Nat × Nat) × Bucket)) (us : List Nat) : Prop where
  keys : (akeys bs).Nodup
  filed : ∀ p ∈ bs, p.1.1 = p.2.owner
  inj : ∀ p ∈ bs, ∀ q ∈ bs, p.1.2 = q.1.2 → p.1 = q.1
  used : ∀ p ∈ bs, p.1.2 ∈ us
  zero : 0 ∈ us

theorem IdsInv_iff (m : Market) :
    IdsInv m ↔ LIds m.listings m.listingUsed ∧ BIds m.buckets m.bucketUsed := by
  constructor
  · intro h
    exact ⟨⟨h.lkeys, h.lfiled, h.lidInj, h.lused, h.zeroL⟩, ⟨h.bkeys, h.bfiled, h.bidInj, h.bused, h.zeroB⟩⟩
  · rintro ⟨hl, hb⟩
    exact ⟨hl.keys, hb.keys, hl.filed, hb.filed, hl.inj, hb.inj, hl.used, hb.used, hl.zero, hb.zero⟩

/-! ### (a) insert at a fresh id -/

theorem LIds.insert {ls : List ((Nat × Nat) × Listing)} {us : List Nat} (h : LIds ls us)
    {c id : Nat} {l : Listing} (hf : id ∉ us) (hc : l.creator = c) (hid : l.id = id) :
    LIds (ainsert (c, id) l ls) (id :: us) := by
  refine ⟨nodup_akeys_ainsert _ _ h.keys, ?_, ?_, ?_, List.mem_cons_of_mem _ h.zero⟩
  · intro p hp
    rcases mem_ainsert.1 hp with rfl | ⟨hp, _⟩
    · simp [hc, hid]
    · exact h.filed p hp
  · intro p hp q hq e
    rcases mem_ainsert.1 hp with rfl | ⟨hp, _⟩ <;> rcases mem_ainsert.1 hq with rfl | ⟨hq, _⟩
    · rfl
    · exfalso; apply hf
      have := h.used q hq
      rw [← e] at this
      simpa [hid] using this
    · exfalso; apply hf
      have := h.used p hp
      rw [e] at this
      simpa [hid] using this
    · exact h.inj p hp q hq e
  · intro p hp
    rcases mem_ainsert.1 hp with rfl | ⟨hp, _⟩
    · simp [hid]
    · exact List.mem_cons_of_mem _ (h.used p hp)

theorem BIds.insert {bs : List ((Nat × Nat) × Bucket)} {us : List Nat} (h : BIds bs us)
    {c id : Nat} {b : Bucket} (hf : id ∉ us) (hc : b.owner = c) :
    BIds (ainsert (c, id) b bs) (id :: us) := by
  refine ⟨nodup_akeys_ainsert _ _ h.keys, ?_, ?_, ?_, List.mem_cons_of_mem _ h.zero⟩
  · intro p hp
    rcases mem_ainsert.1 hp with rfl | ⟨hp, _⟩
    · simp [hc]
    · exact h.filed p hp
  · intro p hp q hq e
    rcases mem_ainsert.1 hp with rfl | ⟨hp, _⟩ <;> rcases mem_ainsert.1 hq with rfl | ⟨hq, _⟩
    · rfl
    · exfalso; apply hf
      have := h.used q hq
      rw [← e] at this
      exact this
    · exfalso; apply hf
      have := h.used p hp
      rw [e] at this
      exact this
    · exact h.inj p hp q hq e
  · intro p hp
    rcases mem_ainsert.1 hp with rfl | ⟨hp, _⟩
    · simp
    · exact List.mem_cons_of_mem _ (h.used p hp)

/-! ### (c) erase a key -/

theorem LIds.erase {ls : List ((Nat × Nat) × Listing)} {us : List Nat} (h : LIds ls us)
    (k : Nat × Nat) : LIds (aerase k ls) us :=
  ⟨nodup_akeys_aerase _ h.keys,
   fun p hp => h.filed p (mem_aerase.1 hp).1,
   fun p hp q hq e => h.inj p (mem_aerase.1 hp).1 q (mem_aerase.1 hq).1 e,
   fun p hp => h.used p (mem_aerase.1 hp).1, h.zero⟩

theorem BIds.erase {bs : List ((Nat × Nat) × Bucket)} {us : List Nat} (h : BIds bs us)
    (k : Nat × Nat) : BIds (aerase k bs) us :=
  ⟨nodup_akeys_aerase _ h.keys,
   fun p hp => h.filed p (mem_aerase.1 hp).1,
   fun p hp q hq e => h.inj p (mem_aerase.1 hp).1 q (mem_aerase.1 hq).1 e,
   fun p hp => h.used p (mem_aerase.1 hp).1, h.zero⟩

/-! ### (d) the purchase: erase the record's key, re-file it (same id) under a new owner -/

theorem LIds.move {ls : List ((Nat × Nat) × Listing)} {us : List Nat} (h : LIds ls us)
    {k : Nat × Nat} {l l' : Listing} {c : Nat} (hm : (k, l) ∈ ls) (hc : l'.creator = c)
    (hid : l'.id = l.id) : LIds (ainsert (c, l.id) l' (aerase k ls)) us := by
  have he := h.erase k
  refine ⟨nodup_akeys_ainsert _ _ he.keys, ?_, ?_, ?_, h.zero⟩
  · intro p hp
    rcases mem_ainsert.1 hp with rfl | ⟨hp, _⟩
    · simp [hc, hid]
    · exact he.filed p hp
  · intro p hp q hq e
    rcases mem_ainsert.1 hp with rfl | ⟨hp, _⟩ <;> rcases mem_ainsert.1 hq with rfl | ⟨hq, _⟩
    · rfl
    · exfalso
      obtain ⟨hq1, hq2⟩ := mem_aerase.1 hq
      exact hq2 (h.inj (k, l) hm q hq1 (by rw [← e]; exact hid.symm)).symm
    · exfalso
      obtain ⟨hp1, hp2⟩ := mem_aerase.1 hp
      exact hp2 (h.inj (k, l) hm p hp1 (by rw [e]; exact hid.symm)).symm
    · exact he.inj p hp q hq e
  · intro p hp
    rcases mem_ainsert.1 hp with rfl | ⟨hp, _⟩
    · simpa [hid] using h.used (k, l) hm
    · exact he.used p hp

theorem BIds.move {bs : List ((Nat × Nat) × Bucket)} {us : List Nat} (h : BIds bs us)
    {k : Nat × Nat} {b b' : Bucket} {c : Nat} (hm : (k, b) ∈ bs) (hc : b'.owner = c) :
    BIds (ainsert (c, k.2) b' (aerase k bs)) us := by
  have he := h.erase k
  refine ⟨nodup_akeys_ainsert _ _ he.keys, ?_, ?_, ?_, h.zero⟩
  · intro p hp
    rcases mem_ainsert.1 hp with rfl | ⟨hp, _⟩
    · simp [hc]
    · exact he.filed p hp
  · intro p hp q hq e
    rcases mem_ainsert.1 hp with rfl | ⟨hp, _⟩ <;> rcases mem_ainsert.1 hq with rfl | ⟨hq, _⟩
    · rfl
    · exfalso
      obtain ⟨hq1, hq2⟩ := mem_aerase.1 hq
      exact hq2 (h.inj (k, b) hm q hq1 e).symm
    · exfalso
      obtain ⟨hp1, hp2⟩ := mem_aerase.1 hp
      exact hp2 (h.inj (k, b) hm p hp1 e.symm).symm
    · exact he.inj p hp q hq e
  · intro p hp
    rcases mem_ainsert.1 hp with rfl | ⟨hp, _⟩
    · exact h.used (k, b) hm
    · exact he.used p hp

/-! ### (b) replace the record at an existing key (same creator / id resp. owner) -/

theorem aerase_aerase {κ ν : Type} [DecidableEq κ] (k : κ) (l : List (κ × ν)) :
    aerase k (aerase k l) = aerase k l := by
  simp [aerase, List.filter_filter]

theorem ainsert_aerase {κ ν : Type} [DecidableEq κ] (k : κ) (v : ν) (l : List (κ × ν)) :
    ainsert k v (aerase k l) = ainsert k v l := by
  simp [ainsert, aerase_aerase]

theorem LIds.replace {ls : List ((Nat × Nat) × Listing)} {us : List Nat} (h : LIds ls us)
    {k : Nat × Nat} {l l' : Listing} (hl : alookup k ls = some l) (hc : l'.creator = l.creator)
    (hid : l'.id = l.id) : LIds (ainsert k l' ls) us := by
  have hm := alookup_some_mem hl
  have hk : k = (l.creator, l.id) := h.filed _ hm
  have := h.move hm hc hid
  rw [← hk, ainsert_aerase] at this
  exact this

theorem BIds.replace {bs : List ((Nat × Nat) × Bucket)} {us : List Nat} (h : BIds bs us)
    {k : Nat × Nat} {b b' : Bucket} (hl : alookup k bs = some b) (hc : b'.owner = b.owner) :
    BIds (ainsert k b' bs) us := by
  have hm := alookup_some_mem hl
  have hk : k.1 = b.owner := h.filed _ hm
  have := h.move hm (hc.trans hk.symm)
  rw [ainsert_aerase] at this
  exact this

/-! ## 2. `∀ p ∈ table, P p` under insert / erase -/

theorem forall_mem_ainsert {κ ν : Type} [DecidableEq κ] {P : κ × ν → Prop} {l : List (κ × ν)}
    (h : ∀ p ∈ l, P p) {k : κ} {v : ν} (hv : P (k, v)) : ∀ p ∈ ainsert k v l, P p := by
  intro p hp
  rcases mem_ainsert.1 hp with rfl | ⟨hp, _⟩
  · exact hv
  · exact h p hp

theorem forall_mem_aerase {κ ν : Type} [DecidableEq κ] {P : κ × ν → Prop} {l : List (κ × ν)}
    (h : ∀ p ∈ l, P p) (k : κ) : ∀ p ∈ aerase k l, P p :=
  fun p hp => h p (mem_aerase.1 hp).1

end Fuzion
