/-
  Fuzion.Lemmas.InvLemmas — helper lemmas for the two storage invariants `IdsInv` (C09) and
  `WFInv` (C12): the four ways a record table changes, the well-formedness facts about the
  balance helpers, one "shape" lemma per marketplace handler, and the lift to `step` / `run`.
  Core library only.
-/
import Fuzion.Inv.MInv
import Fuzion.Lemmas.RegistryLemmas
import Fuzion.Lemmas.AList
import Fuzion.Props.C11
namespace Fuzion

/-! ## 1. the listing half and the bucket half of `IdsInv` -/

/-- the listing half of `IdsInv` -/
structure LIds (ls : List ((Nat × Nat) × Listing)) (us : List Nat) : Prop where
  keys : (akeys ls).Nodup
  filed : ∀ p ∈ ls, p.1 = (p.2.creator, p.2.id)
  inj : ∀ p ∈ ls, ∀ q ∈ ls, p.2.id = q.2.id → p.1 = q.1
  used : ∀ p ∈ ls, p.2.id ∈ us
  zero : 0 ∈ us

/-- the bucket half of `IdsInv` -/
structure BIds (bs : List ((Nat × Nat) × Bucket)) (us : List Nat) : Prop where
  keys : (akeys bs).Nodup
  filed : ∀ p ∈ bs, p.1.1 = p.2.owner
  inj : ∀ p ∈ bs, ∀ q ∈ bs, p.1.2 = q.1.2 → p.1 = q.1
  used : ∀ p ∈ bs, p.1.2 ∈ us
  zero : 0 ∈ us

theorem IdsInv_iff (m : Market) :
    IdsInv m ↔ LIds m.listings m.listingUsed ∧ BIds m.buckets m.bucketUsed := by
  constructor
  · intro h
    exact ⟨⟨h.lkeys, h.lfiled, h.lidInj, h.lused, h.zeroL⟩, ⟨h.bkeys, h.bfiled, h.bidInj, h.bused, h.zeroB⟩⟩
  · rintro ⟨hl, hb⟩
    exact ⟨hl.keys, hb.keys, hl.filed, hb.filed, hl.inj, hb.inj, hl.used, hb.used, hl.zero, hb.zero⟩

/-! ### (a) insert at a fresh id -/

theorem LIds.insert {ls : List ((Nat × Nat) × Listing)} {us : List Nat} (h : LIds ls us)
    {c id : Nat} {l : Listing} (hf : id ∉ us) (hc : l.creator = c) (hid : l.id = id) :
    LIds (ainsert (c, id) l ls) (id :: us) := by
  refine ⟨nodup_akeys_ainsert _ _ h.keys, ?_, ?_, ?_, List.mem_cons_of_mem _ h.zero⟩
  · intro p hp
    rcases mem_ainsert.1 hp with rfl | ⟨hp, _⟩
    · simp [hc, hid]
    · exact h.filed p hp
  · intro p hp q hq e
    rcases mem_ainsert.1 hp with rfl | ⟨hp, _⟩ <;> rcases mem_ainsert.1 hq with rfl | ⟨hq, _⟩
    · rfl
    · exfalso; apply hf
      have := h.used q hq
      rw [← e] at this
      simpa [hid] using this
    · exfalso; apply hf
      have := h.used p hp
      rw [e] at this
      simpa [hid] using this
    · exact h.inj p hp q hq e
  · intro p hp
    rcases mem_ainsert.1 hp with rfl | ⟨hp, _⟩
    · simp [hid]
    · exact List.mem_cons_of_mem _ (h.used p hp)

theorem BIds.insert {bs : List ((Nat × Nat) × Bucket)} {us : List Nat} (h : BIds bs us)
    {c id : Nat} {b : Bucket} (hf : id ∉ us) (hc : b.owner = c) :
    BIds (ainsert (c, id) b bs) (id :: us) := by
  refine ⟨nodup_akeys_ainsert _ _ h.keys, ?_, ?_, ?_, List.mem_cons_of_mem _ h.zero⟩
  · intro p hp
    rcases mem_ainsert.1 hp with rfl | ⟨hp, _⟩
    · simp [hc]
    · exact h.filed p hp
  · intro p hp q hq e
    rcases mem_ainsert.1 hp with rfl | ⟨hp, _⟩ <;> rcases mem_ainsert.1 hq with rfl | ⟨hq, _⟩
    · rfl
    · exfalso; apply hf
      have := h.used q hq
      rw [← e] at this
      exact this
    · exfalso; apply hf
      have := h.used p hp
      rw [e] at this
      exact this
    · exact h.inj p hp q hq e
  · intro p hp
    rcases mem_ainsert.1 hp with rfl | ⟨hp, _⟩
    · simp
    · exact List.mem_cons_of_mem _ (h.used p hp)

/-! ### (c) erase a key -/

theorem LIds.erase {ls : List ((Nat × Nat) × Listing)} {us : List Nat} (h : LIds ls us)
    (k : Nat × Nat) : LIds (aerase k ls) us :=
  ⟨nodup_akeys_aerase _ h.keys,
   fun p hp => h.filed p (mem_aerase.1 hp).1,
   fun p hp q hq e => h.inj p (mem_aerase.1 hp).1 q (mem_aerase.1 hq).1 e,
   fun p hp => h.used p (mem_aerase.1 hp).1, h.zero⟩

theorem BIds.erase {bs : List ((Nat × Nat) × Bucket)} {us : List Nat} (h : BIds bs us)
    (k : Nat × Nat) : BIds (aerase k bs) us :=
  ⟨nodup_akeys_aerase _ h.keys,
   fun p hp => h.filed p (mem_aerase.1 hp).1,
   fun p hp q hq e => h.inj p (mem_aerase.1 hp).1 q (mem_aerase.1 hq).1 e,
   fun p hp => h.used p (mem_aerase.1 hp).1, h.zero⟩

/-! ### (d) the purchase: erase the record's key, re-file it (same id) under a new owner -/

theorem LIds.move {ls : List ((Nat × Nat) × Listing)} {us : List Nat} (h : LIds ls us)
    {k : Nat × Nat} {l l' : Listing} {c : Nat} (hm : (k, l) ∈ ls) (hc : l'.creator = c)
    (hid : l'.id = l.id) : LIds (ainsert (c, l.id) l' (aerase k ls)) us := by
  have he := h.erase k
  refine ⟨nodup_akeys_ainsert _ _ he.keys, ?_, ?_, ?_, h.zero⟩
  · intro p hp
    rcases mem_ainsert.1 hp with rfl | ⟨hp, _⟩
    · simp [hc, hid]
    · exact he.filed p hp
  · intro p hp q hq e
    rcases mem_ainsert.1 hp with rfl | ⟨hp, _⟩ <;> rcases mem_ainsert.1 hq with rfl | ⟨hq, _⟩
    · rfl
    · exfalso
      obtain ⟨hq1, hq2⟩ := mem_aerase.1 hq
      exact hq2 (h.inj (k, l) hm q hq1 (by rw [← e]; exact hid.symm)).symm
    · exfalso
      obtain ⟨hp1, hp2⟩ := mem_aerase.1 hp
      exact hp2 (h.inj (k, l) hm p hp1 (by rw [e]; exact hid.symm)).symm
    · exact he.inj p hp q hq e
  · intro p hp
    rcases mem_ainsert.1 hp with rfl | ⟨hp, _⟩
    · simpa [hid] using h.used (k, l) hm
    · exact he.used p hp

theorem BIds.move {bs : List ((Nat × Nat) × Bucket)} {us : List Nat} (h : BIds bs us)
    {k : Nat × Nat} {b b' : Bucket} {c : Nat} (hm : (k, b) ∈ bs) (hc : b'.owner = c) :
    BIds (ainsert (c, k.2) b' (aerase k bs)) us := by
  have he := h.erase k
  refine ⟨nodup_akeys_ainsert _ _ he.keys, ?_, ?_, ?_, h.zero⟩
  · intro p hp
    rcases mem_ainsert.1 hp with rfl | ⟨hp, _⟩
    · simp [hc]
    · exact he.filed p hp
  · intro p hp q hq e
    rcases mem_ainsert.1 hp with rfl | ⟨hp, _⟩ <;> rcases mem_ainsert.1 hq with rfl | ⟨hq, _⟩
    · rfl
    · exfalso
      obtain ⟨hq1, hq2⟩ := mem_aerase.1 hq
      exact hq2 (h.inj (k, b) hm q hq1 e).symm
    · exfalso
      obtain ⟨hp1, hp2⟩ := mem_aerase.1 hp
      exact hp2 (h.inj (k, b) hm p hp1 e.symm).symm
    · exact he.inj p hp q hq e
  · intro p hp
    rcases mem_ainsert.1 hp with rfl | ⟨hp, _⟩
    · exact h.used (k, b) hm
    · exact he.used p hp

/-! ### (b) replace the record at an existing key (same creator / id resp. owner) -/

theorem aerase_aerase {κ ν : Type} [DecidableEq κ] (k : κ) (l : List (κ × ν)) :
    aerase k (aerase k l) = aerase k l := by
  simp [aerase, List.filter_filter]

theorem ainsert_aerase {κ ν : Type} [DecidableEq κ] (k : κ) (v : ν) (l : List (κ × ν)) :
    ainsert k v (aerase k l) = ainsert k v l := by
  simp [ainsert, aerase_aerase]

theorem LIds.replace {ls : List ((Nat × Nat) × Listing)} {us : List Nat} (h : LIds ls us)
    {k : Nat × Nat} {l l' : Listing} (hl : alookup k ls = some l) (hc : l'.creator = l.creator)
    (hid : l'.id = l.id) : LIds (ainsert k l' ls) us := by
  have hm := alookup_some_mem hl
  have hk : k = (l.creator, l.id) := h.filed _ hm
  have := h.move hm hc hid
  rw [← hk, ainsert_aerase] at this
  exact this

theorem BIds.replace {bs : List ((Nat × Nat) × Bucket)} {us : List Nat} (h : BIds bs us)
    {k : Nat × Nat} {b b' : Bucket} (hl : alookup k bs = some b) (hc : b'.owner = b.owner) :
    BIds (ainsert k b' bs) us := by
  have hm := alookup_some_mem hl
  have hk : k.1 = b.owner := h.filed _ hm
  have := h.move hm (hc.trans hk.symm)
  rw [ainsert_aerase] at this
  exact this

/-! ## 2. `∀ p ∈ table, P p` under insert / erase -/

theorem forall_mem_ainsert {κ ν : Type} [DecidableEq κ] {P : κ × ν → Prop} {l : List (κ × ν)}
    (h : ∀ p ∈ l, P p) {k : κ} {v : ν} (hv : P (k, v)) : ∀ p ∈ ainsert k v l, P p := by
  intro p hp
  rcases mem_ainsert.1 hp with rfl | ⟨hp, _⟩
  · exact hv
  · exact h p hp

theorem forall_mem_aerase {κ ν : Type} [DecidableEq κ] {P : κ × ν → Prop} {l : List (κ × ν)}
    (h : ∀ p ∈ l, P p) (k : κ) : ∀ p ∈ aerase k l, P p :=
  fun p hp => h p (mem_aerase.1 hp).1

/-! ## 3. well-formedness of the balance helpers -/

theorem wfBal_iff (g : GBal) : wfBal g = true ↔
    (∀ c ∈ g.native, c.amount ≠ 0) ∧ (∀ c ∈ g.cw20, c.amount ≠ 0) ∧ 1 ≤ g.count ∧
    (keys g.native).Nodup ∧ (keys g.cw20).Nodup ∧ g.nfts.Nodup := by
  simp only [wfBal, Bool.and_eq_true, decide_eq_true_eq, allNonzero_iff, and_assoc]

theorem checkValid_iff (g : GBal) : checkValid g = true ↔ wfBal g = true ∧ g.count ≤ MAX_ASSETS := by
  simp only [wfBal, checkValid, Bool.and_eq_true, decide_eq_true_eq]
  constructor
  · rintro ⟨⟨⟨⟨⟨⟨a, b⟩, c⟩, d⟩, e⟩, f⟩, g⟩; exact ⟨⟨⟨⟨⟨⟨a, b⟩, c⟩, e⟩, f⟩, g⟩, d⟩
  · rintro ⟨⟨⟨⟨⟨⟨a, b⟩, c⟩, e⟩, f⟩, g⟩, d⟩; exact ⟨⟨⟨⟨⟨⟨a, b⟩, c⟩, d⟩, e⟩, f⟩, g⟩

theorem wfBal_of_checkValid {g : GBal} (h : checkValid g = true) : wfBal g = true :=
  ((checkValid_iff g).1 h).1

/-- `normalized_check` accepts exactly the deposits that make a well-formed balance of their own -/
theorem wfBal_fromBalance {funds : Funds} (h : normalizedCheck funds = true) :
    wfBal (fromBalance funds) = true := by
  cases funds with
  | native cs =>
    cases cs with
    | nil => simp [normalizedCheck] at h
    | cons a t =>
      simp [normalizedCheck, allNonzero, keys] at h
      simp [wfBal, fromBalance, GBal.count, allNonzero, keys, h]
      exact ⟨h.1.2, h.2.1⟩
  | cw20 c =>
    simp only [normalizedCheck, decide_eq_true_eq] at h
    simp [wfBal, fromBalance, GBal.count, allNonzero, keys, h]

theorem normalizedCheck_iff_wfBal (funds : Funds) :
    normalizedCheck funds = true ↔ wfBal (fromBalance funds) = true := by
  refine ⟨wfBal_fromBalance, ?_⟩
  cases funds with
  | native cs =>
    cases cs with
    | nil => simp [wfBal, fromBalance, GBal.count]
    | cons a t =>
      simp only [normalizedCheck, wfBal, fromBalance, Bool.and_eq_true, decide_eq_true_eq]
      rintro ⟨⟨⟨⟨⟨a, _⟩, _⟩, d⟩, _⟩, _⟩
      exact ⟨⟨by simp, a⟩, of_decide_eq_true d⟩
  | cw20 c =>
    simp [normalizedCheck, wfBal, fromBalance, allNonzero]
    exact fun h _ _ _ => h

theorem wfBal_fromNft (n : Nft) : wfBal (fromNft n) = true := by
  simp [wfBal, fromNft, GBal.count, allNonzero, keys]

theorem validateAsk_checkValid {r : RawGBal} {g : GBal} (h : validateAsk r = some g) :
    checkValid g = true := by
  unfold validateAsk at h
  split at h
  · dsimp only at h
    split at h
    · cases h; assumption
    · cases h
  · cases h

/-! ### `add_tokens` -/

theorem addCoin_keys {l r : List Coin} {c : Coin} (h : addCoin l c = some r) :
    keys r = if c.key ∈ keys l then keys l else keys l ++ [c.key] := by
  induction l generalizing r with
  | nil =>
    simp only [addCoin, Option.some.injEq] at h
    subst h; simp [keys]
  | cons x xs ih =>
    simp only [addCoin] at h
    split at h
    · next hk =>
      split at h
      · cases h; simp [keys, hk]
      · cases h
    · next hk =>
      split at h
      · cases h
      · next r' hr' =>
        cases h
        have := ih hr'
        have e1 : keys (x :: r') = x.key :: keys r' := rfl
        have e2 : keys (x :: xs) = x.key :: keys xs := rfl
        have hk' : ¬ c.key = x.key := fun e => hk e.symm
        rw [e1, e2, this]
        by_cases hm : c.key ∈ keys xs
        · simp [hm]
        · simp [hm, hk']

theorem addCoin_nodup {l r : List Coin} {c : Coin} (h : addCoin l c = some r)
    (nd : (keys l).Nodup) : (keys r).Nodup := by
  rw [addCoin_keys h]
  split
  · exact nd
  · next hn =>
    rw [List.nodup_append]
    refine ⟨nd, by simp, ?_⟩
    intro a ha b hb
    simp only [List.mem_singleton] at hb
    subst hb
    intro e; subst e; exact hn ha

theorem addCoin_nonzero {l r : List Coin} {c : Coin} (h : addCoin l c = some r)
    (hl : ∀ x ∈ l, x.amount ≠ 0) (hc : c.amount ≠ 0) : ∀ x ∈ r, x.amount ≠ 0 := by
  induction l generalizing r with
  | nil =>
    simp only [addCoin, Option.some.injEq] at h
    subst h; simpa using hc
  | cons x xs ih =>
    simp only [addCoin] at h
    split at h
    · split at h
      · cases h
        intro y hy
        rcases List.mem_cons.1 hy with rfl | hy
        · have := hl x List.mem_cons_self
          simp only; omega
        · exact hl y (List.mem_cons_of_mem _ hy)
      · cases h
    · split at h
      · cases h
      · next r' hr' =>
        cases h
        intro y hy
        rcases List.mem_cons.1 hy with rfl | hy
        · exact hl _ List.mem_cons_self
        · exact ih hr' (fun z hz => hl z (List.mem_cons_of_mem _ hz)) y hy

theorem addCoin_coinAmt {l r : List Coin} {c : Coin} (h : addCoin l c = some r) (k : Nat) :
    coinAmt r k = coinAmt l k + (if c.key = k then c.amount else 0) := by
  induction l generalizing r with
  | nil =>
    simp only [addCoin, Option.some.injEq] at h
    subst h; simp [coinAmt_cons, coinAmt_nil]
  | cons x xs ih =>
    simp only [addCoin] at h
    split at h
    · next hk =>
      split at h
      · cases h
        simp only [coinAmt_cons, hk]
        split <;> omega
      · cases h
    · split at h
      · cases h
      · next r' hr' =>
        cases h
        simp only [coinAmt_cons, ih hr']
        omega

/-- the first entry of a denomination holds at most the denomination's total -/
theorem addCoin_ne_none {l : List Coin} {c : Coin} (h : coinAmt l c.key + c.amount ≤ U128MAX) :
    addCoin l c ≠ none := by
  induction l with
  | nil => simp [addCoin]
  | cons x xs ih =>
    simp only [addCoin]
    rw [coinAmt_cons] at h
    split
    · next hk =>
      simp only [hk, if_true] at h
      rw [if_pos (by omega)]; simp
    · next hk =>
      simp only [hk, if_false] at h
      have := ih (by omega)
      split
      · contradiction
      · simp

theorem addCoins_nodup {l r cs : List Coin} (h : addCoins l cs = some r) (nd : (keys l).Nodup) :
    (keys r).Nodup := by
  induction cs generalizing l with
  | nil => simp only [addCoins, Option.some.injEq] at h; subst h; exact nd
  | cons c cs ih =>
    simp only [addCoins] at h
    split at h
    · cases h
    · next l' hl' => exact ih h (addCoin_nodup hl' nd)

theorem addCoins_nonzero {l r cs : List Coin} (h : addCoins l cs = some r)
    (hl : ∀ x ∈ l, x.amount ≠ 0) (hc : ∀ c ∈ cs, c.amount ≠ 0) : ∀ x ∈ r, x.amount ≠ 0 := by
  induction cs generalizing l with
  | nil => simp only [addCoins, Option.some.injEq] at h; subst h; exact hl
  | cons c cs ih =>
    simp only [addCoins] at h
    split at h
    · cases h
    · next l' hl' =>
      exact ih h (addCoin_nonzero hl' hl (hc c List.mem_cons_self))
        (fun x hx => hc x (List.mem_cons_of_mem _ hx))

theorem addCoins_coinAmt {l r cs : List Coin} (h : addCoins l cs = some r) (k : Nat) :
    coinAmt r k = coinAmt l k + coinAmt cs k := by
  induction cs generalizing l with
  | nil => simp only [addCoins, Option.some.injEq] at h; subst h; simp [coinAmt_nil]
  | cons c cs ih =>
    simp only [addCoins] at h
    split at h
    · cases h
    · next l' hl' =>
      rw [ih h, addCoin_coinAmt hl', coinAmt_cons]; omega

/-- no 128-bit overflow: if per denomination the stored total plus the deposited total fits a
    `Uint128`, `add_tokens` does not abort -/
theorem addCoins_ne_none {l cs : List Coin} (h : ∀ k, coinAmt l k + coinAmt cs k ≤ U128MAX) :
    addCoins l cs ≠ none := by
  induction cs generalizing l with
  | nil => simp [addCoins]
  | cons c cs ih =>
    simp only [addCoins]
    have hc := h c.key
    rw [coinAmt_cons] at hc
    simp only [if_true] at hc
    split
    · next hn => exact absurd hn (addCoin_ne_none (by omega))
    · next l' hl' =>
      apply ih
      intro k
      have := h k
      rw [coinAmt_cons] at this
      rw [addCoin_coinAmt hl']
      omega

theorem addCoins_keys {l r cs : List Coin} (h : addCoins l cs = some r) :
    ∃ ex, keys r = keys l ++ ex ∧ ∀ c ∈ cs, c.key ∈ keys r := by
  induction cs generalizing l with
  | nil =>
    simp only [addCoins, Option.some.injEq] at h; subst h
    exact ⟨[], by simp, by simp⟩
  | cons c cs ih =>
    simp only [addCoins] at h
    split at h
    · cases h
    · next l' hl' =>
      obtain ⟨ex, e, hm⟩ := ih h
      have hk := addCoin_keys hl'
      by_cases hc : c.key ∈ keys l
      · rw [if_pos hc] at hk
        refine ⟨ex, by rw [e, hk], ?_⟩
        intro x hx
        rcases List.mem_cons.1 hx with rfl | hx
        · rw [e, hk]; exact List.mem_append_left _ hc
        · exact hm x hx
      · rw [if_neg hc] at hk
        refine ⟨[c.key] ++ ex, by rw [e, hk, List.append_assoc], ?_⟩
        intro x hx
        rcases List.mem_cons.1 hx with rfl | hx
        · rw [e, hk]; simp
        · exact hm x hx

theorem keys_length (l : List Coin) : (keys l).length = l.length := by simp [keys]

theorem addCoins_length_le {l r cs : List Coin} (h : addCoins l cs = some r) : l.length ≤ r.length := by
  obtain ⟨ex, e, _⟩ := addCoins_keys h
  have := congrArg List.length e
  simp only [keys_length, List.length_append] at this
  omega

theorem coinAmt_of_mem {l : List Coin} {x : Coin} (nd : (keys l).Nodup) (hx : x ∈ l) :
    coinAmt l x.key = x.amount := by
  induction l with
  | nil => simp at hx
  | cons a l ih =>
    have e2 : keys (a :: l) = a.key :: keys l := rfl
    rw [e2, List.nodup_cons] at nd
    rw [coinAmt_cons]
    rcases List.mem_cons.1 hx with rfl | hx
    · simp [coinAmt_eq_zero_of_not_mem nd.1]
    · have hne : ¬ a.key = x.key := by
        intro e
        apply nd.1
        rw [e]
        exact List.mem_map.2 ⟨x, hx, rfl⟩
      simp [hne, ih nd.2 hx]

theorem subsetLen_iff {α : Type} [DecidableEq α] (a b : List α) :
    subsetLen a b = true ↔ (∀ x ∈ a, x ∈ b) ∧ a.length = b.length := by
  simp [subsetLen]

/-- a non-empty deposit of non-zero coins always changes the coin list (the `genbal_cmp` test of
    the top-up handlers cannot fire) -/
theorem addCoins_changed {l r cs : List Coin} (h : addCoins l cs = some r) (nd : (keys l).Nodup)
    (hne : cs ≠ []) (hc : ∀ c ∈ cs, c.amount ≠ 0) : subsetLen l r = false := by
  cases hs : subsetLen l r with
  | false => rfl
  | true =>
    exfalso
    obtain ⟨hsub, hlen⟩ := (subsetLen_iff l r).1 hs
    obtain ⟨ex, e, hm⟩ := addCoins_keys h
    have hl := congrArg List.length e
    simp only [keys_length, List.length_append] at hl
    have hex : ex = [] := List.eq_nil_of_length_eq_zero (by omega)
    subst hex
    rw [List.append_nil] at e
    cases cs with
    | nil => exact hne rfl
    | cons c cs =>
      have hck : c.key ∈ keys l := by rw [← e]; exact hm c List.mem_cons_self
      obtain ⟨x, hx, hxk⟩ := List.mem_map.1 hck
      have h1 := coinAmt_of_mem nd hx
      have h2 := coinAmt_of_mem (addCoins_nodup h nd) (hsub x hx)
      have h3 := addCoins_coinAmt h x.key
      rw [coinAmt_cons] at h3
      have := hc c List.mem_cons_self
      rw [hxk] at h1 h2 h3
      simp only [if_true] at h3
      omega

theorem addCoin_changed {l r : List Coin} {c : Coin} (h : addCoin l c = some r)
    (nd : (keys l).Nodup) (hc : c.amount ≠ 0) : subsetLen l r = false := by
  have h' : addCoins l [c] = some r := by simp [addCoins, h]
  exact addCoins_changed h' nd (by simp) (by simpa using hc)

theorem addCoin_length_le {l r : List Coin} {c : Coin} (h : addCoin l c = some r) :
    l.length ≤ r.length := by
  have h' : addCoins l [c] = some r := by simp [addCoins, h]
  exact addCoins_length_le h'

/-- the deposit fits: per denomination (resp. for the token) stored plus deposited amount is a
    `Uint128` -/
def Funds.fits (g : GBal) : Funds → Prop
  | .native cs => ∀ k, coinAmt g.native k + coinAmt cs k ≤ U128MAX
  | .cw20 c => coinAmt g.cw20 c.key + c.amount ≤ U128MAX

theorem addTokens_ne_none {g : GBal} {funds : Funds} (h : funds.fits g) :
    addTokens g funds ≠ none := by
  cases funds with
  | native cs =>
    simp only [addTokens]
    have := addCoins_ne_none (l := g.native) (cs := cs) h
    split
    · contradiction
    · simp
  | cw20 c =>
    simp only [addTokens]
    have := addCoin_ne_none (l := g.cw20) (c := c) h
    split
    · contradiction
    · simp

/-- `add_tokens` of a `normalized_check`-ed deposit onto a well-formed balance is well-formed
    (an existing key is merged, both summands are non-zero) -/
theorem addTokens_wf {g nf : GBal} {funds : Funds} (wf : wfBal g = true)
    (hn : normalizedCheck funds = true) (h : addTokens g funds = some nf) : wfBal nf = true := by
  rw [wfBal_iff] at wf ⊢
  obtain ⟨w1, w2, w3, w4, w5, w6⟩ := wf
  cases funds with
  | native cs =>
    simp only [addTokens] at h
    split at h
    · cases h
    · next n hn' =>
      cases h
      simp only [normalizedCheck, Bool.and_eq_true, decide_eq_true_eq, allNonzero_iff] at hn
      refine ⟨addCoins_nonzero hn' w1 hn.1.2, w2, ?_, addCoins_nodup hn' w4, w5, w6⟩
      have := addCoins_length_le hn'
      simp only [GBal.count] at w3 ⊢
      omega
  | cw20 c =>
    simp only [addTokens] at h
    split at h
    · cases h
    · next n hn' =>
      cases h
      simp only [normalizedCheck, decide_eq_true_eq] at hn
      refine ⟨w1, addCoin_nonzero hn' w2 hn, ?_, w4, addCoin_nodup hn' w5, w6⟩
      have := addCoin_length_le hn'
      simp only [GBal.count] at w3 ⊢
      omega

/-- `genbal_cmp(old, new)` fails after every accepted deposit -/
theorem addTokens_changed {g nf : GBal} {funds : Funds} (wf : wfBal g = true)
    (hn : normalizedCheck funds = true) (h : addTokens g funds = some nf) :
    genbalCmp g nf = false := by
  rw [wfBal_iff] at wf
  obtain ⟨w1, w2, w3, w4, w5, w6⟩ := wf
  cases funds with
  | native cs =>
    simp only [addTokens] at h
    split at h
    · cases h
    · next n hn' =>
      cases h
      simp only [normalizedCheck, Bool.and_eq_true, decide_eq_true_eq, allNonzero_iff] at hn
      have hne : cs ≠ [] := by
        intro e; subst e; simp at hn
      simp [genbalCmp, addCoins_changed hn' w4 hne hn.1.2]
  | cw20 c =>
    simp only [addTokens] at h
    split at h
    · cases h
    · next n hn' =>
      cases h
      simp only [normalizedCheck, decide_eq_true_eq] at hn
      simp [genbalCmp, addCoin_changed hn' w5 hn]

theorem addNft_changed (g : GBal) (n : Nft) : genbalCmp g (addNft g n) = false := by
  simp [genbalCmp, subsetLen, addNft]

/-- `check_valid` after `add_nft`: 25 cap and the NFT is new -/
theorem checkValid_addNft {g : GBal} (wf : wfBal g = true) (n : Nft) :
    checkValid (addNft g n) = true ↔ g.count + 1 ≤ MAX_ASSETS ∧ n ∉ g.nfts := by
  rw [checkValid_iff, wfBal_iff]
  rw [wfBal_iff] at wf
  obtain ⟨w1, w2, w3, w4, w5, w6⟩ := wf
  have hc : (addNft g n).count = g.count + 1 := by simp [addNft, GBal.count]; omega
  rw [hc]
  simp only [addNft, List.nodup_append]
  constructor
  · rintro ⟨⟨_, _, _, _, _, _, _, hd⟩, hcap⟩
    refine ⟨hcap, ?_⟩
    intro hm
    exact hd n hm n (by simp) rfl
  · rintro ⟨hcap, hnm⟩
    refine ⟨⟨w1, w2, by omega, w4, w5, w6, by simp, ?_⟩, hcap⟩
    intro a ha b hb
    simp only [List.mem_singleton] at hb
    subst hb
    intro e; subst e; exact hnm ha

/-! ### times, fees, royalties -/

theorem wfTimes_finalize (now s : Nat) (h1 : MIN_LIFE ≤ s) (h2 : s ≤ TWO_WEEKS) :
    wfTimes (some now) (some (now + s * NS)) = true := by
  simp only [wfTimes, Bool.and_eq_true, decide_eq_true_eq]
  have e : now + s * NS - now = s * NS := by omega
  have hNS : 0 < NS := by decide
  rw [e, Nat.mul_div_cancel _ hNS]
  exact ⟨⟨⟨by omega, Nat.mul_mod_left _ _⟩, h1⟩, h2⟩

theorem sideRoyalties_wf {env : Env} {ra : Nat} {cols : List Nat} {bal g : GBal} {ms : List OutMsg}
    {s : Nat} (wf : wfBal bal = true) (h : sideRoyalties env ra cols bal = .ok g ms s) :
    wfBal g = true := by
  unfold sideRoyalties at h
  split at h
  · cases h; exact wf
  · split at h
    · cases h
    · exact C11_wf wf h

theorem calcFeeCoin_wfFee {env : Env} {fk : FeeKind} {g g' : GBal} {fee : Option Coin}
    (nd : (keys g.native).Nodup) (h : calcFeeCoin (feeDenomOf env fk) g = some (fee, g')) :
    wfFee env.junoD env.usdcD fee = true := by
  cases fee with
  | none => rfl
  | some f =>
    obtain ⟨hk, ha⟩ := (C17_fee_floor nd h).2.2 f rfl
    cases fk <;> simp [wfFee, feeDenomOf, ha] at hk ⊢ <;> simp [hk]

/-! ## 4. the shapes of a state change -/

/-- The ways an accepted message changes the marketplace record (`j`, `u`: the two fee
    denominations): (a) a new record at a fresh id, (b) a record replaced by one with the same
    creator and id (owner), (c) a key erased, (d) the purchase, and the fee cycle.  Each shape
    carries what is needed to keep `IdsInv` and `WFInv`. -/
inductive Shape (j u : Nat) (m : Market) : Market → Prop
  | bIns (c id : Nat) (b : Bucket) (hf : id ∉ m.bucketUsed) (ho : b.owner = c)
      (hw : wfBucket j u (c, id) b = true) :
      Shape j u m { m with buckets := ainsert (c, id) b m.buckets, bucketUsed := id :: m.bucketUsed }
  | bRep (k : Nat × Nat) (b b' : Bucket) (hl : alookup k m.buckets = some b)
      (ho : b'.owner = b.owner) (hw : wfBucket j u k b = true → wfBucket j u k b' = true) :
      Shape j u m { m with buckets := ainsert k b' m.buckets }
  | bDel (k : Nat × Nat) : Shape j u m { m with buckets := aerase k m.buckets }
  | lIns (c id : Nat) (l : Listing) (hf : id ∉ m.listingUsed) (hc : l.creator = c) (hid : l.id = id)
      (hw : wfListing j u (c, id) l = true) :
      Shape j u m { m with listings := ainsert (c, id) l m.listings,
                           listingUsed := id :: m.listingUsed }
  | lRep (k : Nat × Nat) (l l' : Listing) (hl : alookup k m.listings = some l)
      (hc : l'.creator = l.creator) (hid : l'.id = l.id)
      (hw : wfListing j u k l = true → wfListing j u k l' = true) :
      Shape j u m { m with listings := ainsert k l' m.listings }
  | lDel (k : Nat × Nat) : Shape j u m { m with listings := aerase k m.listings }
  | trade (kl : Nat × Nat) (l l' : Listing) (kb : Nat × Nat) (b b' : Bucket) (c c' : Nat)
      (hl : (kl, l) ∈ m.listings) (hb : alookup kb m.buckets = some b)
      (hid : l'.id = l.id) (hc : l'.creator = c) (ho : b'.owner = c')
      (hw : wfListing j u kl l = true → wfBucket j u kb b = true →
        wfListing j u (c, l.id) l' = true ∧ wfBucket j u (c', kb.2) b' = true) :
      Shape j u m { m with listings := ainsert (c, l.id) l' (aerase (l.creator, l.id) m.listings),
                           buckets := ainsert (c', kb.2) b' (aerase kb m.buckets) }
  | fee (fk : FeeKind) (fs : Nat) : Shape j u m { m with feeKind := fk, feeSince := fs }

theorem Shape.ids {j u : Nat} {m m' : Market} (s : Shape j u m m') (h : IdsInv m) : IdsInv m' := by
  rw [IdsInv_iff] at h ⊢
  obtain ⟨hl, hb⟩ := h
  cases s with
  | bIns c id b hf ho hw => exact ⟨hl, hb.insert hf ho⟩
  | bRep k b b' hlk ho hw => exact ⟨hl, hb.replace hlk ho⟩
  | bDel k => exact ⟨hl, hb.erase k⟩
  | lIns c id l hf hc hid hw => exact ⟨hl.insert hf hc hid, hb⟩
  | lRep k l l' hlk hc hid hw => exact ⟨hl.replace hlk hc hid, hb⟩
  | lDel k => exact ⟨hl.erase k, hb⟩
  | trade kl l l' kb b b' c c' hml hlb hid hc ho hw =>
    have hk : kl = (l.creator, l.id) := hl.filed _ hml
    subst hk
    exact ⟨hl.move hml hc hid, hb.move (alookup_some_mem hlb) ho⟩
  | fee fk fs => exact ⟨hl, hb⟩

theorem Shape.wf {j u : Nat} {m m' : Market} (s : Shape j u m m') (h : WFInv j u m) :
    WFInv j u m' := by
  cases s with
  | bIns c id b hf ho hw =>
    exact ⟨h.lwf, forall_mem_ainsert (P := fun p => wfBucket j u p.1 p.2 = true) h.bwf hw⟩
  | bRep k b b' hlk ho hw =>
    exact ⟨h.lwf, forall_mem_ainsert (P := fun p => wfBucket j u p.1 p.2 = true) h.bwf
      (hw (h.bwf _ (alookup_some_mem hlk)))⟩
  | bDel k => exact ⟨h.lwf, forall_mem_aerase (P := fun p => wfBucket j u p.1 p.2 = true) h.bwf k⟩
  | lIns c id l hf hc hid hw =>
    exact ⟨forall_mem_ainsert (P := fun p => wfListing j u p.1 p.2 = true) h.lwf hw, h.bwf⟩
  | lRep k l l' hlk hc hid hw =>
    exact ⟨forall_mem_ainsert (P := fun p => wfListing j u p.1 p.2 = true) h.lwf
      (hw (h.lwf _ (alookup_some_mem hlk))), h.bwf⟩
  | lDel k => exact ⟨forall_mem_aerase (P := fun p => wfListing j u p.1 p.2 = true) h.lwf k, h.bwf⟩
  | trade kl l l' kb b b' c c' hml hlb hid hc ho hw =>
    have := hw (h.lwf _ hml) (h.bwf _ (alookup_some_mem hlb))
    exact ⟨forall_mem_ainsert (P := fun p => wfListing j u p.1 p.2 = true)
        (forall_mem_aerase (P := fun p => wfListing j u p.1 p.2 = true) h.lwf _) this.1,
      forall_mem_ainsert (P := fun p => wfBucket j u p.1 p.2 = true)
        (forall_mem_aerase (P := fun p => wfBucket j u p.1 p.2 = true) h.bwf _) this.2⟩
  | fee fk fs => exact ⟨h.lwf, h.bwf⟩

/-- the id logs only grow -/
theorem Shape.used_mono {j u : Nat} {m m' : Market} (s : Shape j u m m') :
    (∀ i ∈ m.listingUsed, i ∈ m'.listingUsed) ∧ (∀ i ∈ m.bucketUsed, i ∈ m'.bucketUsed) := by
  cases s <;> refine ⟨fun i hi => ?_, fun i hi => ?_⟩ <;>
    first | exact hi | exact List.mem_cons_of_mem _ hi

/-! ## 5. one shape lemma per handler -/

section handlers
variable {j u : Nat} {m m' : Market} {out : List OutMsg}

theorem createBucket_shape {funds : Funds} {creator id : Nat}
    (h : createBucket m funds creator id = .ok (m', out)) : Shape j u m m' := by
  unfold createBucket at h
  split at h
  · cases h
  split at h
  · cases h
  rename_i hfresh
  split at h
  · cases h
  split at h
  · cases h
  rename_i hn
  simp only [Except.ok.injEq, Prod.mk.injEq] at h
  obtain ⟨rfl, _⟩ := h
  have hn' : normalizedCheck funds = true := by simpa using hn
  exact Shape.bIns creator id _ hfresh rfl (by simp [wfBucket, wfFee, wfBal_fromBalance hn'])

theorem createBucketNft_shape {user : Nat} {nft : Nft} {id : Nat}
    (h : createBucketNft m user nft id = .ok (m', out)) : Shape j u m m' := by
  unfold createBucketNft at h
  split at h
  · cases h
  split at h
  · cases h
  rename_i hfresh
  split at h
  · cases h
  simp only [Except.ok.injEq, Prod.mk.injEq] at h
  obtain ⟨rfl, _⟩ := h
  exact Shape.bIns user id _ hfresh rfl (by simp [wfBucket, wfFee, wfBal_fromNft])

theorem wfBucket_funds {k : Nat × Nat} {b : Bucket} {nf : GBal}
    (hnf : wfBal b.funds = true → wfBal nf = true) :
    wfBucket j u k b = true → wfBucket j u k { b with funds := nf } = true := by
  simp only [wfBucket, Bool.and_eq_true, decide_eq_true_eq]
  rintro ⟨⟨a, b⟩, c⟩
  exact ⟨⟨a, hnf b⟩, c⟩

theorem addToBucket_shape {funds : Funds} {sender id : Nat}
    (h : addToBucket m funds sender id = .ok (m', out)) : Shape j u m m' := by
  unfold addToBucket at h
  split at h
  · cases h
  split at h
  · cases h
  rename_i b hb
  split at h
  · cases h
  split at h
  · cases h
  rename_i nf hnf
  split at h
  · cases h
  split at h
  · cases h
  rename_i hv
  simp only [Except.ok.injEq, Prod.mk.injEq] at h
  obtain ⟨rfl, _⟩ := h
  have hv' : checkValid nf = true := by simpa using hv
  exact Shape.bRep (sender, id) b _ hb rfl (wfBucket_funds fun _ => wfBal_of_checkValid hv')

theorem addToBucketNft_shape {user : Nat} {nft : Nft} {id : Nat}
    (h : addToBucketNft m user nft id = .ok (m', out)) : Shape j u m m' := by
  unfold addToBucketNft at h
  split at h
  · cases h
  rename_i b hb
  split at h
  · cases h
  dsimp only at h
  split at h
  · cases h
  split at h
  · cases h
  rename_i hv
  simp only [Except.ok.injEq, Prod.mk.injEq] at h
  obtain ⟨rfl, _⟩ := h
  have hv' : checkValid (addNft b.funds nft) = true := by simpa using hv
  exact Shape.bRep (user, id) b _ hb rfl (wfBucket_funds fun _ => wfBal_of_checkValid hv')

theorem withdrawBucket_shape {env : Env} {user id : Nat}
    (h : withdrawBucket m env user id = .ok (m', out)) : Shape j u m m' := by
  unfold withdrawBucket at h
  split at h
  · cases h
  split at h
  · cases h
  simp only [Except.ok.injEq, Prod.mk.injEq] at h
  obtain ⟨rfl, _⟩ := h
  exact Shape.bDel _

theorem createListing_shape {user : Nat} {funds : Funds} {c : CreateMsg} {id : Nat}
    (h : createListing m user funds c id = .ok (m', out)) : Shape j u m m' := by
  unfold createListing at h
  split at h
  · cases h
  split at h
  · cases h
  rename_i hn
  split at h
  · cases h
  rename_i hfresh
  split at h
  · cases h
  split at h
  · cases h
  rename_i wl hwl
  split at h
  · cases h
  rename_i ask hask
  simp only [Except.ok.injEq, Prod.mk.injEq] at h
  obtain ⟨rfl, _⟩ := h
  have hn' : normalizedCheck funds = true := by simpa using hn
  exact Shape.lIns user id _ hfresh rfl rfl
    (by simp [wfListing, newListing, wfAsk, validateAsk_checkValid hask, wfBal_fromBalance hn'])

theorem createListingNft_shape {user : Nat} {nft : Nft} {c : CreateMsg} {id : Nat}
    (h : createListingNft m user nft c id = .ok (m', out)) : Shape j u m m' := by
  unfold createListingNft at h
  split at h
  · cases h
  split at h
  · cases h
  rename_i hfresh
  split at h
  · cases h
  split at h
  · cases h
  rename_i wl hwl
  split at h
  · cases h
  rename_i ask hask
  simp only [Except.ok.injEq, Prod.mk.injEq] at h
  obtain ⟨rfl, _⟩ := h
  exact Shape.lIns user id _ hfresh rfl rfl
    (by simp [wfListing, newListing, wfAsk, validateAsk_checkValid hask, wfBal_fromNft])

theorem changeAsk_shape {user id : Nat} {newAsk : RawGBal}
    (h : changeAsk m user id newAsk = .ok (m', out)) : Shape j u m m' := by
  unfold changeAsk at h
  split at h
  · cases h
  rename_i l hl
  split at h
  · cases h
  split at h
  · cases h
  split at h
  · cases h
  split at h
  · cases h
  split at h
  · cases h
  rename_i ask hask
  simp only [Except.ok.injEq, Prod.mk.injEq] at h
  obtain ⟨rfl, _⟩ := h
  refine Shape.lRep (user, id) l _ hl rfl rfl ?_
  simp only [wfListing, wfAsk, Bool.and_eq_true, decide_eq_true_eq]
  rintro ⟨⟨⟨a, b⟩, _⟩, d⟩
  exact ⟨⟨⟨a, b⟩, validateAsk_checkValid hask⟩, d⟩

theorem wfListing_forSale {k : Nat × Nat} {l : Listing} {nf : GBal}
    (hnf : wfBal l.forSale = true → wfBal nf = true) :
    wfListing j u k l = true → wfListing j u k { l with forSale := nf } = true := by
  simp only [wfListing, Bool.and_eq_true, decide_eq_true_eq]
  rintro ⟨⟨⟨a, b⟩, c⟩, d⟩
  exact ⟨⟨⟨a, hnf b⟩, c⟩, d⟩

theorem addToListing_shape {funds : Funds} {user id : Nat}
    (h : addToListing m funds user id = .ok (m', out)) : Shape j u m m' := by
  unfold addToListing at h
  split at h
  · cases h
  rename_i hn
  split at h
  · cases h
  rename_i l hl
  split at h
  · cases h
  split at h
  · cases h
  split at h
  · cases h
  split at h
  · cases h
  rename_i nf hnf
  split at h
  · cases h
  split at h
  · cases h
  simp only [Except.ok.injEq, Prod.mk.injEq] at h
  obtain ⟨rfl, _⟩ := h
  have hn' : normalizedCheck funds = true := by simpa using hn
  exact Shape.lRep (user, id) l _ hl rfl rfl (wfListing_forSale fun w => addTokens_wf w hn' hnf)

theorem addToListingNft_shape {user : Nat} {nft : Nft} {id : Nat}
    (h : addToListingNft m user nft id = .ok (m', out)) : Shape j u m m' := by
  unfold addToListingNft at h
  split at h
  · cases h
  rename_i l hl
  split at h
  · cases h
  split at h
  · cases h
  split at h
  · cases h
  dsimp only at h
  split at h
  · cases h
  split at h
  · cases h
  rename_i hv
  simp only [Except.ok.injEq, Prod.mk.injEq] at h
  obtain ⟨rfl, _⟩ := h
  have hv' : checkValid (addNft l.forSale nft) = true := by simpa using hv
  exact Shape.lRep (user, id) l _ hl rfl rfl (wfListing_forSale fun _ => wfBal_of_checkValid hv')

theorem finalize_shape {env : Env} {sender id seconds : Nat}
    (h : finalize m env sender id seconds = .ok (m', out)) : Shape j u m m' := by
  unfold finalize at h
  split at h
  · cases h
  rename_i l hl
  split at h
  · cases h
  split at h
  · cases h
  split at h
  · cases h
  rename_i hst
  split at h
  · cases h
  split at h
  · cases h
  rename_i hsec
  dsimp only at h
  simp only [Except.ok.injEq, Prod.mk.injEq] at h
  obtain ⟨rfl, _⟩ := h
  refine Shape.lRep (sender, id) l _ hl rfl rfl ?_
  have hst' : l.status = .preparing := by simpa using hst
  simp only [wfListing, hst', Bool.and_eq_true, decide_eq_true_eq]
  rintro ⟨⟨⟨a, b⟩, c⟩, ⟨⟨_, d⟩, e⟩⟩
  exact ⟨⟨⟨a, b⟩, c⟩, ⟨wfTimes_finalize _ _ (by omega) (by omega), d⟩, e⟩

theorem deleteListing_shape {env : Env} {sender id : Nat}
    (h : deleteListing m env sender id = .ok (m', out)) : Shape j u m m' := by
  unfold deleteListing at h
  repeat' split at h
  all_goals first
    | (cases h; done)
    | (simp only [Except.ok.injEq, Prod.mk.injEq] at h
       obtain ⟨rfl, _⟩ := h
       exact Shape.lDel _)

theorem withdrawPurchased_shape {env : Env} {who lid : Nat}
    (h : withdrawPurchased m env who lid = .ok (m', out)) : Shape j u m m' := by
  unfold withdrawPurchased at h
  split at h
  · cases h
  split at h
  · cases h
  split at h
  · cases h
  split at h
  · cases h
  simp only [Except.ok.injEq, Prod.mk.injEq] at h
  obtain ⟨rfl, _⟩ := h
  exact Shape.lDel _

theorem cycleFee_shape {env : Env} (h : cycleFee m env = .ok (m', out)) : Shape j u m m' := by
  unfold cycleFee at h
  dsimp only at h
  split at h
  · cases h
  simp only [Except.ok.injEq, Prod.mk.injEq] at h
  obtain ⟨rfl, _⟩ := h
  exact Shape.fee _ _

end handlers

theorem wfListing_closed {j u : Nat} {k : Nat × Nat} {l : Listing} (hk : k = (l.creator, l.id))
    (hs : wfBal l.forSale = true) (ha : wfAsk l.ask = true) (hst : l.status = .closed)
    (ht : wfTimes l.finalizedAt l.expiresAt = true) (hc : l.claimant = some l.creator)
    (hf : wfFee j u l.fee = true) : wfListing j u k l = true := by
  simp [wfListing, hk, hs, ha, hst, ht, hc, hf]

theorem wfBucket_mk {j u : Nat} {k : Nat × Nat} {b : Bucket} (hk : k.1 = b.owner)
    (hs : wfBal b.funds = true) (hf : wfFee j u b.fee = true) : wfBucket j u k b = true := by
  simp [wfBucket, hk, hs, hf]

/-- the purchase: the listing found under `lid` is re-filed under `(buyer, lid)`, the paying
    bucket under `(seller, bid)`; both stay well-formed -/
theorem buy_shape {m m' : Market} {out : List OutMsg} {env : Env} {buyer lid bid : Nat}
    (h : buy m env buyer lid bid = .ok (m', out)) : Shape env.junoD env.usdcD m m' := by
  unfold buy at h
  split at h
  · cases h
  rename_i b hb
  split at h
  · cases h
  rename_i k l hl
  obtain ⟨hid, hmem⟩ := findById_some hl
  dsimp only at hid
  subst hid
  repeat' split at h
  all_goals first | (cases h; done) | skip
  all_goals
    have hst := ‹¬ l.status ≠ Status.finalized›
    have hf1 := ‹calcFeeCoin _ l.forSale = some _›
    have hf2 := ‹calcFeeCoin _ b.funds = some _›
    have hr1 := ‹sideRoyalties _ _ (collections l.forSale) _ = RoyRes.ok _ _ _›
    have hr2 := ‹sideRoyalties _ _ (collections b.funds) _ = RoyRes.ok _ _ _›
    have hst' : l.status = .finalized := by simpa using hst
    simp only [Except.ok.injEq, Prod.mk.injEq] at h
    obtain ⟨rfl, _⟩ := h
    refine Shape.trade k l _ (buyer, bid) b _ buyer l.creator hmem hb rfl rfl rfl ?_
    intro w1 w2
    simp only [wfListing, hst', Bool.and_eq_true, decide_eq_true_eq] at w1
    obtain ⟨⟨⟨_, wfs⟩, wa⟩, ⟨wt, _⟩, _⟩ := w1
    simp only [wfBucket, Bool.and_eq_true, decide_eq_true_eq] at w2
    obtain ⟨⟨_, wfb⟩, _⟩ := w2
    have nd1 := ((wfBal_iff _).1 wfs).2.2.2.1
    have nd2 := ((wfBal_iff _).1 wfb).2.2.2.1
    exact ⟨wfListing_closed rfl (sideRoyalties_wf (C17_fee_wf wfs hf1) hr2) wa rfl wt rfl
        (calcFeeCoin_wfFee nd1 hf1),
      wfBucket_mk rfl (sideRoyalties_wf (C17_fee_wf wfb hf2) hr1) (calcFeeCoin_wfFee nd2 hf2)⟩

theorem receive_shape {j u : Nat} {m m' : Market} {out : List OutMsg} {env : Env} {caller : Nat}
    {funds : List Coin} {sender : RawAddr} {amount : Nat} {inner : Option Inner}
    (h : receive m env caller funds sender amount inner = .ok (m', out)) : Shape j u m m' := by
  unfold receive at h
  repeat' split at h
  all_goals first
    | contradiction
    | exact createListing_shape h
    | exact addToListing_shape h
    | exact createBucket_shape h
    | exact addToBucket_shape h

theorem receiveNft_shape {j u : Nat} {m m' : Market} {out : List OutMsg} {env : Env} {caller : Nat}
    {funds : List Coin} {sender : RawAddr} {tid : Nat} {inner : Option Inner}
    (h : receiveNft m env caller funds sender tid inner = .ok (m', out)) : Shape j u m m' := by
  unfold receiveNft at h
  repeat' split at h
  all_goals first
    | contradiction
    | exact createListingNft_shape h
    | exact addToListingNft_shape h
    | exact createBucketNft_shape h
    | exact addToBucketNft_shape h

/-- every accepted message changes the marketplace record in one of the shapes -/
theorem execute_shape {m m' : Market} {env : Env} {sender : Nat} {funds : List Coin} {msg : ExecMsg}
    {out : List OutMsg} (h : execute m env sender funds msg = .ok (m', out)) :
    Shape env.junoD env.usdcD m m' := by
  unfold execute at h
  split at h
  · contradiction
  · cases msg with
    | feeCycle => exact cycleFee_shape h
    | createListing id c => exact createListing_shape h
    | addToListing id => exact addToListing_shape h
    | changeAsk id ask => exact changeAsk_shape h
    | finalize id s => exact finalize_shape h
    | deleteListing id => exact deleteListing_shape h
    | createBucket id => exact createBucket_shape h
    | addToBucket id => exact addToBucket_shape h
    | removeBucket id => exact withdrawBucket_shape h
    | buy lid bid => exact buy_shape h
    | withdrawPurchased lid => exact withdrawPurchased_shape h
    | receive s a i => exact receive_shape h
    | receiveNft s t i => exact receiveNft_shape h

/-! ## 6. lift to `step` / `run` -/

/-- a marketplace-record predicate that every accepted `execute` preserves (given the
    environment of the world) is preserved by every operation -/
theorem stepF_mkt_cases (fail : Nat → Bool) (w : World) (op : Op) :
    (stepF fail w op).1.mkt = w.mkt ∨
    ∃ c f msg m' msgs, op.asExec = some (c, f, msg) ∧
      execute w.mkt w.env c f msg = .ok (m', msgs) ∧ (stepF fail w op).1.mkt = m' ∧
      (stepF fail w op).2.ok = true := by
  cases ho : op.asExec with
  | some t =>
    obtain ⟨c, f, msg⟩ := t
    rcases stepF_market (fail := fail) (w := w) ho with ⟨e, h⟩ | ⟨m', msgs, w2, hx, hm, _, h⟩
    · rw [h]; exact .inl rfl
    · rw [h]; exact .inr ⟨c, f, msg, m', msgs, rfl, hx, hm, rfl⟩
  | none => exact .inl (stepF_mkt_of_asExec_none ho)

/-- no operation changes the two fee denominations of the world -/
theorem stepF_denoms (fail : Nat → Bool) (w : World) (op : Op) :
    (stepF fail w op).1.junoD = w.junoD ∧ (stepF fail w op).1.usdcD = w.usdcD := by
  cases ho : op.asExec with
  | some t =>
    obtain ⟨c, f, msg⟩ := t
    rcases stepF_market (fail := fail) (w := w) ho with ⟨e, h⟩ | ⟨m', msgs, w2, _, _, hc, h⟩
    · rw [h]; exact ⟨rfl, rfl⟩
    · rw [h]; exact ⟨hc.junoD, hc.usdcD⟩
  | none =>
    cases op with
    | exec s fu m => simp [Op.asExec] at ho
    | send20 t s a i => simp [Op.asExec] at ho
    | send721 co s t i => simp [Op.asExec] at ho
    | royalty s m =>
      rcases stepF_royalty fail w s m with ⟨e, _, h⟩ | ⟨r, _, h⟩ <;> rw [h] <;> exact ⟨rfl, rfl⟩
    | setAdmin s c n =>
      simp only [stepF]
      repeat' split
      all_goals exact ⟨rfl, rfl⟩
    | advance a b => exact ⟨rfl, rfl⟩

theorem run_denoms (w : World) (ops : List Op) :
    (run w ops).junoD = w.junoD ∧ (run w ops).usdcD = w.usdcD := by
  induction ops generalizing w with
  | nil => exact ⟨rfl, rfl⟩
  | cons op ops ih =>
    have h1 := ih (step w op).1
    have h2 := stepF_denoms noFault w op
    simp only [run]
    exact ⟨h1.1.trans h2.1, h1.2.trans h2.2⟩

/-- a failed operation leaves the whole world as it was -/
theorem stepF_failed_eq {fail : Nat → Bool} {w : World} {op : Op} {c : Nat} {f : List Coin}
    {msg : ExecMsg} (ho : op.asExec = some (c, f, msg)) (hok : (stepF fail w op).2.ok = false) :
    (stepF fail w op).1 = w := by
  rcases stepF_market (fail := fail) (w := w) ho with ⟨e, h⟩ | ⟨m', msgs, w2, _, _, _, h⟩
  · rw [h]
  · rw [h] at hok; cases hok

/-! ## 7. creation: which id is logged -/

theorem createListing_fresh {m m' : Market} {out : List OutMsg} {user : Nat} {funds : Funds}
    {c : CreateMsg} {id : Nat} (h : createListing m user funds c id = .ok (m', out)) :
    id < MAX_SAFE_INT ∧ id ∉ m.listingUsed ∧ m'.listingUsed = id :: m.listingUsed := by
  unfold createListing at h
  repeat' split at h
  all_goals first
    | (cases h; done)
    | (simp only [Except.ok.injEq, Prod.mk.injEq] at h
       obtain ⟨rfl, _⟩ := h
       exact ⟨by omega, by assumption, rfl⟩)

theorem createListingNft_fresh {m m' : Market} {out : List OutMsg} {user : Nat} {nft : Nft}
    {c : CreateMsg} {id : Nat} (h : createListingNft m user nft c id = .ok (m', out)) :
    id < MAX_SAFE_INT ∧ id ∉ m.listingUsed ∧ m'.listingUsed = id :: m.listingUsed := by
  unfold createListingNft at h
  repeat' split at h
  all_goals first
    | (cases h; done)
    | (simp only [Except.ok.injEq, Prod.mk.injEq] at h
       obtain ⟨rfl, _⟩ := h
       exact ⟨by omega, by assumption, rfl⟩)

theorem createBucket_fresh {m m' : Market} {out : List OutMsg} {funds : Funds} {creator id : Nat}
    (h : createBucket m funds creator id = .ok (m', out)) :
    id < MAX_SAFE_INT ∧ id ∉ m.bucketUsed ∧ m'.bucketUsed = id :: m.bucketUsed := by
  unfold createBucket at h
  repeat' split at h
  all_goals first
    | (cases h; done)
    | (simp only [Except.ok.injEq, Prod.mk.injEq] at h
       obtain ⟨rfl, _⟩ := h
       exact ⟨by omega, by assumption, rfl⟩)

theorem createBucketNft_fresh {m m' : Market} {out : List OutMsg} {user : Nat} {nft : Nft} {id : Nat}
    (h : createBucketNft m user nft id = .ok (m', out)) :
    id < MAX_SAFE_INT ∧ id ∉ m.bucketUsed ∧ m'.bucketUsed = id :: m.bucketUsed := by
  unfold createBucketNft at h
  repeat' split at h
  all_goals first
    | (cases h; done)
    | (simp only [Except.ok.injEq, Prod.mk.injEq] at h
       obtain ⟨rfl, _⟩ := h
       exact ⟨by omega, by assumption, rfl⟩)

/-- the listing id a message asks to create (directly, or through the CW20 / CW721 hook) -/
def ExecMsg.createsListing : ExecMsg → Option Nat
  | .createListing id _ => some id
  | .receive _ _ (some (.createListing id _)) => some id
  | .receiveNft _ _ (some (.createListing id _)) => some id
  | _ => none

/-- the bucket id a message asks to create (directly, or through the CW20 / CW721 hook) -/
def ExecMsg.createsBucket : ExecMsg → Option Nat
  | .createBucket id => some id
  | .receive _ _ (some (.createBucket id)) => some id
  | .receiveNft _ _ (some (.createBucket id)) => some id
  | _ => none

/-- the listing / bucket id an operation asks to create -/
def Op.createsListing (op : Op) : Option Nat :=
  match op.asExec with
  | some (_, _, msg) => msg.createsListing
  | none => none

def Op.createsBucket (op : Op) : Option Nat :=
  match op.asExec with
  | some (_, _, msg) => msg.createsBucket
  | none => none

theorem execute_createsListing {m m' : Market} {env : Env} {s : Nat} {f : List Coin} {msg : ExecMsg}
    {out : List OutMsg} {id : Nat} (hc : msg.createsListing = some id)
    (h : execute m env s f msg = .ok (m', out)) :
    id < MAX_SAFE_INT ∧ id ∉ m.listingUsed ∧ m'.listingUsed = id :: m.listingUsed := by
  unfold execute at h
  split at h
  · cases h
  cases msg with
  | createListing id' c =>
    simp only [ExecMsg.createsListing, Option.some.injEq] at hc; subst hc
    exact createListing_fresh h
  | receive sd a i =>
    cases i with
    | none => simp [ExecMsg.createsListing] at hc
    | some im =>
      cases im with
      | createListing id' c =>
        simp only [ExecMsg.createsListing, Option.some.injEq] at hc; subst hc
        dsimp only at h
        unfold receive at h
        dsimp only at h
        repeat' split at h
        all_goals first
          | (cases h; done)
          | exact createListing_fresh h
      | addToListing _ => simp [ExecMsg.createsListing] at hc
      | createBucket _ => simp [ExecMsg.createsListing] at hc
      | addToBucket _ => simp [ExecMsg.createsListing] at hc
  | receiveNft sd t i =>
    cases i with
    | none => simp [ExecMsg.createsListing] at hc
    | some im =>
      cases im with
      | createListing id' c =>
        simp only [ExecMsg.createsListing, Option.some.injEq] at hc; subst hc
        dsimp only at h
        unfold receiveNft at h
        dsimp only at h
        repeat' split at h
        all_goals first
          | (cases h; done)
          | exact createListingNft_fresh h
      | addToListing _ => simp [ExecMsg.createsListing] at hc
      | createBucket _ => simp [ExecMsg.createsListing] at hc
      | addToBucket _ => simp [ExecMsg.createsListing] at hc
  | _ => simp [ExecMsg.createsListing] at hc

theorem execute_createsBucket {m m' : Market} {env : Env} {s : Nat} {f : List Coin} {msg : ExecMsg}
    {out : List OutMsg} {id : Nat} (hc : msg.createsBucket = some id)
    (h : execute m env s f msg = .ok (m', out)) :
    id < MAX_SAFE_INT ∧ id ∉ m.bucketUsed ∧ m'.bucketUsed = id :: m.bucketUsed := by
  unfold execute at h
  split at h
  · cases h
  cases msg with
  | createBucket id' =>
    simp only [ExecMsg.createsBucket, Option.some.injEq] at hc; subst hc
    exact createBucket_fresh h
  | receive sd a i =>
    cases i with
    | none => simp [ExecMsg.createsBucket] at hc
    | some im =>
      cases im with
      | createBucket id' =>
        simp only [ExecMsg.createsBucket, Option.some.injEq] at hc; subst hc
        dsimp only at h
        unfold receive at h
        dsimp only at h
        repeat' split at h
        all_goals first
          | (cases h; done)
          | exact createBucket_fresh h
      | addToListing _ => simp [ExecMsg.createsBucket] at hc
      | createListing _ _ => simp [ExecMsg.createsBucket] at hc
      | addToBucket _ => simp [ExecMsg.createsBucket] at hc
  | receiveNft sd t i =>
    cases i with
    | none => simp [ExecMsg.createsBucket] at hc
    | some im =>
      cases im with
      | createBucket id' =>
        simp only [ExecMsg.createsBucket, Option.some.injEq] at hc; subst hc
        dsimp only at h
        unfold receiveNft at h
        dsimp only at h
        repeat' split at h
        all_goals first
          | (cases h; done)
          | exact createBucketNft_fresh h
      | addToListing _ => simp [ExecMsg.createsBucket] at hc
      | createListing _ _ => simp [ExecMsg.createsBucket] at hc
      | addToBucket _ => simp [ExecMsg.createsBucket] at hc
  | _ => simp [ExecMsg.createsBucket] at hc

/-! ## 8. no resurrection: a logged id without a live record stays without one -/

theorem Shape.live_l {j u : Nat} {m m' : Market} (s : Shape j u m m') {i : Nat}
    (hu : i ∈ m.listingUsed) (hl : ∃ p ∈ m'.listings, p.2.id = i) : ∃ p ∈ m.listings, p.2.id = i := by
  obtain ⟨p, hp, hi⟩ := hl
  cases s with
  | bIns c id b hf ho hw => exact ⟨p, hp, hi⟩
  | bRep k b b' hlk ho hw => exact ⟨p, hp, hi⟩
  | bDel k => exact ⟨p, hp, hi⟩
  | lIns c id l hf hc hid hw =>
    rcases mem_ainsert.1 hp with rfl | ⟨hp, _⟩
    · exfalso; apply hf; rw [← hid]; simpa using hi ▸ hu
    · exact ⟨p, hp, hi⟩
  | lRep k l l' hlk hc hid hw =>
    rcases mem_ainsert.1 hp with rfl | ⟨hp, _⟩
    · exact ⟨(k, l), alookup_some_mem hlk, by rw [← hi]; exact hid.symm⟩
    · exact ⟨p, hp, hi⟩
  | lDel k => exact ⟨p, (mem_aerase.1 hp).1, hi⟩
  | trade kl l l' kb b b' c c' hml hlb hid hc ho hw =>
    rcases mem_ainsert.1 hp with rfl | ⟨hp, _⟩
    · exact ⟨(kl, l), hml, by rw [← hi]; exact hid.symm⟩
    · exact ⟨p, (mem_aerase.1 hp).1, hi⟩
  | fee fk fs => exact ⟨p, hp, hi⟩

theorem Shape.live_b {j u : Nat} {m m' : Market} (s : Shape j u m m') {i : Nat}
    (hu : i ∈ m.bucketUsed) (hl : ∃ p ∈ m'.buckets, p.1.2 = i) : ∃ p ∈ m.buckets, p.1.2 = i := by
  obtain ⟨p, hp, hi⟩ := hl
  cases s with
  | bIns c id b hf ho hw =>
    rcases mem_ainsert.1 hp with rfl | ⟨hp, _⟩
    · dsimp only at hi; subst hi; exact absurd hu hf
    · exact ⟨p, hp, hi⟩
  | bRep k b b' hlk ho hw =>
    rcases mem_ainsert.1 hp with rfl | ⟨hp, _⟩
    · exact ⟨(k, b), alookup_some_mem hlk, hi⟩
    · exact ⟨p, hp, hi⟩
  | bDel k => exact ⟨p, (mem_aerase.1 hp).1, hi⟩
  | lIns c id l hf hc hid hw => exact ⟨p, hp, hi⟩
  | lRep k l l' hlk hc hid hw => exact ⟨p, hp, hi⟩
  | lDel k => exact ⟨p, hp, hi⟩
  | trade kl l l' kb b b' c c' hml hlb hid hc ho hw =>
    rcases mem_ainsert.1 hp with rfl | ⟨hp, _⟩
    · exact ⟨(kb, b), alookup_some_mem hlb, hi⟩
    · exact ⟨p, (mem_aerase.1 hp).1, hi⟩
  | fee fk fs => exact ⟨p, hp, hi⟩

/-! ## 9. `Nodup` of a projection -/

theorem nodup_map_of_inj {α β γ : Type} {l : List α} {f : α → β} {g : α → γ}
    (h : (l.map f).Nodup) (hi : ∀ p ∈ l, ∀ q ∈ l, g p = g q → f p = f q) : (l.map g).Nodup := by
  induction l with
  | nil => simp
  | cons a t ih =>
    simp only [List.map_cons, List.nodup_cons] at h ⊢
    refine ⟨?_, ih h.2 (fun p hp q hq => hi p (List.mem_cons_of_mem _ hp) q (List.mem_cons_of_mem _ hq))⟩
    intro hm
    obtain ⟨q, hq, e⟩ := List.mem_map.1 hm
    apply h.1
    rw [hi a List.mem_cons_self q (List.mem_cons_of_mem _ hq) e.symm]
    exact List.mem_map.2 ⟨q, hq, rfl⟩

theorem eq_of_nodup_map {α β : Type} {l : List α} {g : α → β} (h : (l.map g).Nodup)
    {p q : α} (hp : p ∈ l) (hq : q ∈ l) (e : g p = g q) : p = q := by
  induction l with
  | nil => simp at hp
  | cons a t ih =>
    simp only [List.map_cons, List.nodup_cons] at h
    rcases List.mem_cons.1 hp with rfl | hp' <;> rcases List.mem_cons.1 hq with rfl | hq'
    · rfl
    · exfalso; apply h.1; rw [e]; exact List.mem_map.2 ⟨q, hq', rfl⟩
    · exfalso; apply h.1; rw [← e]; exact List.mem_map.2 ⟨p, hp', rfl⟩
    · exact ih h.2 hp' hq'

/-! ## 10. `GenericBalanceUnvalidated::validate` -/

/-- the address a valid string denotes -/
def RawAddr.get : RawAddr → Nat
  | .valid a => a
  | .invalid => 0

def valCoin (p : RawAddr × Nat) : Coin := ⟨p.1.get, p.2⟩
def valNft (p : RawAddr × Nat) : Nft := ⟨p.1.get, p.2⟩

theorem validateCw20_spec (xs : List (RawAddr × Nat)) (c : List Coin) :
    validateCw20 xs = some c ↔
      (∀ p ∈ xs, p.1 ≠ .invalid ∧ p.2 ≠ 0) ∧ c = xs.map valCoin := by
  induction xs generalizing c with
  | nil => simp [validateCw20, eq_comm]
  | cons x xs ih =>
    obtain ⟨a, amt⟩ := x
    cases a with
    | invalid => simp [validateCw20]
    | valid a =>
      simp only [validateCw20]
      by_cases hz : amt = 0
      · simp [hz]
      · simp only [hz, if_false]
        cases hv : validateCw20 xs with
        | none =>
          simp only [List.mem_cons, List.map_cons]
          constructor
          · intro h; cases h
          · rintro ⟨h, _⟩
            have := (ih _).2 ⟨fun p hp => h p (.inr hp), rfl⟩
            rw [hv] at this; cases this
        | some r =>
          obtain ⟨h1, h2⟩ := (ih r).1 hv
          simp only [Option.some.injEq, List.mem_cons, List.map_cons]
          constructor
          · intro e
            subst e
            refine ⟨?_, by rw [h2]; rfl⟩
            rintro p (rfl | hp)
            · exact ⟨by simp, hz⟩
            · exact h1 p hp
          · rintro ⟨_, e⟩
            rw [e, h2]; rfl

theorem validateNfts_spec (xs : List (RawAddr × Nat)) (c : List Nft) :
    validateNfts xs = some c ↔ (∀ p ∈ xs, p.1 ≠ .invalid) ∧ c = xs.map valNft := by
  induction xs generalizing c with
  | nil => simp [validateNfts, eq_comm]
  | cons x xs ih =>
    obtain ⟨a, t⟩ := x
    cases a with
    | invalid => simp [validateNfts]
    | valid a =>
      simp only [validateNfts]
      cases hv : validateNfts xs with
      | none =>
        simp only [List.mem_cons, List.map_cons]
        constructor
        · intro h; cases h
        · rintro ⟨h, _⟩
          have := (ih _).2 ⟨fun p hp => h p (.inr hp), rfl⟩
          rw [hv] at this; cases this
      | some r =>
        obtain ⟨h1, h2⟩ := (ih r).1 hv
        simp only [Option.some.injEq, List.mem_cons, List.map_cons]
        constructor
        · intro e
          subst e
          refine ⟨?_, by rw [h2]; rfl⟩
          rintro p (rfl | hp)
          · simp
          · exact h1 p hp
        · rintro ⟨_, e⟩
          rw [e, h2]; rfl

theorem validateAsk_spec (r : RawGBal) (g : GBal) :
    validateAsk r = some g ↔
      (∀ p ∈ r.cw20, p.1 ≠ .invalid ∧ p.2 ≠ 0) ∧ (∀ p ∈ r.nfts, p.1 ≠ .invalid) ∧
      g = ⟨r.native, r.cw20.map valCoin, r.nfts.map valNft⟩ ∧ checkValid g = true := by
  unfold validateAsk
  cases h1 : validateCw20 r.cw20 with
  | none =>
    simp only []
    constructor
    · intro h; cases h
    · rintro ⟨a, _, _, _⟩
      have := (validateCw20_spec _ _).2 ⟨a, rfl⟩
      rw [h1] at this; cases this
  | some c =>
    obtain ⟨a1, a2⟩ := (validateCw20_spec _ _).1 h1
    cases h2 : validateNfts r.nfts with
    | none =>
      simp only []
      constructor
      · intro h; cases h
      · rintro ⟨_, b, _, _⟩
        have := (validateNfts_spec _ _).2 ⟨b, rfl⟩
        rw [h2] at this; cases this
    | some n =>
      obtain ⟨b1, b2⟩ := (validateNfts_spec _ _).1 h2
      subst a2 b2
      dsimp only
      split
      · next hv =>
        simp only [Option.some.injEq]
        constructor
        · intro e; subst e; exact ⟨a1, b1, rfl, hv⟩
        · rintro ⟨_, _, e, _⟩; exact e.symm
      · next hv =>
        constructor
        · intro h; cases h
        · rintro ⟨_, _, e, hv'⟩; subst e; exact absurd hv' hv

theorem rawAddr_get_inj {a b : RawAddr} (ha : a ≠ .invalid) (hb : b ≠ .invalid)
    (h : a.get = b.get) : a = b := by
  cases a <;> cases b <;> simp_all [RawAddr.get]

theorem keys_map_valCoin (xs : List (RawAddr × Nat)) :
    keys (xs.map valCoin) = xs.map (fun p => p.1.get) := by
  simp [keys, valCoin, List.map_map, Function.comp_def]

theorem nodup_valCoin {xs : List (RawAddr × Nat)} (hv : ∀ p ∈ xs, p.1 ≠ .invalid) :
    (keys (xs.map valCoin)).Nodup ↔ (xs.map (·.1)).Nodup := by
  rw [keys_map_valCoin]
  constructor
  · intro h
    exact nodup_map_of_inj (l := xs) (f := fun p => p.1.get) (g := fun p => p.1) h
      (fun p _ q _ e => by rw [e])
  · intro h
    exact nodup_map_of_inj (l := xs) (f := fun p => p.1) (g := fun p => p.1.get) h
      (fun p hp q hq e => rawAddr_get_inj (hv p hp) (hv q hq) e)

theorem nodup_valNft {xs : List (RawAddr × Nat)} (hv : ∀ p ∈ xs, p.1 ≠ .invalid) :
    (xs.map valNft).Nodup ↔ xs.Nodup := by
  constructor
  · intro h
    have := nodup_map_of_inj (l := xs) (f := valNft) (g := fun p => p) h (fun p _ q _ e => by rw [e])
    simpa using this
  · intro h
    have h' : (xs.map (fun p => p)).Nodup := by simpa using h
    refine nodup_map_of_inj (l := xs) (f := fun p => p) (g := valNft) h' ?_
    intro p hp q hq e
    simp only [valNft, Nft.mk.injEq] at e
    exact Prod.ext (rawAddr_get_inj (hv p hp) (hv q hq) e.1) e.2

/-! ## 11. well-formed payout messages -/

/-- a message the bank / a token contract cannot reject for being empty, zero or duplicated -/
def OutMsg.wellFormed : OutMsg → Prop
  | .bankSend _ coins => coins ≠ [] ∧ (∀ c ∈ coins, c.amount ≠ 0) ∧ (keys coins).Nodup
  | .cw20Transfer _ _ amt => amt ≠ 0
  | .nftTransfer _ _ _ => True
  | .fundPool _ c => c.amount ≠ 0

def OutMsg.bankCoins : OutMsg → Option (Nat × List Coin)
  | .bankSend to cs => some (to, cs)
  | _ => none
def OutMsg.cw20Of : OutMsg → Option (Nat × Nat × Nat)
  | .cw20Transfer t to a => some (t, to, a)
  | _ => none
def OutMsg.nftOf : OutMsg → Option (Nft × Nat)
  | .nftTransfer c t to => some (⟨c, t⟩, to)
  | _ => none
def OutMsg.poolOf : OutMsg → Option (Nat × Coin)
  | .fundPool d c => some (d, c)
  | _ => none

theorem filterMap_map_none {α β γ : Type} (f : α → β) (g : β → Option γ) (l : List α)
    (h : ∀ a, g (f a) = none) : (l.map f).filterMap g = [] := by
  induction l with
  | nil => rfl
  | cons a t ih => simp [h a, ih]

theorem filterMap_map_some {α β γ : Type} (f : α → β) (g : β → Option γ) (k : α → γ) (l : List α)
    (h : ∀ a, g (f a) = some (k a)) : (l.map f).filterMap g = l.map k := by
  induction l with
  | nil => rfl
  | cons a t ih => simp [h a, ih]

/-- the structure of `send_tokens_cosmos` -/
theorem sendTokens_parts (to : Nat) (g : GBal) :
    (sendTokens to g).filterMap OutMsg.bankCoins = (if g.native = [] then [] else [(to, g.native)]) ∧
    (sendTokens to g).filterMap OutMsg.cw20Of = g.cw20.map (fun c => (c.key, to, c.amount)) ∧
    (sendTokens to g).filterMap OutMsg.nftOf = g.nfts.map (fun n => (n, to)) ∧
    (sendTokens to g).filterMap OutMsg.poolOf = [] := by
  unfold sendTokens
  simp only [List.filterMap_append]
  rw [filterMap_map_none _ OutMsg.bankCoins g.cw20 (fun _ => rfl),
      filterMap_map_none _ OutMsg.bankCoins g.nfts (fun _ => rfl),
      filterMap_map_none _ OutMsg.cw20Of g.nfts (fun _ => rfl),
      filterMap_map_none _ OutMsg.nftOf g.cw20 (fun _ => rfl),
      filterMap_map_none _ OutMsg.poolOf g.cw20 (fun _ => rfl),
      filterMap_map_none _ OutMsg.poolOf g.nfts (fun _ => rfl),
      filterMap_map_some _ OutMsg.cw20Of (fun c => (c.key, to, c.amount)) g.cw20 (fun _ => rfl),
      filterMap_map_some _ OutMsg.nftOf (fun n => (n, to)) g.nfts (fun _ => rfl)]
  cases hn : g.native with
  | nil => simp
  | cons a t => simp [OutMsg.bankCoins, OutMsg.cw20Of, OutMsg.nftOf, OutMsg.poolOf]

theorem sendTokens_wellFormed {to : Nat} {g : GBal} (wf : wfBal g = true) :
    ∀ msg ∈ sendTokens to g, msg.wellFormed := by
  obtain ⟨w1, w2, _, w4, _, _⟩ := (wfBal_iff g).1 wf
  intro msg hm
  unfold sendTokens at hm
  rcases List.mem_append.1 hm with hm | hm
  · rcases List.mem_append.1 hm with hm | hm
    · split at hm
      · simp at hm
      · next hne =>
        simp only [List.mem_singleton] at hm
        subst hm
        exact ⟨by intro e; rw [e] at hne; simp at hne, w1, w4⟩
    · obtain ⟨c, hc, rfl⟩ := List.mem_map.1 hm
      exact w2 c hc
  · obtain ⟨n, _, rfl⟩ := List.mem_map.1 hm
    trivial

theorem withdrawMsgs_wellFormed {j u self to : Nat} {g : GBal} {fee : Option Coin}
    (wf : wfBal g = true) (wff : wfFee j u fee = true) :
    ∀ msg ∈ withdrawMsgs self to g fee, msg.wellFormed := by
  intro msg hm
  unfold withdrawMsgs at hm
  rcases List.mem_append.1 hm with hm | hm
  · exact sendTokens_wellFormed wf msg hm
  · cases fee with
    | none => simp at hm
    | some f =>
      simp only [List.mem_singleton] at hm
      subst hm
      simp only [wfFee, Bool.and_eq_true, decide_eq_true_eq] at wff
      exact wff.1

theorem withdrawMsgs_parts (self to : Nat) (g : GBal) (fee : Option Coin) :
    (withdrawMsgs self to g fee).filterMap OutMsg.bankCoins =
      (if g.native = [] then [] else [(to, g.native)]) ∧
    (withdrawMsgs self to g fee).filterMap OutMsg.cw20Of = g.cw20.map (fun c => (c.key, to, c.amount)) ∧
    (withdrawMsgs self to g fee).filterMap OutMsg.nftOf = g.nfts.map (fun n => (n, to)) ∧
    (withdrawMsgs self to g fee).filterMap OutMsg.poolOf =
      (match fee with | none => [] | some f => [(self, f)]) := by
  obtain ⟨h1, h2, h3, h4⟩ := sendTokens_parts to g
  unfold withdrawMsgs
  simp only [List.filterMap_append, h1, h2, h3, h4]
  cases fee <;> simp [OutMsg.bankCoins, OutMsg.cw20Of, OutMsg.nftOf, OutMsg.poolOf]

/-! ## 12. how many assets a top-up adds -/

theorem addCoins_length {l r cs : List Coin} (h : addCoins l cs = some r) (nd : (keys cs).Nodup) :
    r.length = l.length + ((keys cs).filter (fun k => decide (k ∉ keys l))).length := by
  induction cs generalizing l with
  | nil => simp only [addCoins, Option.some.injEq] at h; subst h; simp [keys]
  | cons c cs ih =>
    have e2 : keys (c :: cs) = c.key :: keys cs := rfl
    rw [e2, List.nodup_cons] at nd
    simp only [addCoins] at h
    split at h
    · cases h
    · next l' hl' =>
      have hk := addCoin_keys hl'
      have hlen := congrArg List.length hk
      rw [keys_length] at hlen
      rw [ih h nd.2, e2]
      by_cases hc : c.key ∈ keys l
      · rw [if_pos hc] at hk hlen
        rw [keys_length] at hlen
        rw [List.filter_cons_of_neg (by simpa using hc), hk, hlen]
      · rw [if_neg hc] at hk hlen
        rw [List.length_append, keys_length] at hlen
        rw [List.filter_cons_of_pos (by simpa using hc), hlen]
        have : (keys cs).filter (fun k => decide (k ∉ keys l')) =
            (keys cs).filter (fun k => decide (k ∉ keys l)) := by
          apply List.filter_congr
          intro x hx
          have hne : x ≠ c.key := fun e => nd.1 (e ▸ hx)
          rw [hk]
          simp [hne]
        rw [this]
        simp only [List.length_cons, List.length_nil]
        omega

theorem addCoin_length {l r : List Coin} {c : Coin} (h : addCoin l c = some r) :
    r.length = l.length + (if c.key ∈ keys l then 0 else 1) := by
  have hlen := congrArg List.length (addCoin_keys h)
  rw [keys_length] at hlen
  rw [hlen]
  split
  · rw [keys_length]; rfl
  · rw [List.length_append, keys_length]; rfl

/-- the denominations / the token a deposit brings that the balance does not hold yet -/
def Funds.newAssets (g : GBal) : Funds → Nat
  | .native cs => ((keys cs).filter (fun k => decide (k ∉ keys g.native))).length
  | .cw20 c => if c.key ∈ keys g.cw20 then 0 else 1

/-- after `add_tokens` the asset count has grown by exactly the number of new denominations (resp.
    by one for a new token) -/
theorem addTokens_count {g nf : GBal} {funds : Funds} (hn : normalizedCheck funds = true)
    (h : addTokens g funds = some nf) : nf.count = g.count + funds.newAssets g := by
  cases funds with
  | native cs =>
    simp only [addTokens] at h
    split at h
    · cases h
    · next n hn' =>
      cases h
      simp only [normalizedCheck, Bool.and_eq_true, decide_eq_true_eq] at hn
      simp only [GBal.count, Funds.newAssets, addCoins_length hn' hn.2]
      omega
  | cw20 c =>
    simp only [addTokens] at h
    split at h
    · cases h
    · next n hn' =>
      cases h
      simp only [GBal.count, Funds.newAssets, addCoin_length hn']
      omega

/-! ## 13. the messages of every handler -/

/-- closes `h : handler … = .ok (m', out) ⊢ out = []` once the handler is unfolded in `h` -/
syntax "out_nil " ident : tactic
macro_rules
  | `(tactic| out_nil $h:ident) => `(tactic| (
      try dsimp only at $h:ident
      repeat' split at $h:ident
      all_goals first
        | (cases $h:ident; done)
        | (simp only [Except.ok.injEq, Prod.mk.injEq] at $h:ident
           obtain ⟨_, ho⟩ := $h:ident
           exact ho.symm)))

section outs
variable {m m' : Market} {out : List OutMsg}

theorem createBucket_out {funds : Funds} {creator id : Nat}
    (h : createBucket m funds creator id = .ok (m', out)) : out = [] := by
  unfold createBucket at h; out_nil h
theorem createBucketNft_out {user : Nat} {nft : Nft} {id : Nat}
    (h : createBucketNft m user nft id = .ok (m', out)) : out = [] := by
  unfold createBucketNft at h; out_nil h
theorem addToBucket_out {funds : Funds} {sender id : Nat}
    (h : addToBucket m funds sender id = .ok (m', out)) : out = [] := by
  unfold addToBucket at h; out_nil h
theorem addToBucketNft_out {user : Nat} {nft : Nft} {id : Nat}
    (h : addToBucketNft m user nft id = .ok (m', out)) : out = [] := by
  unfold addToBucketNft at h; out_nil h
theorem createListing_out {user : Nat} {funds : Funds} {c : CreateMsg} {id : Nat}
    (h : createListing m user funds c id = .ok (m', out)) : out = [] := by
  unfold createListing at h; out_nil h
theorem createListingNft_out {user : Nat} {nft : Nft} {c : CreateMsg} {id : Nat}
    (h : createListingNft m user nft c id = .ok (m', out)) : out = [] := by
  unfold createListingNft at h; out_nil h
theorem changeAsk_out {user id : Nat} {newAsk : RawGBal}
    (h : changeAsk m user id newAsk = .ok (m', out)) : out = [] := by
  unfold changeAsk at h; out_nil h
theorem addToListing_out {funds : Funds} {user id : Nat}
    (h : addToListing m funds user id = .ok (m', out)) : out = [] := by
  unfold addToListing at h; out_nil h
theorem addToListingNft_out {user : Nat} {nft : Nft} {id : Nat}
    (h : addToListingNft m user nft id = .ok (m', out)) : out = [] := by
  unfold addToListingNft at h; out_nil h
theorem finalize_out {env : Env} {sender id seconds : Nat}
    (h : finalize m env sender id seconds = .ok (m', out)) : out = [] := by
  unfold finalize at h; out_nil h
theorem cycleFee_out {env : Env} (h : cycleFee m env = .ok (m', out)) : out = [] := by
  unfold cycleFee at h; out_nil h

theorem receive_out {env : Env} {caller : Nat} {funds : List Coin} {sender : RawAddr} {amount : Nat}
    {inner : Option Inner} (h : receive m env caller funds sender amount inner = .ok (m', out)) :
    out = [] := by
  unfold receive at h
  repeat' split at h
  all_goals first
    | contradiction
    | exact createListing_out h
    | exact addToListing_out h
    | exact createBucket_out h
    | exact addToBucket_out h

theorem receiveNft_out {env : Env} {caller : Nat} {funds : List Coin} {sender : RawAddr} {tid : Nat}
    {inner : Option Inner} (h : receiveNft m env caller funds sender tid inner = .ok (m', out)) :
    out = [] := by
  unfold receiveNft at h
  repeat' split at h
  all_goals first
    | contradiction
    | exact createListingNft_out h
    | exact addToListingNft_out h
    | exact createBucketNft_out h
    | exact addToBucketNft_out h

end outs

theorem royalties_wellFormed {g g' : GBal} {resp : List (Option RoyaltyInfo)} {ms : List OutMsg}
    {s : Nat} (h : royalties g resp = .ok g' ms s) : ∀ x ∈ ms, x.wellFormed := by
  obtain ⟨_, _, _, hm, _, _⟩ := royalties_closed h
  subst hm
  intro x hx
  rcases List.mem_append.1 hx with hx | hx
  · obtain ⟨c, _, hx⟩ := List.mem_flatMap.1 hx
    unfold royMsgs at hx
    obtain ⟨p, hp, rfl⟩ := List.mem_map.1 hx
    obtain ⟨r, _, rfl, hz⟩ := royPays_mem hp
    simpa [mkBank, OutMsg.wellFormed, keys] using hz
  · obtain ⟨c, _, hx⟩ := List.mem_flatMap.1 hx
    unfold royMsgs at hx
    obtain ⟨p, hp, rfl⟩ := List.mem_map.1 hx
    obtain ⟨r, _, rfl, hz⟩ := royPays_mem hp
    simpa [mkCw20, OutMsg.wellFormed] using hz

theorem sideRoyalties_wellFormed {env : Env} {ra : Nat} {cols : List Nat} {bal g : GBal}
    {ms : List OutMsg} {s : Nat} (h : sideRoyalties env ra cols bal = .ok g ms s) :
    ∀ x ∈ ms, x.wellFormed := by
  unfold sideRoyalties at h
  split at h
  · cases h; simp
  · split at h
    · cases h
    · exact royalties_wellFormed h

/-- the messages of a purchase: the pending fee of the paying bucket (repair of D1), then the
    royalty payouts of both sides -/
theorem buy_out {m m' : Market} {out : List OutMsg} {env : Env} {buyer lid bid : Nat}
    (h : buy m env buyer lid bid = .ok (m', out)) :
    ∃ b msgs1 msgs2, alookup (buyer, bid) m.buckets = some b ∧
      out = (match b.fee with | some f => [OutMsg.fundPool env.self f] | none => []) ++ msgs1 ++ msgs2 ∧
      (∀ x ∈ msgs1, x.wellFormed) ∧ (∀ x ∈ msgs2, x.wellFormed) := by
  unfold buy at h
  split at h
  · cases h
  rename_i b hb
  split at h
  · cases h
  rename_i k l hl
  repeat' split at h
  all_goals first | (cases h; done) | skip
  all_goals
    have hr1 := ‹sideRoyalties _ _ (collections l.forSale) _ = RoyRes.ok _ _ _›
    have hr2 := ‹sideRoyalties _ _ (collections b.funds) _ = RoyRes.ok _ _ _›
    simp only [Except.ok.injEq, Prod.mk.injEq] at h
    obtain ⟨_, rfl⟩ := h
    refine ⟨b, _, _, hb, ?_, sideRoyalties_wellFormed hr1, sideRoyalties_wellFormed hr2⟩
    first
      | (have hf := ‹b.fee = some _›; rw [hf])
      | (have hf := ‹b.fee = none›; rw [hf])

end Fuzion
