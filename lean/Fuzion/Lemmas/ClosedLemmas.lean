/-
  Fuzion.Lemmas.ClosedLemmas — helpers shared by the `CxxClosed` property files, which discharge
  the state-invariant hypotheses of already proved property theorems from *reachability*:
  `w0.mkt = instantiate t r` and `w = run w0 ops`.

  Contents
  * §1 frame facts along `run` (`self`, `pool`, denominations) and the two invariants of C09 / C12
    in the form in which the closed corollaries use them;
  * §2 the clock: `Op.elapseNs`, `closed_elapsed`, `run` adds exactly the elapsed nanoseconds;
    the world predicate `TimeOk` (block time in nanoseconds is a `u64`) and its preservation;
    the fee time stamp never runs ahead of the clock from instantiation on;
  * §3 128-bit amounts: `Op.fits128` (every amount carried by an operation is a `Uint128` — in
    the Rust this is the type of the message field), `BoundedInv` (every stored balance holds
    128-bit amounts) and its preservation by every accepted message, every step, every history.
-/
import Fuzion.Props.C09
import Fuzion.Props.C12
import Fuzion.Props.C13
import Fuzion.Lemmas.TradeLemmas
import Fuzion.Lemmas.ExitLemmas
namespace Fuzion

/-! ## §1 frame facts and invariants along `run` -/

/-- no operation changes the marketplace's own address or the community-pool address -/
theorem closed_stepF_addrs (fail : Nat → Bool) (w : World) (op : Op) :
    (stepF fail w op).1.self = w.self ∧ (stepF fail w op).1.pool = w.pool := by
  cases ho : op.asExec with
  | some t =>
    obtain ⟨c, f, msg⟩ := t
    rcases stepF_market (fail := fail) (w := w) ho with ⟨e, h⟩ | ⟨m', msgs, w2, _, _, hc, h⟩
    · rw [h]; exact ⟨rfl, rfl⟩
    · rw [h]; exact ⟨hc.self, hc.pool⟩
  | none =>
    cases op with
    | exec s fu m => simp [Op.asExec] at ho
    | send20 t s a i => simp [Op.asExec] at ho
    | send721 co s t i => simp [Op.asExec] at ho
    | royalty s m =>
      rcases stepF_royalty fail w s m with ⟨e, _, h⟩ | ⟨r, _, h⟩ <;> rw [h] <;> exact ⟨rfl, rfl⟩
    | setAdmin s c n =>
      simp only [stepF]
      repeat' split
      all_goals exact ⟨rfl, rfl⟩
    | advance a b => exact ⟨rfl, rfl⟩

/-- … along any history -/
theorem closed_run_addrs (w : World) (ops : List Op) :
    (run w ops).self = w.self ∧ (run w ops).pool = w.pool := by
  induction ops generalizing w with
  | nil => exact ⟨rfl, rfl⟩
  | cons op ops ih =>
    have h1 := ih (step w op).1
    have h2 := closed_stepF_addrs noFault w op
    simp only [run]
    exact ⟨h1.1.trans h2.1, h1.2.trans h2.2⟩

/-- `IdsInv` in every state reached from instantiation (= `C09_reach`) -/
theorem closed_ids {w0 : World} {t : Nat} {r : Option Nat} (h0 : w0.mkt = instantiate t r)
    (ops : List Op) : IdsInv (run w0 ops).mkt := C09_reach h0 ops

/-- `WFInv` in every state reached from instantiation, for the initial denominations
    (= `C12_reach`) -/
theorem closed_wf0 {w0 : World} {t : Nat} {r : Option Nat} (h0 : w0.mkt = instantiate t r)
    (ops : List Op) : WFInv w0.junoD w0.usdcD (run w0 ops).mkt := C12_reach h0 ops

/-- … and for the denominations of the reached world (they are the same) -/
theorem closed_wf {w0 : World} {t : Nat} {r : Option Nat} (h0 : w0.mkt = instantiate t r)
    (ops : List Op) :
    WFInv (run w0 ops).junoD (run w0 ops).usdcD (run w0 ops).mkt := by
  rw [(run_denoms w0 ops).1, (run_denoms w0 ops).2]
  exact C12_reach h0 ops

/-- every stored listing of a reached state is well-formed -/
theorem closed_wfListing {w0 : World} {t : Nat} {r : Option Nat} (h0 : w0.mkt = instantiate t r)
    (ops : List Op) {k : Nat × Nat} {l : Listing} (hm : (k, l) ∈ (run w0 ops).mkt.listings) :
    wfListing w0.junoD w0.usdcD k l = true :=
  (closed_wf0 h0 ops).lwf (k, l) hm

/-! ## §2 the clock -/

/-- the nanoseconds an operation adds to the block time: only `advance` moves the clock -/
def Op.elapseNs : Op → Nat
  | .advance dNs _ => dNs
  | _ => 0

/-- total nanoseconds by which a history advances the block time -/
def closed_elapsed (ops : List Op) : Nat := (ops.map Op.elapseNs).sum

theorem closed_elapsed_nil : closed_elapsed [] = 0 := rfl

theorem closed_elapsed_cons (op : Op) (ops : List Op) :
    closed_elapsed (op :: ops) = op.elapseNs + closed_elapsed ops := by
  simp [closed_elapsed]

theorem closed_elapsed_append (a b : List Op) :
    closed_elapsed (a ++ b) = closed_elapsed a + closed_elapsed b := by
  simp [closed_elapsed]

/-- one transaction adds exactly `op.elapseNs` to the clock -/
theorem closed_stepF_nowNs (fail : Nat → Bool) (w : World) (op : Op) :
    (stepF fail w op).1.nowNs = w.nowNs + op.elapseNs := by
  cases op with
  | advance a b => rfl
  | exec s fu m =>
    rcases stepF_nowNs fail w (.exec s fu m) with h | ⟨d, e, h, _⟩
    · rw [h]; rfl
    · cases h
  | send20 t s a i =>
    rcases stepF_nowNs fail w (.send20 t s a i) with h | ⟨d, e, h, _⟩
    · rw [h]; rfl
    · cases h
  | send721 co s t i =>
    rcases stepF_nowNs fail w (.send721 co s t i) with h | ⟨d, e, h, _⟩
    · rw [h]; rfl
    · cases h
  | royalty s m =>
    rcases stepF_nowNs fail w (.royalty s m) with h | ⟨d, e, h, _⟩
    · rw [h]; rfl
    · cases h
  | setAdmin s c n =>
    rcases stepF_nowNs fail w (.setAdmin s c n) with h | ⟨d, e, h, _⟩
    · rw [h]; rfl
    · cases h

/-- a history adds exactly `closed_elapsed ops` to the clock -/
theorem closed_run_nowNs (w : World) (ops : List Op) :
    (run w ops).nowNs = w.nowNs + closed_elapsed ops := by
  induction ops generalizing w with
  | nil => rfl
  | cons op ops ih =>
    simp only [run]
    rw [ih, closed_elapsed_cons]
    show (stepF noFault w op).1.nowNs + _ = _
    rw [closed_stepF_nowNs]
    omega

/-- time only moves forward -/
theorem closed_nowNs_mono (w : World) (ops : List Op) : w.nowNs ≤ (run w ops).nowNs := by
  rw [closed_run_nowNs]; omega

/-- a lower bound on the block time in seconds holds forever -/
theorem closed_secs_mono (w : World) (ops : List Op) {n : Nat} (h : n ≤ w.nowNs / NS) :
    n ≤ (run w ops).nowNs / NS :=
  Nat.le_trans h (Nat.div_le_div_right (closed_nowNs_mono w ops))

/-- **the block time is a `u64` number of nanoseconds** (cosmwasm `Timestamp(Uint64)`).  The
    model's clock is an unbounded natural, so this is a predicate on worlds. -/
def TimeOk (w : World) : Prop := w.nowNs ≤ U64MAX

instance (w : World) : Decidable (TimeOk w) := by unfold TimeOk; exact inferInstance

/-- then the block time in seconds is a `u64` too (the Rust's `env.block.time.seconds()`) -/
theorem TimeOk.secs {w : World} (h : TimeOk w) : w.nowNs / NS ≤ U64MAX :=
  Nat.le_trans (Nat.div_le_self _ _) h

/-- … and in fact at most 18 446 744 073 -/
theorem TimeOk.secs_small {w : World} (h : TimeOk w) : w.nowNs / NS ≤ 18446744073 := by
  unfold TimeOk U64MAX at h
  simp only [NS]
  omega

/-- `TimeOk` is preserved by an operation that keeps the clock within a `u64`; every operation
    other than `advance` does (`elapseNs = 0`) -/
theorem TimeOk_step {w : World} (op : Op) (h : w.nowNs + op.elapseNs ≤ U64MAX) :
    TimeOk (step w op).1 := by
  show (stepF noFault w op).1.nowNs ≤ U64MAX
  rw [closed_stepF_nowNs]; exact h

theorem TimeOk_step_of_not_advance {w : World} (op : Op) (hw : TimeOk w) (h : op.elapseNs = 0) :
    TimeOk (step w op).1 :=
  TimeOk_step op (by rw [h]; exact hw)

/-- `TimeOk` along a history whose `advance` operations keep the clock within a `u64` (an
    input-side condition: the model's `advance` is unbounded) -/
theorem TimeOk_run {w : World} (ops : List Op) (h : w.nowNs + closed_elapsed ops ≤ U64MAX) :
    TimeOk (run w ops) := by
  show (run w ops).nowNs ≤ U64MAX
  rw [closed_run_nowNs]; exact h

/-- … and then in every intermediate state as well -/
theorem TimeOk_run_prefix {w : World} (a b : List Op)
    (h : w.nowNs + closed_elapsed (a ++ b) ≤ U64MAX) : TimeOk (run w a) := by
  rw [closed_elapsed_append] at h
  exact TimeOk_run a (by omega)

/-- the hypothesis of `TimeOk_run` in the per-operation form "every `advance` keeps the clock
    within a `u64`": it is equivalent to `TimeOk` of every intermediate state. -/
theorem TimeOk_run_iff {w : World} (ops : List Op) :
    w.nowNs + closed_elapsed ops ≤ U64MAX ↔ ∀ k, TimeOk (run w (ops.take k)) := by
  constructor
  · intro h k
    have : w.nowNs + closed_elapsed (ops.take k ++ ops.drop k) ≤ U64MAX := by
      rw [List.take_append_drop]; exact h
    exact TimeOk_run_prefix _ _ this
  · intro h
    have := h ops.length
    rw [List.take_length] at this
    have e : (run w ops).nowNs ≤ U64MAX := this
    rw [closed_run_nowNs] at e
    exact e

/-- **the fee time stamp never runs ahead of the clock**: `instantiate t r` stamps `t / NS`
    (Model/Market.lean), `cycleFee` stamps the current block second, nothing else writes the
    stamp, and the clock only moves forward.  `ht`: the contract was not instantiated in the
    future of the initial world (the model leaves `t` free). -/
theorem closed_since_le {w0 : World} {t : Nat} {r : Option Nat} (h0 : w0.mkt = instantiate t r)
    (ht : t ≤ w0.nowNs) (ops : List Op) :
    t / NS ≤ (run w0 ops).mkt.feeSince ∧
    (run w0 ops).mkt.feeSince ≤ (run w0 ops).nowNs / NS := by
  have hs : w0.mkt.feeSince = t / NS := by rw [h0]; rfl
  have hinv : w0.mkt.feeSince ≤ w0.nowNs / NS := by
    rw [hs]; exact Nat.div_le_div_right ht
  have := C13_monotone_since hinv ops
  rw [hs] at this
  exact this

/-- under `TimeOk` and `feeSince ≤ now` none of the saturating `u64` additions around the fee
    stamp saturates -/
theorem closed_no_saturation {w : World} (hT : TimeOk w) (hs : w.mkt.feeSince ≤ w.nowNs / NS) :
    w.mkt.feeSince + WEEK + 1 ≤ U64MAX := by
  have := hT.secs_small
  simp only [WEEK, U64MAX]
  omega

/-! ## §3 128-bit amounts

The model's amounts are unbounded naturals; the Rust's are `Uint128`s.  `GBal.bounded`
(Lemmas/Arith.lean) says that a stored balance holds 128-bit amounts only; the purchase theorems of
C06 assume it of every stored record.  It is an invariant of every history whose *operations*
carry 128-bit amounts only (`Op.fits128`: in the Rust this is the type of the `amount` fields of
`Coin` and `Cw20ReceiveMsg`, so it cannot be violated by any message) — creations store the
deposit, top-ups abort on overflow (`add_tokens`), and a purchase only subtracts. -/

/-- every amount of a fungible deposit is a `Uint128` -/
def Funds.fits128 : Funds → Prop
  | .native cs => ∀ c ∈ cs, c.amount ≤ U128MAX
  | .cw20 c => c.amount ≤ U128MAX

/-- the amount a `Receive` hook message reports is a `Uint128` (no other message carries an amount
    that is stored as goods; asks are not goods) -/
def ExecMsg.fits128 : ExecMsg → Prop
  | .receive _ amount _ => amount ≤ U128MAX
  | _ => True

/-- every amount the operation carries — attached coins, the amount of a CW20 `Send`, the amount
    a (possibly forged) `Receive` hook call reports — is a `Uint128` -/
def Op.fits128 : Op → Prop
  | .exec _ funds msg => (∀ c ∈ funds, c.amount ≤ U128MAX) ∧ msg.fits128
  | .send20 _ _ amount _ => amount ≤ U128MAX
  | _ => True

instance (msg : ExecMsg) : Decidable msg.fits128 := by
  cases msg <;> simp only [ExecMsg.fits128] <;> exact inferInstance

instance (op : Op) : Decidable op.fits128 := by
  cases op <;> simp only [Op.fits128] <;> exact inferInstance

abbrev closed_LB : (Nat × Nat) × Listing → Prop := fun p => p.2.forSale.bounded
abbrev closed_BB : (Nat × Nat) × Bucket → Prop := fun p => p.2.funds.bounded

/-- every stored balance — the goods of every listing, the funds of every bucket — holds 128-bit
    amounts only -/
structure BoundedInv (m : Market) : Prop where
  lb : ∀ p ∈ m.listings, p.2.forSale.bounded
  bb : ∀ p ∈ m.buckets, p.2.funds.bounded

theorem BoundedInv.init (t : Nat) (r : Option Nat) : BoundedInv (instantiate t r) :=
  ⟨fun _ hp => (by cases hp), fun _ hp => (by cases hp)⟩

theorem closed_fromBalance_bounded {F : Funds} (hF : F.fits128) : (fromBalance F).bounded := by
  cases F with
  | native cs => exact ⟨hF, fun c hc => (by cases hc)⟩
  | cw20 c =>
    refine ⟨fun c' hc' => (by cases hc'), fun c' hc' => ?_⟩
    simp only [fromBalance, List.mem_singleton] at hc'
    subst hc'
    exact hF

theorem closed_fromNft_bounded (n : Nft) : (fromNft n).bounded :=
  ⟨fun _ hc => (by cases hc), fun _ hc => (by cases hc)⟩

theorem closed_addCoin_bounded {c : Coin} (hc : c.amount ≤ U128MAX) :
    ∀ {l l' : List Coin}, (∀ x ∈ l, x.amount ≤ U128MAX) → addCoin l c = some l' →
      ∀ x ∈ l', x.amount ≤ U128MAX := by
  intro l
  induction l with
  | nil =>
    intro l' _ h x hx
    simp only [addCoin, Option.some.injEq] at h
    subst h
    simp only [List.mem_singleton] at hx
    subst hx
    exact hc
  | cons y ys ih =>
    intro l' hl h x hx
    simp only [addCoin] at h
    split at h
    · split at h
      · rename_i hle
        simp only [Option.some.injEq] at h
        subst h
        rcases List.mem_cons.1 hx with rfl | hx
        · exact hle
        · exact hl x (List.mem_cons_of_mem _ hx)
      · cases h
    · split at h
      · cases h
      · rename_i r hr
        simp only [Option.some.injEq] at h
        subst h
        rcases List.mem_cons.1 hx with rfl | hx
        · exact hl _ (List.mem_cons_self ..)
        · exact ih (fun x hx => hl x (List.mem_cons_of_mem _ hx)) hr x hx

theorem closed_addCoins_bounded : ∀ {cs l l' : List Coin}, (∀ c ∈ cs, c.amount ≤ U128MAX) →
    (∀ x ∈ l, x.amount ≤ U128MAX) → addCoins l cs = some l' → ∀ x ∈ l', x.amount ≤ U128MAX := by
  intro cs
  induction cs with
  | nil =>
    intro l l' _ hl h
    simp only [addCoins, Option.some.injEq] at h
    subst h
    exact hl
  | cons c cs ih =>
    intro l l' hcs hl h
    simp only [addCoins] at h
    split at h
    · cases h
    · rename_i l1 h1
      exact ih (fun c hc => hcs c (List.mem_cons_of_mem _ hc))
        (closed_addCoin_bounded (hcs c (List.mem_cons_self ..)) hl h1) h

/-- `add_tokens` keeps 128-bit amounts: it aborts on overflow -/
theorem closed_addTokens_bounded {g nf : GBal} {F : Funds} (hg : g.bounded) (hF : F.fits128)
    (h : addTokens g F = some nf) : nf.bounded := by
  cases F with
  | native cs =>
    simp only [addTokens] at h
    split at h
    · cases h
    · rename_i n hn
      simp only [Option.some.injEq] at h
      subst h
      exact ⟨closed_addCoins_bounded hF hg.1 hn, hg.2⟩
  | cw20 c =>
    simp only [addTokens] at h
    split at h
    · cases h
    · rename_i n hn
      simp only [Option.some.injEq] at h
      subst h
      exact ⟨hg.1, closed_addCoin_bounded hF hg.2 hn⟩

theorem closed_addNft_bounded {g : GBal} (hg : g.bounded) (n : Nft) : (addNft g n).bounded :=
  ⟨hg.1, hg.2⟩

theorem closed_sideRoyalties_bounded {env : Env} {ra : Nat} {cols : List Nat} {bal g : GBal}
    {ms : List OutMsg} {s : Nat} (h : sideRoyalties env ra cols bal = .ok g ms s)
    (hb : bal.bounded) : g.bounded := by
  unfold sideRoyalties at h
  split at h
  · cases h; exact hb
  · split at h
    · cases h
    · exact (C17_roy_bounded hb h).1

/-- a deposit keeps `BoundedInv` if the deposit itself holds 128-bit amounts and a top-up keeps
    them -/
theorem DepositRecords.closed_bounded {m m' : Market} {x : Nat} {g0 : GBal}
    {P : GBal → GBal → Prop} {i : Inner} (h : DepositRecords m m' x g0 P i) (hB : BoundedInv m)
    (h0 : g0.bounded) (hP : ∀ g nf, P g nf → g.bounded → nf.bounded) : BoundedInv m' := by
  cases i with
  | createBucket id =>
    obtain ⟨_, _, rfl⟩ := h
    exact ⟨hB.lb, forall_mem_ainsert (P := closed_BB) hB.bb h0⟩
  | addToBucket id =>
    obtain ⟨r, nf, h1, _, h3, rfl⟩ := h
    have := hB.bb _ (alookup_some_mem h1)
    exact ⟨hB.lb, forall_mem_ainsert (P := closed_BB) hB.bb (hP _ _ h3 this)⟩
  | createListing id c =>
    obtain ⟨wl, ask, _, _, _, _, rfl⟩ := h
    exact ⟨forall_mem_ainsert (P := closed_LB) hB.lb h0, hB.bb⟩
  | addToListing id =>
    obtain ⟨l, nf, h1, _, _, _, h5, rfl⟩ := h
    have := hB.lb _ (alookup_some_mem h1)
    exact ⟨forall_mem_ainsert (P := closed_LB) hB.lb (hP _ _ h5 this), hB.bb⟩

theorem closed_depositFunds_bounded {m m' : Market} {F : Funds} {x : Nat} {i : Inner}
    {out : List OutMsg} (h : depositFunds m F x i = .ok (m', out)) (hB : BoundedInv m)
    (hF : F.fits128) : BoundedInv m' :=
  (depositFunds_spec h).2.2.closed_bounded hB (closed_fromBalance_bounded hF)
    (fun _ _ hP hg => closed_addTokens_bounded hg hF hP)

theorem closed_depositNft_bounded {m m' : Market} {n : Nft} {x : Nat} {i : Inner}
    {out : List OutMsg} (h : depositNft m n x i = .ok (m', out)) (hB : BoundedInv m) :
    BoundedInv m' :=
  (depositNft_spec h).2.closed_bounded hB (closed_fromNft_bounded n)
    (fun g nf hP hg => by rw [hP]; exact closed_addNft_bounded hg n)

/-- **Every accepted message preserves `BoundedInv`**, provided the attached coins and the amount
    a hook call reports are 128-bit amounts. -/
theorem closed_bounded_execute {m m' : Market} {env : Env} {s : Nat} {f : List Coin}
    {msg : ExecMsg} {out : List OutMsg} (h : execute m env s f msg = .ok (m', out))
    (hB : BoundedInv m) (hf : ∀ c ∈ f, c.amount ≤ U128MAX) (hmsg : msg.fits128) :
    BoundedInv m' := by
  have h' := execute_ok_handler h
  cases msg with
  | feeCycle =>
    simp only at h'
    unfold cycleFee at h'
    dsimp only at h'
    obtain ⟨_, h'⟩ := ite_err_ok h'
    simp only [Except.ok.injEq, Prod.mk.injEq] at h'
    obtain ⟨rfl, _⟩ := h'
    exact ⟨hB.lb, hB.bb⟩
  | receive sd a i =>
    simp only at h'
    obtain ⟨x, i', rfl, rfl, hd⟩ := receive_ok_deposit h'
    exact closed_depositFunds_bounded hd hB hmsg
  | receiveNft sd t i =>
    simp only at h'
    obtain ⟨x, i', rfl, rfl, hd⟩ := receiveNft_ok_deposit h'
    exact closed_depositNft_bounded hd hB
  | createListing id c =>
    exact closed_depositFunds_bounded (i := .createListing id c) h' hB hf
  | addToListing id =>
    exact closed_depositFunds_bounded (i := .addToListing id) h' hB hf
  | createBucket id =>
    exact closed_depositFunds_bounded (i := .createBucket id) h' hB hf
  | addToBucket id =>
    exact closed_depositFunds_bounded (i := .addToBucket id) h' hB hf
  | changeAsk id ask =>
    simp only at h'
    unfold changeAsk at h'
    split at h'
    · cases h'
    rename_i l hl
    obtain ⟨_, h'⟩ := ite_err_ok h'
    obtain ⟨_, h'⟩ := ite_err_ok h'
    obtain ⟨_, h'⟩ := ite_err_ok h'
    obtain ⟨_, h'⟩ := ite_err_ok h'
    split at h'
    · cases h'
    simp only [Except.ok.injEq, Prod.mk.injEq] at h'
    obtain ⟨rfl, _⟩ := h'
    have t := hB.lb _ (alookup_some_mem hl)
    exact ⟨forall_mem_ainsert (P := closed_LB) hB.lb t, hB.bb⟩
  | finalize id sec =>
    simp only at h'
    unfold finalize at h'
    split at h'
    · cases h'
    rename_i l hl
    obtain ⟨_, h'⟩ := ite_err_ok h'
    obtain ⟨_, h'⟩ := ite_err_ok h'
    obtain ⟨_, h'⟩ := ite_err_ok h'
    obtain ⟨_, h'⟩ := ite_err_ok h'
    obtain ⟨_, h'⟩ := ite_err_ok h'
    dsimp only at h'
    simp only [Except.ok.injEq, Prod.mk.injEq] at h'
    obtain ⟨rfl, _⟩ := h'
    have t := hB.lb _ (alookup_some_mem hl)
    exact ⟨forall_mem_ainsert (P := closed_LB) hB.lb t, hB.bb⟩
  | deleteListing id =>
    obtain ⟨_, _, _, _, _, rfl, _⟩ := deleteListing_spec h'
    exact ⟨forall_mem_aerase (P := closed_LB) hB.lb _, hB.bb⟩
  | removeBucket id =>
    obtain ⟨_, _, _, rfl, _⟩ := withdrawBucket_spec h'
    exact ⟨hB.lb, forall_mem_aerase (P := closed_BB) hB.bb _⟩
  | withdrawPurchased lid =>
    obtain ⟨_, _, _, _, _, rfl, _⟩ := withdrawPurchased_spec h'
    exact ⟨forall_mem_aerase (P := closed_LB) hB.lb _, hB.bb⟩
  | buy lid bid =>
    obtain ⟨k, l, b, lfee, lbal, bfee, bbal, ra, fb, msgs1, s1, fl, msgs2, s2, hb, hl, _, _, e1, e2, _,
      hr1, hr2, rfl, _⟩ := buy_ok_inv h'
    have hL := hB.lb _ (findById_some hl).2
    have hBk := hB.bb _ (alookup_some_mem hb)
    exact ⟨forall_mem_ainsert (P := closed_LB)
        (forall_mem_aerase (P := closed_LB) hB.lb _)
        (closed_sideRoyalties_bounded hr2 (C17_fee_bounded hL e1).1),
      forall_mem_ainsert (P := closed_BB)
        (forall_mem_aerase (P := closed_BB) hB.bb _)
        (closed_sideRoyalties_bounded hr1 (C17_fee_bounded hBk e2).1)⟩

/-- what `Op.fits128` says about the marketplace call the operation amounts to -/
theorem closed_fits128_asExec {op : Op} {c : Nat} {f : List Coin} {msg : ExecMsg}
    (hop : op.fits128) (ho : op.asExec = some (c, f, msg)) :
    (∀ x ∈ f, x.amount ≤ U128MAX) ∧ msg.fits128 := by
  cases op with
  | exec s fu m =>
    simp only [Op.asExec, Option.some.injEq, Prod.mk.injEq] at ho
    obtain ⟨_, rfl, rfl⟩ := ho
    exact hop
  | send20 t s a i =>
    simp only [Op.asExec, Option.some.injEq, Prod.mk.injEq] at ho
    obtain ⟨_, rfl, rfl⟩ := ho
    exact ⟨fun _ hx => (by cases hx), hop⟩
  | send721 co s t i =>
    simp only [Op.asExec, Option.some.injEq, Prod.mk.injEq] at ho
    obtain ⟨_, rfl, rfl⟩ := ho
    exact ⟨fun _ hx => (by cases hx), trivial⟩
  | royalty s m => simp [Op.asExec] at ho
  | setAdmin s c n => simp [Op.asExec] at ho
  | advance a b => simp [Op.asExec] at ho

/-- every transaction that carries 128-bit amounts preserves `BoundedInv` -/
theorem closed_bounded_step {w : World} (op : Op) (hB : BoundedInv w.mkt) (hop : op.fits128) :
    BoundedInv (step w op).1.mkt := by
  unfold step
  rcases stepF_mkt_cases noFault w op with h | ⟨c, f, msg, m', msgs, ho, hx, hm, _⟩
  · rw [h]; exact hB
  · rw [hm]
    obtain ⟨h1, h2⟩ := closed_fits128_asExec hop ho
    exact closed_bounded_execute hx hB h1 h2

theorem closed_bounded_run {w : World} (hB : BoundedInv w.mkt) (ops : List Op)
    (hops : ∀ op ∈ ops, op.fits128) : BoundedInv (run w ops).mkt := by
  induction ops generalizing w with
  | nil => exact hB
  | cons op ops ih =>
    exact ih (closed_bounded_step op hB (hops op (List.mem_cons_self ..)))
      (fun o ho => hops o (List.mem_cons_of_mem _ ho))

/-- `BoundedInv` in every state reached from instantiation by operations carrying 128-bit
    amounts -/
theorem closed_bounded {w0 : World} {t : Nat} {r : Option Nat} (h0 : w0.mkt = instantiate t r)
    (ops : List Op) (hops : ∀ op ∈ ops, op.fits128) : BoundedInv (run w0 ops).mkt :=
  closed_bounded_run (h0 ▸ BoundedInv.init t r) ops hops

end Fuzion
