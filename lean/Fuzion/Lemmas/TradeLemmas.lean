/-
  Fuzion.Lemmas.TradeLemmas — definitions and helper lemmas for property C06 ("a trade costs
  exactly the 0.5 % fee plus registered royalties, nothing more"):

  * the DECLARATIVE cost of a trade (`feeOf`, `afterFeeAmt`, `sideEntries`, `royaltyOn`,
    `afterFee`, `afterRoyalty`, `royaltyMsgs`), written without reference to the model's code;
  * `List.eraseDups` has no duplicates (core has membership only);
  * the model's `calcFeeCoin` / `sideRoyalties` equal the declarative formulas on balances with
    duplicate-free keys and 128-bit amounts;
  * per-key amounts of a coin list whose amounts were mapped;
  * who is credited by a dispatched message (`OutMsg.recipient`, `dispatchAll_untouched`).
  (The helpers of `Props/C18Partial.lean` are in `ForgeLemmas.lean`: they need `InvLemmas`, which
  cannot be imported together with `FrameLemmas`.)  Core library only.
-/
import Fuzion.Lemmas.BuyLemmas
import Fuzion.Lemmas.FrameLemmas
namespace Fuzion

/-! ### the declarative cost of a trade -/

/-- fee of a side: `⌊a·5/1000⌋` of the fee denomination, none when absent or zero -/
def feeOf (fd : Nat) (g : GBal) : Option Coin :=
  let a := coinAmt g.native fd
  if a * 5 / 1000 = 0 then none else some ⟨fd, a * 5 / 1000⟩

/-- per-key amount after the fee -/
def afterFeeAmt (fd : Nat) (g : GBal) (k : Nat) : Nat :=
  coinAmt g.native k - (if k = fd then coinAmt g.native fd * 5 / 1000 else 0)

/-- the registered entries of the DISTINCT collections of a side, in `collections` order -/
def sideEntries (env : Env) (g : GBal) : List RoyaltyInfo :=
  ((collections g).map env.regLookup).filterMap id

/-- royalty total on an amount: `Σ` over entries `⌊a·bps/10⁴⌋` -/
def royaltyOn (es : List RoyaltyInfo) (a : Nat) : Nat := (es.map fun e => a * e.bps / 10000).sum

/-- a side after the fee: when a fee is due, the fee denomination's coin is replaced by one
    reduced by the fee (it moves to the end of the list); everything else is as it was -/
def afterFee (fd : Nat) (g : GBal) : GBal :=
  match feeOf fd g with
  | none => g
  | some f =>
    { g with native := g.native.filter (fun c => decide (c.key ≠ fd)) ++
                         [⟨fd, coinAmt g.native fd - f.amount⟩] }

/-- one fungible asset after the royalties of the entries `es` -/
def Coin.lessRoyalty (es : List RoyaltyInfo) (c : Coin) : Coin :=
  ⟨c.key, c.amount - royaltyOn es c.amount⟩

/-- a side after the royalties: every fungible asset is reduced by its royalty total; NFTs, keys
    and order unchanged -/
def afterRoyalty (es : List RoyaltyInfo) (g : GBal) : GBal :=
  ⟨g.native.map (Coin.lessRoyalty es), g.cw20.map (Coin.lessRoyalty es), g.nfts⟩

/-- the royalty payouts charged to a side `g`: for each native coin and each entry with a
    non-zero share one bank transfer of that share to the entry's payout address, then for each
    CW20 amount likewise one CW20 transfer -/
def royaltyMsgs (es : List RoyaltyInfo) (g : GBal) : List OutMsg :=
  (g.native.flatMap fun c => es.filterMap fun e =>
    if c.amount * e.bps / 10000 = 0 then none
    else some (OutMsg.bankSend e.payout [⟨c.key, c.amount * e.bps / 10000⟩])) ++
  (g.cw20.flatMap fun c => es.filterMap fun e =>
    if c.amount * e.bps / 10000 = 0 then none
    else some (OutMsg.cw20Transfer c.key e.payout (c.amount * e.bps / 10000)))

/-- the account a dispatched message credits (`pool` = the community pool) -/
def OutMsg.recipient (pool : Nat) : OutMsg → Nat
  | .bankSend to _ => to
  | .cw20Transfer _ to _ => to
  | .nftTransfer _ _ to => to
  | .fundPool _ _ => pool

/-- native coins of denomination `d` a message list sends to address `p` -/
def sentNative (ms : List OutMsg) (p d : Nat) : Nat :=
  (ms.map fun m => match m with
    | .bankSend to cs => if to = p then coinAmt cs d else 0
    | _ => 0).sum

/-- units of CW20 token `t` a message list sends to address `p` -/
def sentCw20 (ms : List OutMsg) (p t : Nat) : Nat :=
  (ms.map fun m => match m with
    | .cw20Transfer t' to a => if to = p ∧ t' = t then a else 0
    | _ => 0).sum

@[simp] theorem royaltyOn_nil (a : Nat) : royaltyOn [] a = 0 := rfl

theorem royaltyOn_cons (e : RoyaltyInfo) (es : List RoyaltyInfo) (a : Nat) :
    royaltyOn (e :: es) a = a * e.bps / 10000 + royaltyOn es a := by
  simp [royaltyOn]

@[simp] theorem royaltyOn_zero (es : List RoyaltyInfo) : royaltyOn es 0 = 0 := by
  induction es with
  | nil => rfl
  | cons e es ih => rw [royaltyOn_cons, ih]; simp

theorem royaltyOn_eq_shareSum (es : List RoyaltyInfo) (a : Nat) : royaltyOn es a = shareSum a es :=
  rfl

/-- the rate sum of a side, as the registry side condition of `buy` computes it -/
theorem bpsOf_eq_sideEntries (env : Env) (g : GBal) :
    bpsOf env (collections g) = ((sideEntries env g).map (·.bps)).sum := rfl

/-- with a rate sum of at most 50 % the royalties take at most half of any amount -/
theorem royaltyOn_le_half {es : List RoyaltyInfo} (h : (es.map (·.bps)).sum ≤ 5000) (a : Nat) :
    2 * royaltyOn es a ≤ a := by
  have h1 := sum_mul_div_le a (es.map (·.bps))
  rw [List.map_map] at h1
  have h2 := @two_mul_div_le a _ h
  have : royaltyOn es a = (es.map ((fun b => a * b / 10000) ∘ fun e => e.bps)).sum := rfl
  omega

/-! ### `List.eraseDups` has no duplicates -/

theorem nodup_eraseDups {α : Type} [BEq α] [LawfulBEq α] : (l : List α) → l.eraseDups.Nodup
  | [] => by simp
  | a :: as => by
    rw [List.eraseDups_cons, List.nodup_cons]
    refine ⟨?_, nodup_eraseDups _⟩
    rw [List.mem_eraseDups, List.mem_filter]
    simp
termination_by l => l.length
decreasing_by
  simp only [List.length_cons]
  exact Nat.lt_succ_of_le (List.length_filter_le _ _)

/-- the distinct collections of a side: no collection twice, and exactly those of its NFTs -/
theorem collections_spec (g : GBal) :
    (collections g).Nodup ∧ ∀ c, c ∈ collections g ↔ ∃ n ∈ g.nfts, n.coll = c := by
  refine ⟨nodup_eraseDups _, fun c => ?_⟩
  unfold collections
  rw [List.mem_eraseDups, List.mem_map]

/-! ### the fee: model = declarative formula -/

/-- `calc_fee_coin` on a balance with duplicate-free denominations is `(feeOf, afterFee)` -/
theorem calcFeeCoin_spec {fd : Nat} {g : GBal} (nd : (keys g.native).Nodup) :
    calcFeeCoin fd g = some (feeOf fd g, afterFee fd g) := by
  unfold calcFeeCoin
  split
  · next e =>
    have h0 := coinAmt_of_find_none e
    have hf : feeOf fd g = none := by simp [feeOf, h0]
    simp only [afterFee, hf]
  · next c e =>
    have hc := (coinAmt_of_find nd e).2
    dsimp only
    split
    · next hz =>
      have hf : feeOf fd g = none := by simp [feeOf, hc, hz]
      simp only [afterFee, hf]
    · next hz =>
      have hle := fee_le c.amount
      rw [if_neg (by omega)]
      have hf : feeOf fd g = some ⟨fd, c.amount * 5 / 1000⟩ := by simp [feeOf, hc, hz]
      simp only [afterFee, hf, hc]

theorem afterFee_cw20 (fd : Nat) (g : GBal) : (afterFee fd g).cw20 = g.cw20 := by
  unfold afterFee; split <;> rfl

theorem afterFee_nfts (fd : Nat) (g : GBal) : (afterFee fd g).nfts = g.nfts := by
  unfold afterFee; split <;> rfl

/-- per key, what is left after the fee is `afterFeeAmt` -/
theorem afterFee_amt {fd : Nat} {g : GBal} (nd : (keys g.native).Nodup) (k : Nat) :
    coinAmt (afterFee fd g).native k = afterFeeAmt fd g k := by
  have h := calcFeeCoin_spec (fd := fd) nd
  have h1 := (C17_fee_conserve nd h).1 k
  have h2 := (C17_fee_floor nd h).1
  have h3 := C17_fee_other h k
  unfold afterFeeAmt
  by_cases hk : k = fd
  · subst hk; simp only [if_true]; omega
  · have := h3 hk
    simp only [hk, if_false]; omega

/-- the fee recorded is the fee taken: per key, `feeAmt (feeOf …)` -/
theorem feeAmt_feeOf (fd : Nat) (g : GBal) (k : Nat) :
    feeAmt (feeOf fd g) k = if k = fd then coinAmt g.native fd * 5 / 1000 else 0 := by
  unfold feeOf
  dsimp only
  by_cases hz : coinAmt g.native fd * 5 / 1000 = 0
  · simp [hz, feeAmt]
  · simp only [hz, if_false, feeAmt]
    by_cases hk : k = fd
    · subst hk; simp
    · have : ¬ fd = k := fun e => hk e.symm
      simp [hk, this]

theorem afterFee_keys_nodup {fd : Nat} {g : GBal} (nd : (keys g.native).Nodup) :
    (keys (afterFee fd g).native).Nodup :=
  ((C17_fee_keys_perm nd (calcFeeCoin_spec (fd := fd) nd)).1.nodup_iff).2 nd

theorem afterFee_bounded {fd : Nat} {g : GBal} (nd : (keys g.native).Nodup) (hb : g.bounded) :
    (afterFee fd g).bounded :=
  (C17_fee_bounded hb (calcFeeCoin_spec (fd := fd) nd)).1

/-! ### the royalties: model = declarative formula -/

theorem afterRoyalty_nil (g : GBal) : afterRoyalty [] g = g := by
  have : Coin.lessRoyalty [] = id := by
    funext c; simp [Coin.lessRoyalty]
  simp [afterRoyalty, this]

theorem royaltyMsgs_nil (g : GBal) : royaltyMsgs [] g = [] := by
  simp [royaltyMsgs]

/-- `GenericBalance::royalties` on 128-bit amounts is `(afterRoyalty, royaltyMsgs)` over the
    present registry answers -/
theorem royalties_spec {g g' : GBal} {rs : List (Option RoyaltyInfo)} {ms : List OutMsg} {s : Nat}
    (hb : g.bounded) (h : royalties g rs = .ok g' ms s) :
    g' = afterRoyalty (rs.filterMap id) g ∧ ms = royaltyMsgs (rs.filterMap id) g ∧
    s = ((rs.filterMap id).map (·.bps)).sum ∧ s ≤ 5000 := by
  obtain ⟨r1, r2, _⟩ := C17_roy_remainder hb h
  have r3 := (C17_roy_conserve h).2.2.1
  have r4 := C17_roy_msgs hb h
  obtain ⟨hs, h5, _⟩ := royalties_ok h
  refine ⟨?_, r4, hs, h5⟩
  obtain ⟨n, c, t⟩ := g'
  simp only at r1 r2 r3
  subst r1 r2 r3
  rfl

/-- the royalty pass of one side of a purchase, in closed form -/
theorem sideRoyalties_spec {env : Env} {ra : Nat} {g bal fb : GBal} {ms : List OutMsg} {s : Nat}
    (hb : bal.bounded) (h : sideRoyalties env ra (collections g) bal = .ok fb ms s) :
    fb = afterRoyalty (sideEntries env g) bal ∧ ms = royaltyMsgs (sideEntries env g) bal ∧
    ((sideEntries env g).map (·.bps)).sum ≤ 5000 := by
  unfold sideRoyalties at h
  split at h
  · next he =>
    have hc : collections g = [] := by simpa using he
    have hes : sideEntries env g = [] := by simp [sideEntries, hc]
    injection h with h1 h2 _
    rw [hes, afterRoyalty_nil, royaltyMsgs_nil]
    exact ⟨h1.symm, h2.symm, by simp⟩
  · split at h
    · cases h
    · obtain ⟨h1, h2, h3, h4⟩ := royalties_spec hb h
      exact ⟨h1, h2, h3 ▸ h4⟩

/-! ### per-key amounts of a mapped coin list -/

/-- with duplicate-free keys, mapping every amount through `f` (with `f 0 = 0`) maps the per-key
    amount through `f` -/
theorem coinAmt_map_nodup {l : List Coin} (nd : (keys l).Nodup) (f : Nat → Nat) (f0 : f 0 = 0)
    (k : Nat) : coinAmt (l.map fun c => (⟨c.key, f c.amount⟩ : Coin)) k = f (coinAmt l k) := by
  induction l with
  | nil => simp [coinAmt_nil, f0]
  | cons c l ih =>
    have e2 : keys (c :: l) = c.key :: keys l := rfl
    rw [e2, List.nodup_cons] at nd
    rw [List.map_cons, coinAmt_cons, coinAmt_cons, ih nd.2]
    by_cases hk : c.key = k
    · have hn : k ∉ keys l := hk ▸ nd.1
      simp only [hk, if_true, coinAmt_eq_zero_of_not_mem hn, f0, Nat.add_zero]
    · simp only [hk, if_false, Nat.zero_add]

theorem coinAmt_lessRoyalty {l : List Coin} (nd : (keys l).Nodup) (es : List RoyaltyInfo) (k : Nat) :
    coinAmt (l.map (Coin.lessRoyalty es)) k = coinAmt l k - royaltyOn es (coinAmt l k) :=
  coinAmt_map_nodup nd (fun a => a - royaltyOn es a) (by simp) k

/-! ### who is credited by a dispatched message -/

theorem bankAdd_other (a : Nat) (cs : List Coin) :
    ∀ (bank : Ledger) (y d : Nat), y ≠ a → lget (bankAdd bank a cs) (y, d) = lget bank (y, d) := by
  induction cs with
  | nil => intro bank y d _; rfl
  | cons c cs ih =>
    intro bank y d hy
    simp only [bankAdd]
    rw [ih _ y d hy, lget_lset_ne]
    intro e; cases e; exact hy rfl

/-- a bank transfer changes the balances of its source and its destination only -/
theorem bankSend_untouched {bank b : Ledger} {src dst : Nat} {coins : List Coin}
    (h : bankSend bank src dst coins = some b) (y d : Nat) (h1 : y ≠ src) (h2 : y ≠ dst) :
    lget b (y, d) = lget bank (y, d) := by
  unfold bankSend at h
  dsimp only at h
  split at h
  · cases h
  · split at h
    · cases h
    · next b0 hb0 =>
      simp only [Option.some.injEq] at h; subst h
      rw [bankAdd_other _ _ _ y d h2]
      exact bankSub_other hb0 y d h1

/-- a CW20 transfer changes the entries of its source and its destination only -/
theorem ledgerMove_untouched {l l' : Ledger} {g src dst amt : Nat}
    (h : ledgerMove l g src dst amt = some l') (k : Nat × Nat) (h1 : k ≠ (g, src))
    (h2 : k ≠ (g, dst)) : lget l' k = lget l k := by
  unfold ledgerMove at h
  split at h
  · cases h
  · simp only [Option.some.injEq] at h; subst h
    rw [lget_lset_ne _ h2, lget_lset_ne _ h1]

/-- account `y` has exactly the same coins, CW20 balances and NFTs in `w'` as in `w` -/
structure UntouchedFung (y : Nat) (w w' : World) : Prop where
  bank : ∀ d, lget w'.bank (y, d) = lget w.bank (y, d)
  cw20 : ∀ t, lget w'.cw20 (t, y) = lget w.cw20 (t, y)
  nft : ∀ k, alookup k w'.nft = some y ↔ alookup k w.nft = some y

theorem UntouchedFung.refl (y : Nat) (w : World) : UntouchedFung y w w :=
  ⟨fun _ => rfl, fun _ => rfl, fun _ => Iff.rfl⟩

theorem UntouchedFung.trans {y : Nat} {a b c : World} (h1 : UntouchedFung y a b) (h2 : UntouchedFung y b c) :
    UntouchedFung y a c :=
  ⟨fun d => (h2.bank d).trans (h1.bank d), fun t => (h2.cw20 t).trans (h1.cw20 t),
   fun k => (h2.nft k).trans (h1.nft k)⟩

/-- one dispatched message touches the marketplace's and its recipient's holdings only -/
theorem dispatch1_untouched {w w' : World} {msg : OutMsg} (h : dispatch1 w msg = some w')
    {y : Nat} (hs : y ≠ w.self) (hr : msg.recipient w.pool ≠ y) : UntouchedFung y w w' := by
  cases msg with
  | bankSend to coins =>
    simp only [dispatch1] at h
    split at h
    · cases h
    · next b hb =>
      simp only [Option.some.injEq] at h; subst h
      exact ⟨fun d => bankSend_untouched hb y d hs (fun e => hr e.symm), fun _ => rfl,
        fun _ => Iff.rfl⟩
  | cw20Transfer token to amt =>
    simp only [dispatch1] at h
    repeat' split at h
    all_goals first
      | (cases h; done)
      | (simp only [Option.some.injEq] at h; subst h; exact UntouchedFung.refl _ _)
      | skip
    next l hl =>
      simp only [Option.some.injEq] at h; subst h
      refine ⟨fun _ => rfl, fun t => ?_, fun _ => Iff.rfl⟩
      refine ledgerMove_untouched hl (t, y) ?_ ?_
      · intro e; cases e; exact hs rfl
      · intro e; cases e; exact hr rfl
  | nftTransfer coll tid to =>
    simp only [dispatch1] at h
    repeat' split at h
    all_goals first
      | (cases h; done)
      | (simp only [Option.some.injEq] at h; subst h; exact UntouchedFung.refl _ _)
      | skip
    next hown =>
      simp only [Option.some.injEq] at h; subst h
      refine ⟨fun _ => rfl, fun _ => rfl, fun k => ?_⟩
      dsimp only
      unfold lset
      by_cases hk : k = (coll, tid)
      · subst hk
        rw [alookup_ainsert_self, hown]
        constructor
        · intro e; cases e; exact absurd rfl hr
        · intro e; cases e; exact absurd rfl hs
      · rw [alookup_ainsert_ne hk]
  | fundPool dep coin =>
    simp only [dispatch1] at h
    repeat' split at h
    all_goals first
      | (cases h; done)
      | skip
    next b hb =>
      simp only [Option.some.injEq] at h; subst h
      exact ⟨fun d => bankSend_untouched hb y d hs (fun e => hr e.symm), fun _ => rfl,
        fun _ => Iff.rfl⟩

/-- a dispatched message list touches the marketplace's and the recipients' holdings only -/
theorem dispatchAll_untouched {fail : Nat → Bool} {msgs : List OutMsg} :
    ∀ {w w' : World} {i : Nat}, dispatchAll fail w msgs i = some w' →
      ∀ {y : Nat}, y ≠ w.self → (∀ x ∈ msgs, x.recipient w.pool ≠ y) → UntouchedFung y w w' := by
  induction msgs with
  | nil =>
    intro w w' i h y _ _
    simp only [dispatchAll, Option.some.injEq] at h; subst h; exact UntouchedFung.refl _ _
  | cons m ms ih =>
    intro w w' i h y hs hr
    simp only [dispatchAll] at h
    split at h
    · cases h
    · split at h
      · cases h
      · next w1 h1 =>
        have hc := (dispatch1_frame h1).1
        refine (dispatch1_untouched h1 hs (hr m List.mem_cons_self)).trans (ih h ?_ ?_)
        · rw [hc.self]; exact hs
        · intro x hx; rw [hc.pool]; exact hr x (List.mem_cons_of_mem _ hx)

/-- a message list without CW721 transfers leaves the NFT ledger as it is -/
theorem dispatchAll_nft_eq {fail : Nat → Bool} {msgs : List OutMsg} :
    ∀ {w w' : World} {i : Nat}, dispatchAll fail w msgs i = some w' →
      (∀ x ∈ msgs, ∀ c t to, x ≠ .nftTransfer c t to) → w'.nft = w.nft := by
  induction msgs with
  | nil =>
    intro w w' i h _
    simp only [dispatchAll, Option.some.injEq] at h; subst h; rfl
  | cons m ms ih =>
    intro w w' i h hn
    simp only [dispatchAll] at h
    split at h
    · cases h
    · split at h
      · cases h
      · next w1 h1 =>
        rw [ih h (fun x hx => hn x (List.mem_cons_of_mem _ hx))]
        have hm := hn m List.mem_cons_self
        cases m with
        | nftTransfer c t to => exact absurd rfl (hm c t to)
        | bankSend to coins =>
          simp only [dispatch1] at h1
          split at h1
          · cases h1
          · simp only [Option.some.injEq] at h1; subst h1; rfl
        | cw20Transfer token to amt =>
          simp only [dispatch1] at h1
          repeat' split at h1
          all_goals first
            | (cases h1; done)
            | (simp only [Option.some.injEq] at h1; subst h1; rfl)
        | fundPool dep coin =>
          simp only [dispatch1] at h1
          repeat' split at h1
          all_goals first
            | (cases h1; done)
            | (simp only [Option.some.injEq] at h1; subst h1; rfl)

/-- every message of a royalty pass is a bank or CW20 transfer to the payout address of one of
    the side's registered entries (no bound on the amounts needed) -/
theorem sideRoyalties_recipients {env : Env} {ra : Nat} {g bal fb : GBal} {ms : List OutMsg}
    {s : Nat} (h : sideRoyalties env ra (collections g) bal = .ok fb ms s) :
    ∀ x ∈ ms, ∃ e ∈ sideEntries env g,
      (∃ cs, x = .bankSend e.payout cs) ∨ (∃ t a, x = .cw20Transfer t e.payout a) := by
  unfold sideRoyalties at h
  split at h
  · injection h with _ h2 _
    subst h2
    intro x hx; cases hx
  · split at h
    · cases h
    · obtain ⟨_, _, _, hm, _, _⟩ := royalties_closed h
      subst hm
      intro x hx
      rcases List.mem_append.1 hx with hx | hx
      · obtain ⟨c, _, hx⟩ := List.mem_flatMap.1 hx
        unfold royMsgs at hx
        obtain ⟨p, hp, rfl⟩ := List.mem_map.1 hx
        obtain ⟨r, hr, rfl, _⟩ := royPays_mem hp
        exact ⟨r, hr, .inl ⟨_, rfl⟩⟩
      · obtain ⟨c, _, hx⟩ := List.mem_flatMap.1 hx
        unfold royMsgs at hx
        obtain ⟨p, hp, rfl⟩ := List.mem_map.1 hx
        obtain ⟨r, hr, rfl, _⟩ := royPays_mem hp
        exact ⟨r, hr, .inr ⟨_, _, rfl⟩⟩

/-! ### totals per payout address -/

/-- the per-message summands of `sentNative` / `sentCw20` -/
def fSentN (p d : Nat) : OutMsg → Nat := fun m => match m with
  | .bankSend to cs => if to = p then coinAmt cs d else 0
  | _ => 0
def fSentC (p t : Nat) : OutMsg → Nat := fun m => match m with
  | .cw20Transfer t' to a => if to = p ∧ t' = t then a else 0
  | _ => 0

theorem sentNative_eq (ms : List OutMsg) (p d : Nat) : sentNative ms p d = outBy (fSentN p d) ms := rfl
theorem sentCw20_eq (ms : List OutMsg) (p t : Nat) : sentCw20 ms p t = outBy (fSentC p t) ms := rfl

theorem royaltyMsgs_eq (es : List RoyaltyInfo) (g : GBal) :
    royaltyMsgs es g = g.native.flatMap (shareMsgs mkBank es) ++ g.cw20.flatMap (shareMsgs mkCw20 es) :=
  rfl

theorem outBy_flatMap {α : Type} (f : OutMsg → Nat) (F : α → List OutMsg) (l : List α) :
    outBy f (l.flatMap F) = (l.map fun c => outBy f (F c)).sum := by
  induction l with
  | nil => rfl
  | cons a l ih => rw [List.flatMap_cons, outBy_append, ih, List.map_cons, List.sum_cons]

/-- the payouts of one asset that go to the addresses selected by `P`: the shares of the
    entries paying to such an address -/
theorem outBy_shareMsgs {f : OutMsg → Nat} {mk : Nat → Nat → Nat → OutMsg} {P : Nat → Prop}
    [DecidablePred P] {d : Nat}
    (hf : ∀ key to amt, f (mk key to amt) = if P to ∧ key = d then amt else 0)
    (es : List RoyaltyInfo) (c : Coin) :
    outBy f (shareMsgs mk es c) =
      if c.key = d then royaltyOn (es.filter fun e => decide (P e.payout)) c.amount else 0 := by
  unfold shareMsgs
  induction es with
  | nil => simp [outBy]
  | cons e es ih =>
    rw [List.filterMap_cons]
    by_cases hz : c.amount * e.bps / 10000 = 0
    · simp only [hz, if_true]
      rw [ih]
      by_cases hp : P e.payout
      · rw [List.filter_cons_of_pos (by simp [hp]), royaltyOn_cons, hz, Nat.zero_add]
      · rw [List.filter_cons_of_neg (by simp [hp])]
    · simp only [hz, if_false]
      have e1 : outBy f (mk c.key e.payout (c.amount * e.bps / 10000) ::
          List.filterMap (fun e => if c.amount * e.bps / 10000 = 0 then none
            else some (mk c.key e.payout (c.amount * e.bps / 10000))) es) =
          f (mk c.key e.payout (c.amount * e.bps / 10000)) +
          outBy f (List.filterMap (fun e => if c.amount * e.bps / 10000 = 0 then none
            else some (mk c.key e.payout (c.amount * e.bps / 10000))) es) := by
        simp [outBy]
      rw [e1, ih, hf]
      by_cases hp : P e.payout
      · rw [List.filter_cons_of_pos (by simp [hp]), royaltyOn_cons]
        by_cases hk : c.key = d
        · simp [hp, hk]
        · simp [hk]
      · rw [List.filter_cons_of_neg (by simp [hp])]
        simp [hp]

theorem outBy_shareMsgs_zero {f : OutMsg → Nat} {mk : Nat → Nat → Nat → OutMsg}
    (hf : ∀ key to amt, f (mk key to amt) = 0) (es : List RoyaltyInfo) (c : Coin) :
    outBy f (shareMsgs mk es c) = 0 := by
  unfold shareMsgs outBy
  induction es with
  | nil => rfl
  | cons e es ih =>
    rw [List.filterMap_cons]
    by_cases hz : c.amount * e.bps / 10000 = 0
    · simp only [hz, if_true]; exact ih
    · simp only [hz, if_false, List.map_cons, List.sum_cons, hf, ih]

/-- with duplicate-free keys, a sum over the coins of a key-selected function of the amount is
    that function of the per-key amount -/
theorem sum_key_nodup {l : List Coin} (nd : (keys l).Nodup) (T : Nat → Nat) (T0 : T 0 = 0)
    (d : Nat) : (l.map fun c => if c.key = d then T c.amount else 0).sum = T (coinAmt l d) := by
  induction l with
  | nil => simp [coinAmt_nil, T0]
  | cons c l ih =>
    have e2 : keys (c :: l) = c.key :: keys l := rfl
    rw [e2, List.nodup_cons] at nd
    rw [List.map_cons, List.sum_cons, coinAmt_cons, ih nd.2]
    by_cases hk : c.key = d
    · have hn : d ∉ keys l := hk ▸ nd.1
      simp only [hk, if_true, coinAmt_eq_zero_of_not_mem hn, T0, Nat.add_zero]
    · simp only [hk, if_false, Nat.zero_add]

theorem sum_map_zero {α : Type} (l : List α) : (l.map fun _ => 0).sum = 0 := by
  induction l with
  | nil => rfl
  | cons a l ih => rw [List.map_cons, List.sum_cons, ih]

/-- per payout address `p` and native denomination `d`, the royalty payouts charged to a side
    send `p` the shares, on that side's amount of `d`, of all entries paying to `p` -/
theorem sentNative_royaltyMsgs {g : GBal} (nd : (keys g.native).Nodup) (es : List RoyaltyInfo)
    (p d : Nat) :
    sentNative (royaltyMsgs es g) p d =
      royaltyOn (es.filter fun e => decide (e.payout = p)) (coinAmt g.native d) := by
  have hB : ∀ key to amt, fSentN p d (mkBank key to amt) =
      if (fun x => x = p) to ∧ key = d then amt else 0 := by
    intro key to amt
    simp only [fSentN, mkBank, coinAmt_single]
    by_cases h1 : to = p <;> by_cases h2 : key = d <;> simp [h1, h2]
  have hC : ∀ key to amt, fSentN p d (mkCw20 key to amt) = 0 := fun _ _ _ => rfl
  rw [sentNative_eq, royaltyMsgs_eq, outBy_append, outBy_flatMap, outBy_flatMap]
  simp only [outBy_shareMsgs hB, outBy_shareMsgs_zero hC]
  rw [sum_key_nodup nd _ (royaltyOn_zero _), sum_map_zero]
  simp

/-- the same for a CW20 token `t` -/
theorem sentCw20_royaltyMsgs {g : GBal} (nd : (keys g.cw20).Nodup) (es : List RoyaltyInfo)
    (p t : Nat) :
    sentCw20 (royaltyMsgs es g) p t =
      royaltyOn (es.filter fun e => decide (e.payout = p)) (coinAmt g.cw20 t) := by
  have hC : ∀ key to amt, fSentC p t (mkCw20 key to amt) =
      if (fun x => x = p) to ∧ key = t then amt else 0 := fun _ _ _ => rfl
  have hB : ∀ key to amt, fSentC p t (mkBank key to amt) = 0 := fun _ _ _ => rfl
  rw [sentCw20_eq, royaltyMsgs_eq, outBy_append, outBy_flatMap, outBy_flatMap]
  simp only [outBy_shareMsgs hC, outBy_shareMsgs_zero hB]
  rw [sum_key_nodup nd _ (royaltyOn_zero _), sum_map_zero]
  simp

/-- per native denomination, the royalty payouts charged to a side send out, in total, the
    royalty total on that side's amount -/
theorem outNative_royaltyMsgs {g : GBal} (nd : (keys g.native).Nodup) (es : List RoyaltyInfo)
    (d : Nat) : outNative (royaltyMsgs es g) d = royaltyOn es (coinAmt g.native d) := by
  have hB : ∀ key to amt, fNative d (mkBank key to amt) =
      if (fun _ => True) to ∧ key = d then amt else 0 := by
    intro key to amt
    simp only [fNative_mkBank, true_and]
  rw [outNative_eq, royaltyMsgs_eq, outBy_append, outBy_flatMap, outBy_flatMap]
  simp only [outBy_shareMsgs hB, outBy_shareMsgs_zero (fNative_mkCw20 d)]
  rw [sum_key_nodup nd _ (royaltyOn_zero _), sum_map_zero]
  simp [List.filter_eq_self.2 (fun _ _ => rfl)]

theorem outCw20_royaltyMsgs {g : GBal} (nd : (keys g.cw20).Nodup) (es : List RoyaltyInfo)
    (t : Nat) : outCw20 (royaltyMsgs es g) t = royaltyOn es (coinAmt g.cw20 t) := by
  have hC : ∀ key to amt, fCw20 t (mkCw20 key to amt) =
      if (fun _ => True) to ∧ key = t then amt else 0 := by
    intro key to amt
    simp only [fCw20_mkCw20, true_and]
  rw [outCw20_eq, royaltyMsgs_eq, outBy_append, outBy_flatMap, outBy_flatMap]
  simp only [outBy_shareMsgs hC, outBy_shareMsgs_zero (fCw20_mkBank t)]
  rw [sum_key_nodup nd _ (royaltyOn_zero _), sum_map_zero]
  simp [List.filter_eq_self.2 (fun _ _ => rfl)]

theorem sentNative_append (a b : List OutMsg) (p d : Nat) :
    sentNative (a ++ b) p d = sentNative a p d + sentNative b p d := outBy_append _ a b
theorem sentCw20_append (a b : List OutMsg) (p t : Nat) :
    sentCw20 (a ++ b) p t = sentCw20 a p t + sentCw20 b p t := outBy_append _ a b

/-! ### an accepted purchase in closed form -/

theorem WFInv.trade_forSale {j u : Nat} {m : Market} (hW : WFInv j u m) {p : (Nat × Nat) × Listing}
    (hp : p ∈ m.listings) : wfBal p.2.forSale = true := by
  have := hW.lwf p hp
  simp only [wfListing, Bool.and_eq_true] at this
  exact this.1.1.2

theorem WFInv.trade_funds {j u : Nat} {m : Market} (hW : WFInv j u m) {p : (Nat × Nat) × Bucket}
    (hp : p ∈ m.buckets) : wfBal p.2.funds = true := by
  have := hW.bwf p hp
  simp only [wfBucket, Bool.and_eq_true] at this
  exact this.1.2

theorem wfBal_keys {g : GBal} (h : wfBal g = true) : (keys g.native).Nodup ∧ (keys g.cw20).Nodup := by
  simp only [wfBal, Bool.and_eq_true, decide_eq_true_eq] at h
  exact ⟨h.1.1.2, h.1.2⟩

/-- the re-filed listing of a purchase, declaratively: new owner and claimant, closed, the fee
    of the goods recorded, the goods reduced by the fee and then by the royalties of the
    collections the buyer pays with -/
def tradedListing (env : Env) (fd buyer : Nat) (l : Listing) (b : Bucket) : Listing :=
  { l with creator := buyer, claimant := some buyer, status := .closed,
           fee := feeOf fd l.forSale,
           forSale := afterRoyalty (sideEntries env b.funds) (afterFee fd l.forSale) }

/-- the re-filed bucket of a purchase, declaratively: owned by the seller, the fee of the funds
    recorded, the funds reduced by the fee and then by the royalties of the collections the
    seller sells -/
def tradedBucket (env : Env) (fd : Nat) (l : Listing) (b : Bucket) : Bucket :=
  ⟨l.creator, afterRoyalty (sideEntries env l.forSale) (afterFee fd b.funds), feeOf fd b.funds⟩

/-- An accepted purchase, in closed form over the declarative cost functions: on a well-formed
    state with 128-bit amounts, `buy` stores exactly `tradedListing` / `tradedBucket` and emits
    exactly the pending fee of the paying bucket followed by the royalty payouts of both sides. -/
theorem buy_closed {j u : Nat} {m m' : Market} {env : Env} {buyer lid bid : Nat} {out : List OutMsg}
    (hW : WFInv j u m) (hbl : ∀ p ∈ m.listings, p.2.forSale.bounded)
    (hbb : ∀ p ∈ m.buckets, p.2.funds.bounded) (h : buy m env buyer lid bid = .ok (m', out)) :
    ∃ k l b, findById lid m.listings = some (k, l) ∧ alookup (buyer, bid) m.buckets = some b ∧
      b.owner = buyer ∧ wfBal l.forSale = true ∧ wfBal b.funds = true ∧
      ((sideEntries env l.forSale).map (·.bps)).sum ≤ 5000 ∧
      ((sideEntries env b.funds).map (·.bps)).sum ≤ 5000 ∧
      m' = { m with
        listings := ainsert (buyer, lid) (tradedListing env (feeDenomOf env m.feeKind) buyer l b)
          (aerase (l.creator, lid) m.listings),
        buckets := ainsert (l.creator, bid) (tradedBucket env (feeDenomOf env m.feeKind) l b)
          (aerase (buyer, bid) m.buckets) } ∧
      out = pendingFeeMsgs env.self b.fee ++
        royaltyMsgs (sideEntries env l.forSale) (afterFee (feeDenomOf env m.feeKind) b.funds) ++
        royaltyMsgs (sideEntries env b.funds) (afterFee (feeDenomOf env m.feeKind) l.forSale) := by
  obtain ⟨k, l, b, lfee, lbal, bfee, bbal, ra, fb, msgs1, s1, fl, msgs2, s2, hb, hl, ho, _, _, _,
    _, _, e1, e2, _, r1, r2, hr⟩ := buy_inv h
  have hlm := (findById_some hl).2
  have hbm := alookup_some_mem hb
  have wl := hW.trade_forSale hlm
  have wb := hW.trade_funds hbm
  have ndl := (wfBal_keys wl).1
  have ndb := (wfBal_keys wb).1
  rw [calcFeeCoin_spec ndl] at e1
  rw [calcFeeCoin_spec ndb] at e2
  simp only [Option.some.injEq, Prod.mk.injEq] at e1 e2
  obtain ⟨rfl, rfl⟩ := e1
  obtain ⟨rfl, rfl⟩ := e2
  obtain ⟨rfl, rfl, h1⟩ := sideRoyalties_spec (afterFee_bounded ndb (hbb _ hbm)) r1
  obtain ⟨rfl, rfl, h2⟩ := sideRoyalties_spec (afterFee_bounded ndl (hbl _ hlm)) r2
  simp only [buyResult, Prod.mk.injEq] at hr
  obtain ⟨rfl, rfl⟩ := hr
  exact ⟨k, l, b, hl, hb, ho, wl, wb, h1, h2, rfl, rfl⟩

/-! ### a purchase as a transaction -/

/-- a purchase transaction is refused (and returns the world as it was), or `buy` accepted on the
    pre-state and every message was dispatched from `{ w with mkt := m' }` -/
theorem stepF_buy_cases (fail : Nat → Bool) (w : World) (buyer lid bid : Nat) :
    (∃ e, stepF fail w (.exec buyer [] (.buy lid bid)) = (w, .fail e)) ∨
    (∃ m' msgs w2, buy w.mkt w.env buyer lid bid = .ok (m', msgs) ∧
      dispatchAll fail { w with mkt := m' } msgs 0 = some w2 ∧
      stepF fail w (.exec buyer [] (.buy lid bid)) = (w2, ⟨true, none, msgs⟩)) := by
  rcases stepF_market_full (fail := fail) (w := w) (op := .exec buyer [] (.buy lid bid)) rfl with
    h | ⟨w1, m', msgs, w2, hd, hx, hdd, hs⟩
  · exact .inl h
  · simp only [Op.deposit, List.isEmpty_nil, if_true, Except.ok.injEq] at hd
    subst hd
    rw [execute_buy_nil] at hx
    exact .inr ⟨m', msgs, w2, hx, hdd, hs⟩

/-- every message of an accepted purchase goes to the community pool or to the payout address
    of a registered entry of one of the two sides, and none is a CW721 transfer -/
theorem buy_recipients {m m' : Market} {env : Env} {buyer lid bid : Nat} {out : List OutMsg}
    {k : Nat × Nat} {l : Listing} {b : Bucket} (h : buy m env buyer lid bid = .ok (m', out))
    (hl : findById lid m.listings = some (k, l)) (hb : alookup (buyer, bid) m.buckets = some b)
    (pool : Nat) :
    ∀ x ∈ out, (x.recipient pool = pool ∨
        ∃ e ∈ sideEntries env l.forSale ++ sideEntries env b.funds, x.recipient pool = e.payout) ∧
      ∀ c t to, x ≠ .nftTransfer c t to := by
  obtain ⟨k', l', b', lfee, lbal, bfee, bbal, ra, fb, msgs1, s1, fl, msgs2, s2, hb', hl', _, _, _, _,
    _, _, _, _, _, r1, r2, hr⟩ := buy_inv h
  rw [hl] at hl'; cases hl'
  rw [hb] at hb'; cases hb'
  simp only [buyResult, Prod.mk.injEq] at hr
  obtain ⟨_, rfl⟩ := hr
  intro x hx
  rcases List.mem_append.1 hx with hx | hx
  · rcases List.mem_append.1 hx with hx | hx
    · unfold pendingFeeMsgs at hx
      split at hx
      · simp only [List.mem_singleton] at hx
        subst hx
        exact ⟨.inl rfl, fun _ _ _ e => by cases e⟩
      · cases hx
    · obtain ⟨e, he, hx | hx⟩ := sideRoyalties_recipients r1 x hx
      · obtain ⟨cs, rfl⟩ := hx
        exact ⟨.inr ⟨e, List.mem_append_left _ he, rfl⟩, fun _ _ _ e => by cases e⟩
      · obtain ⟨t, a, rfl⟩ := hx
        exact ⟨.inr ⟨e, List.mem_append_left _ he, rfl⟩, fun _ _ _ e => by cases e⟩
  · obtain ⟨e, he, hx | hx⟩ := sideRoyalties_recipients r2 x hx
    · obtain ⟨cs, rfl⟩ := hx
      exact ⟨.inr ⟨e, List.mem_append_right _ he, rfl⟩, fun _ _ _ e => by cases e⟩
    · obtain ⟨t, a, rfl⟩ := hx
      exact ⟨.inr ⟨e, List.mem_append_right _ he, rfl⟩, fun _ _ _ e => by cases e⟩

/-- the purchase transaction moves no NFT, and touches the holdings of nobody but the
    marketplace, the community pool and the payout addresses of the two sides' entries -/
theorem stepF_buy_untouched (fail : Nat → Bool) (w : World) (buyer lid bid : Nat) {k : Nat × Nat}
    {l : Listing} {b : Bucket} (hl : findById lid w.mkt.listings = some (k, l))
    (hb : alookup (buyer, bid) w.mkt.buckets = some b) :
    (stepF fail w (.exec buyer [] (.buy lid bid))).1.nft = w.nft ∧
    ∀ y, y ≠ w.self → y ≠ w.pool →
      (∀ e ∈ sideEntries w.env l.forSale ++ sideEntries w.env b.funds, e.payout ≠ y) →
      UntouchedFung y w (stepF fail w (.exec buyer [] (.buy lid bid))).1 := by
  rcases stepF_buy_cases fail w buyer lid bid with ⟨e, hs⟩ | ⟨m', msgs, w2, hx, hdd, hs⟩
  · rw [hs]; exact ⟨rfl, fun y _ _ _ => UntouchedFung.refl _ _⟩
  · rw [hs]
    have hrec := buy_recipients hx hl hb w.pool
    have hn : w2.nft = ({ w with mkt := m' } : World).nft :=
      dispatchAll_nft_eq hdd (fun x hx' => (hrec x hx').2)
    refine ⟨hn, ?_⟩
    intro y hy hp hr
    have hu : UntouchedFung y { w with mkt := m' } w2 := by
      refine dispatchAll_untouched hdd hy ?_
      intro x hx'
      rcases (hrec x hx').1 with e | ⟨e, he, e'⟩
      · show x.recipient w.pool ≠ y
        rw [e]; exact fun e => hp e.symm
      · show x.recipient w.pool ≠ y
        rw [e']; exact hr e he
    exact ⟨hu.bank, hu.cw20, hu.nft⟩

/-- nobody but the marketplace is debited by a purchase transaction (the buyer attaches no
    coins) -/
theorem stepF_buy_noDebit (fail : Nat → Bool) (w : World) (buyer lid bid : Nat) {y : Nat}
    (hy : y ≠ w.self) : NoDebit y w (stepF fail w (.exec buyer [] (.buy lid bid))).1 := by
  rcases stepF_buy_cases fail w buyer lid bid with ⟨e, hs⟩ | ⟨m', msgs, w2, hx, hdd, hs⟩
  · rw [hs]; exact NoDebit.refl _ _
  · rw [hs]
    have h2 : NoDebit y { w with mkt := m' } w2 := dispatchAll_noDebit hdd hy
    exact ⟨h2.bank, h2.cw20, h2.nft⟩

/-! ### the royalty messages, element by element -/

theorem ite_none_some_eq {α : Type} {c : Prop} [Decidable c] {a x : α} :
    (if c then none else some a) = some x ↔ ¬ c ∧ x = a := by
  by_cases h : c
  · simp [h]
  · simp only [h, if_false, Option.some.injEq, not_false_eq_true, true_and]
    exact ⟨fun e => e.symm, fun e => e.symm⟩

/-- the royalty messages charged to a side are exactly: per native coin and entry with a
    non-zero share one bank transfer of the share to the entry's payout address, per CW20
    amount and entry with a non-zero share one CW20 transfer -/
theorem mem_royaltyMsgs {es : List RoyaltyInfo} {g : GBal} {x : OutMsg} :
    x ∈ royaltyMsgs es g ↔
      (∃ c ∈ g.native, ∃ e ∈ es, c.amount * e.bps / 10000 ≠ 0 ∧
        x = .bankSend e.payout [⟨c.key, c.amount * e.bps / 10000⟩]) ∨
      (∃ c ∈ g.cw20, ∃ e ∈ es, c.amount * e.bps / 10000 ≠ 0 ∧
        x = .cw20Transfer c.key e.payout (c.amount * e.bps / 10000)) := by
  unfold royaltyMsgs
  simp only [List.mem_append, List.mem_flatMap, List.mem_filterMap, ite_none_some_eq]

/-- how many messages: one per (asset, entry) pair with a non-zero share -/
theorem length_royaltyMsgs (es : List RoyaltyInfo) (g : GBal) :
    (royaltyMsgs es g).length =
      ((g.native ++ g.cw20).map fun c =>
        (es.filter fun e => decide (c.amount * e.bps / 10000 ≠ 0)).length).sum := by
  have key : ∀ (mk : Nat → Nat → Nat → OutMsg) (c : Coin),
      (es.filterMap fun e => if c.amount * e.bps / 10000 = 0 then none
        else some (mk c.key e.payout (c.amount * e.bps / 10000))).length =
      (es.filter fun e => decide (c.amount * e.bps / 10000 ≠ 0)).length := by
    intro mk c
    induction es with
    | nil => rfl
    | cons e es ih =>
      rw [List.filterMap_cons]
      by_cases hz : c.amount * e.bps / 10000 = 0
      · rw [List.filter_cons_of_neg (by simp [hz])]
        simp only [hz, if_true]; exact ih
      · rw [List.filter_cons_of_pos (by simp [hz])]
        simp only [hz, if_false, List.length_cons, ih]
  rw [royaltyMsgs_eq, List.length_append, List.length_flatMap, List.length_flatMap, List.map_append,
    List.sum_append]
  unfold shareMsgs
  simp only [key]

/-! ### what a dispatched message list credits -/

theorem bankAdd_credit (a : Nat) (cs : List Coin) :
    ∀ (bank : Ledger) (d : Nat), lget (bankAdd bank a cs) (a, d) = lget bank (a, d) + coinAmt cs d := by
  induction cs with
  | nil => intro bank d; simp [bankAdd, coinAmt_nil]
  | cons c cs ih =>
    intro bank d
    simp only [bankAdd]
    rw [ih, lget_lset, coinAmt_cons]
    by_cases hk : c.key = d
    · subst hk; simp only [if_true]; omega
    · have : ¬ (a, d) = (a, c.key) := fun e => hk (Prod.mk.inj e).2.symm
      simp only [this, hk, if_false]; omega

theorem coinAmt_filter_nonzero (cs : List Coin) (d : Nat) :
    coinAmt (cs.filter fun c => decide (c.amount ≠ 0)) d = coinAmt cs d := by
  induction cs with
  | nil => rfl
  | cons c cs ih =>
    by_cases hz : c.amount = 0
    · rw [List.filter_cons_of_neg (by simp [hz]), ih, coinAmt_cons, hz]; simp
    · rw [List.filter_cons_of_pos (by simp [hz]), coinAmt_cons, coinAmt_cons, ih]

/-- a bank transfer credits its destination with exactly the coins sent -/
theorem bankSend_credit {bank b : Ledger} {src dst : Nat} {coins : List Coin}
    (h : bankSend bank src dst coins = some b) (hne : dst ≠ src) (d : Nat) :
    lget b (dst, d) = lget bank (dst, d) + coinAmt coins d := by
  unfold bankSend at h
  dsimp only at h
  split at h
  · cases h
  · split at h
    · cases h
    · next b0 hb0 =>
      simp only [Option.some.injEq] at h; subst h
      rw [bankAdd_credit, coinAmt_filter_nonzero, bankSub_other hb0 dst d hne]

/-- a CW20 transfer credits its destination with exactly the amount sent -/
theorem ledgerMove_credit {l l' : Ledger} {g src dst amt : Nat}
    (h : ledgerMove l g src dst amt = some l') (hne : dst ≠ src) :
    lget l' (g, dst) = lget l (g, dst) + amt := by
  unfold ledgerMove at h
  split at h
  · cases h
  · simp only [Option.some.injEq] at h; subst h
    rw [lget_lset_self, lget_lset_ne]
    intro e; exact hne (Prod.mk.inj e).2

/-- One dispatched message credits an account `p` (not the marketplace, not the pool) with
    exactly what the message sends to `p`: coins of a bank transfer, units of an honest CW20
    token. -/
theorem dispatch1_credit {w w' : World} {msg : OutMsg} (h : dispatch1 w msg = some w') {p : Nat}
    (hs : p ≠ w.self) (hp : p ≠ w.pool) :
    (∀ d, lget w'.bank (p, d) = lget w.bank (p, d) + fSentN p d msg) ∧
    (∀ t, w.isHonest20 t = true → lget w'.cw20 (t, p) = lget w.cw20 (t, p) + fSentC p t msg) := by
  cases msg with
  | bankSend to coins =>
    simp only [dispatch1] at h
    split at h
    · cases h
    · next b hb =>
      simp only [Option.some.injEq] at h; subst h
      refine ⟨fun d => ?_, fun t _ => rfl⟩
      dsimp only [fSentN]
      by_cases hto : to = p
      · subst hto
        rw [bankSend_credit hb hs d]; simp
      · rw [bankSend_untouched hb p d hs (fun e => hto e.symm)]; simp [hto]
  | cw20Transfer token to amt =>
    simp only [dispatch1] at h
    split at h
    · cases h
    next ci hci =>
    split at h
    · next hk1 =>
      split at h
      · cases h
      · split at h
        · cases h
        · next l hl =>
          simp only [Option.some.injEq] at h; subst h
          refine ⟨fun d => rfl, fun t _ => ?_⟩
          dsimp only [fSentC]
          by_cases hc : to = p ∧ token = t
          · obtain ⟨rfl, rfl⟩ := hc
            rw [ledgerMove_credit hl hs]; simp
          · rw [ledgerMove_untouched hl (t, p)]
            · simp [hc]
            · intro e; exact hs (Prod.mk.inj e).2
            · intro e; exact hc ⟨(Prod.mk.inj e).2.symm, (Prod.mk.inj e).1.symm⟩
    · next hk1 =>
      split at h
      · split at h
        · cases h
        · simp only [Option.some.injEq] at h; subst h
          refine ⟨fun d => rfl, fun t ht => ?_⟩
          dsimp only [fSentC]
          have : ¬ (to = p ∧ token = t) := by
            rintro ⟨_, rfl⟩
            simp only [World.isHonest20, hci, decide_eq_true_eq] at ht
            exact hk1 ht
          simp [this]
      · cases h
  | nftTransfer coll tid to =>
    simp only [dispatch1] at h
    repeat' split at h
    all_goals first
      | (cases h; done)
      | (simp only [Option.some.injEq] at h; subst h
         exact ⟨fun d => rfl, fun t _ => rfl⟩)
  | fundPool dep coin =>
    simp only [dispatch1] at h
    repeat' split at h
    all_goals first
      | (cases h; done)
      | skip
    next b hb =>
      simp only [Option.some.injEq] at h; subst h
      refine ⟨fun d => ?_, fun t _ => rfl⟩
      rw [bankSend_untouched hb p d hs hp]; rfl

/-- a dispatched message list credits `p` with exactly what it sends to `p` -/
theorem dispatchAll_credit {fail : Nat → Bool} {msgs : List OutMsg} :
    ∀ {w w' : World} {i : Nat}, dispatchAll fail w msgs i = some w' →
      ∀ {p : Nat}, p ≠ w.self → p ≠ w.pool →
        (∀ d, lget w'.bank (p, d) = lget w.bank (p, d) + sentNative msgs p d) ∧
        (∀ t, w.isHonest20 t = true →
          lget w'.cw20 (t, p) = lget w.cw20 (t, p) + sentCw20 msgs p t) := by
  induction msgs with
  | nil =>
    intro w w' i h p _ _
    simp only [dispatchAll, Option.some.injEq] at h; subst h
    exact ⟨fun d => rfl, fun t _ => rfl⟩
  | cons m ms ih =>
    intro w w' i h p hs hp
    simp only [dispatchAll] at h
    split at h
    · cases h
    · split at h
      · cases h
      · next w1 h1 =>
        have hc := (dispatch1_frame h1).1
        obtain ⟨a1, a2⟩ := dispatch1_credit h1 hs hp
        obtain ⟨b1, b2⟩ := ih h (p := p) (by rw [hc.self]; exact hs) (by rw [hc.pool]; exact hp)
        have eN : ∀ d, sentNative (m :: ms) p d = fSentN p d m + sentNative ms p d := fun d => by
          simp [sentNative_eq, outBy]
        have eC : ∀ t, sentCw20 (m :: ms) p t = fSentC p t m + sentCw20 ms p t := fun t => by
          simp [sentCw20_eq, outBy]
        refine ⟨fun d => ?_, fun t ht => ?_⟩
        · rw [b1, a1, eN]; omega
        · have ht1 : w1.isHonest20 t = true := by
            simp only [World.isHonest20, hc.kindOf]; exact ht
          rw [b2 t ht1, a2 t ht, eC]; omega

/-- An accepted purchase transaction dispatched every message of `buy` in that same
    transaction, and every account other than the marketplace and the pool was credited with
    exactly what those messages send it. -/
theorem stepF_buy_credit {fail : Nat → Bool} {w : World} {buyer lid bid : Nat}
    (hok : (stepF fail w (.exec buyer [] (.buy lid bid))).2.ok = true) :
    ∃ m' out, buy w.mkt w.env buyer lid bid = .ok (m', out) ∧
      (stepF fail w (.exec buyer [] (.buy lid bid))).2.msgs = out ∧
      (stepF fail w (.exec buyer [] (.buy lid bid))).1.mkt = m' ∧
      ∀ p, p ≠ w.self → p ≠ w.pool →
        (∀ d, lget (stepF fail w (.exec buyer [] (.buy lid bid))).1.bank (p, d) =
          lget w.bank (p, d) + sentNative out p d) ∧
        (∀ t, w.isHonest20 t = true →
          lget (stepF fail w (.exec buyer [] (.buy lid bid))).1.cw20 (t, p) =
            lget w.cw20 (t, p) + sentCw20 out p t) := by
  rcases stepF_buy_cases fail w buyer lid bid with ⟨e, hs⟩ | ⟨m', msgs, w2, hx, hdd, hs⟩
  · rw [hs] at hok; cases hok
  · rw [hs]
    refine ⟨m', msgs, hx, rfl, (dispatchAll_frame hdd).2, ?_⟩
    intro p h1 h2
    exact dispatchAll_credit hdd (w := { w with mkt := m' }) h1 h2

end Fuzion
