/-
  Fuzion.Lemmas.AcctLemmas — helper definitions and lemmas for the accounting properties
  C01 ("escrow is exactly backed") and C10 ("every fee reaches the community pool exactly once").

  Layout
  * §1  what a message list pays out (`paidNative`, `paidCw20`, `poolPaid`, `sentNfts`) and what a
        deposit brings in (`inNative`, `inCw20`);
  * §2  `coinAmt` of `addCoin` / `addCoins` / `addTokens`;
  * §3  sums over association lists under `ainsert` / `aerase`;
  * §4  what an accepted handler does to the two record tables, for arbitrary record weights
        (`*_ws` lemmas, `wsum`);
  * §5  valuations (`Val`): one generic accounting theorem per handler, instantiated for a native
        denomination, a CW20 token and (through `List.count`) an NFT;
  * §6  the pending-fee ledger (C10);
  * §7  the chain: bank / CW20 / NFT ledgers under `dispatchAll`, and `stepF` case analysis.

  Nothing here is a property theorem; those live in `Fuzion/Props/C01.lean` and `C10.lean`.
-/
import Fuzion.Inv.MInv
import Fuzion.Lemmas.AListBasic
import Fuzion.Lemmas.AList
import Fuzion.Lemmas.Arith
import Fuzion.Lemmas.RegistryLemmas
import Fuzion.Props.C17
namespace Fuzion

/-! ## §1 message lists -/

/-- native coins leaving the marketplace through a message list, per denom (bank sends AND
    community-pool deposits) -/
def paidNative (ms : List OutMsg) (d : Nat) : Nat :=
  (ms.map fun m => match m with
    | .bankSend _ cs => coinAmt cs d
    | .fundPool _ c => if c.key = d then c.amount else 0
    | _ => 0).sum

/-- CW20 tokens of contract `t` leaving the marketplace through a message list -/
def paidCw20 (ms : List OutMsg) (t : Nat) : Nat :=
  (ms.map fun m => match m with | .cw20Transfer t' _ a => if t' = t then a else 0 | _ => 0).sum

/-- native coins deposited into the community pool by a message list -/
def poolPaid (ms : List OutMsg) (d : Nat) : Nat :=
  (ms.map fun m => match m with | .fundPool _ c => if c.key = d then c.amount else 0 | _ => 0).sum

/-- the NFTs a message list transfers away -/
def sentNfts (ms : List OutMsg) : List Nft :=
  ms.filterMap fun m => match m with | .nftTransfer c t _ => some ⟨c, t⟩ | _ => none

/-- what a deposit brings in -/
def inNative : Funds → Nat → Nat
  | .native cs, d => coinAmt cs d
  | .cw20 _, _ => 0

def inCw20 : Funds → Nat → Nat
  | .native _, _ => 0
  | .cw20 c, t => if c.key = t then c.amount else 0

/-- per-message summands (`paidNative · d = outBy (pNat d)` etc.) -/
def pNat (d : Nat) : OutMsg → Nat := fun m => match m with
  | .bankSend _ cs => coinAmt cs d
  | .fundPool _ c => if c.key = d then c.amount else 0
  | _ => 0
def pPool (d : Nat) : OutMsg → Nat := fun m => match m with
  | .fundPool _ c => if c.key = d then c.amount else 0
  | _ => 0
/-- 1 iff the message transfers NFT `n` -/
def pNft (n : Nft) : OutMsg → Nat := fun m => match m with
  | .nftTransfer c t _ => if (⟨c, t⟩ : Nft) = n then 1 else 0
  | _ => 0

theorem paidNative_eq (ms : List OutMsg) (d : Nat) : paidNative ms d = outBy (pNat d) ms := rfl
theorem paidCw20_eq (ms : List OutMsg) (t : Nat) : paidCw20 ms t = outBy (fCw20 t) ms := rfl
theorem poolPaid_eq (ms : List OutMsg) (d : Nat) : poolPaid ms d = outBy (pPool d) ms := rfl

@[simp] theorem outBy_nil (f : OutMsg → Nat) : outBy f [] = 0 := rfl
theorem outBy_cons (f : OutMsg → Nat) (m : OutMsg) (ms : List OutMsg) :
    outBy f (m :: ms) = f m + outBy f ms := by simp [outBy]

theorem paidNative_append (a b : List OutMsg) (d : Nat) :
    paidNative (a ++ b) d = paidNative a d + paidNative b d := by
  simp only [paidNative_eq, outBy_append]
theorem paidCw20_append (a b : List OutMsg) (t : Nat) :
    paidCw20 (a ++ b) t = paidCw20 a t + paidCw20 b t := by
  simp only [paidCw20_eq, outBy_append]
theorem poolPaid_append (a b : List OutMsg) (d : Nat) :
    poolPaid (a ++ b) d = poolPaid a d + poolPaid b d := by
  simp only [poolPaid_eq, outBy_append]
theorem sentNfts_append (a b : List OutMsg) : sentNfts (a ++ b) = sentNfts a ++ sentNfts b := by
  simp [sentNfts]

@[simp] theorem paidNative_nil (d : Nat) : paidNative [] d = 0 := rfl
@[simp] theorem paidCw20_nil (t : Nat) : paidCw20 [] t = 0 := rfl
@[simp] theorem poolPaid_nil (d : Nat) : poolPaid [] d = 0 := rfl
@[simp] theorem sentNfts_nil : sentNfts [] = [] := rfl

/-- counting an NFT among the transferred ones is a message sum too -/
theorem count_sentNfts (n : Nft) (ms : List OutMsg) : (sentNfts ms).count n = outBy (pNft n) ms := by
  induction ms with
  | nil => rfl
  | cons m ms ih =>
    rw [outBy_cons, ← ih]
    cases m with
    | nftTransfer c t to =>
      have : sentNfts (OutMsg.nftTransfer c t to :: ms) = ⟨c, t⟩ :: sentNfts ms := rfl
      rw [this, List.count_cons]
      by_cases h : (⟨c, t⟩ : Nft) = n
      · simp [pNft, h]; omega
      · simp [pNft, h]
    | bankSend to cs =>
      have : sentNfts (OutMsg.bankSend to cs :: ms) = sentNfts ms := rfl
      rw [this]; simp [pNft]
    | cw20Transfer a b c =>
      have : sentNfts (OutMsg.cw20Transfer a b c :: ms) = sentNfts ms := rfl
      rw [this]; simp [pNft]
    | fundPool a b =>
      have : sentNfts (OutMsg.fundPool a b :: ms) = sentNfts ms := rfl
      rw [this]; simp [pNft]

/-! ### `sendTokens` / `withdrawMsgs` -/

theorem outBy_map_zero {α : Type} (f : OutMsg → Nat) (g : α → OutMsg) (l : List α)
    (h : ∀ a, f (g a) = 0) : outBy f (l.map g) = 0 := by
  induction l with
  | nil => rfl
  | cons a l ih => rw [List.map_cons, outBy_cons, h, ih]

theorem paidNative_sendTokens (to : Nat) (g : GBal) (d : Nat) :
    paidNative (sendTokens to g) d = coinAmt g.native d := by
  unfold sendTokens
  rw [paidNative_eq, outBy_append, outBy_append,
    outBy_map_zero _ _ _ (fun _ => rfl), outBy_map_zero _ _ _ (fun _ => rfl)]
  cases hn : g.native with
  | nil => rfl
  | cons c cs => simp [outBy, pNat]

theorem poolPaid_sendTokens (to : Nat) (g : GBal) (d : Nat) : poolPaid (sendTokens to g) d = 0 := by
  unfold sendTokens
  rw [poolPaid_eq, outBy_append, outBy_append,
    outBy_map_zero _ _ _ (fun _ => rfl), outBy_map_zero _ _ _ (fun _ => rfl)]
  cases hn : g.native with
  | nil => rfl
  | cons c cs => simp [outBy, pPool]

theorem outBy_fCw20_map (to t : Nat) (l : List Coin) :
    outBy (fCw20 t) (l.map fun c => OutMsg.cw20Transfer c.key to c.amount) = coinAmt l t := by
  induction l with
  | nil => rfl
  | cons c l ih =>
    rw [List.map_cons, outBy_cons, ih, coinAmt_cons]
    rfl

theorem paidCw20_sendTokens (to : Nat) (g : GBal) (t : Nat) :
    paidCw20 (sendTokens to g) t = coinAmt g.cw20 t := by
  unfold sendTokens
  have hz : outBy (fCw20 t) (g.nfts.map fun n => OutMsg.nftTransfer n.coll n.tid to) = 0 :=
    outBy_map_zero _ _ _ (fun _ => rfl)
  rw [paidCw20_eq, outBy_append, outBy_append, hz, outBy_fCw20_map]
  cases hn : g.native with
  | nil => simp
  | cons c cs => simp [outBy, fCw20]

theorem sentNfts_sendTokens (to : Nat) (g : GBal) : sentNfts (sendTokens to g) = g.nfts := by
  unfold sendTokens
  rw [sentNfts_append, sentNfts_append]
  have h1 : sentNfts (if g.native.isEmpty then [] else [OutMsg.bankSend to g.native]) = [] := by
    split <;> rfl
  have h2 : sentNfts (g.cw20.map fun c => OutMsg.cw20Transfer c.key to c.amount) = [] := by
    unfold sentNfts
    rw [List.filterMap_map]
    exact List.filterMap_eq_nil_iff.2 (fun _ _ => rfl)
  have h3 : sentNfts (g.nfts.map fun n => OutMsg.nftTransfer n.coll n.tid to) = g.nfts := by
    unfold sentNfts
    rw [List.filterMap_map]
    have : ((fun m => match m with | OutMsg.nftTransfer c t _ => some (⟨c, t⟩ : Nft) | _ => none) ∘
        fun (n : Nft) => OutMsg.nftTransfer n.coll n.tid to) = some := by
      funext n; rfl
    rw [this, List.filterMap_some]
  rw [h1, h2, h3]; rfl

/-- the optional trailing fee message of `withdrawMsgs` -/
def feeMsg (self : Nat) (fee : Option Coin) : List OutMsg :=
  match fee with | none => [] | some f => [OutMsg.fundPool self f]

theorem withdrawMsgs_eq (self to : Nat) (g : GBal) (fee : Option Coin) :
    withdrawMsgs self to g fee = sendTokens to g ++ feeMsg self fee := rfl

theorem paidNative_feeMsg (self : Nat) (fee : Option Coin) (d : Nat) :
    paidNative (feeMsg self fee) d = feeAmt fee d := by
  cases fee <;> simp [feeMsg, feeAmt, paidNative]
theorem poolPaid_feeMsg (self : Nat) (fee : Option Coin) (d : Nat) :
    poolPaid (feeMsg self fee) d = feeAmt fee d := by
  cases fee <;> simp [feeMsg, feeAmt, poolPaid]
theorem paidCw20_feeMsg (self : Nat) (fee : Option Coin) (t : Nat) :
    paidCw20 (feeMsg self fee) t = 0 := by
  cases fee <;> simp [feeMsg, paidCw20]
theorem sentNfts_feeMsg (self : Nat) (fee : Option Coin) : sentNfts (feeMsg self fee) = [] := by
  cases fee <;> rfl

theorem paidNative_withdrawMsgs (self to : Nat) (g : GBal) (fee : Option Coin) (d : Nat) :
    paidNative (withdrawMsgs self to g fee) d = coinAmt g.native d + feeAmt fee d := by
  rw [withdrawMsgs_eq, paidNative_append, paidNative_sendTokens, paidNative_feeMsg]
theorem poolPaid_withdrawMsgs (self to : Nat) (g : GBal) (fee : Option Coin) (d : Nat) :
    poolPaid (withdrawMsgs self to g fee) d = feeAmt fee d := by
  rw [withdrawMsgs_eq, poolPaid_append, poolPaid_sendTokens, poolPaid_feeMsg, Nat.zero_add]
theorem paidCw20_withdrawMsgs (self to : Nat) (g : GBal) (fee : Option Coin) (t : Nat) :
    paidCw20 (withdrawMsgs self to g fee) t = coinAmt g.cw20 t := by
  rw [withdrawMsgs_eq, paidCw20_append, paidCw20_sendTokens, paidCw20_feeMsg, Nat.add_zero]
theorem sentNfts_withdrawMsgs (self to : Nat) (g : GBal) (fee : Option Coin) :
    sentNfts (withdrawMsgs self to g fee) = g.nfts := by
  rw [withdrawMsgs_eq, sentNfts_append, sentNfts_sendTokens, sentNfts_feeMsg, List.append_nil]

/-! ## §2 `coinAmt` of the `add_tokens` helpers -/

theorem coinAmt_addCoin {l l' : List Coin} {c : Coin} (h : addCoin l c = some l') (k : Nat) :
    coinAmt l' k = coinAmt l k + (if c.key = k then c.amount else 0) := by
  induction l generalizing l' with
  | nil =>
    simp only [addCoin, Option.some.injEq] at h
    subst h
    simp [coinAmt_cons, coinAmt_nil]
  | cons x xs ih =>
    simp only [addCoin] at h
    split at h
    · rename_i hk
      split at h
      · simp only [Option.some.injEq] at h
        subst h
        simp only [coinAmt_cons, hk]
        by_cases hc : c.key = k <;> simp [hc] <;> omega
      · cases h
    · split at h
      · cases h
      · rename_i r hr
        simp only [Option.some.injEq] at h
        subst h
        simp only [coinAmt_cons, ih hr]
        omega

theorem coinAmt_addCoins {l l' cs : List Coin} (h : addCoins l cs = some l') (k : Nat) :
    coinAmt l' k = coinAmt l k + coinAmt cs k := by
  induction cs generalizing l with
  | nil =>
    simp only [addCoins, Option.some.injEq] at h
    subst h; simp [coinAmt_nil]
  | cons c cs ih =>
    simp only [addCoins] at h
    split at h
    · cases h
    · rename_i l1 h1
      rw [ih h, coinAmt_addCoin h1, coinAmt_cons]
      omega

theorem addTokens_acct {g g' : GBal} {f : Funds} (h : addTokens g f = some g') :
    (∀ d, coinAmt g'.native d = coinAmt g.native d + inNative f d) ∧
    (∀ t, coinAmt g'.cw20 t = coinAmt g.cw20 t + inCw20 f t) ∧ g'.nfts = g.nfts := by
  cases f with
  | native cs =>
    simp only [addTokens] at h
    split at h
    · cases h
    · rename_i n hn
      simp only [Option.some.injEq] at h
      subst h
      exact ⟨fun d => coinAmt_addCoins hn d, fun t => by simp [inCw20], rfl⟩
  | cw20 c =>
    simp only [addTokens] at h
    split at h
    · cases h
    · rename_i n hn
      simp only [Option.some.injEq] at h
      subst h
      exact ⟨fun d => by simp [inNative], fun t => coinAmt_addCoin hn t, rfl⟩

theorem fromBalance_acct (f : Funds) :
    (∀ d, coinAmt (fromBalance f).native d = inNative f d) ∧
    (∀ t, coinAmt (fromBalance f).cw20 t = inCw20 f t) ∧ (fromBalance f).nfts = [] := by
  cases f with
  | native cs => exact ⟨fun _ => rfl, fun _ => rfl, rfl⟩
  | cw20 c => exact ⟨fun _ => rfl, fun t => by simp [fromBalance, inCw20, coinAmt_cons, coinAmt_nil], rfl⟩

/-! ## §3 sums over the record tables -/

section
variable {κ ν : Type} [DecidableEq κ]

theorem asum_ainsert_new (f : ν → Nat) {k : κ} (v : ν) {l : List (κ × ν)} (h : alookup k l = none) :
    asum f (ainsert k v l) = asum f l + f v := by
  rw [asum_ainsert, al_aerase_absent h]; omega

theorem asum_ainsert_upd (f : ν → Nat) {k : κ} {v0 : ν} (v : ν) {l : List (κ × ν)}
    (hn : (akeys l).Nodup) (h : alookup k l = some v0) :
    asum f (ainsert k v l) + f v0 = asum f l + f v := by
  rw [asum_ainsert]
  have := asum_aerase f hn h
  omega

/-- erase the record under `k`, file a new one under `k'` (which is `k` or a fresh key) -/
theorem asum_move (f : ν → Nat) {k k' : κ} {v0 : ν} (v : ν) {l : List (κ × ν)}
    (hn : (akeys l).Nodup) (h : alookup k l = some v0) (hk : ∀ p ∈ l, p.1 = k' → p.1 = k) :
    asum f (ainsert k' v (aerase k l)) + f v0 = asum f l + f v := by
  have habs : alookup k' (aerase k l) = none := by
    rw [al_lookup_none]
    intro p hp e
    obtain ⟨hp1, hp2⟩ := al_mem_aerase.1 hp
    exact hp2 (hk p hp1 e)
  rw [asum_ainsert_new f v habs]
  have := asum_aerase f hn h
  omega

omit [DecidableEq κ] in
theorem asum_add (f g : ν → Nat) (l : List (κ × ν)) :
    asum (fun v => f v + g v) l = asum f l + asum g l := by
  induction l with
  | nil => rfl
  | cons p l ih => simp only [asum_cons, ih]; omega

omit [DecidableEq κ] in
theorem asum_zero (l : List (κ × ν)) : asum (fun _ => 0) l = 0 := by
  induction l with
  | nil => rfl
  | cons p l ih => simp only [asum_cons, ih]

omit [DecidableEq κ] in
theorem count_flatMap_asum {β : Type} [DecidableEq β] (b : β) (g : ν → List β) (l : List (κ × ν)) :
    (l.flatMap fun p => g p.2).count b = asum (fun v => (g v).count b) l := by
  induction l with
  | nil => rfl
  | cons p l ih => simp only [List.flatMap_cons, List.count_append, asum_cons, ih]

end

/-- total weight of all records, for arbitrary per-record weights -/
def wsum (wl : Listing → Nat) (wb : Bucket → Nat) (m : Market) : Nat :=
  asum wl m.listings + asum wb m.buckets

theorem listingsSum_eq (f : Listing → Nat) (m : Market) : listingsSum f m = asum f m.listings := rfl
theorem bucketsSum_eq (f : Bucket → Nat) (m : Market) : bucketsSum f m = asum f m.buckets := rfl

theorem pendingFee_eq (m : Market) (d : Nat) :
    pendingFee m d = wsum (fun l => feeAmt l.fee d) (fun b => feeAmt b.fee d) m := rfl

theorem owedNative_eq (m : Market) (d : Nat) :
    owedNative m d = wsum (fun l => coinAmt l.forSale.native d + feeAmt l.fee d)
      (fun b => coinAmt b.funds.native d + feeAmt b.fee d) m := by
  simp only [owedNative, pendingFee, wsum, listingsSum_eq, bucketsSum_eq, asum_add]
  omega

theorem owedCw20_eq (m : Market) (t : Nat) :
    owedCw20 m t = wsum (fun l => coinAmt l.forSale.cw20 t) (fun b => coinAmt b.funds.cw20 t) m := rfl

theorem count_recordedNfts (m : Market) (n : Nft) :
    (recordedNfts m).count n =
      wsum (fun l => l.forSale.nfts.count n) (fun b => b.funds.nfts.count n) m := by
  unfold recordedNfts wsum
  rw [List.count_append]
  exact congr (congrArg _ (count_flatMap_asum n (fun l : Listing => l.forSale.nfts) m.listings))
    (count_flatMap_asum n (fun b : Bucket => b.funds.nfts) m.buckets)

/-! ### what `IdsInv` / `WFInv` say about a looked-up record -/

theorem findById_none_ne {id : Nat} {l : List ((Nat × Nat) × Listing)}
    (h : (findById id l).isSome = false) : ∀ p ∈ l, p.2.id ≠ id := by
  intro p hp e
  have hn : findById id l = none := by
    cases hf : findById id l with
    | none => rfl
    | some x => rw [hf] at h; cases h
  unfold findById at hn
  have := List.find?_eq_none.1 hn p hp
  simp [e] at this

/-- a listing id that `findById` does not know is not filed under any owner -/
theorem IdsInv.lookup_none_of_findById {m : Market} (hI : IdsInv m) {id : Nat} (u : Nat)
    (h : (findById id m.listings).isSome = false) : alookup (u, id) m.listings = none := by
  rw [al_lookup_none]
  intro p hp e
  have hf := hI.lfiled p hp
  rw [e] at hf
  have : p.2.id = id := by
    have := congrArg Prod.snd hf
    exact this.symm
  exact findById_none_ne h p hp this

/-- the record `findById` returns is the one filed under `(creator, id)`, and the only one with
    that id -/
theorem IdsInv.findById_lookup {m : Market} (hI : IdsInv m) {lid : Nat} {k : Nat × Nat} {l : Listing}
    (h : findById lid m.listings = some (k, l)) :
    k = (l.creator, lid) ∧ alookup (l.creator, lid) m.listings = some l ∧
    ∀ x, ∀ p ∈ m.listings, p.1 = (x, lid) → p.1 = (l.creator, lid) := by
  obtain ⟨hid, hmem⟩ := findById_some h
  have hk : k = (l.creator, lid) := by
    have := hI.lfiled _ hmem
    simp only at this hid
    rw [this, hid]
  subst hk
  refine ⟨rfl, mem_nodup_alookup hI.lkeys hmem, ?_⟩
  intro x p hp e
  have hf := hI.lfiled p hp
  rw [e] at hf
  have hpid : p.2.id = lid := (congrArg Prod.snd hf).symm
  have := hI.lidInj p hp _ hmem (by simp only; rw [hpid, hid])
  exact this

theorem IdsInv.bucket_unique {m : Market} (hI : IdsInv m) {u bid : Nat} {b : Bucket}
    (h : alookup (u, bid) m.buckets = some b) :
    ∀ x, ∀ p ∈ m.buckets, p.1 = (x, bid) → p.1 = (u, bid) := by
  intro x p hp e
  have hmem := alookup_some_mem h
  exact hI.bidInj p hp _ hmem (by rw [e])

theorem WFInv.listing {j u : Nat} {m : Market} (hW : WFInv j u m) {k : Nat × Nat} {l : Listing}
    (h : alookup k m.listings = some l) : wfListing j u k l = true :=
  hW.lwf _ (alookup_some_mem h)

theorem WFInv.bucket {j u : Nat} {m : Market} (hW : WFInv j u m) {k : Nat × Nat} {b : Bucket}
    (h : alookup k m.buckets = some b) : wfBucket j u k b = true :=
  hW.bwf _ (alookup_some_mem h)

/-- a well-formed listing without claimant has never been traded: no fee is recorded -/
theorem wfListing_noClaimant_fee {j u : Nat} {k : Nat × Nat} {l : Listing}
    (h : wfListing j u k l = true) (hc : l.claimant.isSome = false) : l.fee = none := by
  unfold wfListing at h
  cases hs : l.status <;> rw [hs] at h <;> simp only [Bool.and_eq_true, decide_eq_true_eq] at h
  · simpa using h.2.2
  · simpa using h.2.2
  · have := h.2.1.2
    rw [this] at hc; cases hc

theorem wfListing_finalized_fee {j u : Nat} {k : Nat × Nat} {l : Listing}
    (h : wfListing j u k l = true) (hs : l.status = .finalized) : l.fee = none := by
  unfold wfListing at h
  rw [hs] at h
  simp only [Bool.and_eq_true] at h
  simpa using h.2.2

theorem wfListing_closed_claimant {j u : Nat} {k : Nat × Nat} {l : Listing}
    (h : wfListing j u k l = true) (hs : l.status = .closed) : l.claimant = some l.creator := by
  unfold wfListing at h
  rw [hs] at h
  simp only [Bool.and_eq_true, decide_eq_true_eq] at h
  exact h.2.1.2

theorem wfListing_nodup {j u : Nat} {k : Nat × Nat} {l : Listing}
    (h : wfListing j u k l = true) : (keys l.forSale.native).Nodup := by
  unfold wfListing wfBal at h
  simp only [Bool.and_eq_true, decide_eq_true_eq] at h
  exact h.1.1.2.1.1.2

theorem wfBucket_nodup {j u : Nat} {k : Nat × Nat} {b : Bucket}
    (h : wfBucket j u k b = true) : (keys b.funds.native).Nodup := by
  unfold wfBucket wfBal at h
  simp only [Bool.and_eq_true, decide_eq_true_eq] at h
  exact h.1.2.1.1.2

/-! ## §4 what an accepted handler does to the record tables

`*_ws` lemmas: for arbitrary record weights `wl`, `wb` the total weight `wsum wl wb` changes by the
weight of the records removed and added; the message list is given explicitly. -/

theorem ite_err_ok {α : Type} {c : Prop} [Decidable c] {e : Err} {x : Except Err α} {r : α}
    (h : (if c then Except.error e else x) = Except.ok r) : ¬ c ∧ x = .ok r := by
  by_cases hc : c
  · rw [if_pos hc] at h; cases h
  · rw [if_neg hc] at h; exact ⟨hc, h⟩

theorem isSome_false_none {α : Type} {o : Option α} (h : ¬ o.isSome = true) : o = none := by
  cases o with
  | none => rfl
  | some x => simp at h

variable {m m' : Market} {env : Env} {out : List OutMsg}

theorem createBucket_ws {funds : Funds} {creator id : Nat}
    (h : createBucket m funds creator id = .ok (m', out)) :
    out = [] ∧ ∀ wl wb, wsum wl wb m' = wsum wl wb m + wb ⟨creator, fromBalance funds, none⟩ := by
  unfold createBucket at h
  obtain ⟨_, h⟩ := ite_err_ok h
  obtain ⟨_, h⟩ := ite_err_ok h
  obtain ⟨h3, h⟩ := ite_err_ok h
  obtain ⟨_, h⟩ := ite_err_ok h
  simp only [Except.ok.injEq, Prod.mk.injEq] at h
  obtain ⟨rfl, rfl⟩ := h
  refine ⟨rfl, fun wl wb => ?_⟩
  simp only [wsum]
  rw [asum_ainsert_new wb _ (isSome_false_none h3)]; omega

theorem createBucketNft_ws {user : Nat} {nft : Nft} {id : Nat}
    (h : createBucketNft m user nft id = .ok (m', out)) :
    out = [] ∧ ∀ wl wb, wsum wl wb m' = wsum wl wb m + wb ⟨user, fromNft nft, none⟩ := by
  unfold createBucketNft at h
  obtain ⟨_, h⟩ := ite_err_ok h
  obtain ⟨_, h⟩ := ite_err_ok h
  obtain ⟨h3, h⟩ := ite_err_ok h
  simp only [Except.ok.injEq, Prod.mk.injEq] at h
  obtain ⟨rfl, rfl⟩ := h
  refine ⟨rfl, fun wl wb => ?_⟩
  simp only [wsum]
  rw [asum_ainsert_new wb _ (isSome_false_none h3)]; omega

theorem addToBucket_ws (hI : IdsInv m) {funds : Funds} {sender id : Nat}
    (h : addToBucket m funds sender id = .ok (m', out)) :
    ∃ b nf, alookup (sender, id) m.buckets = some b ∧ addTokens b.funds funds = some nf ∧ out = [] ∧
      ∀ wl wb, wsum wl wb m' + wb b = wsum wl wb m + wb { b with funds := nf } := by
  unfold addToBucket at h
  obtain ⟨_, h⟩ := ite_err_ok h
  split at h
  · cases h
  rename_i b hb
  obtain ⟨_, h⟩ := ite_err_ok h
  split at h
  · cases h
  rename_i nf hnf
  obtain ⟨_, h⟩ := ite_err_ok h
  obtain ⟨_, h⟩ := ite_err_ok h
  simp only [Except.ok.injEq, Prod.mk.injEq] at h
  obtain ⟨rfl, rfl⟩ := h
  refine ⟨b, nf, hb, hnf, rfl, fun wl wb => ?_⟩
  simp only [wsum]
  have := asum_ainsert_upd wb { b with funds := nf } hI.bkeys hb
  omega

theorem addToBucketNft_ws (hI : IdsInv m) {user : Nat} {nft : Nft} {id : Nat}
    (h : addToBucketNft m user nft id = .ok (m', out)) :
    ∃ b, alookup (user, id) m.buckets = some b ∧ out = [] ∧
      ∀ wl wb, wsum wl wb m' + wb b = wsum wl wb m + wb { b with funds := addNft b.funds nft } := by
  unfold addToBucketNft at h
  split at h
  · cases h
  rename_i b hb
  obtain ⟨_, h⟩ := ite_err_ok h
  dsimp only at h
  obtain ⟨_, h⟩ := ite_err_ok h
  obtain ⟨_, h⟩ := ite_err_ok h
  simp only [Except.ok.injEq, Prod.mk.injEq] at h
  obtain ⟨rfl, rfl⟩ := h
  refine ⟨b, hb, rfl, fun wl wb => ?_⟩
  simp only [wsum]
  have := asum_ainsert_upd wb { b with funds := addNft b.funds nft } hI.bkeys hb
  omega

theorem withdrawBucket_ws (hI : IdsInv m) {user id : Nat}
    (h : withdrawBucket m env user id = .ok (m', out)) :
    ∃ b, alookup (user, id) m.buckets = some b ∧ b.owner = user ∧
      out = withdrawMsgs env.self b.owner b.funds b.fee ∧
      ∀ wl wb, wsum wl wb m' + wb b = wsum wl wb m := by
  unfold withdrawBucket at h
  split at h
  · cases h
  rename_i b hb
  obtain ⟨ho, h⟩ := ite_err_ok h
  simp only [Except.ok.injEq, Prod.mk.injEq] at h
  obtain ⟨rfl, rfl⟩ := h
  refine ⟨b, hb, by simpa using ho, rfl, fun wl wb => ?_⟩
  simp only [wsum]
  have := asum_aerase wb hI.bkeys hb
  omega

theorem createListing_ws (hI : IdsInv m) {user : Nat} {funds : Funds} {c : CreateMsg} {id : Nat}
    (h : createListing m user funds c id = .ok (m', out)) :
    ∃ wh ask, out = [] ∧
      ∀ wl wb, wsum wl wb m' = wsum wl wb m + wl (newListing user id wh (fromBalance funds) ask) := by
  unfold createListing at h
  obtain ⟨_, h⟩ := ite_err_ok h
  obtain ⟨_, h⟩ := ite_err_ok h
  obtain ⟨_, h⟩ := ite_err_ok h
  obtain ⟨h4, h⟩ := ite_err_ok h
  split at h
  · cases h
  rename_i wh _
  split at h
  · cases h
  rename_i ask _
  simp only [Except.ok.injEq, Prod.mk.injEq] at h
  obtain ⟨rfl, rfl⟩ := h
  refine ⟨wh, ask, rfl, fun wl wb => ?_⟩
  simp only [wsum]
  rw [asum_ainsert_new wl _ (hI.lookup_none_of_findById user (by simpa using h4))]; omega

theorem createListingNft_ws (hI : IdsInv m) {user : Nat} {nft : Nft} {c : CreateMsg} {id : Nat}
    (h : createListingNft m user nft c id = .ok (m', out)) :
    ∃ wh ask, out = [] ∧
      ∀ wl wb, wsum wl wb m' = wsum wl wb m + wl (newListing user id wh (fromNft nft) ask) := by
  unfold createListingNft at h
  obtain ⟨_, h⟩ := ite_err_ok h
  obtain ⟨_, h⟩ := ite_err_ok h
  obtain ⟨h4, h⟩ := ite_err_ok h
  split at h
  · cases h
  rename_i wh _
  split at h
  · cases h
  rename_i ask _
  simp only [Except.ok.injEq, Prod.mk.injEq] at h
  obtain ⟨rfl, rfl⟩ := h
  refine ⟨wh, ask, rfl, fun wl wb => ?_⟩
  simp only [wsum]
  rw [asum_ainsert_new wl _ (hI.lookup_none_of_findById user (by simpa using h4))]; omega

theorem changeAsk_ws (hI : IdsInv m) {user id : Nat} {newAsk : RawGBal}
    (h : changeAsk m user id newAsk = .ok (m', out)) :
    ∃ l ask, alookup (user, id) m.listings = some l ∧ out = [] ∧
      ∀ wl wb, wsum wl wb m' + wl l = wsum wl wb m + wl { l with ask := ask } := by
  unfold changeAsk at h
  split at h
  · cases h
  rename_i l hl
  obtain ⟨_, h⟩ := ite_err_ok h
  obtain ⟨_, h⟩ := ite_err_ok h
  obtain ⟨_, h⟩ := ite_err_ok h
  obtain ⟨_, h⟩ := ite_err_ok h
  split at h
  · cases h
  rename_i ask _
  simp only [Except.ok.injEq, Prod.mk.injEq] at h
  obtain ⟨rfl, rfl⟩ := h
  refine ⟨l, ask, hl, rfl, fun wl wb => ?_⟩
  simp only [wsum]
  have := asum_ainsert_upd wl { l with ask := ask } hI.lkeys hl
  omega

theorem addToListing_ws (hI : IdsInv m) {funds : Funds} {user id : Nat}
    (h : addToListing m funds user id = .ok (m', out)) :
    ∃ l nf, alookup (user, id) m.listings = some l ∧ addTokens l.forSale funds = some nf ∧ out = [] ∧
      ∀ wl wb, wsum wl wb m' + wl l = wsum wl wb m + wl { l with forSale := nf } := by
  unfold addToListing at h
  obtain ⟨_, h⟩ := ite_err_ok h
  split at h
  · cases h
  rename_i l hl
  obtain ⟨_, h⟩ := ite_err_ok h
  obtain ⟨_, h⟩ := ite_err_ok h
  obtain ⟨_, h⟩ := ite_err_ok h
  split at h
  · cases h
  rename_i nf hnf
  obtain ⟨_, h⟩ := ite_err_ok h
  obtain ⟨_, h⟩ := ite_err_ok h
  simp only [Except.ok.injEq, Prod.mk.injEq] at h
  obtain ⟨rfl, rfl⟩ := h
  refine ⟨l, nf, hl, hnf, rfl, fun wl wb => ?_⟩
  simp only [wsum]
  have := asum_ainsert_upd wl { l with forSale := nf } hI.lkeys hl
  omega

theorem addToListingNft_ws (hI : IdsInv m) {user : Nat} {nft : Nft} {id : Nat}
    (h : addToListingNft m user nft id = .ok (m', out)) :
    ∃ l, alookup (user, id) m.listings = some l ∧ out = [] ∧
      ∀ wl wb, wsum wl wb m' + wl l = wsum wl wb m + wl { l with forSale := addNft l.forSale nft } := by
  unfold addToListingNft at h
  split at h
  · cases h
  rename_i l hl
  obtain ⟨_, h⟩ := ite_err_ok h
  obtain ⟨_, h⟩ := ite_err_ok h
  obtain ⟨_, h⟩ := ite_err_ok h
  dsimp only at h
  obtain ⟨_, h⟩ := ite_err_ok h
  obtain ⟨_, h⟩ := ite_err_ok h
  simp only [Except.ok.injEq, Prod.mk.injEq] at h
  obtain ⟨rfl, rfl⟩ := h
  refine ⟨l, hl, rfl, fun wl wb => ?_⟩
  simp only [wsum]
  have := asum_ainsert_upd wl { l with forSale := addNft l.forSale nft } hI.lkeys hl
  omega

theorem finalize_ws (hI : IdsInv m) {sender id seconds : Nat}
    (h : finalize m env sender id seconds = .ok (m', out)) :
    ∃ l fa ea, alookup (sender, id) m.listings = some l ∧ out = [] ∧
      ∀ wl wb, wsum wl wb m' + wl l =
        wsum wl wb m + wl { l with finalizedAt := fa, expiresAt := ea, status := .finalized } := by
  unfold finalize at h
  split at h
  · cases h
  rename_i l hl
  obtain ⟨_, h⟩ := ite_err_ok h
  obtain ⟨_, h⟩ := ite_err_ok h
  obtain ⟨_, h⟩ := ite_err_ok h
  obtain ⟨_, h⟩ := ite_err_ok h
  obtain ⟨_, h⟩ := ite_err_ok h
  dsimp only at h
  simp only [Except.ok.injEq, Prod.mk.injEq] at h
  obtain ⟨rfl, rfl⟩ := h
  refine ⟨l, some env.nowNs, some (env.nowNs + seconds * NS), hl, rfl, fun wl wb => ?_⟩
  simp only [wsum]
  have := asum_ainsert_upd wl
    { l with finalizedAt := some env.nowNs, expiresAt := some (env.nowNs + seconds * NS),
             status := .finalized } hI.lkeys hl
  omega

theorem deleteListing_ws (hI : IdsInv m) {sender id : Nat}
    (h : deleteListing m env sender id = .ok (m', out)) :
    ∃ l, alookup (sender, id) m.listings = some l ∧ sender = l.creator ∧ l.claimant = none ∧
      out = sendTokens l.creator l.forSale ∧
      ∀ wl wb, wsum wl wb m' + wl l = wsum wl wb m := by
  unfold deleteListing at h
  split at h
  · cases h
  rename_i l hl
  obtain ⟨h1, h⟩ := ite_err_ok h
  obtain ⟨h2, h⟩ := ite_err_ok h
  obtain ⟨_, h⟩ := ite_err_ok h
  simp only [Except.ok.injEq, Prod.mk.injEq] at h
  obtain ⟨rfl, rfl⟩ := h
  refine ⟨l, hl, by simpa using h1, isSome_false_none h2, rfl, fun wl wb => ?_⟩
  simp only [wsum]
  have := asum_aerase wl hI.lkeys hl
  omega

/-- everything an accepted `buy` read and computed -/
theorem buy_ok_inv {buyer lid bid : Nat} (h : buy m env buyer lid bid = .ok (m', out)) :
    ∃ k l b lfee lbal bfee bbal ra fb msgs1 s1 fl msgs2 s2,
      alookup (buyer, bid) m.buckets = some b ∧ findById lid m.listings = some (k, l) ∧
      buyer = b.owner ∧ l.status = .finalized ∧
      calcFeeCoin (feeDenomOf env m.feeKind) l.forSale = some (lfee, lbal) ∧
      calcFeeCoin (feeDenomOf env m.feeKind) b.funds = some (bfee, bbal) ∧
      m.registry = some ra ∧
      sideRoyalties env ra (collections l.forSale) bbal = .ok fb msgs1 s1 ∧
      sideRoyalties env ra (collections b.funds) lbal = .ok fl msgs2 s2 ∧
      m' = { m with
        listings := ainsert (buyer, lid)
          { l with creator := buyer, claimant := some buyer, status := .closed, fee := lfee,
                   forSale := fl } (aerase (l.creator, lid) m.listings),
        buckets := ainsert (l.creator, bid) ⟨l.creator, fb, bfee⟩ (aerase (buyer, bid) m.buckets) } ∧
      out = feeMsg env.self b.fee ++ msgs1 ++ msgs2 := by
  unfold buy at h
  split at h
  · cases h
  rename_i b hb
  split at h
  · cases h
  rename_i k l hl
  obtain ⟨h1, h⟩ := ite_err_ok h
  obtain ⟨h2, h⟩ := ite_err_ok h
  obtain ⟨h3, h⟩ := ite_err_ok h
  obtain ⟨h4, h⟩ := ite_err_ok h
  obtain ⟨h5, h⟩ := ite_err_ok h
  obtain ⟨h6, h⟩ := ite_err_ok h
  split at h
  · rename_i lfee lbal bfee bbal e1 e2
    split at h
    · cases h
    rename_i ra hra
    split at h
    · cases h
    · cases h
    rename_i fb msgs1 s1 hr1
    split at h
    · cases h
    · cases h
    rename_i fl msgs2 s2 hr2
    simp only [Except.ok.injEq, Prod.mk.injEq] at h
    obtain ⟨rfl, rfl⟩ := h
    refine ⟨k, l, b, lfee, lbal, bfee, bbal, ra, fb, msgs1, s1, fl, msgs2, s2, hb, hl,
      by simpa using h1, by simpa using h3, e1, e2, hra, hr1, hr2, rfl, ?_⟩
    cases b.fee <;> rfl
  · cases h

theorem buy_ws (hI : IdsInv m) {buyer lid bid : Nat} (h : buy m env buyer lid bid = .ok (m', out)) :
    ∃ k l b lfee lbal bfee bbal ra fb msgs1 s1 fl msgs2 s2,
      alookup (buyer, bid) m.buckets = some b ∧ findById lid m.listings = some (k, l) ∧
      l.status = .finalized ∧
      calcFeeCoin (feeDenomOf env m.feeKind) l.forSale = some (lfee, lbal) ∧
      calcFeeCoin (feeDenomOf env m.feeKind) b.funds = some (bfee, bbal) ∧
      sideRoyalties env ra (collections l.forSale) bbal = .ok fb msgs1 s1 ∧
      sideRoyalties env ra (collections b.funds) lbal = .ok fl msgs2 s2 ∧
      out = feeMsg env.self b.fee ++ msgs1 ++ msgs2 ∧
      ∀ wl wb, wsum wl wb m' + wl l + wb b =
        wsum wl wb m +
          wl { l with creator := buyer, claimant := some buyer, status := .closed, fee := lfee,
                      forSale := fl } +
          wb ⟨l.creator, fb, bfee⟩ := by
  obtain ⟨k, l, b, lfee, lbal, bfee, bbal, ra, fb, msgs1, s1, fl, msgs2, s2, hb, hl, _, hs, e1, e2, _,
    hr1, hr2, rfl, rfl⟩ := buy_ok_inv h
  refine ⟨k, l, b, lfee, lbal, bfee, bbal, ra, fb, msgs1, s1, fl, msgs2, s2, hb, hl, hs, e1, e2,
    hr1, hr2, rfl, fun wl wb => ?_⟩
  obtain ⟨_, hlk, huniq⟩ := hI.findById_lookup hl
  simp only [wsum]
  have a1 := asum_move wl (k' := (buyer, lid))
    { l with creator := buyer, claimant := some buyer, status := .closed, fee := lfee, forSale := fl }
    hI.lkeys hlk (huniq buyer)
  have a2 := asum_move wb (k' := (l.creator, bid)) ⟨l.creator, fb, bfee⟩ hI.bkeys hb
    (hI.bucket_unique hb l.creator)
  omega

theorem withdrawPurchased_ws {j u : Nat} (hI : IdsInv m) (hW : WFInv j u m) {who lid : Nat}
    (h : withdrawPurchased m env who lid = .ok (m', out)) :
    ∃ k l, findById lid m.listings = some (k, l) ∧ l.claimant = some who ∧ l.status = .closed ∧
      out = withdrawMsgs env.self who l.forSale l.fee ∧
      ∀ wl wb, wsum wl wb m' + wl l = wsum wl wb m := by
  unfold withdrawPurchased at h
  split at h
  · cases h
  rename_i k l hl
  split at h
  · cases h
  rename_i c hc
  obtain ⟨h1, h⟩ := ite_err_ok h
  obtain ⟨h2, h⟩ := ite_err_ok h
  simp only [Except.ok.injEq, Prod.mk.injEq] at h
  obtain ⟨rfl, rfl⟩ := h
  have hwc : who = c := by simpa using h1
  subst hwc
  have hst : l.status = .closed := by simpa using h2
  obtain ⟨_, hlk, _⟩ := hI.findById_lookup hl
  have hcl := wfListing_closed_claimant (hW.listing hlk) hst
  have hcr : who = l.creator := by rw [hc] at hcl; exact Option.some.inj hcl
  refine ⟨k, l, hl, hc, hst, rfl, fun wl wb => ?_⟩
  simp only [wsum]
  rw [hcr]
  have := asum_aerase wl hI.lkeys hlk
  omega

theorem cycleFee_ws (h : cycleFee m env = .ok (m', out)) :
    out = [] ∧ ∀ wl wb, wsum wl wb m' = wsum wl wb m := by
  unfold cycleFee at h
  dsimp only at h
  obtain ⟨_, h⟩ := ite_err_ok h
  simp only [Except.ok.injEq, Prod.mk.injEq] at h
  obtain ⟨rfl, rfl⟩ := h
  exact ⟨rfl, fun _ _ => rfl⟩

/-! ## §5 valuations

A valuation assigns a number to a balance, to a recorded fee, to an outgoing message and to an
incoming deposit.  `Val.Ok` lists the conservation laws of the pure helpers (`add_tokens`,
`calc_fee_coin`, `royalties`, `send_tokens_cosmos`).  For an `Ok` valuation every handler satisfies
`owed m' + paid out = owed m + incoming`; the three asset classes are instances. -/

structure Val where
  bal : GBal → Nat
  fee : Option Coin → Nat
  msg : OutMsg → Nat
  inF : Funds → Nat
  inN : Nft → Nat

structure Val.Ok (V : Val) : Prop where
  fee_none : V.fee none = 0
  pool : ∀ dep f, V.msg (.fundPool dep f) = V.fee (some f)
  send : ∀ to g, outBy V.msg (sendTokens to g) = V.bal g
  add : ∀ {g f g'}, addTokens g f = some g' → V.bal g' = V.bal g + V.inF f
  addNft : ∀ g n, V.bal (addNft g n) = V.bal g + V.inN n
  fromBal : ∀ f, V.bal (fromBalance f) = V.inF f
  fromNft : ∀ n, V.bal (fromNft n) = V.inN n
  feeSplit : ∀ {fd g fee g'}, (keys g.native).Nodup → calcFeeCoin fd g = some (fee, g') →
    V.bal g' + V.fee fee = V.bal g
  roy : ∀ {g rs g' ms s}, royalties g rs = .ok g' ms s → V.bal g' + outBy V.msg ms = V.bal g

def Val.wl (V : Val) (l : Listing) : Nat := V.bal l.forSale + V.fee l.fee
def Val.wb (V : Val) (b : Bucket) : Nat := V.bal b.funds + V.fee b.fee
/-- everything the records promise, in the valuation -/
def owed (V : Val) (m : Market) : Nat := wsum V.wl V.wb m
/-- everything a message list pays out, in the valuation -/
def paid (V : Val) (ms : List OutMsg) : Nat := outBy V.msg ms

theorem paid_append (V : Val) (a b : List OutMsg) : paid V (a ++ b) = paid V a + paid V b :=
  outBy_append _ _ _

theorem Val.Ok.paid_feeMsg {V : Val} (hV : V.Ok) (self : Nat) (fee : Option Coin) :
    paid V (feeMsg self fee) = V.fee fee := by
  cases fee with
  | none => rw [hV.fee_none]; rfl
  | some f => simp [feeMsg, paid, outBy, hV.pool]

theorem Val.Ok.paid_withdrawMsgs {V : Val} (hV : V.Ok) (self to : Nat) (g : GBal) (fee : Option Coin) :
    paid V (withdrawMsgs self to g fee) = V.bal g + V.fee fee := by
  rw [withdrawMsgs_eq, paid_append, hV.paid_feeMsg]
  unfold paid
  rw [hV.send]

theorem Val.Ok.sideRoy {V : Val} (hV : V.Ok) {ra : Nat} {cols : List Nat} {g g' : GBal}
    {ms : List OutMsg} {s : Nat} (h : sideRoyalties env ra cols g = .ok g' ms s) :
    V.bal g' + paid V ms = V.bal g := by
  unfold sideRoyalties at h
  split at h
  · injection h with h1 h2 h3
    subst h1 h2
    rfl
  · split at h
    · cases h
    · exact hV.roy h

section
variable {V : Val}

theorem createBucket_val (hV : V.Ok) {funds : Funds} {creator id : Nat}
    (h : createBucket m funds creator id = .ok (m', out)) :
    owed V m' + paid V out = owed V m + V.inF funds := by
  obtain ⟨rfl, hw⟩ := createBucket_ws h
  simp only [owed, hw, Val.wb, hV.fromBal, hV.fee_none, paid, outBy_nil]; omega

theorem createBucketNft_val (hV : V.Ok) {user : Nat} {nft : Nft} {id : Nat}
    (h : createBucketNft m user nft id = .ok (m', out)) :
    owed V m' + paid V out = owed V m + V.inN nft := by
  obtain ⟨rfl, hw⟩ := createBucketNft_ws h
  simp only [owed, hw, Val.wb, hV.fromNft, hV.fee_none, paid, outBy_nil]; omega

theorem addToBucket_val (hV : V.Ok) (hI : IdsInv m) {funds : Funds} {sender id : Nat}
    (h : addToBucket m funds sender id = .ok (m', out)) :
    owed V m' + paid V out = owed V m + V.inF funds := by
  obtain ⟨b, nf, _, hnf, rfl, hw⟩ := addToBucket_ws hI h
  have := hw V.wl V.wb
  simp only [Val.wb, hV.add hnf] at this
  simp only [owed, paid, outBy_nil]; omega

theorem addToBucketNft_val (hV : V.Ok) (hI : IdsInv m) {user : Nat} {nft : Nft} {id : Nat}
    (h : addToBucketNft m user nft id = .ok (m', out)) :
    owed V m' + paid V out = owed V m + V.inN nft := by
  obtain ⟨b, _, rfl, hw⟩ := addToBucketNft_ws hI h
  have := hw V.wl V.wb
  simp only [Val.wb, hV.addNft] at this
  simp only [owed, paid, outBy_nil]; omega

theorem withdrawBucket_val (hV : V.Ok) (hI : IdsInv m) {user id : Nat}
    (h : withdrawBucket m env user id = .ok (m', out)) :
    owed V m' + paid V out = owed V m := by
  obtain ⟨b, _, _, rfl, hw⟩ := withdrawBucket_ws hI h
  have := hw V.wl V.wb
  simp only [Val.wb] at this
  rw [hV.paid_withdrawMsgs]
  simp only [owed]; omega

theorem createListing_val (hV : V.Ok) (hI : IdsInv m) {user : Nat} {funds : Funds} {c : CreateMsg}
    {id : Nat} (h : createListing m user funds c id = .ok (m', out)) :
    owed V m' + paid V out = owed V m + V.inF funds := by
  obtain ⟨wh, ask, rfl, hw⟩ := createListing_ws hI h
  simp only [owed, hw, Val.wl, newListing, hV.fromBal, hV.fee_none, paid, outBy_nil]; omega

theorem createListingNft_val (hV : V.Ok) (hI : IdsInv m) {user : Nat} {nft : Nft} {c : CreateMsg}
    {id : Nat} (h : createListingNft m user nft c id = .ok (m', out)) :
    owed V m' + paid V out = owed V m + V.inN nft := by
  obtain ⟨wh, ask, rfl, hw⟩ := createListingNft_ws hI h
  simp only [owed, hw, Val.wl, newListing, hV.fromNft, hV.fee_none, paid, outBy_nil]; omega

theorem changeAsk_val (hI : IdsInv m) {user id : Nat} {newAsk : RawGBal}
    (h : changeAsk m user id newAsk = .ok (m', out)) :
    owed V m' + paid V out = owed V m := by
  obtain ⟨l, ask, _, rfl, hw⟩ := changeAsk_ws hI h
  have := hw V.wl V.wb
  simp only [Val.wl] at this
  simp only [owed, paid, outBy_nil]; omega

theorem addToListing_val (hV : V.Ok) (hI : IdsInv m) {funds : Funds} {user id : Nat}
    (h : addToListing m funds user id = .ok (m', out)) :
    owed V m' + paid V out = owed V m + V.inF funds := by
  obtain ⟨l, nf, _, hnf, rfl, hw⟩ := addToListing_ws hI h
  have := hw V.wl V.wb
  simp only [Val.wl, hV.add hnf] at this
  simp only [owed, paid, outBy_nil]; omega

theorem addToListingNft_val (hV : V.Ok) (hI : IdsInv m) {user : Nat} {nft : Nft} {id : Nat}
    (h : addToListingNft m user nft id = .ok (m', out)) :
    owed V m' + paid V out = owed V m + V.inN nft := by
  obtain ⟨l, _, rfl, hw⟩ := addToListingNft_ws hI h
  have := hw V.wl V.wb
  simp only [Val.wl, hV.addNft] at this
  simp only [owed, paid, outBy_nil]; omega

theorem finalize_val (hI : IdsInv m) {sender id seconds : Nat}
    (h : finalize m env sender id seconds = .ok (m', out)) :
    owed V m' + paid V out = owed V m := by
  obtain ⟨l, fa, ea, _, rfl, hw⟩ := finalize_ws hI h
  have := hw V.wl V.wb
  simp only [Val.wl] at this
  simp only [owed, paid, outBy_nil]; omega

theorem deleteListing_val {j u : Nat} (hV : V.Ok) (hI : IdsInv m) (hW : WFInv j u m) {sender id : Nat}
    (h : deleteListing m env sender id = .ok (m', out)) :
    owed V m' + paid V out = owed V m := by
  obtain ⟨l, hl, _, hc, rfl, hw⟩ := deleteListing_ws hI h
  have hfee := wfListing_noClaimant_fee (hW.listing hl) (by rw [hc]; rfl)
  have := hw V.wl V.wb
  simp only [Val.wl, hfee, hV.fee_none] at this
  simp only [owed, paid, hV.send]; omega

theorem buy_val {j u : Nat} (hV : V.Ok) (hI : IdsInv m) (hW : WFInv j u m) {buyer lid bid : Nat}
    (h : buy m env buyer lid bid = .ok (m', out)) :
    owed V m' + paid V out = owed V m := by
  obtain ⟨k, l, b, lfee, lbal, bfee, bbal, ra, fb, msgs1, s1, fl, msgs2, s2, hb, hl, hs, e1, e2,
    hr1, hr2, rfl, hw⟩ := buy_ws hI h
  obtain ⟨_, hlk, _⟩ := hI.findById_lookup hl
  have hfee := wfListing_finalized_fee (hW.listing hlk) hs
  have c1 := hV.feeSplit (wfListing_nodup (hW.listing hlk)) e1
  have c2 := hV.feeSplit (wfBucket_nodup (hW.bucket hb)) e2
  have r1 := hV.sideRoy hr1
  have r2 := hV.sideRoy hr2
  have := hw V.wl V.wb
  simp only [Val.wl, Val.wb, hfee, hV.fee_none] at this
  rw [paid_append, paid_append, hV.paid_feeMsg]
  simp only [owed]; omega

theorem withdrawPurchased_val {j u : Nat} (hV : V.Ok) (hI : IdsInv m) (hW : WFInv j u m)
    {who lid : Nat} (h : withdrawPurchased m env who lid = .ok (m', out)) :
    owed V m' + paid V out = owed V m := by
  obtain ⟨k, l, _, _, _, rfl, hw⟩ := withdrawPurchased_ws hI hW h
  have := hw V.wl V.wb
  simp only [Val.wl] at this
  rw [hV.paid_withdrawMsgs]
  simp only [owed]; omega

theorem cycleFee_val (h : cycleFee m env = .ok (m', out)) : owed V m' + paid V out = owed V m := by
  obtain ⟨rfl, hw⟩ := cycleFee_ws h
  simp only [owed, hw, paid, outBy_nil]; omega

end

/-- what the entry point's arguments bring in: attached native coins for the four direct deposit
    messages, the calling token contract's own token for the two receive hooks -/
def Val.inMsg (V : Val) (caller : Nat) (funds : List Coin) : ExecMsg → Nat
  | .receive _ a _ => V.inF (.cw20 ⟨caller, a⟩)
  | .receiveNft _ t _ => V.inN ⟨caller, t⟩
  | .createListing _ _ => V.inF (.native funds)
  | .addToListing _ => V.inF (.native funds)
  | .createBucket _ => V.inF (.native funds)
  | .addToBucket _ => V.inF (.native funds)
  | _ => 0

theorem receive_val {V : Val} (hV : V.Ok) (hI : IdsInv m) {caller : Nat} {funds : List Coin}
    {sender : RawAddr} {amount : Nat} {inner : Option Inner}
    (h : receive m env caller funds sender amount inner = .ok (m', out)) :
    owed V m' + paid V out = owed V m + V.inF (.cw20 ⟨caller, amount⟩) := by
  unfold receive at h
  obtain ⟨_, h⟩ := ite_err_ok h
  obtain ⟨_, h⟩ := ite_err_ok h
  split at h
  · cases h
  split at h
  · cases h
  dsimp only at h
  split at h
  · exact createListing_val hV hI h
  · exact addToListing_val hV hI h
  · exact createBucket_val hV h
  · exact addToBucket_val hV hI h

theorem receiveNft_val {V : Val} (hV : V.Ok) (hI : IdsInv m) {caller : Nat} {funds : List Coin}
    {sender : RawAddr} {tid : Nat} {inner : Option Inner}
    (h : receiveNft m env caller funds sender tid inner = .ok (m', out)) :
    owed V m' + paid V out = owed V m + V.inN ⟨caller, tid⟩ := by
  unfold receiveNft at h
  obtain ⟨_, h⟩ := ite_err_ok h
  obtain ⟨_, h⟩ := ite_err_ok h
  split at h
  · cases h
  split at h
  · cases h
  dsimp only at h
  split at h
  · exact createListingNft_val hV hI h
  · exact addToListingNft_val hV hI h
  · exact createBucketNft_val hV h
  · exact addToBucketNft_val hV hI h

/-- the accounting identity for the whole entry point, in any valuation -/
theorem execute_val {j u : Nat} {V : Val} (hV : V.Ok) (hI : IdsInv m) (hW : WFInv j u m)
    {sender : Nat} {funds : List Coin} {msg : ExecMsg}
    (h : execute m env sender funds msg = .ok (m', out)) :
    owed V m' + paid V out = owed V m + V.inMsg sender funds msg := by
  unfold execute at h
  obtain ⟨_, h⟩ := ite_err_ok h
  cases msg with
  | feeCycle => exact cycleFee_val h
  | createListing id c => exact createListing_val hV hI h
  | addToListing id => exact addToListing_val hV hI h
  | changeAsk id ask => exact changeAsk_val hI h
  | finalize id s => exact finalize_val hI h
  | deleteListing id => exact deleteListing_val hV hI hW h
  | createBucket id => exact createBucket_val hV h
  | addToBucket id => exact addToBucket_val hV hI h
  | removeBucket id => exact withdrawBucket_val hV hI h
  | buy lid bid => exact buy_val hV hI hW h
  | withdrawPurchased lid => exact withdrawPurchased_val hV hI hW h
  | receive s a i => exact receive_val hV hI h
  | receiveNft s t i => exact receiveNft_val hV hI h

/-! ### the three asset classes as valuations -/

/-- native denomination `d`: goods and pending fees count, bank sends and pool deposits pay -/
def natV (d : Nat) : Val :=
  { bal := fun g => coinAmt g.native d, fee := fun f => feeAmt f d, msg := pNat d,
    inF := fun f => inNative f d, inN := fun _ => 0 }

/-- CW20 token `t` -/
def cwV (t : Nat) : Val :=
  { bal := fun g => coinAmt g.cw20 t, fee := fun _ => 0, msg := fCw20 t,
    inF := fun f => inCw20 f t, inN := fun _ => 0 }

/-- multiplicity of NFT `n` -/
def nftV (n : Nft) : Val :=
  { bal := fun g => g.nfts.count n, fee := fun _ => 0, msg := pNft n,
    inF := fun _ => 0, inN := fun x => if x = n then 1 else 0 }

/-- the royalty pass, for any message weight that sees bank sends of denomination `k` only -/
theorem royalties_outBy_native {f : OutMsg → Nat} {k : Nat}
    (hb : ∀ d to amt, f (mkBank d to amt) = if d = k then amt else 0)
    (hc : ∀ d to amt, f (mkCw20 d to amt) = 0)
    {g g' : GBal} {rs : List (Option RoyaltyInfo)} {ms : List OutMsg} {s : Nat}
    (h : royalties g rs = .ok g' ms s) : coinAmt g'.native k + outBy f ms = coinAmt g.native k := by
  obtain ⟨_, _, hg, hm, l1, _⟩ := royalties_closed h
  subst hg hm
  rw [outBy_append, outBy_royMsgs_zero hc]
  exact royCoins_conserve hb (rs.filterMap id) l1

theorem royalties_outBy_cw20 {f : OutMsg → Nat} {k : Nat}
    (hb : ∀ d to amt, f (mkBank d to amt) = 0)
    (hc : ∀ d to amt, f (mkCw20 d to amt) = if d = k then amt else 0)
    {g g' : GBal} {rs : List (Option RoyaltyInfo)} {ms : List OutMsg} {s : Nat}
    (h : royalties g rs = .ok g' ms s) : coinAmt g'.cw20 k + outBy f ms = coinAmt g.cw20 k := by
  obtain ⟨_, _, hg, hm, _, l2⟩ := royalties_closed h
  subst hg hm
  rw [outBy_append, outBy_royMsgs_zero hb, Nat.zero_add]
  exact royCoins_conserve hc (rs.filterMap id) l2

theorem royalties_outBy_zero {f : OutMsg → Nat}
    (hb : ∀ d to amt, f (mkBank d to amt) = 0) (hc : ∀ d to amt, f (mkCw20 d to amt) = 0)
    {g g' : GBal} {rs : List (Option RoyaltyInfo)} {ms : List OutMsg} {s : Nat}
    (h : royalties g rs = .ok g' ms s) : g'.nfts = g.nfts ∧ outBy f ms = 0 := by
  obtain ⟨_, _, hg, hm, _, _⟩ := royalties_closed h
  subst hg hm
  rw [outBy_append, outBy_royMsgs_zero hb, outBy_royMsgs_zero hc]
  exact ⟨rfl, rfl⟩

theorem pNat_mkBank (k d to amt : Nat) : pNat k (mkBank d to amt) = if d = k then amt else 0 := by
  simp [pNat, mkBank, coinAmt_single]

theorem natV_ok (d : Nat) : (natV d).Ok where
  fee_none := rfl
  pool := fun _ _ => rfl
  send := fun to g => paidNative_sendTokens to g d
  add := fun h => (addTokens_acct h).1 d
  addNft := fun _ _ => rfl
  fromBal := fun f => (fromBalance_acct f).1 d
  fromNft := fun _ => rfl
  feeSplit := fun nd h => (C17_fee_conserve nd h).1 d
  roy := fun h => royalties_outBy_native (pNat_mkBank d) (fun _ _ _ => rfl) h

theorem cwV_ok (t : Nat) : (cwV t).Ok where
  fee_none := rfl
  pool := fun _ _ => rfl
  send := fun to g => paidCw20_sendTokens to g t
  add := fun h => (addTokens_acct h).2.1 t
  addNft := fun _ _ => rfl
  fromBal := fun f => (fromBalance_acct f).2.1 t
  fromNft := fun _ => rfl
  feeSplit := fun nd h => by
    have := (C17_fee_conserve nd h).2.1
    simp only [cwV, this, Nat.add_zero]
  roy := fun h => royalties_outBy_cw20 (fun _ _ _ => rfl) (fCw20_mkCw20 t) h

theorem nftV_ok (n : Nft) : (nftV n).Ok where
  fee_none := rfl
  pool := fun _ _ => rfl
  send := fun to g => by
    show outBy (pNft n) (sendTokens to g) = g.nfts.count n
    rw [← count_sentNfts, sentNfts_sendTokens]
  add := fun h => by
    have := (addTokens_acct h).2.2
    simp only [nftV, this, Nat.add_zero]
  addNft := fun g x => by
    simp only [nftV, addNft, List.count_append, List.count_cons, List.count_nil, beq_iff_eq, Nat.zero_add]
  fromBal := fun f => by
    simp only [nftV, (fromBalance_acct f).2.2, List.count_nil]
  fromNft := fun x => by
    simp only [nftV, fromNft, List.count_cons, List.count_nil, beq_iff_eq, Nat.zero_add]
  feeSplit := fun nd h => by
    have := (C17_fee_conserve nd h).2.2
    simp only [nftV, this, Nat.add_zero]
  roy := fun h => by
    obtain ⟨h1, h2⟩ := royalties_outBy_zero (f := pNft n) (fun _ _ _ => rfl) (fun _ _ _ => rfl) h
    simp only [nftV, h1, h2, Nat.add_zero]

theorem owed_natV (m : Market) (d : Nat) : owed (natV d) m = owedNative m d :=
  (owedNative_eq m d).symm
theorem owed_cwV (m : Market) (t : Nat) : owed (cwV t) m = owedCw20 m t := rfl
theorem owed_nftV (m : Market) (n : Nft) : owed (nftV n) m = (recordedNfts m).count n :=
  (count_recordedNfts m n).symm
theorem paid_natV (ms : List OutMsg) (d : Nat) : paid (natV d) ms = paidNative ms d := rfl
theorem paid_cwV (ms : List OutMsg) (t : Nat) : paid (cwV t) ms = paidCw20 ms t := rfl
theorem paid_nftV (ms : List OutMsg) (n : Nft) : paid (nftV n) ms = (sentNfts ms).count n :=
  (count_sentNfts n ms).symm

/-- permutation from per-element accounting -/
theorem perm_of_count_acct {a b c d : List Nft}
    (h : ∀ n, a.count n + b.count n = c.count n + d.count n) : (a ++ b).Perm (c ++ d) := by
  rw [List.perm_iff_count]
  intro n
  rw [List.count_append, List.count_append]
  exact h n

/-! ### the concrete three-part accounting statement -/

/-- `m → m'` with messages `out` and incoming assets `inNat`, `in20`, `inNfts` balances exactly -/
structure Acct (m m' : Market) (out : List OutMsg) (inNat in20 : Nat → Nat) (inNfts : List Nft) :
    Prop where
  native : ∀ d, owedNative m' d + paidNative out d = owedNative m d + inNat d
  cw20 : ∀ t, owedCw20 m' t + paidCw20 out t = owedCw20 m t + in20 t
  nft : (recordedNfts m' ++ sentNfts out).Perm (recordedNfts m ++ inNfts)

theorem acct_of_val {X : Val → Nat} {inNat in20 : Nat → Nat} {inNfts : List Nft}
    (h : ∀ V : Val, V.Ok → owed V m' + paid V out = owed V m + X V)
    (hn : ∀ d, X (natV d) = inNat d) (hc : ∀ t, X (cwV t) = in20 t)
    (hf : ∀ n, X (nftV n) = inNfts.count n) : Acct m m' out inNat in20 inNfts where
  native := fun d => by
    have := h (natV d) (natV_ok d)
    rwa [owed_natV, owed_natV, paid_natV, hn] at this
  cw20 := fun t => by
    have := h (cwV t) (cwV_ok t)
    rwa [owed_cwV, owed_cwV, paid_cwV, hc] at this
  nft := perm_of_count_acct fun n => by
    have := h (nftV n) (nftV_ok n)
    rwa [owed_nftV, owed_nftV, paid_nftV, hf] at this

theorem count_single_nft (x n : Nft) : [x].count n = if x = n then 1 else 0 := by
  simp only [List.count_cons, List.count_nil, beq_iff_eq, Nat.zero_add]

/-- a deposit of fungible funds -/
abbrev AcctFunds (m m' : Market) (out : List OutMsg) (funds : Funds) : Prop :=
  Acct m m' out (inNative funds) (inCw20 funds) []
/-- a deposit of one NFT -/
abbrev AcctNft (m m' : Market) (out : List OutMsg) (nft : Nft) : Prop :=
  Acct m m' out (fun _ => 0) (fun _ => 0) [nft]
/-- nothing comes in -/
abbrev AcctNone (m m' : Market) (out : List OutMsg) : Prop :=
  Acct m m' out (fun _ => 0) (fun _ => 0) []

theorem createBucket_acct {funds : Funds} {creator id : Nat}
    (h : createBucket m funds creator id = .ok (m', out)) : AcctFunds m m' out funds :=
  acct_of_val (X := fun V => V.inF funds) (fun _ hV => createBucket_val hV h)
    (fun _ => rfl) (fun _ => rfl) (fun _ => rfl)

theorem createBucketNft_acct {user : Nat} {nft : Nft} {id : Nat}
    (h : createBucketNft m user nft id = .ok (m', out)) : AcctNft m m' out nft :=
  acct_of_val (X := fun V => V.inN nft) (fun _ hV => createBucketNft_val hV h)
    (fun _ => rfl) (fun _ => rfl) (fun n => (count_single_nft nft n).symm)

theorem addToBucket_acct (hI : IdsInv m) {funds : Funds} {sender id : Nat}
    (h : addToBucket m funds sender id = .ok (m', out)) : AcctFunds m m' out funds :=
  acct_of_val (X := fun V => V.inF funds) (fun _ hV => addToBucket_val hV hI h)
    (fun _ => rfl) (fun _ => rfl) (fun _ => rfl)

theorem addToBucketNft_acct (hI : IdsInv m) {user : Nat} {nft : Nft} {id : Nat}
    (h : addToBucketNft m user nft id = .ok (m', out)) : AcctNft m m' out nft :=
  acct_of_val (X := fun V => V.inN nft) (fun _ hV => addToBucketNft_val hV hI h)
    (fun _ => rfl) (fun _ => rfl) (fun n => (count_single_nft nft n).symm)

theorem withdrawBucket_acct (hI : IdsInv m) {user id : Nat}
    (h : withdrawBucket m env user id = .ok (m', out)) : AcctNone m m' out :=
  acct_of_val (X := fun _ => 0) (fun _ hV => withdrawBucket_val hV hI h)
    (fun _ => rfl) (fun _ => rfl) (fun _ => rfl)

theorem createListing_acct (hI : IdsInv m) {user : Nat} {funds : Funds} {c : CreateMsg} {id : Nat}
    (h : createListing m user funds c id = .ok (m', out)) : AcctFunds m m' out funds :=
  acct_of_val (X := fun V => V.inF funds) (fun _ hV => createListing_val hV hI h)
    (fun _ => rfl) (fun _ => rfl) (fun _ => rfl)

theorem createListingNft_acct (hI : IdsInv m) {user : Nat} {nft : Nft} {c : CreateMsg} {id : Nat}
    (h : createListingNft m user nft c id = .ok (m', out)) : AcctNft m m' out nft :=
  acct_of_val (X := fun V => V.inN nft) (fun _ hV => createListingNft_val hV hI h)
    (fun _ => rfl) (fun _ => rfl) (fun n => (count_single_nft nft n).symm)

theorem changeAsk_acct (hI : IdsInv m) {user id : Nat} {newAsk : RawGBal}
    (h : changeAsk m user id newAsk = .ok (m', out)) : AcctNone m m' out :=
  acct_of_val (X := fun _ => 0) (fun _ _ => changeAsk_val hI h)
    (fun _ => rfl) (fun _ => rfl) (fun _ => rfl)

theorem addToListing_acct (hI : IdsInv m) {funds : Funds} {user id : Nat}
    (h : addToListing m funds user id = .ok (m', out)) : AcctFunds m m' out funds :=
  acct_of_val (X := fun V => V.inF funds) (fun _ hV => addToListing_val hV hI h)
    (fun _ => rfl) (fun _ => rfl) (fun _ => rfl)

theorem addToListingNft_acct (hI : IdsInv m) {user : Nat} {nft : Nft} {id : Nat}
    (h : addToListingNft m user nft id = .ok (m', out)) : AcctNft m m' out nft :=
  acct_of_val (X := fun V => V.inN nft) (fun _ hV => addToListingNft_val hV hI h)
    (fun _ => rfl) (fun _ => rfl) (fun n => (count_single_nft nft n).symm)

theorem finalize_acct (hI : IdsInv m) {sender id seconds : Nat}
    (h : finalize m env sender id seconds = .ok (m', out)) : AcctNone m m' out :=
  acct_of_val (X := fun _ => 0) (fun _ _ => finalize_val hI h)
    (fun _ => rfl) (fun _ => rfl) (fun _ => rfl)

theorem deleteListing_acct {j u : Nat} (hI : IdsInv m) (hW : WFInv j u m) {sender id : Nat}
    (h : deleteListing m env sender id = .ok (m', out)) : AcctNone m m' out :=
  acct_of_val (X := fun _ => 0) (fun _ hV => deleteListing_val hV hI hW h)
    (fun _ => rfl) (fun _ => rfl) (fun _ => rfl)

/-- `buy`: everything that leaves the records leaves the contract in this very response -/
theorem buy_acct {j u : Nat} (hI : IdsInv m) (hW : WFInv j u m) {buyer lid bid : Nat}
    (h : buy m env buyer lid bid = .ok (m', out)) : AcctNone m m' out :=
  acct_of_val (X := fun _ => 0) (fun _ hV => buy_val hV hI hW h)
    (fun _ => rfl) (fun _ => rfl) (fun _ => rfl)

theorem withdrawPurchased_acct {j u : Nat} (hI : IdsInv m) (hW : WFInv j u m) {who lid : Nat}
    (h : withdrawPurchased m env who lid = .ok (m', out)) : AcctNone m m' out :=
  acct_of_val (X := fun _ => 0) (fun _ hV => withdrawPurchased_val hV hI hW h)
    (fun _ => rfl) (fun _ => rfl) (fun _ => rfl)

theorem cycleFee_acct (h : cycleFee m env = .ok (m', out)) : AcctNone m m' out :=
  acct_of_val (X := fun _ => 0) (fun _ _ => cycleFee_val h)
    (fun _ => rfl) (fun _ => rfl) (fun _ => rfl)

/-- CW20 tokens a marketplace call brings in: the hook's amount of the calling token contract -/
def msgIn20 (caller : Nat) : ExecMsg → Nat → Nat
  | .receive _ a _, t => if caller = t then a else 0
  | _, _ => 0

/-- NFTs a marketplace call brings in: the hook's token id of the calling collection -/
def msgInNfts (caller : Nat) : ExecMsg → List Nft
  | .receiveNft _ tid _ => [⟨caller, tid⟩]
  | _ => []

/-- attached coins are only accepted by the four direct deposit messages -/
theorem execute_funds_nil {sender : Nat} {funds : List Coin} {msg : ExecMsg}
    (h : execute m env sender funds msg = .ok (m', out)) :
    (∃ id c, msg = .createListing id c) ∨ (∃ id, msg = .addToListing id) ∨
    (∃ id, msg = .createBucket id) ∨ (∃ id, msg = .addToBucket id) ∨ funds = [] := by
  unfold execute at h
  obtain ⟨h0, h⟩ := ite_err_ok h
  have hnil : ∀ {l : List Coin}, ¬ (!l.isEmpty) = true → l = [] := by
    intro l hl
    cases l with
    | nil => rfl
    | cons a t => simp at hl
  cases msg with
  | createListing id c => exact .inl ⟨id, c, rfl⟩
  | addToListing id => exact .inr (.inl ⟨id, rfl⟩)
  | createBucket id => exact .inr (.inr (.inl ⟨id, rfl⟩))
  | addToBucket id => exact .inr (.inr (.inr (.inl ⟨id, rfl⟩)))
  | receive s a i =>
    unfold receive at h
    obtain ⟨h1, _⟩ := ite_err_ok h
    exact .inr (.inr (.inr (.inr (hnil h1))))
  | receiveNft s a i =>
    unfold receiveNft at h
    obtain ⟨h1, _⟩ := ite_err_ok h
    exact .inr (.inr (.inr (.inr (hnil h1))))
  | _ =>
    refine .inr (.inr (.inr (.inr ?_)))
    cases funds with
    | nil => rfl
    | cons a t => simp [ExecMsg.takesCoins] at h0

/-- the accounting identity for the whole entry point -/
theorem execute_acct {j u : Nat} (hI : IdsInv m) (hW : WFInv j u m)
    {sender : Nat} {funds : List Coin} {msg : ExecMsg}
    (h : execute m env sender funds msg = .ok (m', out)) :
    Acct m m' out (coinAmt funds) (msgIn20 sender msg) (msgInNfts sender msg) := by
  refine acct_of_val (X := fun V => V.inMsg sender funds msg) (fun _ hV => execute_val hV hI hW h)
    ?_ ?_ ?_
  · intro d
    rcases execute_funds_nil h with ⟨id, c, rfl⟩ | ⟨id, rfl⟩ | ⟨id, rfl⟩ | ⟨id, rfl⟩ | rfl
    · rfl
    · rfl
    · rfl
    · rfl
    · cases msg <;> rfl
  · intro t
    cases msg <;> rfl
  · intro n
    cases msg with
    | receiveNft s tid i => exact (count_single_nft _ n).symm
    | _ => rfl

/-! ## §6 the pending-fee ledger (C10) -/

/-- the two fees an accepted `buy` records (`calc_fee_coin` of the goods and of the payment in
    the denomination in force), in denomination `d` -/
def chargedBy (m : Market) (env : Env) (buyer lid bid : Nat) (d : Nat) : Nat :=
  match findById lid m.listings, alookup (buyer, bid) m.buckets with
  | some (_, l), some b =>
    match calcFeeCoin (feeDenomOf env m.feeKind) l.forSale,
          calcFeeCoin (feeDenomOf env m.feeKind) b.funds with
    | some (lf, _), some (bf, _) => feeAmt lf d + feeAmt bf d
    | _, _ => 0
  | _, _ => 0

/-- fees charged by a marketplace message: only `buy` charges -/
def charged (m : Market) (env : Env) (sender : Nat) : ExecMsg → Nat → Nat
  | .buy lid bid, d => chargedBy m env sender lid bid d
  | _, _ => 0

theorem poolPaid_sideRoy {ra : Nat} {cols : List Nat} {g g' : GBal} {ms : List OutMsg} {s : Nat}
    (h : sideRoyalties env ra cols g = .ok g' ms s) (d : Nat) : poolPaid ms d = 0 := by
  unfold sideRoyalties at h
  split at h
  · injection h with h1 h2 h3
    subst h2; rfl
  · split at h
    · cases h
    · exact (royalties_outBy_zero (f := pPool d) (fun _ _ _ => rfl) (fun _ _ _ => rfl) h).2

section
variable (d : Nat)

/-- the fee weights: `pendingFee m d = wsum (fwl d) (fwb d) m` -/
def fwl : Listing → Nat := fun l => feeAmt l.fee d
def fwb : Bucket → Nat := fun b => feeAmt b.fee d

theorem pendingFee_ws (m : Market) : pendingFee m d = wsum (fwl d) (fwb d) m := rfl

/-- accepted handlers that emit nothing and do not touch any `fee` field -/
theorem pending_of_ws_new {x : Nat} (ho : out = []) (hw : wsum (fwl d) (fwb d) m' = wsum (fwl d) (fwb d) m + x)
    (hx : x = 0) : pendingFee m' d + poolPaid out d = pendingFee m d := by
  subst ho hx
  simp only [pendingFee_ws, hw, poolPaid_nil]; omega

theorem pending_of_ws_upd {x y : Nat} (ho : out = [])
    (hw : wsum (fwl d) (fwb d) m' + x = wsum (fwl d) (fwb d) m + y)
    (hx : x = y) : pendingFee m' d + poolPaid out d = pendingFee m d := by
  subst ho hx
  simp only [pendingFee_ws, poolPaid_nil]; omega

theorem execute_pending {j u : Nat} (hI : IdsInv m) (hW : WFInv j u m)
    {sender : Nat} {funds : List Coin} {msg : ExecMsg}
    (h : execute m env sender funds msg = .ok (m', out)) :
    pendingFee m' d + poolPaid out d = pendingFee m d + charged m env sender msg d := by
  have hrecv : ∀ {caller : Nat} {fs : List Coin} {s : RawAddr} {a : Nat} {i : Option Inner},
      receive m env caller fs s a i = .ok (m', out) →
      pendingFee m' d + poolPaid out d = pendingFee m d := by
    intro caller fs s a i h
    unfold receive at h
    obtain ⟨_, h⟩ := ite_err_ok h
    obtain ⟨_, h⟩ := ite_err_ok h
    split at h
    · cases h
    split at h
    · cases h
    dsimp only at h
    split at h
    · obtain ⟨wh, ask, ho, hw⟩ := createListing_ws hI h
      exact pending_of_ws_new d ho (hw _ _) rfl
    · obtain ⟨l, nf, _, _, ho, hw⟩ := addToListing_ws hI h
      exact pending_of_ws_upd d ho (hw _ _) rfl
    · obtain ⟨ho, hw⟩ := createBucket_ws h
      exact pending_of_ws_new d ho (hw _ _) rfl
    · obtain ⟨b, nf, _, _, ho, hw⟩ := addToBucket_ws hI h
      exact pending_of_ws_upd d ho (hw _ _) rfl
  have hrecvN : ∀ {caller : Nat} {fs : List Coin} {s : RawAddr} {a : Nat} {i : Option Inner},
      receiveNft m env caller fs s a i = .ok (m', out) →
      pendingFee m' d + poolPaid out d = pendingFee m d := by
    intro caller fs s a i h
    unfold receiveNft at h
    obtain ⟨_, h⟩ := ite_err_ok h
    obtain ⟨_, h⟩ := ite_err_ok h
    split at h
    · cases h
    split at h
    · cases h
    dsimp only at h
    split at h
    · obtain ⟨wh, ask, ho, hw⟩ := createListingNft_ws hI h
      exact pending_of_ws_new d ho (hw _ _) rfl
    · obtain ⟨l, _, ho, hw⟩ := addToListingNft_ws hI h
      exact pending_of_ws_upd d ho (hw _ _) rfl
    · obtain ⟨ho, hw⟩ := createBucketNft_ws h
      exact pending_of_ws_new d ho (hw _ _) rfl
    · obtain ⟨b, _, ho, hw⟩ := addToBucketNft_ws hI h
      exact pending_of_ws_upd d ho (hw _ _) rfl
  unfold execute at h
  obtain ⟨_, h⟩ := ite_err_ok h
  cases msg with
  | feeCycle =>
    obtain ⟨ho, hw⟩ := cycleFee_ws h
    exact pending_of_ws_new d ho (hw _ _) rfl
  | createListing id c =>
    obtain ⟨wh, ask, ho, hw⟩ := createListing_ws hI h
    exact pending_of_ws_new d ho (hw _ _) rfl
  | addToListing id =>
    obtain ⟨l, nf, _, _, ho, hw⟩ := addToListing_ws hI h
    exact pending_of_ws_upd d ho (hw _ _) rfl
  | changeAsk id ask =>
    obtain ⟨l, ask, _, ho, hw⟩ := changeAsk_ws hI h
    exact pending_of_ws_upd d ho (hw _ _) rfl
  | finalize id s =>
    obtain ⟨l, fa, ea, _, ho, hw⟩ := finalize_ws hI h
    exact pending_of_ws_upd d ho (hw _ _) rfl
  | deleteListing id =>
    obtain ⟨l, hl, _, hc, rfl, hw⟩ := deleteListing_ws hI h
    have hfee := wfListing_noClaimant_fee (hW.listing hl) (by rw [hc]; rfl)
    have := hw (fwl d) (fwb d)
    simp only [fwl, hfee, feeAmt] at this
    simp only [pendingFee_ws, poolPaid_sendTokens, charged]; omega
  | createBucket id =>
    obtain ⟨ho, hw⟩ := createBucket_ws h
    exact pending_of_ws_new d ho (hw _ _) rfl
  | addToBucket id =>
    obtain ⟨b, nf, _, _, ho, hw⟩ := addToBucket_ws hI h
    exact pending_of_ws_upd d ho (hw _ _) rfl
  | removeBucket id =>
    obtain ⟨b, _, _, rfl, hw⟩ := withdrawBucket_ws hI h
    have := hw (fwl d) (fwb d)
    simp only [fwb] at this
    simp only [pendingFee_ws, poolPaid_withdrawMsgs, charged]; omega
  | buy lid bid =>
    obtain ⟨k, l, b, lfee, lbal, bfee, bbal, ra, fb, msgs1, s1, fl, msgs2, s2, hb, hl, hs, e1, e2,
      hr1, hr2, rfl, hw⟩ := buy_ws hI h
    obtain ⟨_, hlk, _⟩ := hI.findById_lookup hl
    have hfee := wfListing_finalized_fee (hW.listing hlk) hs
    have := hw (fwl d) (fwb d)
    simp only [fwl, fwb, hfee] at this
    have hch : charged m env sender (.buy lid bid) d = feeAmt lfee d + feeAmt bfee d := by
      simp only [charged, chargedBy, hl, hb, e1, e2]
    rw [hch, poolPaid_append, poolPaid_append, poolPaid_feeMsg, poolPaid_sideRoy hr1,
      poolPaid_sideRoy hr2]
    simp only [pendingFee_ws, feeAmt] at this ⊢; omega
  | withdrawPurchased lid =>
    obtain ⟨k, l, _, _, _, rfl, hw⟩ := withdrawPurchased_ws hI hW h
    have := hw (fwl d) (fwb d)
    simp only [fwl] at this
    simp only [pendingFee_ws, poolPaid_withdrawMsgs, charged]; omega
  | receive s a i => exact hrecv h
  | receiveNft s t i => exact hrecvN h

end

/-! ### the shape of the emitted messages -/

/-- `c` is the `fee` field of some record of `m` -/
def RecFee (m : Market) (c : Coin) : Prop :=
  (∃ p ∈ m.listings, p.2.fee = some c) ∨ (∃ p ∈ m.buckets, p.2.fee = some c)

/-- a royalty payout: one coin / one token amount to the payout address of a registry entry -/
def IsRoyMsg (env : Env) (x : OutMsg) : Prop :=
  ∃ c r k a, env.regLookup c = some r ∧ (x = mkBank k r.payout a ∨ x = mkCw20 k r.payout a)

/-- every message of an accepted call is: goods to the caller, a recorded fee to the pool with the
    marketplace as depositor, or a royalty payout -/
def OutShape (m : Market) (env : Env) (s : Nat) (x : OutMsg) : Prop :=
  (∃ g, x ∈ sendTokens s g) ∨ (∃ c, x = .fundPool env.self c ∧ RecFee m c) ∨ IsRoyMsg env x

/-- where a message sends assets (`pool` = the community-pool module account) -/
def OutMsg.dest (pool : Nat) : OutMsg → Nat
  | .bankSend to _ => to
  | .cw20Transfer _ to _ => to
  | .nftTransfer _ _ to => to
  | .fundPool _ _ => pool

theorem mem_feeMsg {self : Nat} {fee : Option Coin} {x : OutMsg} :
    x ∈ feeMsg self fee ↔ ∃ c, fee = some c ∧ x = .fundPool self c := by
  cases fee <;> simp [feeMsg]

theorem mem_sendTokens {to : Nat} {g : GBal} {x : OutMsg} (h : x ∈ sendTokens to g) :
    (∃ cs, x = .bankSend to cs) ∨ (∃ t a, x = .cw20Transfer t to a) ∨
    (∃ c t, x = .nftTransfer c t to) := by
  unfold sendTokens at h
  rcases List.mem_append.1 h with h | h
  · rcases List.mem_append.1 h with h | h
    · split at h
      · cases h
      · simp only [List.mem_singleton] at h
        exact .inl ⟨_, h⟩
    · obtain ⟨c, _, rfl⟩ := List.mem_map.1 h
      exact .inr (.inl ⟨_, _, rfl⟩)
  · obtain ⟨n, _, rfl⟩ := List.mem_map.1 h
    exact .inr (.inr ⟨_, _, rfl⟩)

theorem royalties_shape {g g' : GBal} {rs : List (Option RoyaltyInfo)} {ms : List OutMsg} {s : Nat}
    (h : royalties g rs = .ok g' ms s) :
    ∀ x ∈ ms, ∃ r, some r ∈ rs ∧ ∃ k a, x = mkBank k r.payout a ∨ x = mkCw20 k r.payout a := by
  obtain ⟨_, _, _, hm, _, _⟩ := royalties_closed h
  subst hm
  have key : ∀ (mk : Nat → Nat → Nat → OutMsg) (cs : List Coin) (x : OutMsg),
      x ∈ cs.flatMap (royMsgs mk (rs.filterMap id)) → ∃ r, some r ∈ rs ∧ ∃ k a, x = mk k r.payout a := by
    intro mk cs x hx
    obtain ⟨c, _, hx⟩ := List.mem_flatMap.1 hx
    obtain ⟨p, hp, rfl⟩ := List.mem_map.1 hx
    obtain ⟨r, hr, rfl, _⟩ := royPays_mem hp
    obtain ⟨o, ho, e⟩ := List.mem_filterMap.1 hr
    simp only [id] at e
    subst e
    exact ⟨r, ho, _, _, rfl⟩
  intro x hx
  rcases List.mem_append.1 hx with hx | hx
  · obtain ⟨r, hr, k, a, e⟩ := key _ _ _ hx
    exact ⟨r, hr, k, a, .inl e⟩
  · obtain ⟨r, hr, k, a, e⟩ := key _ _ _ hx
    exact ⟨r, hr, k, a, .inr e⟩

theorem sideRoyalties_shape {ra : Nat} {cols : List Nat} {g g' : GBal} {ms : List OutMsg} {s : Nat}
    (h : sideRoyalties env ra cols g = .ok g' ms s) : ∀ x ∈ ms, IsRoyMsg env x := by
  unfold sideRoyalties at h
  split at h
  · injection h with h1 h2 h3
    subst h2
    intro x hx; cases hx
  · split at h
    · cases h
    · intro x hx
      obtain ⟨r, hr, k, a, e⟩ := royalties_shape h x hx
      obtain ⟨c, _, hc⟩ := List.mem_map.1 hr
      exact ⟨c, r, k, a, hc, e⟩

theorem receive_out_nil (hI : IdsInv m) {caller : Nat} {fs : List Coin} {s : RawAddr} {a : Nat}
    {i : Option Inner} (h : receive m env caller fs s a i = .ok (m', out)) : out = [] := by
  unfold receive at h
  obtain ⟨_, h⟩ := ite_err_ok h
  obtain ⟨_, h⟩ := ite_err_ok h
  split at h
  · cases h
  split at h
  · cases h
  dsimp only at h
  split at h
  · obtain ⟨_, _, ho, _⟩ := createListing_ws hI h; exact ho
  · obtain ⟨_, _, _, _, ho, _⟩ := addToListing_ws hI h; exact ho
  · exact (createBucket_ws h).1
  · obtain ⟨_, _, _, _, ho, _⟩ := addToBucket_ws hI h; exact ho

theorem receiveNft_out_nil (hI : IdsInv m) {caller : Nat} {fs : List Coin} {s : RawAddr} {a : Nat}
    {i : Option Inner} (h : receiveNft m env caller fs s a i = .ok (m', out)) : out = [] := by
  unfold receiveNft at h
  obtain ⟨_, h⟩ := ite_err_ok h
  obtain ⟨_, h⟩ := ite_err_ok h
  split at h
  · cases h
  split at h
  · cases h
  dsimp only at h
  split at h
  · obtain ⟨_, _, ho, _⟩ := createListingNft_ws hI h; exact ho
  · obtain ⟨_, _, ho, _⟩ := addToListingNft_ws hI h; exact ho
  · exact (createBucketNft_ws h).1
  · obtain ⟨_, _, ho, _⟩ := addToBucketNft_ws hI h; exact ho

theorem execute_out_shape {j u : Nat} (hI : IdsInv m) (hW : WFInv j u m)
    {sender : Nat} {funds : List Coin} {msg : ExecMsg}
    (h : execute m env sender funds msg = .ok (m', out)) : ∀ x ∈ out, OutShape m env sender x := by
  have hnil : out = [] → ∀ x ∈ out, OutShape m env sender x := by
    intro e x hx; subst e; cases hx
  unfold execute at h
  obtain ⟨_, h⟩ := ite_err_ok h
  cases msg with
  | feeCycle => exact hnil (cycleFee_ws h).1
  | createListing id c => obtain ⟨_, _, ho, _⟩ := createListing_ws hI h; exact hnil ho
  | addToListing id => obtain ⟨_, _, _, _, ho, _⟩ := addToListing_ws hI h; exact hnil ho
  | changeAsk id ask => obtain ⟨_, _, _, ho, _⟩ := changeAsk_ws hI h; exact hnil ho
  | finalize id s => obtain ⟨_, _, _, _, ho, _⟩ := finalize_ws hI h; exact hnil ho
  | createBucket id => exact hnil (createBucket_ws h).1
  | addToBucket id => obtain ⟨_, _, _, _, ho, _⟩ := addToBucket_ws hI h; exact hnil ho
  | receive s a i => exact hnil (receive_out_nil hI h)
  | receiveNft s t i => exact hnil (receiveNft_out_nil hI h)
  | deleteListing id =>
    obtain ⟨l, _, hs, _, rfl, _⟩ := deleteListing_ws hI h
    intro x hx
    rw [← hs] at hx
    exact .inl ⟨_, hx⟩
  | removeBucket id =>
    obtain ⟨b, hb, ho, rfl, _⟩ := withdrawBucket_ws hI h
    intro x hx
    rw [withdrawMsgs_eq, ho] at hx
    rcases List.mem_append.1 hx with hx | hx
    · exact .inl ⟨_, hx⟩
    · obtain ⟨c, hc, rfl⟩ := mem_feeMsg.1 hx
      exact .inr (.inl ⟨c, rfl, .inr ⟨_, alookup_some_mem hb, hc⟩⟩)
  | withdrawPurchased lid =>
    obtain ⟨k, l, hl, _, _, rfl, _⟩ := withdrawPurchased_ws hI hW h
    intro x hx
    rw [withdrawMsgs_eq] at hx
    rcases List.mem_append.1 hx with hx | hx
    · exact .inl ⟨_, hx⟩
    · obtain ⟨c, hc, rfl⟩ := mem_feeMsg.1 hx
      exact .inr (.inl ⟨c, rfl, .inl ⟨_, (findById_some hl).2, hc⟩⟩)
  | buy lid bid =>
    obtain ⟨k, l, b, lfee, lbal, bfee, bbal, ra, fb, msgs1, s1, fl, msgs2, s2, hb, hl, hs, e1, e2,
      hr1, hr2, rfl, _⟩ := buy_ws hI h
    intro x hx
    rcases List.mem_append.1 hx with hx | hx
    · rcases List.mem_append.1 hx with hx | hx
      · obtain ⟨c, hc, rfl⟩ := mem_feeMsg.1 hx
        exact .inr (.inl ⟨c, rfl, .inr ⟨_, alookup_some_mem hb, hc⟩⟩)
      · exact .inr (.inr (sideRoyalties_shape hr1 x hx))
    · exact .inr (.inr (sideRoyalties_shape hr2 x hx))

/-- no message of an accepted call is addressed to `a`, if the caller, the pool and every registry
    payout address differ from `a` -/
theorem OutShape.dest_ne {s a pool : Nat} {x : OutMsg} (h : OutShape m env s x) (hs : s ≠ a)
    (hp : pool ≠ a) (hr : ∀ c r, env.regLookup c = some r → r.payout ≠ a) : x.dest pool ≠ a := by
  rcases h with ⟨g, hx⟩ | ⟨c, rfl, _⟩ | ⟨c, r, k, amt, hc, rfl | rfl⟩
  · rcases mem_sendTokens hx with ⟨cs, rfl⟩ | ⟨t, am, rfl⟩ | ⟨c, t, rfl⟩ <;> exact hs
  · exact hp
  · exact hr c r hc
  · exact hr c r hc

/-- no bank send of an accepted call is addressed to `a`, if the caller and every registry payout
    address differ from `a` (pool deposits are not bank sends) -/
theorem OutShape.bank_ne {s a : Nat} {x : OutMsg} (h : OutShape m env s x) (hs : s ≠ a)
    (hr : ∀ c r, env.regLookup c = some r → r.payout ≠ a) :
    ∀ to cs, x = .bankSend to cs → to ≠ a := by
  intro to cs e
  subst e
  rcases h with ⟨g, hx⟩ | ⟨c, hx, _⟩ | ⟨c, r, k, amt, hc, hx | hx⟩
  · rcases mem_sendTokens hx with ⟨cs', e⟩ | ⟨t, am, e⟩ | ⟨c, t, e⟩
    · injection e with e1 _; rw [e1]; exact hs
    · cases e
    · cases e
  · cases hx
  · unfold mkBank at hx
    injection hx with e1 _
    rw [e1]; exact hr c r hc
  · cases hx

/-- a pool deposit of an accepted call has the marketplace as depositor and a recorded fee as
    amount -/
theorem OutShape.pool {s : Nat} {dep : Nat} {c : Coin} (h : OutShape m env s (.fundPool dep c)) :
    dep = env.self ∧ RecFee m c := by
  rcases h with ⟨g, hx⟩ | ⟨c', hx, hc⟩ | ⟨c', r, k, amt, _, hx | hx⟩
  · rcases mem_sendTokens hx with ⟨cs', e⟩ | ⟨t, am, e⟩ | ⟨c, t, e⟩ <;> cases e
  · injection hx with e1 e2
    subst e1 e2
    exact ⟨rfl, hc⟩
  · cases hx
  · cases hx

/-! ## §7 the chain: ledgers under `bankSend`, `ledgerMove`, `dispatchAll` -/

theorem coinAmt_filter_nonzero (cs : List Coin) (d : Nat) :
    coinAmt (cs.filter fun c => decide (c.amount ≠ 0)) d = coinAmt cs d := by
  induction cs with
  | nil => rfl
  | cons c cs ih =>
    by_cases hz : c.amount = 0
    · rw [List.filter_cons_of_neg (by simp [hz]), ih, coinAmt_cons, hz]; simp
    · rw [List.filter_cons_of_pos (by simp [hz]), coinAmt_cons, coinAmt_cons, ih]

theorem bankSub_lget {bank b : Ledger} {a : Nat} {cs : List Coin} (h : bankSub bank a cs = some b)
    (x d : Nat) : lget b (x, d) + (if x = a then coinAmt cs d else 0) = lget bank (x, d) := by
  induction cs generalizing bank with
  | nil =>
    simp only [bankSub, Option.some.injEq] at h
    subst h; simp [coinAmt_nil]
  | cons c cs ih =>
    simp only [bankSub] at h
    split at h
    · cases h
    · rename_i hlt
      have := ih h
      rw [lget_lset, coinAmt_cons] at *
      by_cases hx : x = a
      · subst hx
        by_cases hd : c.key = d
        · subst hd; simp only [if_true] at this ⊢; omega
        · have hne : ¬ ((x, d) = (x, c.key)) := by
            intro e; injection e with _ e2; exact hd e2.symm
          simp only [hne, hd, if_true, if_false] at this ⊢; omega
      · have hne : ¬ ((x, d) = (a, c.key)) := by
          intro e; injection e with e1 _; exact hx e1
        simp only [hne, hx, if_false] at this ⊢; omega

theorem bankAdd_lget (bank : Ledger) (a : Nat) (cs : List Coin) (x d : Nat) :
    lget (bankAdd bank a cs) (x, d) = lget bank (x, d) + (if x = a then coinAmt cs d else 0) := by
  induction cs generalizing bank with
  | nil => simp [bankAdd, coinAmt_nil]
  | cons c cs ih =>
    simp only [bankAdd]
    rw [ih, lget_lset, coinAmt_cons]
    by_cases hx : x = a
    · subst hx
      by_cases hd : c.key = d
      · subst hd; simp only [if_true]; omega
      · have hne : ¬ ((x, d) = (x, c.key)) := by
          intro e; injection e with _ e2; exact hd e2.symm
        simp only [hne, hd, if_true, if_false]; omega
    · have hne : ¬ ((x, d) = (a, c.key)) := by
        intro e; injection e with e1 _; exact hx e1
      simp only [hne, hx, if_false]

/-- the bank moves exactly the listed coins (zero coins are dropped but count 0 anyway) -/
theorem bankSend_lget {bank b : Ledger} {src dst : Nat} {coins : List Coin}
    (h : bankSend bank src dst coins = some b) (x d : Nat) :
    lget b (x, d) + (if x = src then coinAmt coins d else 0) =
      lget bank (x, d) + (if x = dst then coinAmt coins d else 0) := by
  unfold bankSend at h
  dsimp only at h
  split at h
  · cases h
  · split at h
    · cases h
    · rename_i b1 hb1
      simp only [Option.some.injEq] at h
      subst h
      have h1 := bankSub_lget hb1 x d
      rw [bankAdd_lget, coinAmt_filter_nonzero] at *
      omega

theorem ledgerMove_lget {l l' : Ledger} {g src dst amt : Nat} (h : ledgerMove l g src dst amt = some l')
    (k : Nat × Nat) :
    lget l' k + (if k = (g, src) then amt else 0) = lget l k + (if k = (g, dst) then amt else 0) := by
  unfold ledgerMove at h
  split at h
  · cases h
  · rename_i hlt
    simp only [Option.some.injEq] at h
    subst h
    simp only [lget_lset]
    by_cases h1 : k = (g, dst)
    · by_cases h2 : k = (g, src)
      · have e : (g, dst) = (g, src) := h1 ▸ h2
        rw [h2]
        simp only [e, if_true]
        omega
      · have e : ¬ ((g, dst) = (g, src)) := fun e => h2 (h1.trans e)
        simp only [h1, e, if_true, if_false]
        omega
    · by_cases h2 : k = (g, src)
      · rw [← h2] at hlt ⊢
        simp only [h1, if_true, if_false]
        omega
      · simp only [h1, h2, if_false]

/-- what account `a` receives in denomination `d` from one message (`pool` = community pool) -/
def rNat (pool a d : Nat) : OutMsg → Nat := fun x => match x with
  | .bankSend to cs => if a = to then coinAmt cs d else 0
  | .fundPool _ c => if a = pool then (if c.key = d then c.amount else 0) else 0
  | _ => 0

/-- what holder `h` receives of token `t` from one message -/
def r20 (h t : Nat) : OutMsg → Nat := fun x => match x with
  | .cw20Transfer t' to a => if t' = t ∧ h = to then a else 0
  | _ => 0

/-- 1 iff the marketplace owns NFT `n` on chain -/
def held (w : World) (n : Nft) : Nat := if alookup (n.coll, n.tid) w.nft = some w.self then 1 else 0

theorem dispatch1_bank {w w' : World} {x : OutMsg} (h : dispatch1 w x = some w') (a d : Nat) :
    lget w'.bank (a, d) + (if a = w.self then pNat d x else 0) =
      lget w.bank (a, d) + rNat w.pool a d x := by
  cases x with
  | bankSend to coins =>
    simp only [dispatch1] at h
    split at h
    · cases h
    · rename_i b hb
      simp only [Option.some.injEq] at h
      subst h
      exact bankSend_lget hb a d
  | fundPool dep coin =>
    simp only [dispatch1] at h
    split at h
    · cases h
    · split at h
      · cases h
      · rename_i b hb
        simp only [Option.some.injEq] at h
        subst h
        have := bankSend_lget hb a d
        simp only [coinAmt_cons, coinAmt_nil, Nat.add_zero] at this
        exact this
  | cw20Transfer token to amt =>
    have : w'.bank = w.bank := by
      simp only [dispatch1] at h
      repeat' split at h
      all_goals first
        | (cases h; done)
        | (simp only [Option.some.injEq] at h; subst h; rfl)
    rw [this]; simp [pNat, rNat]
  | nftTransfer coll tid to =>
    have : w'.bank = w.bank := by
      simp only [dispatch1] at h
      repeat' split at h
      all_goals first
        | (cases h; done)
        | (simp only [Option.some.injEq] at h; subst h; rfl)
    rw [this]; simp [pNat, rNat]

theorem isHonest20_kind {w : World} {t : Nat} (h : w.isHonest20 t = true) :
    ∃ ci, w.kindOf t = some ci ∧ ci.kind = 1 := by
  unfold World.isHonest20 at h
  split at h
  · rename_i ci hc; exact ⟨ci, hc, by simpa using h⟩
  · cases h

theorem isHonest721_kind {w : World} {t : Nat} (h : w.isHonest721 t = true) :
    ∃ ci, w.kindOf t = some ci ∧ ci.kind = 2 := by
  unfold World.isHonest721 at h
  split at h
  · rename_i ci hc; exact ⟨ci, hc, by simpa using h⟩
  · cases h

theorem dispatch1_cw20 {w w' : World} {x : OutMsg} (h : dispatch1 w x = some w') {t : Nat}
    (ht : w.isHonest20 t = true) (hd : Nat) :
    lget w'.cw20 (t, hd) + (if hd = w.self then fCw20 t x else 0) =
      lget w.cw20 (t, hd) + r20 hd t x := by
  obtain ⟨ci0, hk0, hk1⟩ := isHonest20_kind ht
  cases x with
  | cw20Transfer token to amt =>
    simp only [dispatch1] at h
    split at h
    · cases h
    rename_i ci hci
    split at h
    · rename_i hone
      split at h
      · cases h
      split at h
      · cases h
      rename_i l hl
      simp only [Option.some.injEq] at h
      subst h
      have := ledgerMove_lget hl (t, hd)
      simp only [fCw20, r20]
      by_cases e : token = t
      · subst e
        have e1 : ((token, hd) = (token, w.self)) ↔ hd = w.self := by
          constructor
          · intro e; injection e
          · intro e; rw [e]
        have e2 : ((token, hd) = (token, to)) ↔ hd = to := by
          constructor
          · intro e; injection e
          · intro e; rw [e]
        simp only [e1, e2] at this
        simp only [true_and, if_true]
        by_cases h1 : hd = w.self <;> by_cases h2 : hd = to <;> simp only [h1, h2, if_true, if_false] at this ⊢ <;> omega
      · have e1 : ¬ ((t, hd) = (token, w.self)) := by
          intro e'; injection e' with e' _; exact e e'.symm
        have e2 : ¬ ((t, hd) = (token, to)) := by
          intro e'; injection e' with e' _; exact e e'.symm
        simp only [e1, e2, if_false] at this
        simp only [e, false_and, if_false]
        split <;> omega
    · split at h
      · split at h
        · cases h
        · simp only [Option.some.injEq] at h
          subst h
          have e : token ≠ t := by
            intro e; subst e
            rw [hk0] at hci
            injection hci with hci
            subst hci
            omega
          simp only [fCw20, r20, e, false_and, if_false]
          split <;> rfl
      · cases h
  | bankSend to coins =>
    have : w'.cw20 = w.cw20 := by
      simp only [dispatch1] at h
      repeat' split at h
      all_goals first
        | (cases h; done)
        | (simp only [Option.some.injEq] at h; subst h; rfl)
    rw [this]; simp [fCw20, r20]
  | fundPool dep coin =>
    have : w'.cw20 = w.cw20 := by
      simp only [dispatch1] at h
      repeat' split at h
      all_goals first
        | (cases h; done)
        | (simp only [Option.some.injEq] at h; subst h; rfl)
    rw [this]; simp [fCw20, r20]
  | nftTransfer coll tid to =>
    have : w'.cw20 = w.cw20 := by
      simp only [dispatch1] at h
      repeat' split at h
      all_goals first
        | (cases h; done)
        | (simp only [Option.some.injEq] at h; subst h; rfl)
    rw [this]; simp [fCw20, r20]

theorem dispatch1_nft {w w' : World} {x : OutMsg} (h : dispatch1 w x = some w')
    (hd : x.dest w.pool ≠ w.self) {n : Nft} (hn : w.isHonest721 n.coll = true) :
    held w' n + pNft n x = held w n := by
  obtain ⟨ci0, hk0, hk1⟩ := isHonest721_kind hn
  have hself : w'.self = w.self := (dispatch1_frame h).1.self
  cases x with
  | nftTransfer coll tid to =>
    simp only [dispatch1] at h
    split at h
    · cases h
    rename_i ci hci
    split at h
    · split at h
      · rename_i hown
        simp only [Option.some.injEq] at h
        subst h
        simp only [held, pNft, lset, alookup_ainsert]
        by_cases e : (⟨coll, tid⟩ : Nft) = n
        · subst e
          have hto : ¬ (some to = some w.self) := by
            intro e; injection e with e; exact hd e
          simp only [if_true, hown, hto, if_false]
        · have e' : ¬ ((n.coll, n.tid) = (coll, tid)) := by
            intro e2; injection e2 with e3 e4
            apply e; cases n; simp only at e3 e4; subst e3 e4; rfl
          simp only [e, e', if_false, Nat.add_zero]
      · cases h
    · split at h
      · split at h
        · cases h
        · simp only [Option.some.injEq] at h
          subst h
          have e : ¬ ((⟨coll, tid⟩ : Nft) = n) := by
            intro e; subst e
            simp only at hk0
            rw [hk0] at hci
            injection hci with hci
            subst hci
            omega
          simp only [pNft, e, if_false, Nat.add_zero]
      · cases h
  | bankSend to coins =>
    have : w'.nft = w.nft := by
      simp only [dispatch1] at h
      repeat' split at h
      all_goals first
        | (cases h; done)
        | (simp only [Option.some.injEq] at h; subst h; rfl)
    simp only [held, this, hself, pNft, Nat.add_zero]
  | fundPool dep coin =>
    have : w'.nft = w.nft := by
      simp only [dispatch1] at h
      repeat' split at h
      all_goals first
        | (cases h; done)
        | (simp only [Option.some.injEq] at h; subst h; rfl)
    simp only [held, this, hself, pNft, Nat.add_zero]
  | cw20Transfer token to amt =>
    have : w'.nft = w.nft := by
      simp only [dispatch1] at h
      repeat' split at h
      all_goals first
        | (cases h; done)
        | (simp only [Option.some.injEq] at h; subst h; rfl)
    simp only [held, this, hself, pNft, Nat.add_zero]

theorem CoreEq.isHonest20 {w w' : World} (h : CoreEq w w') (a : Nat) :
    w'.isHonest20 a = w.isHonest20 a := by
  simp only [World.isHonest20, h.kindOf]

theorem CoreEq.isHonest721 {w w' : World} (h : CoreEq w w') (a : Nat) :
    w'.isHonest721 a = w.isHonest721 a := by
  simp only [World.isHonest721, h.kindOf]

/-- the bank ledger after dispatching a message list: every account loses what the marketplace
    pays (if it is the marketplace) and gains what is addressed to it -/
theorem dispatchAll_bank {fail : Nat → Bool} {ms : List OutMsg} :
    ∀ {w w' : World} {i : Nat}, dispatchAll fail w ms i = some w' → ∀ a d,
      lget w'.bank (a, d) + (if a = w.self then paidNative ms d else 0) =
        lget w.bank (a, d) + outBy (rNat w.pool a d) ms := by
  induction ms with
  | nil =>
    intro w w' i h a d
    simp only [dispatchAll, Option.some.injEq] at h
    subst h; simp
  | cons x ms ih =>
    intro w w' i h a d
    simp only [dispatchAll] at h
    split at h
    · cases h
    · split at h
      · cases h
      · rename_i w1 h1
        have f1 := (dispatch1_frame h1).1
        have s1 := dispatch1_bank h1 a d
        have s2 := ih h a d
        rw [f1.self, f1.pool] at s2
        rw [paidNative_eq, outBy_cons, outBy_cons]
        rw [paidNative_eq] at s2
        by_cases c : a = w.self
        · simp only [c, if_true] at s1 s2 ⊢; omega
        · simp only [c, if_false] at s1 s2 ⊢; omega

theorem dispatchAll_cw20 {fail : Nat → Bool} {ms : List OutMsg} :
    ∀ {w w' : World} {i : Nat}, dispatchAll fail w ms i = some w' → ∀ {t : Nat},
      w.isHonest20 t = true → ∀ hd,
      lget w'.cw20 (t, hd) + (if hd = w.self then paidCw20 ms t else 0) =
        lget w.cw20 (t, hd) + outBy (r20 hd t) ms := by
  induction ms with
  | nil =>
    intro w w' i h t _ hd
    simp only [dispatchAll, Option.some.injEq] at h
    subst h; simp
  | cons x ms ih =>
    intro w w' i h t ht hd
    simp only [dispatchAll] at h
    split at h
    · cases h
    · split at h
      · cases h
      · rename_i w1 h1
        have f1 := (dispatch1_frame h1).1
        have s1 := dispatch1_cw20 h1 ht hd
        have s2 := ih h (t := t) (by rw [f1.isHonest20]; exact ht) hd
        rw [f1.self] at s2
        rw [paidCw20_eq, outBy_cons, outBy_cons]
        rw [paidCw20_eq] at s2
        by_cases c : hd = w.self
        · simp only [c, if_true] at s1 s2 ⊢; omega
        · simp only [c, if_false] at s1 s2 ⊢; omega

theorem dispatchAll_nft {fail : Nat → Bool} {ms : List OutMsg} :
    ∀ {w w' : World} {i : Nat}, dispatchAll fail w ms i = some w' →
      (∀ x ∈ ms, x.dest w.pool ≠ w.self) → ∀ {n : Nft}, w.isHonest721 n.coll = true →
      held w' n + (sentNfts ms).count n = held w n := by
  induction ms with
  | nil =>
    intro w w' i h _ n _
    simp only [dispatchAll, Option.some.injEq] at h
    subst h; simp
  | cons x ms ih =>
    intro w w' i h hd n hn
    simp only [dispatchAll] at h
    split at h
    · cases h
    · split at h
      · cases h
      · rename_i w1 h1
        have f1 := (dispatch1_frame h1).1
        have s1 := dispatch1_nft h1 (hd x List.mem_cons_self) hn
        have s2 := ih h (by
          intro y hy; rw [f1.self, f1.pool]; exact hd y (List.mem_cons_of_mem _ hy))
          (n := n) (by rw [f1.isHonest721]; exact hn)
        rw [count_sentNfts, outBy_cons]
        rw [count_sentNfts] at s2
        omega

/-- nothing addressed to `a`: `a` receives nothing -/
theorem outBy_rNat_zero {pool a d : Nat} {ms : List OutMsg} (h : ∀ x ∈ ms, x.dest pool ≠ a) :
    outBy (rNat pool a d) ms = 0 := by
  induction ms with
  | nil => rfl
  | cons x ms ih =>
    rw [outBy_cons, ih (fun y hy => h y (List.mem_cons_of_mem _ hy)), Nat.add_zero]
    have hx := h x List.mem_cons_self
    cases x with
    | bankSend to cs =>
      have : ¬ a = to := fun e => hx e.symm
      simp [rNat, this]
    | fundPool dep c =>
      have : ¬ a = pool := fun e => hx e.symm
      simp [rNat, this]
    | cw20Transfer _ _ _ => rfl
    | nftTransfer _ _ _ => rfl

theorem outBy_r20_zero {pool a t : Nat} {ms : List OutMsg} (h : ∀ x ∈ ms, x.dest pool ≠ a) :
    outBy (r20 a t) ms = 0 := by
  induction ms with
  | nil => rfl
  | cons x ms ih =>
    rw [outBy_cons, ih (fun y hy => h y (List.mem_cons_of_mem _ hy)), Nat.add_zero]
    have hx := h x List.mem_cons_self
    cases x with
    | cw20Transfer t' to am =>
      have : ¬ a = to := fun e => hx e.symm
      simp [r20, this]
    | bankSend _ _ => rfl
    | fundPool _ _ => rfl
    | nftTransfer _ _ _ => rfl

/-- bank sends addressed to `a` -/
def sentTo (a : Nat) (ms : List OutMsg) (d : Nat) : Nat :=
  (ms.map fun m => match m with | .bankSend to cs => if to = a then coinAmt cs d else 0 | _ => 0).sum

def sTo (a d : Nat) : OutMsg → Nat := fun m => match m with
  | .bankSend to cs => if to = a then coinAmt cs d else 0
  | _ => 0

theorem sentTo_eq (a : Nat) (ms : List OutMsg) (d : Nat) : sentTo a ms d = outBy (sTo a d) ms := rfl

/-- what the pool receives: the pool deposits plus bank sends addressed to it -/
theorem outBy_rNat_pool (pool d : Nat) (ms : List OutMsg) :
    outBy (rNat pool pool d) ms = poolPaid ms d + sentTo pool ms d := by
  induction ms with
  | nil => rfl
  | cons x ms ih =>
    rw [poolPaid_eq, sentTo_eq, outBy_cons, outBy_cons, outBy_cons, ih, poolPaid_eq, sentTo_eq]
    have : rNat pool pool d x = pPool d x + sTo pool d x := by
      cases x with
      | bankSend to cs =>
        by_cases h : to = pool
        · simp [rNat, pPool, sTo, h]
        · have : ¬ pool = to := fun e => h e.symm
          simp [rNat, pPool, sTo, h, this]
      | fundPool dep c => simp [rNat, pPool, sTo]
      | cw20Transfer _ _ _ => rfl
      | nftTransfer _ _ _ => rfl
    omega

theorem sentTo_zero {a d : Nat} {ms : List OutMsg} (h : ∀ x ∈ ms, ∀ to cs, x = .bankSend to cs → to ≠ a) :
    sentTo a ms d = 0 := by
  induction ms with
  | nil => rfl
  | cons x ms ih =>
    rw [sentTo_eq, outBy_cons, ← sentTo_eq, ih (fun y hy => h y (List.mem_cons_of_mem _ hy)),
      Nat.add_zero]
    cases x with
    | bankSend to cs =>
      have := h _ List.mem_cons_self to cs rfl
      simp [sTo, this]
    | fundPool _ _ => rfl
    | cw20Transfer _ _ _ => rfl
    | nftTransfer _ _ _ => rfl

/-- `dispatchAll` changes the marketplace's holdings by exactly what the messages say
    (no message addressed to the marketplace itself) -/
theorem dispatchAll_acct {fail : Nat → Bool} {ms : List OutMsg} {w w' : World} {i : Nat}
    (h : dispatchAll fail w ms i = some w') (hd : ∀ x ∈ ms, x.dest w.pool ≠ w.self) :
    (∀ d, lget w'.bank (w.self, d) + paidNative ms d = lget w.bank (w.self, d)) ∧
    (∀ t, w.isHonest20 t = true → lget w'.cw20 (t, w.self) + paidCw20 ms t = lget w.cw20 (t, w.self)) ∧
    (∀ n : Nft, w.isHonest721 n.coll = true → held w' n + (sentNfts ms).count n = held w n) := by
  refine ⟨fun d => ?_, fun t ht => ?_, fun n hn => dispatchAll_nft h hd hn⟩
  · have := dispatchAll_bank h w.self d
    rw [outBy_rNat_zero hd] at this
    simpa using this
  · have := dispatchAll_cw20 h ht w.self
    rw [outBy_r20_zero hd] at this
    simpa using this

/-- solvency form without any side condition: a message to the marketplace itself only moves
    coins from it to it -/
theorem dispatchAll_solvent {fail : Nat → Bool} {ms : List OutMsg} {w w' : World} {i : Nat}
    (h : dispatchAll fail w ms i = some w') (d : Nat) :
    lget w.bank (w.self, d) ≤ lget w'.bank (w.self, d) + paidNative ms d := by
  have := dispatchAll_bank h w.self d
  simp only [if_true] at this
  omega

/-- the community pool's balance after dispatch -/
theorem dispatchAll_pool {fail : Nat → Bool} {ms : List OutMsg} {w w' : World} {i : Nat}
    (h : dispatchAll fail w ms i = some w') (hp : w.pool ≠ w.self) (d : Nat) :
    lget w'.bank (w.pool, d) = lget w.bank (w.pool, d) + poolPaid ms d + sentTo w.pool ms d := by
  have := dispatchAll_bank h w.pool d
  rw [outBy_rNat_pool, if_neg hp] at this
  omega

/-! ### `stepF`: the deposit world -/

/-- `w1` is `w` after the operation's deposit has been moved to the marketplace (the world the
    handler runs in) -/
def Deposit (w : World) : Op → World → Prop
  | .exec s f _, w1 =>
    (f = [] ∧ w1 = w) ∨ (∃ b, bankSend w.bank s w.self f = some b ∧ w1 = { w with bank := b })
  | .send20 t s a _, w1 =>
    w.isHonest20 t = true ∧ ∃ l, ledgerMove w.cw20 t s w.self a = some l ∧ w1 = { w with cw20 := l }
  | .send721 c s t _, w1 =>
    w.isHonest721 c = true ∧ alookup (c, t) w.nft = some s ∧
      w1 = { w with nft := lset w.nft (c, t) w.self }
  | _, _ => False

/-- the account an operation is signed by -/
def Op.sender : Op → Nat
  | .exec s _ _ => s
  | .send20 _ s _ _ => s
  | .send721 _ s _ _ => s
  | .royalty s _ => s
  | .setAdmin s _ _ => s
  | .advance _ _ => 0

/-- no honest token contract forges a hook: a direct `Receive` / `ReceiveNft` call is never signed
    by an honest CW20 token / an honest collection (those call the hooks only through `.send20` /
    `.send721`).  Hostile contracts may forge hooks freely (finding C18): what such a call records
    is not an honest asset. -/
def Op.honest (w : World) : Op → Prop
  | .exec s _ (.receive _ _ _) => w.isHonest20 s = false
  | .exec s _ (.receiveNft _ _ _) => w.isHonest721 s = false
  | _ => True

/-- every marketplace operation either fails and returns `w`, or: deposit moved (`w1`), handler
    accepted on the pre-state record, every message dispatched (`w2`) -/
theorem stepF_cases {fail : Nat → Bool} {w : World} {op : Op} {c : Nat} {f : List Coin}
    {msg : ExecMsg} (ho : op.asExec = some (c, f, msg)) :
    (∃ e, stepF fail w op = (w, .fail e)) ∨
    (∃ w1 m' msgs w2, Deposit w op w1 ∧ execute w.mkt w.env c f msg = .ok (m', msgs) ∧
      dispatchAll fail { w1 with mkt := m' } msgs 0 = some w2 ∧
      stepF fail w op = (w2, ⟨true, none, msgs⟩)) := by
  cases op with
  | exec s fu m =>
    simp only [Op.asExec, Option.some.injEq, Prod.mk.injEq] at ho
    obtain ⟨rfl, rfl, rfl⟩ := ho
    simp only [stepF]
    split
    · rename_i he
      rcases runMarket_cases fail w w s fu m with h | ⟨m', msgs, w2, hx, hd, hr⟩
      · exact .inl h
      · exact .inr ⟨w, m', msgs, w2, .inl ⟨List.isEmpty_iff.1 he, rfl⟩, hx, hd, hr⟩
    · split
      · exact .inl ⟨_, rfl⟩
      · rename_i b hb
        rcases runMarket_cases fail w { w with bank := b } s fu m with h | ⟨m', msgs, w2, hx, hd, hr⟩
        · exact .inl h
        · exact .inr ⟨_, m', msgs, w2, .inr ⟨b, hb, rfl⟩, hx, hd, hr⟩
  | send20 t s a i =>
    simp only [Op.asExec, Option.some.injEq, Prod.mk.injEq] at ho
    obtain ⟨rfl, rfl, rfl⟩ := ho
    simp only [stepF]
    split
    · exact .inl ⟨_, rfl⟩
    · rename_i hh
      split
      · exact .inl ⟨_, rfl⟩
      · split
        · exact .inl ⟨_, rfl⟩
        · rename_i l hl
          rcases runMarket_cases fail w { w with cw20 := l } t [] (.receive (.valid s) a i) with
            h | ⟨m', msgs, w2, hx, hd, hr⟩
          · exact .inl h
          · exact .inr ⟨_, m', msgs, w2, ⟨by simpa using hh, l, hl, rfl⟩, hx, hd, hr⟩
  | send721 co s t i =>
    simp only [Op.asExec, Option.some.injEq, Prod.mk.injEq] at ho
    obtain ⟨rfl, rfl, rfl⟩ := ho
    simp only [stepF]
    split
    · exact .inl ⟨_, rfl⟩
    · rename_i hh
      split
      · exact .inl ⟨_, rfl⟩
      · rename_i hown
        rcases runMarket_cases fail w { w with nft := lset w.nft (co, t) w.self } co []
            (.receiveNft (.valid s) t i) with h | ⟨m', msgs, w2, hx, hd, hr⟩
        · exact .inl h
        · exact .inr ⟨_, m', msgs, w2, ⟨by simpa using hh, by simpa using hown, rfl⟩, hx, hd, hr⟩
  | royalty s m => simp [Op.asExec] at ho
  | setAdmin s c n => simp [Op.asExec] at ho
  | advance a b => simp [Op.asExec] at ho

theorem Deposit.core {w w1 : World} {op : Op} (h : Deposit w op w1) : CoreEq w w1 ∧ w1.mkt = w.mkt := by
  cases op with
  | exec s f m =>
    rcases h with ⟨_, rfl⟩ | ⟨b, _, rfl⟩
    · exact ⟨CoreEq.refl _, rfl⟩
    · exact ⟨⟨rfl, rfl, rfl, rfl, rfl, rfl, rfl, rfl, rfl⟩, rfl⟩
  | send20 t s a i =>
    obtain ⟨_, l, _, rfl⟩ := h
    exact ⟨⟨rfl, rfl, rfl, rfl, rfl, rfl, rfl, rfl, rfl⟩, rfl⟩
  | send721 c s t i =>
    obtain ⟨_, _, rfl⟩ := h
    exact ⟨⟨rfl, rfl, rfl, rfl, rfl, rfl, rfl, rfl, rfl⟩, rfl⟩
  | royalty s m => cases h
  | setAdmin s c n => cases h
  | advance a b => cases h

/-- the bank after the deposit: the signer pays the attached coins to the marketplace -/
theorem Deposit.bank {w w1 : World} {op : Op} {c : Nat} {f : List Coin} {msg : ExecMsg}
    (h : Deposit w op w1) (ho : op.asExec = some (c, f, msg)) (a d : Nat) :
    lget w1.bank (a, d) + (if a = op.sender then coinAmt f d else 0) =
      lget w.bank (a, d) + (if a = w.self then coinAmt f d else 0) := by
  cases op with
  | exec s fu m =>
    simp only [Op.asExec, Option.some.injEq, Prod.mk.injEq] at ho
    obtain ⟨rfl, rfl, rfl⟩ := ho
    rcases h with ⟨rfl, rfl⟩ | ⟨b, hb, rfl⟩
    · simp [coinAmt_nil]
    · exact bankSend_lget hb a d
  | send20 t s a' i =>
    simp only [Op.asExec, Option.some.injEq, Prod.mk.injEq] at ho
    obtain ⟨rfl, rfl, rfl⟩ := ho
    obtain ⟨_, l, _, rfl⟩ := h
    simp [coinAmt_nil]
  | send721 co s t i =>
    simp only [Op.asExec, Option.some.injEq, Prod.mk.injEq] at ho
    obtain ⟨rfl, rfl, rfl⟩ := ho
    obtain ⟨_, _, rfl⟩ := h
    simp [coinAmt_nil]
  | royalty s m => cases h
  | setAdmin s c n => cases h
  | advance a b => cases h

/-- the balance of an honest CW20 token after the deposit (no hook forged by an honest token,
    signer is not the marketplace) -/
theorem Deposit.cw20 {w w1 : World} {op : Op} {c : Nat} {f : List Coin} {msg : ExecMsg}
    (h : Deposit w op w1) (ho : op.asExec = some (c, f, msg)) (hh : op.honest w)
    (hs : op.sender ≠ w.self) {t : Nat} (ht : w.isHonest20 t = true) :
    lget w1.cw20 (t, w.self) = lget w.cw20 (t, w.self) + msgIn20 c msg t := by
  cases op with
  | exec s fu m =>
    simp only [Op.asExec, Option.some.injEq, Prod.mk.injEq] at ho
    obtain ⟨rfl, rfl, rfl⟩ := ho
    have : w1.cw20 = w.cw20 := by
      rcases h with ⟨_, rfl⟩ | ⟨b, _, rfl⟩ <;> rfl
    rw [this]
    cases m with
    | receive sa am inn =>
      have hne : ¬ s = t := by
        intro e; subst e
        simp only [Op.honest] at hh
        rw [hh] at ht; cases ht
      simp only [msgIn20, hne, if_false, Nat.add_zero]
    | _ => rfl
  | send20 t0 s a' i =>
    simp only [Op.asExec, Option.some.injEq, Prod.mk.injEq] at ho
    obtain ⟨rfl, rfl, rfl⟩ := ho
    obtain ⟨_, l, hl, rfl⟩ := h
    have := ledgerMove_lget hl (t, w.self)
    have e1 : ¬ ((t, w.self) = (t0, s)) := by
      intro e; injection e with _ e; exact hs e.symm
    simp only [e1, if_false, Nat.add_zero] at this
    simp only [msgIn20]
    rw [this]
    by_cases e : t0 = t
    · subst e; simp
    · have : ¬ ((t, w.self) = (t0, w.self)) := by
        intro e'; injection e' with e' _; exact e e'.symm
      simp [e, this]
  | send721 co s t' i =>
    simp only [Op.asExec, Option.some.injEq, Prod.mk.injEq] at ho
    obtain ⟨rfl, rfl, rfl⟩ := ho
    obtain ⟨_, _, rfl⟩ := h
    rfl
  | royalty s m => cases h
  | setAdmin s c n => cases h
  | advance a b => cases h

/-- ownership of an NFT of an honest collection after the deposit (no hook forged by an honest
    collection, signer is not the marketplace) -/
theorem Deposit.nft {w w1 : World} {op : Op} {c : Nat} {f : List Coin} {msg : ExecMsg}
    (h : Deposit w op w1) (ho : op.asExec = some (c, f, msg)) (hh : op.honest w)
    (hs : op.sender ≠ w.self) {n : Nft} (hn : w.isHonest721 n.coll = true) :
    held w1 n = held w n + (msgInNfts c msg).count n := by
  cases op with
  | exec s fu m =>
    simp only [Op.asExec, Option.some.injEq, Prod.mk.injEq] at ho
    obtain ⟨rfl, rfl, rfl⟩ := ho
    have : held w1 n = held w n := by
      rcases h with ⟨_, rfl⟩ | ⟨b, _, rfl⟩ <;> rfl
    rw [this]
    cases m with
    | receiveNft sa tid inn =>
      have hne : ¬ ((⟨s, tid⟩ : Nft) = n) := by
        intro e; subst e
        simp only [Op.honest] at hh
        simp only at hn
        rw [hh] at hn; cases hn
      simp only [msgInNfts, count_single_nft, hne, if_false, Nat.add_zero]
    | _ => rfl
  | send20 t0 s a' i =>
    simp only [Op.asExec, Option.some.injEq, Prod.mk.injEq] at ho
    obtain ⟨rfl, rfl, rfl⟩ := ho
    obtain ⟨_, l, hl, rfl⟩ := h
    rfl
  | send721 co s t' i =>
    simp only [Op.asExec, Option.some.injEq, Prod.mk.injEq] at ho
    obtain ⟨rfl, rfl, rfl⟩ := ho
    obtain ⟨_, hown, rfl⟩ := h
    simp only [held, msgInNfts, count_single_nft, lset, alookup_ainsert]
    by_cases e : (⟨co, t'⟩ : Nft) = n
    · subst e
      have : ¬ (some s = some w.self) := by
        intro e; injection e with e; exact hs e
      simp [hown, this]
    · have e' : ¬ ((n.coll, n.tid) = (co, t')) := by
        intro e2; injection e2 with e3 e4
        apply e; cases n; simp only at e3 e4; subst e3 e4; rfl
      simp only [e, e', if_false, Nat.add_zero]
  | royalty s m => cases h
  | setAdmin s c n => cases h
  | advance a b => cases h

/-! ### operations that do not reach the marketplace -/

/-- fields no operation ever changes, and token kinds -/
structure StaticEq (w w' : World) : Prop where
  self : w'.self = w.self
  pool : w'.pool = w.pool
  junoD : w'.junoD = w.junoD
  usdcD : w'.usdcD = w.usdcD
  honest20 : ∀ a, w'.isHonest20 a = w.isHonest20 a
  honest721 : ∀ a, w'.isHonest721 a = w.isHonest721 a

theorem CoreEq.static {w w' : World} (h : CoreEq w w') : StaticEq w w' :=
  ⟨h.self, h.pool, h.junoD, h.usdcD, h.isHonest20, h.isHonest721⟩

theorem kindOf_setAdmin (w : World) (c : Nat) (ci : ContractInfo) (new : Option Nat)
    (hc : w.kindOf c = some ci) (a : Nat) :
    ∃ k, (alookup a (ainsert c { ci with admin := new } w.contracts)).map (·.kind) = k ∧
      (w.kindOf a).map (·.kind) = k := by
  refine ⟨_, rfl, ?_⟩
  rw [alookup_ainsert]
  by_cases h : a = c
  · subst h; simp [hc]
  · simp [h, World.kindOf]

/-- registry messages, admin changes and the passage of time leave the marketplace, all three
    ledgers and the static fields alone -/
theorem stepF_nonmarket {fail : Nat → Bool} {w : World} {op : Op} (ho : op.asExec = none) :
    (stepF fail w op).1.bank = w.bank ∧ (stepF fail w op).1.cw20 = w.cw20 ∧
    (stepF fail w op).1.nft = w.nft ∧ (stepF fail w op).1.mkt = w.mkt ∧
    StaticEq w (stepF fail w op).1 := by
  have hrefl : StaticEq w w := ⟨rfl, rfl, rfl, rfl, fun _ => rfl, fun _ => rfl⟩
  cases op with
  | exec s fu m => simp [Op.asExec] at ho
  | send20 t s a i => simp [Op.asExec] at ho
  | send721 co s t i => simp [Op.asExec] at ho
  | royalty s m =>
    rcases stepF_royalty fail w s m with ⟨e, _, h⟩ | ⟨r, _, h⟩ <;> rw [h]
    · exact ⟨rfl, rfl, rfl, rfl, hrefl⟩
    · exact ⟨rfl, rfl, rfl, rfl, ⟨rfl, rfl, rfl, rfl, fun _ => rfl, fun _ => rfl⟩⟩
  | setAdmin s c n =>
    simp only [stepF]
    split
    · exact ⟨rfl, rfl, rfl, rfl, hrefl⟩
    · rename_i ci hci
      split
      · exact ⟨rfl, rfl, rfl, rfl, hrefl⟩
      · refine ⟨rfl, rfl, rfl, rfl, ⟨rfl, rfl, rfl, rfl, fun a => ?_, fun a => ?_⟩⟩
        · obtain ⟨k, h1, h2⟩ := kindOf_setAdmin w c ci n hci a
          simp only [World.isHonest20, World.kindOf] at h1 h2 ⊢
          cases hx : alookup a (ainsert c { ci with admin := n } w.contracts) <;>
            cases hy : alookup a w.contracts <;> rw [hx] at h1 <;> rw [hy] at h2 <;>
            simp only [Option.map] at h1 h2 <;> subst h1 <;> first | rfl | cases h2 | skip
          injection h2 with h2
          simp only [h2]
        · obtain ⟨k, h1, h2⟩ := kindOf_setAdmin w c ci n hci a
          simp only [World.isHonest721, World.kindOf] at h1 h2 ⊢
          cases hx : alookup a (ainsert c { ci with admin := n } w.contracts) <;>
            cases hy : alookup a w.contracts <;> rw [hx] at h1 <;> rw [hy] at h2 <;>
            simp only [Option.map] at h1 h2 <;> subst h1 <;> first | rfl | cases h2 | skip
          injection h2 with h2
          simp only [h2]
  | advance a b => exact ⟨rfl, rfl, rfl, rfl, ⟨rfl, rfl, rfl, rfl, fun _ => rfl, fun _ => rfl⟩⟩

/-- no operation changes the static fields -/
theorem stepF_static (fail : Nat → Bool) (w : World) (op : Op) : StaticEq w (stepF fail w op).1 := by
  cases ho : op.asExec with
  | some tr =>
    obtain ⟨c, f, msg⟩ := tr
    rcases stepF_market (fail := fail) (w := w) ho with ⟨e, h⟩ | ⟨m', msgs, w2, _, _, hc, h⟩
    · rw [h]; exact ⟨rfl, rfl, rfl, rfl, fun _ => rfl, fun _ => rfl⟩
    · rw [h]; exact hc.static
  | none => exact (stepF_nonmarket ho).2.2.2.2

/-! ### registry payout addresses -/

/-- the payout address a registry message asks to store, if any -/
def RoyMsg.payoutArg : RoyMsg → Option Nat
  | .register _ (.valid p) _ => some p
  | .update _ (some (.valid p)) _ => some p
  | _ => none

/-- no registry entry pays out to `a` -/
def PayoutsNe (reg : Registry) (a : Nat) : Prop := ∀ c r, regSingle reg c = some r → r.payout ≠ a

theorem regExecute_payouts {reg r : Registry} {env : RegEnv} {sender : Nat} {msg : RoyMsg} {a : Nat}
    (h : regExecute reg env sender msg = .ok r) (hp : PayoutsNe reg a)
    (hm : ∀ p, msg.payoutArg = some p → p ≠ a) : PayoutsNe r a := by
  intro c e he
  unfold regSingle at he
  cases msg with
  | register nft payout bps =>
    simp only [regExecute, regRegister] at h
    split at h
    · cases h
    split at h
    · rename_i p c0
      split at h
      · cases h
      split at h
      · cases h
      split at h
      · cases h
      simp only [Except.ok.injEq] at h
      subst h
      rw [alookup_ainsert] at he
      split at he
      · injection he with he
        subst he
        exact hm p rfl
      · exact hp c e he
    · cases h
  | update nft payout bps =>
    simp only [regExecute, regUpdate] at h
    split at h
    · cases h
    rename_i c0
    obtain ⟨_, h1⟩ := ite_err_ok h
    clear h
    obtain ⟨_, h⟩ := ite_err_ok h1
    clear h1
    split at h
    · cases h
    rename_i e0 he0
    obtain ⟨_, h1⟩ := ite_err_ok h
    clear h
    obtain ⟨_, h⟩ := ite_err_ok h1
    clear h1
    split at h
    · cases h
    · rename_i p
      simp only [Except.ok.injEq] at h
      subst h
      rw [alookup_ainsert] at he
      split at he
      · injection he with he
        subst he
        exact hm p rfl
      · exact hp c e he
    · simp only [Except.ok.injEq] at h
      subst h
      rw [alookup_ainsert] at he
      split at he
      · injection he with he
        subst he
        exact hp c0 e0 he0
      · exact hp c e he
  | remove nft =>
    simp only [regExecute, regRemove] at h
    split at h
    · cases h
    rename_i c0
    split at h
    · cases h
    split at h
    · cases h
    split at h
    · cases h
    split at h
    · cases h
    simp only [Except.ok.injEq] at h
    subst h
    rw [alookup_aerase] at he
    split at he
    · cases he
    · exact hp c e he

/-- side condition on one operation for address `a` (the marketplace, or the pool): it is not
    signed by `a` and does not register `a` as a royalty payout address -/
def Op.avoids (a : Nat) : Op → Prop
  | .royalty s msg => s ≠ a ∧ msg.payoutArg ≠ some a
  | op => op.sender ≠ a

instance (a : Nat) (op : Op) : Decidable (op.avoids a) := by
  cases op <;> simp only [Op.avoids] <;> exact inferInstance

instance (w : World) (op : Op) : Decidable (op.honest w) := by
  cases op with
  | exec s f m => cases m <;> simp only [Op.honest] <;> exact inferInstance
  | _ => simp only [Op.honest]; exact inferInstance

theorem Op.honest_static {w w' : World} (h : StaticEq w w') {op : Op} (ho : op.honest w) :
    op.honest w' := by
  cases op with
  | exec s f m =>
    cases m <;> first
      | exact ho
      | (simp only [Op.honest] at ho ⊢; rw [h.honest20]; exact ho)
      | (simp only [Op.honest] at ho ⊢; rw [h.honest721]; exact ho)
  | _ => exact ho

theorem Op.avoids_sender {a : Nat} {op : Op} {c : Nat} {f : List Coin} {msg : ExecMsg}
    (h : op.avoids a) (ho : op.asExec = some (c, f, msg)) : op.sender ≠ a := by
  cases op <;> first | exact h | simp [Op.asExec] at ho

/-- registry payouts keep avoiding `a` -/
theorem stepF_payouts {fail : Nat → Bool} {w : World} {op : Op} {a : Nat}
    (hp : PayoutsNe w.reg a) (hop : op.avoids a) : PayoutsNe (stepF fail w op).1.reg a := by
  cases ho : op.asExec with
  | some tr =>
    obtain ⟨c, f, msg⟩ := tr
    rcases stepF_market (fail := fail) (w := w) ho with ⟨e, h⟩ | ⟨m', msgs, w2, _, _, hc, h⟩
    · rw [h]; exact hp
    · rw [h]; dsimp only; rw [hc.reg]; exact hp
  | none =>
    cases op with
    | exec s fu m => simp [Op.asExec] at ho
    | send20 t s a i => simp [Op.asExec] at ho
    | send721 co s t i => simp [Op.asExec] at ho
    | royalty s m =>
      rcases stepF_royalty fail w s m with ⟨e, _, h⟩ | ⟨r, hr, h⟩ <;> rw [h]
      · exact hp
      · exact regExecute_payouts hr hp (fun p hpa e => hop.2 (e ▸ hpa))
    | setAdmin s c n =>
      simp only [stepF]
      repeat' split
      all_goals exact hp
    | advance x y => exact hp

/-! ### destinations of the messages of a marketplace operation -/

theorem execute_hook_out_nil (hI : IdsInv m) {c : Nat} {f : List Coin} {msg : ExecMsg}
    (hmsg : (∃ s a i, msg = .receive s a i) ∨ (∃ s t i, msg = .receiveNft s t i))
    (h : execute m env c f msg = .ok (m', out)) : out = [] := by
  unfold execute at h
  obtain ⟨_, h⟩ := ite_err_ok h
  rcases hmsg with ⟨s, a, i, rfl⟩ | ⟨s, t, i, rfl⟩
  · exact receive_out_nil hI h
  · exact receiveNft_out_nil hI h

/-- no message emitted by a marketplace operation is addressed to `a`, if the signer, the pool and
    every registry payout address differ from `a` -/
theorem market_dests {j u : Nat} (hI : IdsInv m) (hW : WFInv j u m) {op : Op} {c : Nat}
    {f : List Coin} {msg : ExecMsg} (ho : op.asExec = some (c, f, msg))
    (hx : execute m env c f msg = .ok (m', out)) {a pool : Nat} (hs : op.sender ≠ a) (hp : pool ≠ a)
    (hr : ∀ c r, env.regLookup c = some r → r.payout ≠ a) : ∀ x ∈ out, x.dest pool ≠ a := by
  cases op with
  | exec s fu mm =>
    simp only [Op.asExec, Option.some.injEq, Prod.mk.injEq] at ho
    obtain ⟨rfl, rfl, rfl⟩ := ho
    intro x hxm
    exact (execute_out_shape hI hW hx x hxm).dest_ne hs hp hr
  | send20 t s a' i =>
    simp only [Op.asExec, Option.some.injEq, Prod.mk.injEq] at ho
    obtain ⟨rfl, rfl, rfl⟩ := ho
    rw [execute_hook_out_nil hI (.inl ⟨_, _, _, rfl⟩) hx]
    intro x hxm; cases hxm
  | send721 co s t i =>
    simp only [Op.asExec, Option.some.injEq, Prod.mk.injEq] at ho
    obtain ⟨rfl, rfl, rfl⟩ := ho
    rw [execute_hook_out_nil hI (.inr ⟨_, _, _, rfl⟩) hx]
    intro x hxm; cases hxm
  | royalty s mm => simp [Op.asExec] at ho
  | setAdmin s c n => simp [Op.asExec] at ho
  | advance a b => simp [Op.asExec] at ho

/-- no bank send emitted by a marketplace operation is addressed to `a`, if the signer and every
    registry payout address differ from `a` -/
theorem market_bank_dests {j u : Nat} (hI : IdsInv m) (hW : WFInv j u m) {op : Op} {c : Nat}
    {f : List Coin} {msg : ExecMsg} (ho : op.asExec = some (c, f, msg))
    (hx : execute m env c f msg = .ok (m', out)) {a : Nat} (hs : op.sender ≠ a)
    (hr : ∀ c r, env.regLookup c = some r → r.payout ≠ a) :
    ∀ x ∈ out, ∀ to cs, x = .bankSend to cs → to ≠ a := by
  cases op with
  | exec s fu mm =>
    simp only [Op.asExec, Option.some.injEq, Prod.mk.injEq] at ho
    obtain ⟨rfl, rfl, rfl⟩ := ho
    intro x hxm
    exact (execute_out_shape hI hW hx x hxm).bank_ne hs hr
  | send20 t s a' i =>
    simp only [Op.asExec, Option.some.injEq, Prod.mk.injEq] at ho
    obtain ⟨rfl, rfl, rfl⟩ := ho
    rw [execute_hook_out_nil hI (.inl ⟨_, _, _, rfl⟩) hx]
    intro x hxm; cases hxm
  | send721 co s t i =>
    simp only [Op.asExec, Option.some.injEq, Prod.mk.injEq] at ho
    obtain ⟨rfl, rfl, rfl⟩ := ho
    rw [execute_hook_out_nil hI (.inr ⟨_, _, _, rfl⟩) hx]
    intro x hxm; cases hxm
  | royalty s mm => simp [Op.asExec] at ho
  | setAdmin s c n => simp [Op.asExec] at ho
  | advance a b => simp [Op.asExec] at ho

/-! ### recorded fees of well-formed records -/

theorem wfFee_some {j u : Nat} {c : Coin} (h : wfFee j u (some c) = true) :
    c.amount ≠ 0 ∧ (c.key = j ∨ c.key = u) := by
  simpa [wfFee] using h

theorem wfListing_fee {j u : Nat} {k : Nat × Nat} {l : Listing} {c : Coin}
    (h : wfListing j u k l = true) (hf : l.fee = some c) :
    c.amount ≠ 0 ∧ (c.key = j ∨ c.key = u) ∧ l.status = .closed := by
  unfold wfListing at h
  cases hs : l.status <;> rw [hs] at h <;> simp only [Bool.and_eq_true] at h
  · have := h.2.2; rw [hf] at this; cases this
  · have := h.2.2; rw [hf] at this; cases this
  · have := h.2.2
    rw [hf] at this
    obtain ⟨h1, h2⟩ := wfFee_some this
    exact ⟨h1, h2, rfl⟩

theorem wfBucket_fee {j u : Nat} {k : Nat × Nat} {b : Bucket} {c : Coin}
    (h : wfBucket j u k b = true) (hf : b.fee = some c) : c.amount ≠ 0 ∧ (c.key = j ∨ c.key = u) := by
  unfold wfBucket at h
  simp only [Bool.and_eq_true] at h
  have := h.2
  rw [hf] at this
  exact wfFee_some this

theorem WFInv.recFee {j u : Nat} (hW : WFInv j u m) {c : Coin} (h : RecFee m c) :
    c.amount ≠ 0 ∧ (c.key = j ∨ c.key = u) := by
  rcases h with ⟨p, hp, hf⟩ | ⟨p, hp, hf⟩
  · obtain ⟨h1, h2, _⟩ := wfListing_fee (hW.lwf p hp) hf
    exact ⟨h1, h2⟩
  · exact wfBucket_fee (hW.bwf p hp) hf

/-! ### NFTs: "exactly the recorded ones, each once" as a count -/

/-- per honest NFT: its multiplicity in the records is 1 if the marketplace owns it, else 0 -/
theorem nft_exact_iff_count (w : World) :
    (((recordedNfts w.mkt).filter (fun n => w.isHonest721 n.coll)).Nodup ∧
      ∀ n : Nft, w.isHonest721 n.coll = true →
        (n ∈ recordedNfts w.mkt ↔ alookup (n.coll, n.tid) w.nft = some w.self)) ↔
    ∀ n : Nft, w.isHonest721 n.coll = true → (recordedNfts w.mkt).count n = held w n := by
  constructor
  · rintro ⟨hnd, hiff⟩ n hn
    have h1 : ((recordedNfts w.mkt).filter (fun n => w.isHonest721 n.coll)).count n =
        (recordedNfts w.mkt).count n :=
      List.count_filter (p := fun n : Nft => w.isHonest721 n.coll) hn
    have h2 := List.nodup_iff_count.1 hnd n
    rw [h1] at h2
    unfold held
    split
    · rename_i ho
      have := List.one_le_count_iff.2 ((hiff n hn).2 ho)
      omega
    · rename_i ho
      exact List.count_eq_zero.2 (fun hm => ho ((hiff n hn).1 hm))
  · intro h
    refine ⟨List.nodup_iff_count.2 fun n => ?_, fun n hn => ?_⟩
    · by_cases hn : w.isHonest721 n.coll = true
      · rw [List.count_filter (p := fun n : Nft => w.isHonest721 n.coll) hn, h n hn]
        unfold held; split <;> omega
      · have : n ∉ (recordedNfts w.mkt).filter (fun n => w.isHonest721 n.coll) := by
          intro hm; exact hn (List.mem_filter.1 hm).2
        rw [List.count_eq_zero.2 this]; omega
    · have := h n hn
      unfold held at this
      constructor
      · intro hm
        have h1 := List.one_le_count_iff.2 hm
        split at this
        · assumption
        · omega
      · intro ho
        rw [if_pos ho] at this
        exact List.one_le_count_iff.1 (by omega)

/-! ### lifting a property of the marketplace record over `stepF` -/

theorem stepF_mkt_inv {P : Market → Prop} {fail : Nat → Bool} {w : World} {op : Op} (h0 : P w.mkt)
    (hP : ∀ {m' : Market} {msgs : List OutMsg} {c : Nat} {f : List Coin} {msg : ExecMsg},
      execute w.mkt w.env c f msg = .ok (m', msgs) → P m') : P (stepF fail w op).1.mkt := by
  cases ho : op.asExec with
  | some tr =>
    obtain ⟨c, f, msg⟩ := tr
    rcases stepF_market (fail := fail) (w := w) ho with ⟨e, h⟩ | ⟨m', msgs, w2, hx, hm, _, h⟩
    · rw [h]; exact h0
    · rw [h]; dsimp only; rw [hm]; exact hP hx
  | none => rw [stepF_mkt_of_asExec_none ho]; exact h0

/-! ### the NFT ledger as a map (link to the executable `checkC01`) -/

/-- the NFT ledger has one entry per NFT and only knows honest collections -/
def NftLedgerOk (w : World) : Prop :=
  (akeys w.nft).Nodup ∧ ∀ p ∈ w.nft, w.isHonest721 p.1.1 = true

theorem nftLedgerOk_lset {w : World} (h : NftLedgerOk w) {c t o : Nat} (hc : w.isHonest721 c = true) :
    (akeys (lset w.nft (c, t) o)).Nodup ∧ ∀ p ∈ lset w.nft (c, t) o, w.isHonest721 p.1.1 = true := by
  refine ⟨nodup_akeys_ainsert _ _ h.1, ?_⟩
  intro p hp
  rcases mem_ainsert.1 hp with rfl | ⟨hp, _⟩
  · exact hc
  · exact h.2 p hp

theorem dispatch1_nftLedger {w w' : World} {x : OutMsg} (h : dispatch1 w x = some w')
    (hl : NftLedgerOk w) : NftLedgerOk w' := by
  have hf := (dispatch1_frame h).1
  have key : w'.nft = w.nft ∨ ∃ c t o, w.isHonest721 c = true ∧ w'.nft = lset w.nft (c, t) o := by
    cases x with
    | nftTransfer coll tid to =>
      simp only [dispatch1] at h
      split at h
      · cases h
      rename_i ci hci
      split at h
      · rename_i hk
        split at h
        · simp only [Option.some.injEq] at h
          subst h
          refine .inr ⟨coll, tid, to, ?_, rfl⟩
          simp only [World.isHonest721, hci, hk, decide_true]
        · cases h
      · split at h
        · split at h
          · cases h
          · simp only [Option.some.injEq] at h
            subst h; exact .inl rfl
        · cases h
    | bankSend to coins =>
      left
      simp only [dispatch1] at h
      repeat' split at h
      all_goals first
        | (cases h; done)
        | (simp only [Option.some.injEq] at h; subst h; rfl)
    | fundPool dep coin =>
      left
      simp only [dispatch1] at h
      repeat' split at h
      all_goals first
        | (cases h; done)
        | (simp only [Option.some.injEq] at h; subst h; rfl)
    | cw20Transfer token to amt =>
      left
      simp only [dispatch1] at h
      repeat' split at h
      all_goals first
        | (cases h; done)
        | (simp only [Option.some.injEq] at h; subst h; rfl)
  unfold NftLedgerOk
  rcases key with e | ⟨c, t, o, hc, e⟩
  · rw [e]
    exact ⟨hl.1, fun p hp => by rw [hf.isHonest721]; exact hl.2 p hp⟩
  · rw [e]
    obtain ⟨h1, h2⟩ := nftLedgerOk_lset hl (t := t) (o := o) hc
    exact ⟨h1, fun p hp => by rw [hf.isHonest721]; exact h2 p hp⟩

theorem dispatchAll_nftLedger {fail : Nat → Bool} {ms : List OutMsg} :
    ∀ {w w' : World} {i : Nat}, dispatchAll fail w ms i = some w' → NftLedgerOk w → NftLedgerOk w' := by
  induction ms with
  | nil =>
    intro w w' i h hl
    simp only [dispatchAll, Option.some.injEq] at h
    subst h; exact hl
  | cons x ms ih =>
    intro w w' i h hl
    simp only [dispatchAll] at h
    split at h
    · cases h
    · split at h
      · cases h
      · rename_i w1 h1
        exact ih h (dispatch1_nftLedger h1 hl)

/-- every operation keeps the NFT ledger a map over honest collections -/
theorem stepF_nftLedger {fail : Nat → Bool} {w : World} {op : Op} (hl : NftLedgerOk w) :
    NftLedgerOk (stepF fail w op).1 := by
  cases ho : op.asExec with
  | some tr =>
    obtain ⟨c, f, msg⟩ := tr
    rcases stepF_cases (fail := fail) (w := w) ho with ⟨e, h⟩ | ⟨w1, m', msgs, w2, hD, hx, hd, h⟩
    · rw [h]; exact hl
    · rw [h]
      refine dispatchAll_nftLedger hd ?_
      show (akeys w1.nft).Nodup ∧ ∀ p ∈ w1.nft, w1.isHonest721 p.1.1 = true
      have hc := hD.core.1
      cases op with
      | exec s fu mm =>
        rcases hD with ⟨_, rfl⟩ | ⟨b, _, rfl⟩
        · exact hl
        · exact hl
      | send20 t s a i =>
        obtain ⟨_, l, _, rfl⟩ := hD
        exact hl
      | send721 co s t i =>
        obtain ⟨hh, _, rfl⟩ := hD
        exact nftLedgerOk_lset hl hh
      | royalty s mm => cases hD
      | setAdmin s c n => cases hD
      | advance a b => cases hD
  | none =>
    obtain ⟨_, _, h3, _, hs⟩ := stepF_nonmarket (fail := fail) (w := w) ho
    unfold NftLedgerOk
    rw [h3]
    exact ⟨hl.1, fun p hp => by rw [hs.honest721]; exact hl.2 p hp⟩

theorem mem_heldNfts {w : World} {n : Nft} :
    n ∈ heldNfts w ↔ ((n.coll, n.tid), w.self) ∈ w.nft := by
  unfold heldNfts
  constructor
  · intro h
    obtain ⟨p, hp, rfl⟩ := List.mem_map.1 h
    obtain ⟨hp1, hp2⟩ := List.mem_filter.1 hp
    have : p.2 = w.self := by simpa using hp2
    obtain ⟨⟨a, b⟩, o⟩ := p
    simp only at this
    subst this
    exact hp1
  · intro h
    exact List.mem_map.2 ⟨_, List.mem_filter.2 ⟨h, by simp⟩, rfl⟩

/-! ## sample data for the non-vacuity examples of C01 / C10 -/

namespace AcctEx

def env0 : Env :=
  { self := 100, nowNs := 100 * NS, junoD := 1, usdcD := 2, regAddr := 102,
    isToken20 := fun a => a == 50, isContract := fun a => a == 50 || a == 60,
    regLookup := fun c => if c = 60 then some ⟨0, 250, 9⟩ else none }

/-- a finalized listing selling 1000 of denom 1, 400 of token 50 and NFT (60, 7) for 2000 of
    denom 2 -/
def lst : Listing :=
  { creator := 1, id := 3, finalizedAt := some 0, expiresAt := some (600 * NS), status := .finalized,
    claimant := none, whitelist := none, forSale := ⟨[⟨1, 1000⟩], [⟨50, 400⟩], [⟨60, 7⟩]⟩,
    ask := ⟨[⟨2, 2000⟩], [], []⟩, fee := none }

/-- a bucket holding the asked price, with a pending fee from an earlier trade -/
def bkt : Bucket := ⟨2, ⟨[⟨2, 2000⟩], [], []⟩, some ⟨1, 4⟩⟩

def mkt : Market :=
  { listings := [((1, 3), lst)], buckets := [((2, 8), bkt)], listingUsed := [3, 0],
    bucketUsed := [8, 0], feeKind := .juno, feeSince := 0, registry := some 102 }

theorem ids : IdsInv mkt := by constructor <;> decide
theorem wf : WFInv 1 2 mkt := by constructor <;> decide

/-- the purchase is accepted: fee 5 of denom 1 recorded on the goods, the bucket's old fee paid to
    the pool, 2.5 % royalty (50 of denom 2) to address 9 -/
theorem buy_ok : ∃ m', buy mkt env0 2 3 8 =
    .ok (m', [.fundPool 100 ⟨1, 4⟩, .bankSend 9 [⟨2, 50⟩]]) := ⟨_, rfl⟩

/-- a world in which the marketplace (100) holds 1000 of denom 1, 400 of honest token 50 and the
    honest NFT (60, 7) -/
def wd : World :=
  { self := 100, pool := 101, regAddr := 102, junoD := 1, usdcD := 2, nowNs := 0, height := 0,
    mkt := instantiate 0 (some 102), reg := [],
    bank := [((100, 1), 1000)], cw20 := [((50, 100), 400)], nft := [((60, 7), 100)],
    contracts := [(50, ⟨none, 1, true, false⟩), (60, ⟨none, 2, false, false⟩)] }

def msgs : List OutMsg :=
  [.bankSend 1 [⟨1, 300⟩, ⟨2, 0⟩], .fundPool 100 ⟨1, 5⟩, .cw20Transfer 50 2 150, .nftTransfer 60 7 2]

/-- a fresh marketplace (address 100), community pool 101, registry 102 with one entry paying
    2.5 % of collection 60 to address 9; an honest CW20 token (50) and an honest collection (60);
    a hostile contract (70) that answers `TokenInfo`; users 1, 2 and 5 hold coins, tokens, NFTs -/
def w0 : World :=
  { self := 100, pool := 101, regAddr := 102, junoD := 1, usdcD := 2, nowNs := 100 * NS, height := 200,
    mkt := instantiate 0 (some 102), reg := [(60, ⟨0, 250, 9⟩)],
    bank := [((1, 1), 1000), ((2, 2), 5000), ((5, 1), 30)],
    cw20 := [((50, 1), 400), ((50, 5), 77)], nft := [((60, 7), 1), ((60, 11), 2)],
    contracts := [(50, ⟨none, 1, true, false⟩), (60, ⟨some 4, 2, false, false⟩),
                  (70, ⟨none, 3, true, false⟩)] }

theorem w0_payouts (a : Nat) (h : a ≠ 9) : PayoutsNe w0.reg a := by
  intro c r hr
  simp only [w0, regSingle, alookup] at hr
  split at hr
  · injection hr with hr; subst hr; exact fun e => h e.symm
  · cases hr

/-- a history exercising every deposit path, a trade with fee and royalty, and all withdrawals -/
def ops : List Op :=
  [ .exec 1 [⟨1, 1000⟩] (.createListing 3 ⟨⟨[⟨2, 2000⟩], [], []⟩, none⟩),
    .send20 50 1 400 (some (.addToListing 3)),
    .send721 60 1 7 (some (.addToListing 3)),
    .exec 1 [] (.finalize 3 600),
    .exec 2 [⟨2, 2000⟩] (.createBucket 8),
    .royalty 4 (.update (.valid 60) (some (.valid 6)) none),
    .exec 2 [] (.buy 3 8),
    .advance NS 1,
    .exec 2 [] (.withdrawPurchased 3),
    .exec 1 [] (.removeBucket 8) ]

/-- the same history followed by a hook call forged by the hostile contract 70 (finding C18): it
    records 999 units of "token 70" that nobody deposited -/
def opsForged : List Op :=
  ops ++ [.exec 70 [] (.receive (.valid 5) 999 (some (.createBucket 4)))]

/-- an ill-formed record: a listing that was never traded (preparing, no claimant) but carries a fee -/
def badLst : Listing :=
  { lst with finalizedAt := none, expiresAt := none, status := .preparing, fee := some ⟨1, 5⟩ }
def badMkt : Market := { mkt with listings := [((1, 3), badLst)] }

end AcctEx

end Fuzion
