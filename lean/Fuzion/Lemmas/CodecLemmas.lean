/-
  Fuzion.Lemmas.CodecLemmas — round-trip lemmas for the token parser of `Driver/Codec.lean` against the
  printers of `Driver/Print.lean`: one lemma per combinator / component parser, each of the shape

      parser (printer x ++ rest) = some (x, rest)        (for all `x` and all trailing tokens `rest`)

  The main theorems (`world_roundtrip`, `op_roundtrip`) and the injectivity corollaries are in
  `Props/CodecRoundtrip.lean`.
-/
import Std.Data.String.ToNat
import Fuzion.Driver.Print
namespace Fuzion.Codec
open Fuzion

/-! ### the parser monad, applied to a token list -/

theorem P.bind_apply {α β : Type} (p : P α) (f : α → P β) (s : List String) :
    (p >>= f) s = (p s).bind (fun x => f x.1 x.2) := by
  show StateT.bind p f s = _
  unfold StateT.bind
  cases h : p s <;> simp [bind, Option.bind]

theorem P.pure_apply {α : Type} (a : α) (s : List String) : (pure a : P α) s = some (a, s) := rfl

theorem P.failure_apply {α : Type} (s : List String) : (failure : P α) s = none := rfl

theorem P.map_apply {α β : Type} (g : α → β) (p : P α) (s : List String) :
    (g <$> p) s = (p s).map (fun x => (g x.1, x.2)) := by
  show StateT.map g p s = _
  unfold StateT.map
  cases h : p s <;> simp [bind, Option.bind, pure]

/-- one step of a `do` block whose first parser succeeds -/
theorem P.bind_ok {α β : Type} {p : P α} {f : α → P β} {s s' : List String} {a : α}
    (h : p s = some (a, s')) : (p >>= f) s = f a s' := by
  simp [P.bind_apply, h]

attribute [local simp] P.bind_apply P.pure_apply P.failure_apply P.map_apply

/-! ### combinators -/

@[simp] theorem tok_rt (t : String) (rest : List String) : tok (t :: rest) = some (t, rest) := rfl

@[simp] theorem nat_rt (n : Nat) (rest : List String) : nat (Nat.repr n :: rest) = some (n, rest) := by
  simp [nat, Nat.toNat?_repr]

@[simp] theorem nat_pNat_rt (n : Nat) (rest : List String) : nat (pNat n ++ rest) = some (n, rest) := by
  simp [pNat]

/-- `rep` reads back exactly the elements that were printed, given the element round trip -/
theorem rep_rt {α : Type} (p : P α) (pr : α → List String)
    (h : ∀ x rest, p (pr x ++ rest) = some (x, rest)) (l : List α) (rest : List String) :
    rep p l.length (l.flatMap pr ++ rest) = some (l, rest) := by
  induction l with
  | nil => simp [rep, P.pure_apply]
  | cons x xs ih =>
    simp [rep, List.flatMap_cons, List.append_assoc, h, ih]

theorem listOf_rt {α : Type} (p : P α) (pr : α → List String)
    (h : ∀ x rest, p (pr x ++ rest) = some (x, rest)) (l : List α) (rest : List String) :
    listOf p (pList pr l ++ rest) = some (l, rest) := by
  simp [listOf, pList, rep_rt p pr h]

theorem opt_rt {α : Type} (p : P α) (pr : α → List String)
    (h : ∀ x rest, p (pr x ++ rest) = some (x, rest)) (o : Option α) (rest : List String) :
    opt p (pOpt pr o ++ rest) = some (o, rest) := by
  cases o <;> simp [opt, pOpt, h]

@[simp] theorem bool01_rt (b : Bool) (rest : List String) : bool01 (pBool b ++ rest) = some (b, rest) := by
  have h0 : nat ("0" :: rest) = some (0, rest) := nat_rt 0 rest
  have h1 : nat ("1" :: rest) = some (1, rest) := nat_rt 1 rest
  cases b <;> simp [bool01, pBool, h0, h1]

/-! ### leaves -/

@[simp] theorem coin_rt (c : Coin) (rest : List String) : coin (pCoin c ++ rest) = some (c, rest) := by
  simp [coin, pCoin]

@[simp] theorem nft_rt (n : Nft) (rest : List String) : nft (pNft n ++ rest) = some (n, rest) := by
  simp [nft, pNft]

@[simp] theorem opt_nat_rt (o : Option Nat) (rest : List String) :
    opt nat (pOpt pNat o ++ rest) = some (o, rest) := opt_rt nat pNat nat_pNat_rt o rest

@[simp] theorem opt_coin_rt (o : Option Coin) (rest : List String) :
    opt coin (pOpt pCoin o ++ rest) = some (o, rest) := opt_rt coin pCoin coin_rt o rest

@[simp] theorem listOf_nat_rt (l : List Nat) (rest : List String) :
    listOf nat (pList pNat l ++ rest) = some (l, rest) := listOf_rt nat pNat nat_pNat_rt l rest

@[simp] theorem listOf_coin_rt (l : List Coin) (rest : List String) :
    listOf coin (pList pCoin l ++ rest) = some (l, rest) := listOf_rt coin pCoin coin_rt l rest

@[simp] theorem listOf_nft_rt (l : List Nft) (rest : List String) :
    listOf nft (pList pNft l ++ rest) = some (l, rest) := listOf_rt nft pNft nft_rt l rest

@[simp] theorem gbal_rt (g : GBal) (rest : List String) : gbal (pGBal g ++ rest) = some (g, rest) := by
  simp [gbal, pGBal, List.append_assoc]

@[simp] theorem rawAddr_rt (a : RawAddr) (rest : List String) :
    rawAddr (pRawAddr a ++ rest) = some (a, rest) := by
  cases a <;> simp [rawAddr, pRawAddr]

@[simp] theorem optRaw_rt (o : Option RawAddr) (rest : List String) :
    optRaw (pOptRaw o ++ rest) = some (o, rest) := by
  rcases o with _ | a
  · simp [optRaw, pOptRaw]
  · cases a <;> simp [optRaw, pOptRaw, pRawAddr]

@[simp] theorem rawPair_rt (x : RawAddr × Nat) (rest : List String) :
    rawPair (pRawPair x ++ rest) = some (x, rest) := by
  simp [rawPair, pRawPair, List.append_assoc]

@[simp] theorem listOf_rawPair_rt (l : List (RawAddr × Nat)) (rest : List String) :
    listOf rawPair (pList pRawPair l ++ rest) = some (l, rest) :=
  listOf_rt rawPair pRawPair rawPair_rt l rest

@[simp] theorem rawGBal_rt (g : RawGBal) (rest : List String) :
    rawGBal (pRawGBal g ++ rest) = some (g, rest) := by
  simp [rawGBal, pRawGBal, List.append_assoc]

@[simp] theorem status_rt (s : Status) (rest : List String) :
    status (pStatus s ++ rest) = some (s, rest) := by
  have h0 : nat ("0" :: rest) = some (0, rest) := nat_rt 0 rest
  have h1 : nat ("1" :: rest) = some (1, rest) := nat_rt 1 rest
  have h2 : nat ("2" :: rest) = some (2, rest) := nat_rt 2 rest
  cases s <;> simp [status, pStatus, h0, h1, h2]

@[simp] theorem feeKind_rt (k : FeeKind) (rest : List String) :
    feeKind (pFeeKind k ++ rest) = some (k, rest) := by
  have h0 : nat ("0" :: rest) = some (0, rest) := nat_rt 0 rest
  have h1 : nat ("1" :: rest) = some (1, rest) := nat_rt 1 rest
  cases k <;> simp [feeKind, pFeeKind, h0, h1]

/-! ### records -/

@[simp] theorem listing_rt (l : Listing) (rest : List String) :
    listing (pListing l ++ rest) = some (l, rest) := by
  simp [listing, pListing, List.append_assoc]

@[simp] theorem bucket_rt (b : Bucket) (rest : List String) :
    bucket (pBucket b ++ rest) = some (b, rest) := by
  simp [bucket, pBucket, List.append_assoc]

theorem keyed_rt {α : Type} (p : P α) (pr : α → List String)
    (h : ∀ x rest, p (pr x ++ rest) = some (x, rest)) (x : (Nat × Nat) × α) (rest : List String) :
    keyed p (pKeyed pr x ++ rest) = some (x, rest) := by
  simp [keyed, pKeyed, h]

@[simp] theorem listOf_keyed_listing_rt (l : List ((Nat × Nat) × Listing)) (rest : List String) :
    listOf (keyed listing) (pList (pKeyed pListing) l ++ rest) = some (l, rest) :=
  listOf_rt _ _ (keyed_rt listing pListing listing_rt) l rest

@[simp] theorem listOf_keyed_bucket_rt (l : List ((Nat × Nat) × Bucket)) (rest : List String) :
    listOf (keyed bucket) (pList (pKeyed pBucket) l ++ rest) = some (l, rest) :=
  listOf_rt _ _ (keyed_rt bucket pBucket bucket_rt) l rest

@[simp] theorem royInfo_rt (r : RoyaltyInfo) (rest : List String) :
    royInfo (pRoyInfo r ++ rest) = some (r, rest) := by
  simp [royInfo, pRoyInfo]

/-- the anonymous registry-entry parser inside `world` -/
def regEntry : P (Nat × RoyaltyInfo) := do let c ← nat; let i ← royInfo; pure (c, i)

@[simp] theorem regEntry_rt (x : Nat × RoyaltyInfo) (rest : List String) :
    regEntry (pRegEntry x ++ rest) = some (x, rest) := by
  simp [regEntry, pRegEntry]

@[simp] theorem listOf_regEntry_rt (l : List (Nat × RoyaltyInfo)) (rest : List String) :
    listOf regEntry (pList pRegEntry l ++ rest) = some (l, rest) :=
  listOf_rt regEntry pRegEntry regEntry_rt l rest

@[simp] theorem triple_rt (x : (Nat × Nat) × Nat) (rest : List String) :
    triple (pTriple x ++ rest) = some (x, rest) := by
  simp [triple, pTriple]

@[simp] theorem listOf_triple_rt (l : List ((Nat × Nat) × Nat)) (rest : List String) :
    listOf triple (pList pTriple l ++ rest) = some (l, rest) :=
  listOf_rt triple pTriple triple_rt l rest

@[simp] theorem contract_rt (x : Nat × ContractInfo) (rest : List String) :
    contract (pContract x ++ rest) = some (x, rest) := by
  simp [contract, pContract, List.append_assoc]

@[simp] theorem listOf_contract_rt (l : List (Nat × ContractInfo)) (rest : List String) :
    listOf contract (pList pContract l ++ rest) = some (l, rest) :=
  listOf_rt contract pContract contract_rt l rest

/-! ### messages -/

@[simp] theorem createMsg_rt (c : CreateMsg) (rest : List String) :
    createMsg (pCreateMsg c ++ rest) = some (c, rest) := by
  simp [createMsg, pCreateMsg, List.append_assoc]

@[simp] theorem inner_rt (i : Option Inner) (rest : List String) :
    inner (pInner i ++ rest) = some (i, rest) := by
  rcases i with _ | i
  · simp [inner, pInner]
  · cases i <;> simp [inner, pInner]

/-- the tag `execMsg` returns next to the message -/
def execTag : ExecMsg → String
  | .feeCycle => "FC" | .createListing .. => "CL" | .addToListing .. => "AL" | .changeAsk .. => "CA"
  | .finalize .. => "FI" | .deleteListing .. => "DL" | .createBucket .. => "CB" | .addToBucket .. => "AB"
  | .removeBucket .. => "RB" | .buy .. => "BL" | .withdrawPurchased .. => "WP"
  | .receive .. => "RC" | .receiveNft .. => "RN"

@[simp] theorem execMsg_rt (m : ExecMsg) (rest : List String) :
    execMsg (pExecMsg m ++ rest) = some ((execTag m, m), rest) := by
  cases m <;> simp [execMsg, pExecMsg, execTag, List.append_assoc]

/-- the tag `royMsg` returns next to the message -/
def royTag : RoyMsg → String
  | .register .. => "REG" | .update .. => "UPD" | .remove .. => "REM"

@[simp] theorem royMsg_rt (m : RoyMsg) (rest : List String) :
    royMsg (pRoyMsg m ++ rest) = some ((royTag m, m), rest) := by
  cases m <;> simp [royMsg, pRoyMsg, royTag, List.append_assoc]

end Fuzion.Codec
