/-
  Fuzion.Lemmas.EntCashoutLemmas — helper lemmas for Props/EntCashout.lean: one account's
  entitlement is a summand of the obligations; what ONE exit transaction does to entitlements and
  wallets (`CashedOut`); the account-wise drain (`cashout_all`).  Core library only.
-/
import Fuzion.Props.Entitlement
import Fuzion.Props.C07Closed
import Fuzion.Props.C05Closed
namespace Fuzion

/-! ## 1. one account's entitlement is part of the obligations -/

section
variable {κ ν : Type}

theorem asum_le_asum {f g : ν → Nat} (h : ∀ v, f v ≤ g v) (l : List (κ × ν)) : asum f l ≤ asum g l := by
  induction l with
  | nil => exact Nat.le_refl _
  | cons p l ih => rw [asum_cons, asum_cons]; have := h p.2; omega

theorem asum_eq_zero {f : ν → Nat} {l : List (κ × ν)} (h : ∀ p ∈ l, f p.2 = 0) : asum f l = 0 := by
  induction l with
  | nil => rfl
  | cons p l ih =>
    rw [asum_cons, h p List.mem_cons_self, ih (fun q hq => h q (List.mem_cons_of_mem _ hq))]
end

theorem listingsSum_eq_asum (f : Listing → Nat) (m : Market) : listingsSum f m = asum f m.listings := rfl
theorem bucketsSum_eq_asum (f : Bucket → Nat) (m : Market) : bucketsSum f m = asum f m.buckets := rfl

/-- one account's native entitlement is at most the goods part of the obligations -/
theorem entNative_le_goods (m : Market) (a d : Nat) : entNative m a d ≤
    listingsSum (fun l => coinAmt l.forSale.native d) m + bucketsSum (fun b => coinAmt b.funds.native d) m := by
  unfold entNative
  simp only [listingsSum_eq_asum, bucketsSum_eq_asum]
  have h1 := asum_le_asum (κ := Nat × Nat) (f := fun l : Listing => if a = l.creator then coinAmt l.forSale.native d else 0)
    (g := fun l => coinAmt l.forSale.native d) (fun v => by split <;> omega) m.listings
  have h2 := asum_le_asum (κ := Nat × Nat) (f := fun b : Bucket => if a = b.owner then coinAmt b.funds.native d else 0)
    (g := fun b => coinAmt b.funds.native d) (fun v => by split <;> omega) m.buckets
  omega

theorem entNative_le_owed (m : Market) (a d : Nat) : entNative m a d ≤ owedNative m d := by
  have := entNative_le_goods m a d
  unfold owedNative
  omega

theorem entCw20_le_owed (m : Market) (a t : Nat) : entCw20 m a t ≤ owedCw20 m t := by
  unfold entCw20 owedCw20
  simp only [listingsSum_eq_asum, bucketsSum_eq_asum]
  have h1 := asum_le_asum (κ := Nat × Nat) (f := fun l : Listing => if a = l.creator then coinAmt l.forSale.cw20 t else 0)
    (g := fun l => coinAmt l.forSale.cw20 t) (fun v => by split <;> omega) m.listings
  have h2 := asum_le_asum (κ := Nat × Nat) (f := fun b : Bucket => if a = b.owner then coinAmt b.funds.cw20 t else 0)
    (g := fun b => coinAmt b.funds.cw20 t) (fun v => by split <;> omega) m.buckets
  omega

/-- every NFT held for `a` is a recorded NFT -/
theorem entNfts_sub_recorded {m : Market} {a : Nat} {n : Nft} (h : n ∈ entNfts m a) :
    n ∈ recordedNfts m := by
  unfold entNfts at h
  unfold recordedNfts
  rw [List.mem_append] at h ⊢
  rcases h with h | h
  · obtain ⟨p, hp, hn⟩ := List.mem_flatMap.1 h
    refine .inl (List.mem_flatMap.2 ⟨p, hp, ?_⟩)
    split at hn
    · exact hn
    · cases hn
  · obtain ⟨p, hp, hn⟩ := List.mem_flatMap.1 h
    refine .inr (List.mem_flatMap.2 ⟨p, hp, ?_⟩)
    split at hn
    · exact hn
    · cases hn

/-- an account that has no record is entitled to nothing -/
theorem ent_zero_of_no_record {m : Market} {a : Nat} (hl : ∀ p ∈ m.listings, p.2.creator ≠ a)
    (hb : ∀ p ∈ m.buckets, p.2.owner ≠ a) :
    (∀ d, entNative m a d = 0) ∧ (∀ t, entCw20 m a t = 0) ∧ entNfts m a = [] := by
  refine ⟨fun d => ?_, fun t => ?_, ?_⟩
  · unfold entNative
    simp only [listingsSum_eq_asum, bucketsSum_eq_asum]
    rw [asum_eq_zero (fun p hp => if_neg (Ne.symm (hl p hp))),
      asum_eq_zero (fun p hp => if_neg (Ne.symm (hb p hp)))]
  · unfold entCw20
    simp only [listingsSum_eq_asum, bucketsSum_eq_asum]
    rw [asum_eq_zero (fun p hp => if_neg (Ne.symm (hl p hp))),
      asum_eq_zero (fun p hp => if_neg (Ne.symm (hb p hp)))]
  · unfold entNfts
    rw [List.append_eq_nil_iff, List.flatMap_eq_nil_iff, List.flatMap_eq_nil_iff]
    exact ⟨fun p hp => if_neg (Ne.symm (hl p hp)), fun p hp => if_neg (Ne.symm (hb p hp))⟩

/-! ## 2. one exit transaction -/

/-- **the effect of one cash-out transaction** `r = step w (.exec x [] msg)` about a record with goods
    `g` and pending fee `fee`:
    * it succeeds and emits exactly "goods to `x`, fee to the pool";
    * abstractly: `x`'s entitlement drops by exactly `g`, the pending fees by exactly `fee`, nobody
      else's entitlement changes (`EntLoss`);
    * concretely (`PaidOut`): `x`'s bank balance rises by `g.native` per denomination, its balance of
      every honest CW20 token by `g.cw20`, it owns every honest NFT of `g`; the pool's bank balance
      rises by exactly `fee`; the marketplace loses exactly goods + fee; every other ledger entry is
      unchanged;
    * every third account (not `x`, marketplace, pool) is `Untouched`. -/
structure CashedOut (w : World) (r : World × Outcome) (x : Nat) (g : GBal) (fee : Option Coin) : Prop where
  ok : r.2.ok = true
  msgs : r.2.msgs = withdrawMsgs w.self x g fee
  ent : EntLoss w.mkt r.1.mkt x g fee
  paid : PaidOut w r.1 x g fee
  others : ∀ y, y ≠ x → y ≠ w.self → y ≠ w.pool → Untouched w r.1 y

theorem exitMsg_isWithdraw (l : Listing) : l.exitMsg.isWithdraw = true := by
  unfold Listing.exitMsg
  cases l.status <;> rfl

/-- the record an exit message of a stored listing is about is that listing -/
theorem wdRecord_exit_listing {m : Market} {l : Listing} {g : GBal} {fee : Option Coin}
    (hl : alookup (l.creator, l.id) m.listings = some l)
    (hfee : l.status ≠ .closed → l.fee = none)
    (h : WdRecord m l.creator l.exitMsg g fee) : g = l.forSale ∧ fee = l.fee := by
  unfold Listing.exitMsg at h
  cases hst : l.status <;> rw [hst] at h <;> dsimp only [WdRecord] at h
  · obtain ⟨l', h1, _, _, h4, _, h6⟩ := h
    rw [hl] at h1; cases h1
    exact ⟨h4, by rw [h6, hfee (by rw [hst]; exact fun e => by cases e)]⟩
  · obtain ⟨l', h1, _, _, h4, _, h6⟩ := h
    rw [hl] at h1; cases h1
    exact ⟨h4, by rw [h6, hfee (by rw [hst]; exact fun e => by cases e)]⟩
  · obtain ⟨l', h1, _, _, _, h5, h6⟩ := h
    rw [hl] at h1; cases h1
    exact ⟨h5, h6⟩

/-- one exit transaction of a stored, exitable listing, by the party it is filed under -/
theorem exit_listing_cashedOut {w : World} (hInv : C01Inv w) {k : Nat × Nat} {l : Listing}
    (hm : (k, l) ∈ w.mkt.listings) (he : l.exitable w.nowNs) (hh : HonestAssets w l.forSale)
    (hx : l.creator ≠ w.self) (hxp : l.creator ≠ w.pool) :
    CashedOut w (step w (.exec l.creator [] l.exitMsg)) l.creator l.forSale l.fee ∧
    (step w (.exec l.creator [] l.exitMsg)).1.mkt = { w.mkt with listings := aerase k w.mkt.listings } ∧
    CoreEq w (step w (.exec l.creator [] l.exitMsg)).1 := by
  have hwf : wfListing w.junoD w.usdcD k l = true := hInv.wf.lwf _ hm
  obtain ⟨hk, hbal, hp, hf, _⟩ := wfListing_parts hwf
  have hx' := C07_exit_execute_listing (env := w.env) hInv.ids hInv.wf hm he
  obtain ⟨w2, hd⟩ := C07_chain_accepts (m' := { w.mkt with listings := aerase k w.mkt.listings })
    (to := l.creator) hbal (fun f hf => (wfListing_fee hwf hf).1)
    (C07_covers_listing hInv.wf hInv.backed hm hh) hh
  have hs := step_exec_nil_of hx' hd
  have hfr := dispatchAll_frame hd
  have hl : alookup (l.creator, l.id) w.mkt.listings = some l := by
    rw [← hk]; exact mem_nodup_alookup hInv.ids.lkeys hm
  obtain ⟨g, fee, hrec, _, hloss⟩ := Ent_withdraw hInv.ids hInv.wf (exitMsg_isWithdraw l) hx'
  have hfee : l.status ≠ .closed → l.fee = none := by
    intro hne
    cases hst : l.status with
    | preparing => exact (hp hst).2.2
    | finalized => exact (hf hst).2
    | closed => exact absurd hst hne
  obtain ⟨rfl, rfl⟩ := wdRecord_exit_listing hl hfee hrec
  have hpaid : PaidOut w w2 l.creator l.forSale l.fee := paidOut_of_dispatch hd hx hxp hInv.pool
  rw [hs]
  refine ⟨⟨rfl, rfl, ?_, hpaid, fun y h1 h2 h3 => hpaid.untouched h1 h2 h3⟩, hfr.2,
    ⟨hfr.1.self, hfr.1.pool, hfr.1.regAddr, hfr.1.junoD, hfr.1.usdcD,
      hfr.1.nowNs, hfr.1.height, hfr.1.reg, hfr.1.contracts⟩⟩
  show EntLoss w.mkt w2.mkt _ _ _
  rw [hfr.2]; exact hloss

/-- one exit transaction of a stored bucket, by its owner -/
theorem exit_bucket_cashedOut {w : World} (hInv : C01Inv w) {k : Nat × Nat} {b : Bucket}
    (hm : (k, b) ∈ w.mkt.buckets) (hh : HonestAssets w b.funds)
    (hx : b.owner ≠ w.self) (hxp : b.owner ≠ w.pool) :
    CashedOut w (step w (.exec b.owner [] (.removeBucket k.2))) b.owner b.funds b.fee ∧
    (step w (.exec b.owner [] (.removeBucket k.2))).1.mkt = { w.mkt with buckets := aerase k w.mkt.buckets } ∧
    CoreEq w (step w (.exec b.owner [] (.removeBucket k.2))).1 := by
  have hwf : wfBucket w.junoD w.usdcD k b = true := hInv.wf.bwf _ hm
  have hx' := C07_exit_execute_bucket (env := w.env) hInv.ids hm
  obtain ⟨w2, hd⟩ := C07_chain_accepts (m' := { w.mkt with buckets := aerase k w.mkt.buckets })
    (to := b.owner) (wfBucket_parts hwf).2 (fun f hf => (wfBucket_fee hwf hf).1)
    (C07_covers_bucket hInv.wf hInv.backed hm hh) hh
  have hs := step_exec_nil_of hx' hd
  have hfr := dispatchAll_frame hd
  have hkk : (b.owner, k.2) = k := by
    have := hInv.ids.bfiled _ hm
    dsimp only at this
    rw [← this]
  have hl : alookup (b.owner, k.2) w.mkt.buckets = some b := by
    rw [hkk]; exact mem_nodup_alookup hInv.ids.bkeys hm
  obtain ⟨g, fee, hrec, _, hloss⟩ := Ent_withdraw hInv.ids hInv.wf (msg := .removeBucket k.2) rfl hx'
  obtain ⟨b', h1, _, rfl, rfl⟩ := hrec
  rw [hl] at h1; cases h1
  have hpaid : PaidOut w w2 b.owner b.funds b.fee := paidOut_of_dispatch hd hx hxp hInv.pool
  rw [hs]
  refine ⟨⟨rfl, rfl, ?_, hpaid, fun y h1 h2 h3 => hpaid.untouched h1 h2 h3⟩, hfr.2,
    ⟨hfr.1.self, hfr.1.pool, hfr.1.regAddr, hfr.1.junoD, hfr.1.usdcD,
      hfr.1.nowNs, hfr.1.height, hfr.1.reg, hfr.1.contracts⟩⟩
  show EntLoss w.mkt w2.mkt _ _ _
  rw [hfr.2]; exact hloss

/-! ## 3. cashing out everything of one account -/

theorem Untouched.trans {w1 w2 w3 : World} {y : Nat} (h1 : Untouched w1 w2 y) (h2 : Untouched w2 w3 y) :
    Untouched w1 w3 y :=
  ⟨fun d => (h2.bank d).trans (h1.bank d), fun t => (h2.cw20 t).trans (h1.cw20 t),
   fun c tid => (h2.nft c tid).trans (h1.nft c tid)⟩

/-- a payout to `x` never takes an NFT away from `x` -/
theorem PaidOut.nft_kept {w w' : World} {x : Nat} {g : GBal} {fee : Option Coin}
    (h : PaidOut w w' x g fee) {c tid : Nat} (ho : alookup (c, tid) w.nft = some x) :
    alookup (c, tid) w'.nft = some x := by
  by_cases e : (⟨c, tid⟩ : Nft) ∈ g.nfts ∧ w.isHonest721 c = true
  · exact (h.nftOwner _ e.1 e.2).2
  · rw [h.nftOthers c tid (by
      by_cases hm : (⟨c, tid⟩ : Nft) ∈ g.nfts
      · right
        cases hh : w.isHonest721 c with
        | false => rfl
        | true => exact absurd ⟨hm, hh⟩ e
      · left; exact hm)]
    exact ho

/-- **everything of account `a` cashed out**: what the history `ops` from `w` achieves for `a`.
    * every transaction of `ops` succeeds (`runOk`);
    * afterwards `a` is entitled to nothing: no coin, no CW20 token, no NFT;
    * `a`'s bank balance has risen, per denomination, by exactly what `a` was entitled to in `w`;
      likewise its balance of every honest CW20 token; every honest NFT `a` was entitled to is `a`'s,
      and `a` has kept every NFT it owned;
    * nobody else's entitlement has changed; every third account's wallet is `Untouched`;
    * the pool has received exactly the pending fees that left the records. -/
structure CashedOutAll (w : World) (ops : List Op) (a : Nat) : Prop where
  allOk : runOk w ops
  entNative0 : ∀ d, entNative (run w ops).mkt a d = 0
  entCw200 : ∀ t, entCw20 (run w ops).mkt a t = 0
  entNfts0 : entNfts (run w ops).mkt a = []
  bank : ∀ d, lget (run w ops).bank (a, d) = lget w.bank (a, d) + entNative w.mkt a d
  cw20 : ∀ t, w.isHonest20 t = true →
    lget (run w ops).cw20 (t, a) = lget w.cw20 (t, a) + entCw20 w.mkt a t
  nftGot : ∀ n ∈ entNfts w.mkt a, w.isHonest721 n.coll = true →
    alookup (n.coll, n.tid) (run w ops).nft = some a
  nftKept : ∀ c tid, alookup (c, tid) w.nft = some a → alookup (c, tid) (run w ops).nft = some a
  othersEnt : ∀ y, y ≠ a → (∀ d, entNative (run w ops).mkt y d = entNative w.mkt y d) ∧
    (∀ t, entCw20 (run w ops).mkt y t = entCw20 w.mkt y t) ∧
    (entNfts (run w ops).mkt y).Perm (entNfts w.mkt y)
  othersWallet : ∀ y, y ≠ a → y ≠ w.self → y ≠ w.pool → Untouched w (run w ops) y
  poolFees : ∀ d, lget (run w ops).bank (w.pool, d) + pendingFees (run w ops).mkt d =
    lget w.bank (w.pool, d) + pendingFees w.mkt d

/-- nothing to do for an account without records -/
theorem cashedOutAll_nil {w : World} {a : Nat} (hl : ∀ p ∈ w.mkt.listings, p.2.creator ≠ a)
    (hb : ∀ p ∈ w.mkt.buckets, p.2.owner ≠ a) : CashedOutAll w [] a := by
  obtain ⟨z1, z2, z3⟩ := ent_zero_of_no_record hl hb
  refine ⟨trivial, z1, z2, z3, fun d => ?_, fun t _ => ?_, fun n hn _ => ?_, fun _ _ h => h,
    fun y _ => ⟨fun _ => rfl, fun _ => rfl, List.Perm.refl _⟩, fun y _ _ _ => Untouched.refl w y,
    fun _ => rfl⟩
  · show lget w.bank (a, d) = _; rw [z1 d]; rfl
  · show lget w.cw20 (t, a) = _; rw [z2 t]; rfl
  · rw [z3] at hn; cases hn

/-- one more exit transaction of `a` in front -/
theorem cashedOutAll_cons {w : World} {op : Op} {ops : List Op} {a : Nat} {g : GBal} {fee : Option Coin}
    (h1 : CashedOut w (step w op) a g fee) (hce : CoreEq w (step w op).1)
    (h2 : CashedOutAll (step w op).1 ops a) : CashedOutAll w (op :: ops) a := by
  have hN := h1.ent.native
  have hC := h1.ent.cw20
  have hF := h1.ent.nfts
  refine ⟨⟨h1.ok, h2.allOk⟩, h2.entNative0, h2.entCw200, h2.entNfts0, fun d => ?_, fun t ht => ?_,
    fun n hn hh => ?_, fun c tid ho => h2.nftKept c tid (h1.paid.nft_kept ho), fun y hy => ?_,
    fun y hy hys hyp => ?_, fun d => ?_⟩
  · have e1 := h2.bank d
    have e2 := h1.paid.bankOwner d
    have e3 := hN a d
    rw [if_pos rfl] at e3
    show lget (run (step w op).1 ops).bank (a, d) = _
    omega
  · have e1 := h2.cw20 t (by rw [hce.isHonest20]; exact ht)
    have e2 := h1.paid.cw20Owner t ht
    have e3 := hC a t
    rw [if_pos rfl] at e3
    show lget (run (step w op).1 ops).cw20 (t, a) = _
    omega
  · have hmem := (hF a).mem_iff (a := n)
    rw [if_pos rfl, List.mem_append] at hmem
    rcases hmem.2 hn with h | h
    · exact h2.nftGot n h (by rw [hce.isHonest721]; exact hh)
    · exact h2.nftKept _ _ (h1.paid.nftOwner n h hh).2
  · obtain ⟨o1, o2, o3⟩ := h2.othersEnt y hy
    refine ⟨fun d => ?_, fun t => ?_, ?_⟩
    · have := hN y d
      rw [if_neg hy, Nat.add_zero] at this
      exact (o1 d).trans this
    · have := hC y t
      rw [if_neg hy, Nat.add_zero] at this
      exact (o2 t).trans this
    · have := hF y
      rw [if_neg hy, List.append_nil] at this
      exact o3.trans this
  · exact (h1.others y hy hys hyp).trans
      (h2.othersWallet y hy (by rw [hce.self]; exact hys) (by rw [hce.pool]; exact hyp))
  · have e1 := h2.poolFees d
    rw [hce.pool] at e1
    have e2 := h1.paid.bankPool d
    have e3 := h1.ent.fees d
    show lget (run (step w op).1 ops).bank (w.pool, d) + pendingFees (run (step w op).1 ops).mkt d = _
    omega

theorem length_aerase_lt {κ ν : Type} [DecidableEq κ] {k : κ} {v : ν} {l : List (κ × ν)}
    (h : (k, v) ∈ l) : (aerase k l).length < l.length := by
  unfold aerase
  exact List.length_filter_lt_length_iff_exists.2 ⟨(k, v), h, by simp⟩

/-- an exit step of a listing keeps `Drainable` -/
theorem drainable_exit_listing {w : World} (hD : Drainable w) {k : Nat × Nat} {l : Listing}
    (hm : (k, l) ∈ w.mkt.listings)
    (hmk : (step w (.exec l.creator [] l.exitMsg)).1.mkt = { w.mkt with listings := aerase k w.mkt.listings })
    (hce : CoreEq w (step w (.exec l.creator [] l.exitMsg)).1) :
    Drainable (step w (.exec l.creator [] l.exitMsg)).1 := by
  have hsub : ∀ p ∈ (step w (.exec l.creator [] l.exitMsg)).1.mkt.listings, p ∈ w.mkt.listings := by
    intro p hp; rw [hmk] at hp; exact (mem_aerase.1 hp).1
  have hsubB : ∀ p ∈ (step w (.exec l.creator [] l.exitMsg)).1.mkt.buckets, p ∈ w.mkt.buckets := by
    intro p hp; rw [hmk] at hp; exact hp
  refine ⟨C01Inv_exit hD.inv (hD.ownersL _ hm) (exitMsg_honest _ _ _), ?_, ?_, ?_, ?_, ?_⟩
  · intro p hp; rw [hce.nowNs]; exact hD.expired p (hsub p hp)
  · intro p hp; exact (hD.honestL p (hsub p hp)).of_coreEq hce
  · intro p hp; exact (hD.honestB p (hsubB p hp)).of_coreEq hce
  · intro p hp; rw [hce.self]; exact hD.ownersL p (hsub p hp)
  · intro p hp; rw [hce.self]; exact hD.ownersB p (hsubB p hp)

/-- an exit step of a bucket keeps `Drainable` -/
theorem drainable_exit_bucket {w : World} (hD : Drainable w) {k : Nat × Nat} {b : Bucket}
    (hm : (k, b) ∈ w.mkt.buckets)
    (hmk : (step w (.exec b.owner [] (.removeBucket k.2))).1.mkt = { w.mkt with buckets := aerase k w.mkt.buckets })
    (hce : CoreEq w (step w (.exec b.owner [] (.removeBucket k.2))).1) :
    Drainable (step w (.exec b.owner [] (.removeBucket k.2))).1 := by
  have hsub : ∀ p ∈ (step w (.exec b.owner [] (.removeBucket k.2))).1.mkt.listings, p ∈ w.mkt.listings := by
    intro p hp; rw [hmk] at hp; exact hp
  have hsubB : ∀ p ∈ (step w (.exec b.owner [] (.removeBucket k.2))).1.mkt.buckets, p ∈ w.mkt.buckets := by
    intro p hp; rw [hmk] at hp; exact (mem_aerase.1 hp).1
  refine ⟨C01Inv_exit hD.inv (hD.ownersB _ hm) trivial, ?_, ?_, ?_, ?_, ?_⟩
  · intro p hp; rw [hce.nowNs]; exact hD.expired p (hsub p hp)
  · intro p hp; exact (hD.honestL p (hsub p hp)).of_coreEq hce
  · intro p hp; exact (hD.honestB p (hsubB p hp)).of_coreEq hce
  · intro p hp; rw [hce.self]; exact hD.ownersL p (hsub p hp)
  · intro p hp; rw [hce.self]; exact hD.ownersB p (hsubB p hp)

/-- the messages of the account-wise drain: cash-out messages signed by `a`, no coins attached -/
def ExitsOf (a : Nat) (ops : List Op) : Prop :=
  ∀ op ∈ ops, ∃ msg, op = .exec a [] msg ∧ msg.isWithdraw = true

/-- **the account-wise drain**: from a `Drainable` state, an account `a` other than the pool cashes
    out everything it is entitled to by exit messages of its own (induction on the number of
    records: exit one record of `a`, `Drainable` persists, repeat) -/
theorem cashout_all (a : Nat) : ∀ (n : Nat) {w : World}, Drainable w → a ≠ w.pool →
    w.mkt.listings.length + w.mkt.buckets.length ≤ n →
    ∃ ops, ExitsOf a ops ∧ CashedOutAll w ops a ∧ CoreEq w (run w ops) := by
  intro n
  induction n with
  | zero =>
    intro w hD hap hn
    have hl : w.mkt.listings = [] := List.eq_nil_of_length_eq_zero (by omega)
    have hb : w.mkt.buckets = [] := List.eq_nil_of_length_eq_zero (by omega)
    exact ⟨[], fun _ h => (by cases h),
      cashedOutAll_nil (fun p hp => by rw [hl] at hp; cases hp) (fun p hp => by rw [hb] at hp; cases hp),
      CoreEq.refl w⟩
  | succ n ih =>
    intro w hD hap hn
    by_cases hL : ∃ p ∈ w.mkt.listings, p.2.creator = a
    · obtain ⟨⟨k, l⟩, hm, rfl⟩ := hL
      obtain ⟨hco, hmk, hce⟩ := exit_listing_cashedOut hD.inv hm (hD.expired _ hm) (hD.honestL _ hm)
        (hD.ownersL _ hm) hap
      have hD' := drainable_exit_listing hD hm hmk hce
      have hlen : (step w (.exec l.creator [] l.exitMsg)).1.mkt.listings.length +
          (step w (.exec l.creator [] l.exitMsg)).1.mkt.buckets.length ≤ n := by
        rw [hmk]
        have := length_aerase_lt hm
        show (aerase k w.mkt.listings).length + w.mkt.buckets.length ≤ n
        omega
      obtain ⟨ops, h1, h2, h3⟩ := ih hD' (by rw [hce.pool]; exact hap) hlen
      refine ⟨.exec l.creator [] l.exitMsg :: ops, ?_, cashedOutAll_cons hco hce h2, hce.trans h3⟩
      intro op hop
      rcases List.mem_cons.1 hop with rfl | hop
      · exact ⟨_, rfl, exitMsg_isWithdraw l⟩
      · exact h1 op hop
    · by_cases hB : ∃ p ∈ w.mkt.buckets, p.2.owner = a
      · obtain ⟨⟨k, b⟩, hm, rfl⟩ := hB
        obtain ⟨hco, hmk, hce⟩ := exit_bucket_cashedOut hD.inv hm (hD.honestB _ hm) (hD.ownersB _ hm) hap
        have hD' := drainable_exit_bucket hD hm hmk hce
        have hlen : (step w (.exec b.owner [] (.removeBucket k.2))).1.mkt.listings.length +
            (step w (.exec b.owner [] (.removeBucket k.2))).1.mkt.buckets.length ≤ n := by
          rw [hmk]
          have := length_aerase_lt hm
          show w.mkt.listings.length + (aerase k w.mkt.buckets).length ≤ n
          omega
        obtain ⟨ops, h1, h2, h3⟩ := ih hD' (by rw [hce.pool]; exact hap) hlen
        refine ⟨.exec b.owner [] (.removeBucket k.2) :: ops, ?_, cashedOutAll_cons hco hce h2, hce.trans h3⟩
        intro op hop
        rcases List.mem_cons.1 hop with rfl | hop
        · exact ⟨_, rfl, rfl⟩
        · exact h1 op hop
      · exact ⟨[], fun _ h => (by cases h),
          cashedOutAll_nil (fun p hp e => hL ⟨p, hp, e⟩) (fun p hp e => hB ⟨p, hp, e⟩), CoreEq.refl w⟩

end Fuzion
