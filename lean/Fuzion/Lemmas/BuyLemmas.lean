/-
  Fuzion.Lemmas.BuyLemmas — helper lemmas for the purchase properties C02 ("a purchase succeeds
  exactly when the seller's published terms are met") and C03 ("a purchase swaps entitlements
  atomically; a listing sells at most once"): `genbal_cmp` as permutation equality, the exact
  inversion of `buy`, the registry side condition, `findById` under the id invariant, and the
  "sold or gone" invariant used for the sells-at-most-once argument.
  Nothing here is a property theorem; those live in `Fuzion/Props/C02.lean` and `C03.lean`.
  Core library only.
-/
import Fuzion.Props.C17
import Fuzion.Inv.MInv
import Fuzion.Lemmas.RegistryLemmas
namespace Fuzion

/-! ### definitions used by the property statements -/

/-- the royalty rate sum (in bps) the registry reports for a list of collections -/
def bpsOf (env : Env) (cols : List Nat) : Nat := bpsSum (cols.map env.regLookup)

/-- The seller's published terms, for buyer `buyer` paying listing `lid` with bucket `bid`:
    the listing is finalized, unsold and not past its expiration, the caller is the whitelisted
    buyer when one is set, the caller owns the bucket, the bucket's contents equal the ask
    (`genbalCmp`, shown to be permutation equality in `C02_cmp_iff`) and the royalties due on each
    side do not exceed 50 %. -/
def BuyTerms (m : Market) (env : Env) (buyer lid bid : Nat) : Prop :=
  ∃ k l b, findById lid m.listings = some (k, l) ∧ alookup (buyer, bid) m.buckets = some b ∧
    l.status = .finalized ∧ l.claimant = none ∧ (∀ e, l.expiresAt = some e → env.nowNs ≤ e) ∧
    (∀ x, l.whitelist = some x → x = buyer) ∧ b.owner = buyer ∧ genbalCmp b.funds l.ask = true ∧
    bpsOf env (collections l.forSale) ≤ 5000 ∧ bpsOf env (collections b.funds) ≤ 5000

/-- the fee message an accepted purchase emits for a fee still pending on the paying bucket -/
def pendingFeeMsgs (self : Nat) : Option Coin → List OutMsg
  | some f => [OutMsg.fundPool self f]
  | none => []

/-- the state update and message list of an accepted purchase, as a function of the two old
    records, the two fee coins and the two royalty splits -/
def buyResult (m : Market) (env : Env) (buyer lid bid : Nat) (l : Listing) (b : Bucket)
    (lfee bfee : Option Coin) (fl fb : GBal) (msgs1 msgs2 : List OutMsg) : Market × List OutMsg :=
  ({ m with
      listings := ainsert (buyer, lid)
        { l with creator := buyer, claimant := some buyer, status := .closed, fee := lfee, forSale := fl }
        (aerase (l.creator, lid) m.listings),
      buckets := ainsert (l.creator, bid) ⟨l.creator, fb, bfee⟩ (aerase (buyer, bid) m.buckets) },
   pendingFeeMsgs env.self b.fee ++ msgs1 ++ msgs2)

/-! ### `genbal_cmp` is permutation equality -/

theorem nodup_of_nodup_map {α β : Type} (f : α → β) {l : List α} (h : (l.map f).Nodup) :
    l.Nodup := by
  unfold List.Nodup at *
  rw [List.pairwise_map] at h
  exact h.imp (fun hab e => hab (congrArg f e))

/-- a duplicate-free list contained in a list of the same length is a permutation of it -/
theorem perm_of_nodup_subset_length {α : Type} [DecidableEq α] :
    ∀ {a b : List α}, a.Nodup → (∀ x ∈ a, x ∈ b) → a.length = b.length → a.Perm b := by
  intro a
  induction a with
  | nil =>
    intro b _ _ hl
    have : b = [] := List.eq_nil_of_length_eq_zero hl.symm
    subst this; exact List.Perm.refl _
  | cons x t ih =>
    intro b hnd hsub hl
    have hx : x ∈ b := hsub x List.mem_cons_self
    rw [List.nodup_cons] at hnd
    have hp := List.perm_cons_erase hx
    have hlen : (b.erase x).length = t.length := by
      rw [List.length_erase_of_mem hx, ← hl]; simp
    have hsub' : ∀ y ∈ t, y ∈ b.erase x := by
      intro y hy
      have hne : y ≠ x := fun e => hnd.1 (e ▸ hy)
      exact (List.mem_erase_of_ne hne).2 (hsub y (List.mem_cons_of_mem _ hy))
    exact (List.Perm.cons x (ih hnd.2 hsub' hlen.symm)).trans hp.symm

/-- what one clause of `genbal_cmp` tests, literally -/
theorem subsetLen_iff_subset {α : Type} [DecidableEq α] (a b : List α) :
    subsetLen a b = true ↔ (∀ x ∈ a, x ∈ b) ∧ a.length = b.length := by
  simp [subsetLen, List.all_eq_true]

theorem subsetLen_of_perm {α : Type} [DecidableEq α] {a b : List α} (h : a.Perm b) :
    subsetLen a b = true :=
  (subsetLen_iff_subset a b).2 ⟨fun _ hx => h.mem_iff.1 hx, h.length_eq⟩

/-- one clause of `genbal_cmp` decides permutation equality as soon as its *left* argument has
    no duplicates (the right one then has none either) -/
theorem subsetLen_iff_perm_left {α : Type} [DecidableEq α] {a b : List α} (ha : a.Nodup) :
    subsetLen a b = true ↔ a.Perm b :=
  ⟨fun h => perm_of_nodup_subset_length ha ((subsetLen_iff_subset a b).1 h).1 ((subsetLen_iff_subset a b).1 h).2,
   subsetLen_of_perm⟩

theorem subsetLen_iff_perm {α : Type} [DecidableEq α] {a b : List α} (ha : a.Nodup)
    (_hb : b.Nodup) : subsetLen a b = true ↔ a.Perm b :=
  subsetLen_iff_perm_left ha

theorem genbalCmp_iff (a b : GBal) :
    genbalCmp a b = true ↔
      subsetLen a.native b.native = true ∧ subsetLen a.cw20 b.cw20 = true ∧
      subsetLen a.nfts b.nfts = true := by
  simp [genbalCmp, Bool.and_eq_true, and_assoc]

/-- a well-formed stored balance has three duplicate-free lists -/
theorem wfBal_nodup {g : GBal} (h : wfBal g = true) :
    g.native.Nodup ∧ g.cw20.Nodup ∧ g.nfts.Nodup := by
  simp only [wfBal, Bool.and_eq_true, decide_eq_true_eq] at h
  obtain ⟨⟨⟨_, h4⟩, h5⟩, h6⟩ := h
  exact ⟨nodup_of_nodup_map _ h4, nodup_of_nodup_map _ h5, h6⟩

/-! ### the royalty side condition -/

@[simp] theorem bpsOf_nil (env : Env) : bpsOf env [] = 0 := rfl

/-- an accepted royalty pass of one side means the registry's rate sum is at most 50 % -/
theorem sideRoyalties_ok_le {env : Env} {ra : Nat} {cols : List Nat} {bal g : GBal}
    {ms : List OutMsg} {s : Nat} (h : sideRoyalties env ra cols bal = .ok g ms s) :
    bpsOf env cols ≤ 5000 ∧ s = bpsOf env cols := by
  unfold sideRoyalties at h
  split at h
  · rename_i he
    have : cols = [] := by simpa using he
    subst this
    injection h with _ _ hs
    simp [← hs]
  · split at h
    · cases h
    · obtain ⟨hs, h5, _⟩ := royalties_ok h
      unfold bpsOf
      omega

/-- with the registry address the marketplace was instantiated with, the royalty pass of one
    side is accepted iff the rate sum is at most 50 % (it never fails in a subtraction) -/
theorem sideRoyalties_ok_iff (env : Env) (cols : List Nat) (bal : GBal) :
    (∃ g ms s, sideRoyalties env env.regAddr cols bal = .ok g ms s) ↔ bpsOf env cols ≤ 5000 := by
  constructor
  · rintro ⟨g, ms, s, h⟩
    exact (sideRoyalties_ok_le h).1
  · intro h
    unfold sideRoyalties
    split
    · exact ⟨_, _, _, rfl⟩
    · rw [if_neg (by simp)]
      obtain ⟨g', ms, e⟩ := C17_roy_total_any bal (rs := cols.map env.regLookup) h
      exact ⟨g', ms, _, e⟩

/-- registry-legal rates over `n` collections sum to at most `300·n` -/
theorem bpsOf_le_of_legal {env : Env} (hl : ∀ c r, env.regLookup c = some r → r.bps ≤ MAX_BPS)
    (cols : List Nat) : bpsOf env cols ≤ 300 * cols.length := by
  unfold bpsOf bpsSum
  induction cols with
  | nil => simp
  | cons c cs ih =>
    simp only [List.map_cons, List.length_cons]
    cases hc : env.regLookup c with
    | none =>
      simp only [List.filterMap_cons, id]
      omega
    | some r =>
      have := hl c r hc
      unfold MAX_BPS at this
      simp only [List.filterMap_cons, id, List.map_cons, List.sum_cons]
      omega

/-- the `u64` rate sum cannot abort for registry-legal rates: `sideRoyalties` is `ok` or `err` -/
theorem sideRoyalties_no_panic {env : Env} (hl : ∀ c r, env.regLookup c = some r → r.bps ≤ MAX_BPS)
    (ra : Nat) {cols : List Nat} (hn : 300 * cols.length ≤ U64MAX) (bal : GBal) :
    sideRoyalties env ra cols bal ≠ .panic := by
  unfold sideRoyalties
  split
  · intro h; cases h
  · split
    · intro h; cases h
    · apply C17_roy_no_panic
      have := bpsOf_le_of_legal hl cols
      unfold bpsOf at this
      omega

/-! ### exact inversion of `buy` -/

/-- every test an accepted `buy` passed, and exactly what it returned -/
theorem buy_inv {m : Market} {env : Env} {buyer lid bid : Nat} {r : Market × List OutMsg}
    (h : buy m env buyer lid bid = .ok r) :
    ∃ k l b lfee lbal bfee bbal ra fb msgs1 s1 fl msgs2 s2,
      alookup (buyer, bid) m.buckets = some b ∧ findById lid m.listings = some (k, l) ∧
      b.owner = buyer ∧ genbalCmp b.funds l.ask = true ∧ l.status = .finalized ∧
      (∀ x, l.whitelist = some x → x = buyer) ∧ l.claimant = none ∧
      (∀ e, l.expiresAt = some e → env.nowNs ≤ e) ∧
      calcFeeCoin (feeDenomOf env m.feeKind) l.forSale = some (lfee, lbal) ∧
      calcFeeCoin (feeDenomOf env m.feeKind) b.funds = some (bfee, bbal) ∧
      m.registry = some ra ∧
      sideRoyalties env ra (collections l.forSale) bbal = .ok fb msgs1 s1 ∧
      sideRoyalties env ra (collections b.funds) lbal = .ok fl msgs2 s2 ∧
      r = buyResult m env buyer lid bid l b lfee bfee fl fb msgs1 msgs2 := by
  unfold buy at h
  split at h
  · cases h
  rename_i b hb
  split at h
  · cases h
  rename_i k l hl
  obtain ⟨cr, id, fa, ea, st, cl, wl, fs, ask, fee⟩ := l
  cases wl <;> cases ea <;> dsimp only at h
  all_goals
    split at h
    · cases h
    rename_i h1
    split at h
    · cases h
    rename_i h2
    split at h
    · cases h
    rename_i h3
    split at h
    · cases h
    rename_i h4
    split at h
    · cases h
    rename_i h5
    split at h
    · cases h
    rename_i h6
    split at h
    rotate_left
    · cases h
    rename_i lfee lbal bfee bbal e1 e2
    split at h
    · cases h
    rename_i ra hra
    split at h
    · cases h
    · cases h
    rename_i fb msgs1 s1 r1
    split at h
    · cases h
    · cases h
    rename_i fl msgs2 s2 r2
    simp only [Except.ok.injEq] at h
    refine ⟨k, _, b, lfee, lbal, bfee, bbal, ra, fb, msgs1, s1, fl, msgs2, s2, hb, hl, ?_, ?_, ?_, ?_, ?_, ?_,
      e1, e2, hra, r1, r2, ?_⟩
    · exact (Decidable.not_not.1 h1).symm
    · simpa using h2
    · exact Decidable.not_not.1 h3
    · first | (simp; done) | simpa using h4
    · cases cl <;> simp at h5 ⊢
    · first | (simp; done) | simpa using h6
    · rw [← h]; unfold buyResult pendingFeeMsgs; cases b.fee <;> rfl

/-- the converse: when every test passes, `buy` returns `buyResult` -/
theorem buy_of {m : Market} {env : Env} {buyer lid bid : Nat} {k : Nat × Nat} {l : Listing} {b : Bucket}
    {lfee bfee : Option Coin} {lbal bbal fb fl : GBal} {ra s1 s2 : Nat} {msgs1 msgs2 : List OutMsg}
    (hb : alookup (buyer, bid) m.buckets = some b) (hl : findById lid m.listings = some (k, l))
    (ho : b.owner = buyer) (hc : genbalCmp b.funds l.ask = true) (hs : l.status = .finalized)
    (hw : ∀ x, l.whitelist = some x → x = buyer) (hcl : l.claimant = none)
    (he : ∀ e, l.expiresAt = some e → env.nowNs ≤ e)
    (e1 : calcFeeCoin (feeDenomOf env m.feeKind) l.forSale = some (lfee, lbal))
    (e2 : calcFeeCoin (feeDenomOf env m.feeKind) b.funds = some (bfee, bbal))
    (hra : m.registry = some ra)
    (r1 : sideRoyalties env ra (collections l.forSale) bbal = .ok fb msgs1 s1)
    (r2 : sideRoyalties env ra (collections b.funds) lbal = .ok fl msgs2 s2) :
    buy m env buyer lid bid = .ok (buyResult m env buyer lid bid l b lfee bfee fl fb msgs1 msgs2) := by
  obtain ⟨cr, id, fa, ea, st, cl, wl, fs, ask, fee⟩ := l
  simp only at hc hs hw hcl he e1 r1
  subst hs hcl
  unfold buy
  simp only [hb, hl, e1, e2, hra, r1, r2, buyResult, pendingFeeMsgs]
  rw [if_neg (by simp [ho]), if_neg (by simp [hc]), if_neg (by simp)]
  cases wl <;> cases ea <;> simp_all
  all_goals first
    | (cases b.fee <;> rfl)
    | (rw [if_neg (by omega)]; cases b.fee <;> rfl)

/-- an accepted `buy` means the published terms held (no hypothesis on the registry address) -/
theorem BuyTerms.of_ok {m : Market} {env : Env} {buyer lid bid : Nat} {r : Market × List OutMsg}
    (h : buy m env buyer lid bid = .ok r) : BuyTerms m env buyer lid bid := by
  obtain ⟨k, l, b, lfee, lbal, bfee, bbal, ra, fb, msgs1, s1, fl, msgs2, s2, hb, hl, ho, hc, hs, hw,
    hcl, he, _, _, _, r1, r2, _⟩ := buy_inv h
  exact ⟨k, l, b, hl, hb, hs, hcl, he, hw, ho, hc, (sideRoyalties_ok_le r1).1,
    (sideRoyalties_ok_le r2).1⟩

/-- with registry-legal rates and `300·n ≤ u64::MAX` for the number `n` of distinct collections
    of every stored balance, `buy` never takes the abort branch of the `u64` rate sum -/
theorem buy_no_panic {m : Market} {env : Env} {buyer lid bid : Nat}
    (hl : ∀ c r, env.regLookup c = some r → r.bps ≤ MAX_BPS)
    (hn : ∀ p ∈ m.listings, 300 * (collections p.2.forSale).length ≤ U64MAX)
    (hb : ∀ p ∈ m.buckets, 300 * (collections p.2.funds).length ≤ U64MAX) :
    buy m env buyer lid bid ≠ .error .panic := by
  intro h
  unfold buy at h
  split at h
  · cases h
  rename_i b hb'
  split at h
  · cases h
  rename_i k l hl'
  have h1 := hn _ (findById_some hl').2
  have h2 := hb _ (alookup_some_mem hb')
  repeat' split at h
  all_goals first
    | (cases h; done)
    | exact absurd (by assumption) (sideRoyalties_no_panic hl _ h1 _)
    | exact absurd (by assumption) (sideRoyalties_no_panic hl _ h2 _)

/-! ### refused transactions -/

/-- a refused transaction returns the world it was given (every failure branch of `stepF`
    returns `w`; `runMarket` returns `w0`) -/
theorem stepF_refused_noop (fail : Nat → Bool) (w : World) (op : Op)
    (h : (stepF fail w op).2.ok = false) : (stepF fail w op).1 = w := by
  cases ho : op.asExec with
  | some t =>
    obtain ⟨c, f, msg⟩ := t
    rcases stepF_market (fail := fail) (w := w) ho with ⟨e, he⟩ | ⟨m', msgs, w2, _, _, _, he⟩
    · rw [he]
    · rw [he] at h; cases h
  | none =>
    cases op with
    | exec s fu m => simp [Op.asExec] at ho
    | send20 t s a i => simp [Op.asExec] at ho
    | send721 co s t i => simp [Op.asExec] at ho
    | royalty s m =>
      rcases stepF_royalty fail w s m with ⟨e, _, he⟩ | ⟨r, _, he⟩
      · rw [he]
      · rw [he] at h; cases h
    | setAdmin s c n =>
      simp only [stepF] at h ⊢
      split
      · rfl
      · split
        · rfl
        · rename_i ci hk hadm
          simp only [hk, hadm, if_false] at h
          cases h
    | advance a b => simp [stepF] at h

/-- `execute` on a `buy` message without coins is `buy` -/
theorem execute_buy_nil (m : Market) (env : Env) (buyer lid bid : Nat) :
    execute m env buyer [] (.buy lid bid) = buy m env buyer lid bid := by
  simp [execute, ExecMsg.takesCoins]

/-- `execute` on a `buy` message that carries coins is refused -/
theorem execute_buy_funds (m : Market) (env : Env) (buyer lid bid : Nat) {funds : List Coin}
    (h : funds ≠ []) : execute m env buyer funds (.buy lid bid) = .error .fundsAttached := by
  cases funds with
  | nil => exact absurd rfl h
  | cons c cs => simp [execute, ExecMsg.takesCoins]

/-- the driver's `sideBps` is `bpsOf` in the world's environment -/
theorem sideBps_eq (w : World) (g : GBal) : sideBps w g = bpsOf w.env (collections g) := rfl

/-! ### `findById` under the id invariant -/

theorem findById_eq_none_iff {id : Nat} {l : List ((Nat × Nat) × Listing)} :
    findById id l = none ↔ ∀ p ∈ l, p.2.id ≠ id := by
  unfold findById
  simp [List.find?_eq_none]

/-- with unique ids `findById` finds *the* record with that id -/
theorem IdsInv.findById_iff {m : Market} (hI : IdsInv m) {lid : Nat} {p : (Nat × Nat) × Listing} :
    findById lid m.listings = some p ↔ p ∈ m.listings ∧ p.2.id = lid := by
  constructor
  · intro h; exact ⟨(findById_some h).2, (findById_some h).1⟩
  · rintro ⟨hm, hid⟩
    cases hf : findById lid m.listings with
    | none => exact absurd hid (findById_eq_none_iff.1 hf p hm)
    | some q =>
      obtain ⟨hq1, hq2⟩ := findById_some hf
      have hk : p.1 = q.1 := hI.lidInj p hm q hq2 (hid.trans hq1.symm)
      obtain ⟨pk, pv⟩ := p
      obtain ⟨qk, qv⟩ := q
      simp only at hk
      subst hk
      have e1 := mem_nodup_alookup hI.lkeys hm
      have e2 := mem_nodup_alookup hI.lkeys hq2
      rw [e1] at e2
      cases e2
      rfl

/-- the record `findById` returns is filed under `(creator, id)` and is what `alookup` returns -/
theorem IdsInv.find_key {m : Market} (hI : IdsInv m) {lid : Nat} {k : Nat × Nat} {l : Listing}
    (h : findById lid m.listings = some (k, l)) :
    k = (l.creator, lid) ∧ l.id = lid ∧ alookup (l.creator, lid) m.listings = some l := by
  obtain ⟨hid, hm⟩ := findById_some h
  have hk := hI.lfiled _ hm
  simp only at hk hid
  rw [hid] at hk
  subst hk
  exact ⟨rfl, hid, mem_nodup_alookup hI.lkeys hm⟩

/-- `alookup` by key `(who, lid)` finds a record with id `lid` -/
theorem IdsInv.alookup_id {m : Market} (hI : IdsInv m) {who lid : Nat} {l : Listing}
    (h : alookup (who, lid) m.listings = some l) :
    l.creator = who ∧ l.id = lid ∧ findById lid m.listings = some ((who, lid), l) := by
  have hm := alookup_some_mem h
  have hk := hI.lfiled _ hm
  simp only [Prod.mk.injEq] at hk
  exact ⟨hk.1.symm, hk.2.symm, hI.findById_iff.2 ⟨hm, hk.2.symm⟩⟩

/-- at most one bucket per id: two keys with the same bucket id are the same key -/
theorem IdsInv.bucket_owner {m : Market} (hI : IdsInv m) {a b bid : Nat} {x y : Bucket}
    (h1 : alookup (a, bid) m.buckets = some x) (h2 : alookup (b, bid) m.buckets = some y) : a = b := by
  have := hI.bidInj _ (alookup_some_mem h1) _ (alookup_some_mem h2) rfl
  simp only [Prod.mk.injEq] at this
  exact this.1

/-- at most one listing per id, in terms of keys -/
theorem IdsInv.listing_owner {m : Market} (hI : IdsInv m) {a b lid : Nat} {x y : Listing}
    (h1 : alookup (a, lid) m.listings = some x) (h2 : alookup (b, lid) m.listings = some y) : a = b := by
  obtain ⟨_, i1, _⟩ := hI.alookup_id h1
  obtain ⟨_, i2, _⟩ := hI.alookup_id h2
  have := hI.lidInj _ (alookup_some_mem h1) _ (alookup_some_mem h2) (i1.trans i2.symm)
  simp only [Prod.mk.injEq] at this
  exact this.1

/-! ### the state update of an accepted purchase -/

/-- the state update of an accepted purchase, record by record -/
theorem buy_swap {m m' : Market} {env : Env} {buyer lid bid : Nat} {out : List OutMsg}
    (hI : IdsInv m) (h : buy m env buyer lid bid = .ok (m', out)) :
    ∃ l b l' b',
      findById lid m.listings = some ((l.creator, lid), l) ∧
      alookup (l.creator, lid) m.listings = some l ∧ alookup (buyer, bid) m.buckets = some b ∧
      l.status = .finalized ∧ l.claimant = none ∧ b.owner = buyer ∧
      m'.listings = ainsert (buyer, lid) l' (aerase (l.creator, lid) m.listings) ∧
      m'.buckets = ainsert (l.creator, bid) b' (aerase (buyer, bid) m.buckets) ∧
      m'.listingUsed = m.listingUsed ∧ m'.bucketUsed = m.bucketUsed ∧
      l'.creator = buyer ∧ l'.claimant = some buyer ∧ l'.status = .closed ∧ l'.id = lid ∧
      b'.owner = l.creator ∧
      (buyer ≠ l.creator →
        alookup (buyer, lid) m.listings = none ∧ alookup (l.creator, bid) m.buckets = none) := by
  obtain ⟨k, l, b, lfee, lbal, bfee, bbal, ra, fb, msgs1, s1, fl, msgs2, s2, hb, hl, ho, hc, hs, hw,
    hcl, he, _, _, _, r1, r2, hr⟩ := buy_inv h
  obtain ⟨hk, hid, hal⟩ := hI.find_key hl
  subst hk
  simp only [buyResult, Prod.mk.injEq] at hr
  obtain ⟨rfl, _⟩ := hr
  refine ⟨l, b, _, _, hl, hal, hb, hs, hcl, ho, rfl, rfl, rfl, rfl, rfl, rfl, rfl, hid, rfl, ?_⟩
  intro hne
  constructor
  · cases hx : alookup (buyer, lid) m.listings with
    | none => rfl
    | some x => exact absurd (hI.listing_owner hx hal) hne
  · cases hx : alookup (l.creator, bid) m.buckets with
    | none => rfl
    | some x => exact absurd (hI.bucket_owner hb hx) hne

/-! ### "sold or gone": the invariant behind sells-at-most-once -/

/-- listing id `lid` can never be bought (again): it has been handed out, and every live record
    carrying it is closed -/
def SoldOut (m : Market) (lid : Nat) : Prop :=
  lid ∈ m.listingUsed ∧ ∀ p ∈ m.listings, p.2.id = lid → p.2.status = .closed

/-- the form suggested in the task: closed, or used and gone -/
def soldOrGone (m : Market) (lid : Nat) : Prop :=
  (∃ k l, findById lid m.listings = some (k, l) ∧ l.status = .closed) ∨
  (lid ∈ m.listingUsed ∧ findById lid m.listings = none)

theorem SoldOut_iff_soldOrGone {m : Market} (hI : IdsInv m) (lid : Nat) :
    SoldOut m lid ↔ soldOrGone m lid := by
  unfold SoldOut soldOrGone
  constructor
  · rintro ⟨hu, hc⟩
    cases hf : findById lid m.listings with
    | none => exact .inr ⟨hu, rfl⟩
    | some p =>
      obtain ⟨k, l⟩ := p
      exact .inl ⟨k, l, rfl, hc _ (findById_some hf).2 (findById_some hf).1⟩
  · rintro (⟨k, l, hf, hc⟩ | ⟨hu, hn⟩)
    · refine ⟨?_, ?_⟩
      · have := hI.lused _ (findById_some hf).2
        rw [(findById_some hf).1] at this
        exact this
      · intro p hp hid
        have := hI.findById_iff.2 ⟨hp, hid⟩
        rw [hf] at this
        cases this
        exact hc
    · exact ⟨hu, fun p hp hid => absurd hid (findById_eq_none_iff.1 hn p hp)⟩

theorem SoldOut.mono {m m' : Market} {lid : Nat} (hS : SoldOut m lid)
    (hu : ∀ x ∈ m.listingUsed, x ∈ m'.listingUsed)
    (hl : ∀ p ∈ m'.listings, p ∈ m.listings ∨ (p.2.id = lid → p.2.status = .closed)) :
    SoldOut m' lid := by
  refine ⟨hu _ hS.1, ?_⟩
  intro p hp hid
  rcases hl p hp with h | h
  · exact hS.2 p h hid
  · exact h hid

/-- while `SoldOut` holds every purchase of that listing is refused -/
theorem SoldOut.buy_fails {m : Market} {lid : Nat} (hS : SoldOut m lid) (env : Env) (buyer bid : Nat) :
    ∃ e, buy m env buyer lid bid = .error e := by
  cases hb : buy m env buyer lid bid with
  | error e => exact ⟨e, rfl⟩
  | ok r =>
    obtain ⟨k, l, b, hl, _, hs, _⟩ := BuyTerms.of_ok hb
    have := hS.2 _ (findById_some hl).2 (findById_some hl).1
    simp only at this
    rw [hs] at this
    cases this


theorem SoldOut.update {m : Market} {lid : Nat} {key : Nat × Nat} {l0 l1 : Listing}
    (hS : SoldOut m lid) (h0 : alookup key m.listings = some l0) (hp : l0.status = .preparing)
    (hid : l1.id = l0.id) : SoldOut { m with listings := ainsert key l1 m.listings } lid := by
  refine hS.mono (fun _ hx => hx) ?_
  intro p hp'
  rcases mem_ainsert.1 hp' with rfl | ⟨hm, _⟩
  · right
    intro hl
    have := hS.2 _ (alookup_some_mem h0) (hid.symm.trans hl)
    simp only at this
    rw [hp] at this
    cases this
  · exact .inl hm

theorem SoldOut.create {m : Market} {lid id : Nat} {key : Nat × Nat} {l1 : Listing}
    (hS : SoldOut m lid) (hnu : id ∉ m.listingUsed) (hid : l1.id = id) :
    SoldOut { m with listings := ainsert key l1 m.listings, listingUsed := id :: m.listingUsed } lid := by
  refine hS.mono (fun _ hx => List.mem_cons_of_mem _ hx) ?_
  intro p hp'
  rcases mem_ainsert.1 hp' with rfl | ⟨hm, _⟩
  · right
    intro hl
    simp only at hl
    rw [hid] at hl
    subst hl
    exact absurd hS.1 hnu
  · exact .inl hm

theorem SoldOut.erase {m : Market} {lid : Nat} (key : Nat × Nat) (hS : SoldOut m lid) :
    SoldOut { m with listings := aerase key m.listings } lid :=
  hS.mono (fun _ hx => hx) (fun _ hp => .inl (mem_aerase.1 hp).1)

/-- closes `h : handler … = .ok (m', out) ⊢ SoldOut m' lid` for a handler that does not write
    `listings` / `listingUsed`, once the handler is unfolded in `h` -/
syntax "sold_frame " ident ident : tactic
macro_rules
  | `(tactic| sold_frame $h:ident $hS:ident) => `(tactic| (
      try dsimp only at $h:ident
      repeat' split at $h:ident
      all_goals first
        | (cases $h:ident; done)
        | (simp only [Except.ok.injEq, Prod.mk.injEq] at $h:ident
           obtain ⟨hm, _⟩ := $h:ident
           subst hm
           exact $hS)))

section
variable {m m' : Market} {lid : Nat} {out : List OutMsg}

theorem createBucket_soldOut {funds : Funds} {creator id : Nat} (hS : SoldOut m lid)
    (h : createBucket m funds creator id = .ok (m', out)) : SoldOut m' lid := by
  unfold createBucket at h; sold_frame h hS

theorem createBucketNft_soldOut {user : Nat} {nft : Nft} {id : Nat} (hS : SoldOut m lid)
    (h : createBucketNft m user nft id = .ok (m', out)) : SoldOut m' lid := by
  unfold createBucketNft at h; sold_frame h hS

theorem addToBucket_soldOut {funds : Funds} {sender id : Nat} (hS : SoldOut m lid)
    (h : addToBucket m funds sender id = .ok (m', out)) : SoldOut m' lid := by
  unfold addToBucket at h; sold_frame h hS

theorem addToBucketNft_soldOut {user : Nat} {nft : Nft} {id : Nat} (hS : SoldOut m lid)
    (h : addToBucketNft m user nft id = .ok (m', out)) : SoldOut m' lid := by
  unfold addToBucketNft at h; sold_frame h hS

theorem withdrawBucket_soldOut {env : Env} {user id : Nat} (hS : SoldOut m lid)
    (h : withdrawBucket m env user id = .ok (m', out)) : SoldOut m' lid := by
  unfold withdrawBucket at h; sold_frame h hS

theorem cycleFee_soldOut {env : Env} (hS : SoldOut m lid)
    (h : cycleFee m env = .ok (m', out)) : SoldOut m' lid := by
  unfold cycleFee at h; sold_frame h hS

/-- the common end of the four handlers that rewrite a *preparing* listing in place -/
syntax "sold_update " ident ident ident ident : tactic
macro_rules
  | `(tactic| sold_update $h:ident $hS:ident $hl:ident $l:ident) => `(tactic| (
      repeat' split at $h:ident
      all_goals first
        | (cases $h:ident; done)
        | (simp only [Except.ok.injEq, Prod.mk.injEq] at $h:ident
           obtain ⟨hm, _⟩ := $h:ident
           subst hm
           exact SoldOut.update $hS $hl (Decidable.not_not.1 ‹¬($l).status ≠ Status.preparing›) rfl)))

theorem changeAsk_soldOut {user id : Nat} {ask : RawGBal} (hS : SoldOut m lid)
    (h : changeAsk m user id ask = .ok (m', out)) : SoldOut m' lid := by
  unfold changeAsk at h
  split at h
  · cases h
  rename_i l hl
  sold_update h hS hl l

theorem addToListing_soldOut {funds : Funds} {user id : Nat} (hS : SoldOut m lid)
    (h : addToListing m funds user id = .ok (m', out)) : SoldOut m' lid := by
  unfold addToListing at h
  split at h
  · cases h
  split at h
  · cases h
  rename_i l hl
  sold_update h hS hl l

theorem addToListingNft_soldOut {user : Nat} {nft : Nft} {id : Nat} (hS : SoldOut m lid)
    (h : addToListingNft m user nft id = .ok (m', out)) : SoldOut m' lid := by
  unfold addToListingNft at h
  split at h
  · cases h
  rename_i l hl
  dsimp only at h
  sold_update h hS hl l

theorem finalize_soldOut {env : Env} {sender id seconds : Nat} (hS : SoldOut m lid)
    (h : finalize m env sender id seconds = .ok (m', out)) : SoldOut m' lid := by
  unfold finalize at h
  split at h
  · cases h
  rename_i l hl
  dsimp only at h
  sold_update h hS hl l

theorem createListing_soldOut {user : Nat} {funds : Funds} {c : CreateMsg} {id : Nat}
    (hS : SoldOut m lid) (h : createListing m user funds c id = .ok (m', out)) : SoldOut m' lid := by
  unfold createListing at h
  repeat' split at h
  all_goals first
    | (cases h; done)
    | (simp only [Except.ok.injEq, Prod.mk.injEq] at h
       obtain ⟨hm, _⟩ := h
       subst hm
       exact hS.create ‹¬id ∈ m.listingUsed› rfl)

theorem createListingNft_soldOut {user : Nat} {nft : Nft} {c : CreateMsg} {id : Nat}
    (hS : SoldOut m lid) (h : createListingNft m user nft c id = .ok (m', out)) : SoldOut m' lid := by
  unfold createListingNft at h
  repeat' split at h
  all_goals first
    | (cases h; done)
    | (simp only [Except.ok.injEq, Prod.mk.injEq] at h
       obtain ⟨hm, _⟩ := h
       subst hm
       exact hS.create ‹¬id ∈ m.listingUsed› rfl)

theorem deleteListing_soldOut {env : Env} {sender id : Nat} (hS : SoldOut m lid)
    (h : deleteListing m env sender id = .ok (m', out)) : SoldOut m' lid := by
  unfold deleteListing at h
  repeat' split at h
  all_goals first
    | (cases h; done)
    | (simp only [Except.ok.injEq, Prod.mk.injEq] at h
       obtain ⟨hm, _⟩ := h
       subst hm
       exact hS.erase _)

theorem withdrawPurchased_soldOut {env : Env} {who id : Nat} (hS : SoldOut m lid)
    (h : withdrawPurchased m env who id = .ok (m', out)) : SoldOut m' lid := by
  unfold withdrawPurchased at h
  repeat' split at h
  all_goals first
    | (cases h; done)
    | (simp only [Except.ok.injEq, Prod.mk.injEq] at h
       obtain ⟨hm, _⟩ := h
       subst hm
       exact hS.erase _)

/-- a purchase of *any* listing keeps a sold listing sold (the re-filed record is closed) -/
theorem buy_soldOut {env : Env} {buyer id bid : Nat} (hS : SoldOut m lid)
    (h : buy m env buyer id bid = .ok (m', out)) : SoldOut m' lid := by
  obtain ⟨k, l, b, lfee, lbal, bfee, bbal, ra, fb, msgs1, s1, fl, msgs2, s2, _, _, _, _, _, _,
    _, _, _, _, _, _, _, hr⟩ := buy_inv h
  simp only [buyResult, Prod.mk.injEq] at hr
  obtain ⟨rfl, _⟩ := hr
  refine hS.mono (fun _ hx => hx) ?_
  intro p hp
  rcases mem_ainsert.1 hp with rfl | ⟨hm, _⟩
  · exact .inr (fun _ => rfl)
  · exact .inl (mem_aerase.1 hm).1

theorem receive_soldOut {env : Env} {caller : Nat} {funds : List Coin} {sender : RawAddr}
    {amount : Nat} {inner : Option Inner} (hS : SoldOut m lid)
    (h : receive m env caller funds sender amount inner = .ok (m', out)) : SoldOut m' lid := by
  unfold receive at h
  repeat' split at h
  all_goals first
    | contradiction
    | exact createListing_soldOut hS h
    | exact addToListing_soldOut hS h
    | exact createBucket_soldOut hS h
    | exact addToBucket_soldOut hS h

theorem receiveNft_soldOut {env : Env} {caller : Nat} {funds : List Coin} {sender : RawAddr}
    {tid : Nat} {inner : Option Inner} (hS : SoldOut m lid)
    (h : receiveNft m env caller funds sender tid inner = .ok (m', out)) : SoldOut m' lid := by
  unfold receiveNft at h
  repeat' split at h
  all_goals first
    | contradiction
    | exact createListingNft_soldOut hS h
    | exact addToListingNft_soldOut hS h
    | exact createBucketNft_soldOut hS h
    | exact addToBucketNft_soldOut hS h

/-- (b) `SoldOut` is preserved by every accepted marketplace message -/
theorem execute_soldOut {env : Env} {sender : Nat} {funds : List Coin} {msg : ExecMsg}
    (hS : SoldOut m lid) (h : execute m env sender funds msg = .ok (m', out)) : SoldOut m' lid := by
  unfold execute at h
  split at h
  · contradiction
  · cases msg with
    | feeCycle => exact cycleFee_soldOut hS h
    | createListing id c => exact createListing_soldOut hS h
    | addToListing id => exact addToListing_soldOut hS h
    | changeAsk id ask => exact changeAsk_soldOut hS h
    | finalize id s => exact finalize_soldOut hS h
    | deleteListing id => exact deleteListing_soldOut hS h
    | createBucket id => exact createBucket_soldOut hS h
    | addToBucket id => exact addToBucket_soldOut hS h
    | removeBucket id => exact withdrawBucket_soldOut hS h
    | buy lid bid => exact buy_soldOut hS h
    | withdrawPurchased lid => exact withdrawPurchased_soldOut hS h
    | receive s a i => exact receive_soldOut hS h
    | receiveNft s t i => exact receiveNft_soldOut hS h

end

/-- (a) an accepted purchase of listing `lid` leaves it sold -/
theorem buy_makes_soldOut {m m' : Market} {env : Env} {buyer lid bid : Nat} {out : List OutMsg}
    (hI : IdsInv m) (h : buy m env buyer lid bid = .ok (m', out)) : SoldOut m' lid := by
  obtain ⟨l, b, l', b', hf, _, _, _, _, _, hL, _, hU, _, _, _, hcl, _, _, _⟩ := buy_swap hI h
  refine ⟨?_, ?_⟩
  · rw [hU]
    have := hI.lused _ (findById_some hf).2
    rw [(findById_some hf).1] at this
    exact this
  · intro p hp hid
    rw [hL] at hp
    rcases mem_ainsert.1 hp with rfl | ⟨hm, _⟩
    · exact hcl
    · obtain ⟨hm1, hm2⟩ := mem_aerase.1 hm
      have := hI.findById_iff.2 ⟨hm1, hid⟩
      rw [hf] at this
      cases this
      exact absurd rfl hm2

/-! ### the transaction level -/

/-- `P` is preserved by every accepted marketplace message (the shape of `C09_inv_execute`) -/
def ExecPreserves (P : Market → Prop) : Prop :=
  ∀ (m : Market) (env : Env) (s : Nat) (f : List Coin) (msg : ExecMsg) (m' : Market)
    (out : List OutMsg), P m → execute m env s f msg = .ok (m', out) → P m'

/-- a market predicate preserved by `execute` is preserved by every transaction -/
theorem step_preserves {P : Market → Prop} (hP : ExecPreserves P) {w : World} (h : P w.mkt)
    (op : Op) : P (step w op).1.mkt := by
  unfold step
  cases ho : op.asExec with
  | some t =>
    obtain ⟨c, f, msg⟩ := t
    rcases stepF_market (fail := noFault) (w := w) ho with ⟨e, he⟩ | ⟨m', msgs, w2, hx, hm, _, he⟩
    · rw [he]; exact h
    · rw [he, hm]; exact hP _ _ _ _ _ _ _ h hx
  | none => rw [stepF_mkt_of_asExec_none ho]; exact h

theorem run_preserves {P : Market → Prop} (hP : ExecPreserves P) :
    ∀ (ops : List Op) {w : World}, P w.mkt → P (run w ops).mkt := by
  intro ops
  induction ops with
  | nil => intro w h; exact h
  | cons op ops ih => intro w h; exact ih (step_preserves hP h op)

theorem soldOut_preserved (lid : Nat) : ExecPreserves (fun m => SoldOut m lid) :=
  fun _ _ _ _ _ _ _ hS h => execute_soldOut hS h

/-- `op` is a purchase message for listing `lid` (any sender, any bucket, any attached coins) -/
def isBuyOf (lid : Nat) : Op → Bool
  | .exec _ _ (.buy l _) => decide (l = lid)
  | _ => false

theorem isBuyOf_iff {lid : Nat} {op : Op} :
    isBuyOf lid op = true ↔ ∃ s f bid, op = .exec s f (.buy lid bid) := by
  constructor
  · intro h
    cases op with
    | exec s f msg =>
      cases msg <;> simp [isBuyOf] at h
      subst h
      exact ⟨_, _, _, rfl⟩
    | _ => simp [isBuyOf] at h
  · rintro ⟨s, f, bid, rfl⟩
    simp [isBuyOf]

/-- number of *successful* purchases of listing `lid` along the trace of `ops` from `w` -/
def buysOf (lid : Nat) (w : World) : List Op → Nat
  | [] => 0
  | op :: ops => (if isBuyOf lid op && (step w op).2.ok then 1 else 0) + buysOf lid (step w op).1 ops

/-- what a successful purchase transaction ran -/
theorem step_buy_ok {w : World} {s : Nat} {f : List Coin} {lid bid : Nat}
    (h : (step w (.exec s f (.buy lid bid))).2.ok = true) :
    ∃ m' msgs, buy w.mkt w.env s lid bid = .ok (m', msgs) ∧ f = [] ∧
      (step w (.exec s f (.buy lid bid))).1.mkt = m' ∧
      CoreEq w (step w (.exec s f (.buy lid bid))).1 := by
  unfold step at h ⊢
  rcases stepF_market (fail := noFault) (w := w) (op := .exec s f (.buy lid bid)) rfl with
    ⟨e, he⟩ | ⟨m', msgs, w2, hx, hm, hc, he⟩
  · rw [he] at h; cases h
  · by_cases hf : f = []
    · subst hf
      rw [execute_buy_nil] at hx
      rw [he]
      exact ⟨m', msgs, hx, rfl, hm, hc⟩
    · rw [execute_buy_funds _ _ _ _ _ hf] at hx; cases hx

/-- (c) at the transaction level: while `SoldOut` holds every purchase of `lid` is refused -/
theorem step_buy_refused_of_soldOut {w : World} {lid : Nat} (hS : SoldOut w.mkt lid)
    (s : Nat) (f : List Coin) (bid : Nat) : (step w (.exec s f (.buy lid bid))).2.ok = false := by
  cases hok : (step w (.exec s f (.buy lid bid))).2.ok with
  | false => rfl
  | true =>
    obtain ⟨m', msgs, hb, _⟩ := step_buy_ok hok
    obtain ⟨e, he⟩ := hS.buy_fails w.env s bid
    rw [he] at hb; cases hb

theorem buysOf_eq_zero_of_soldOut {lid : Nat} :
    ∀ (ops : List Op) {w : World}, SoldOut w.mkt lid → buysOf lid w ops = 0 := by
  intro ops
  induction ops with
  | nil => intro w _; rfl
  | cons op ops ih =>
    intro w hS
    have hrest := ih (step_preserves (soldOut_preserved lid) hS op)
    simp only [buysOf, hrest, Nat.add_zero]
    cases hb : isBuyOf lid op with
    | false => simp
    | true =>
      obtain ⟨s, f, bid, rfl⟩ := isBuyOf_iff.1 hb
      simp [step_buy_refused_of_soldOut hS]

theorem buysOf_le_one {lid : Nat} (hpres : ExecPreserves IdsInv) :
    ∀ (ops : List Op) {w : World}, IdsInv w.mkt → buysOf lid w ops ≤ 1 := by
  intro ops
  induction ops with
  | nil => intro w _; simp [buysOf]
  | cons op ops ih =>
    intro w hI
    simp only [buysOf]
    by_cases hb : (isBuyOf lid op && (step w op).2.ok) = true
    · rw [if_pos hb]
      simp only [Bool.and_eq_true] at hb
      obtain ⟨s, f, bid, rfl⟩ := isBuyOf_iff.1 hb.1
      obtain ⟨m', msgs, hbuy, _, hm, _⟩ := step_buy_ok hb.2
      have hS : SoldOut (step w (.exec s f (.buy lid bid))).1.mkt lid := by
        rw [hm]; exact buy_makes_soldOut hI hbuy
      rw [buysOf_eq_zero_of_soldOut ops hS]
      omega
    · rw [if_neg hb]
      have := ih (step_preserves hpres hI op)
      omega

/-! ### the two claim handlers -/

theorem withdrawPurchased_inv {m m' : Market} {env : Env} {who lid : Nat} {out : List OutMsg}
    (h : withdrawPurchased m env who lid = .ok (m', out)) :
    ∃ k l, findById lid m.listings = some (k, l) ∧ l.claimant = some who ∧ l.status = .closed ∧
      m' = { m with listings := aerase (who, lid) m.listings } ∧
      out = withdrawMsgs env.self who l.forSale l.fee := by
  unfold withdrawPurchased at h
  split at h
  · cases h
  rename_i k l hl
  split at h
  · cases h
  rename_i c hc
  split at h
  · cases h
  rename_i h1
  split at h
  · cases h
  rename_i h2
  have hw : who = c := Decidable.not_not.1 h1
  subst hw
  simp only [Except.ok.injEq, Prod.mk.injEq] at h
  exact ⟨k, l, hl, hc, Decidable.not_not.1 h2, h.1.symm, h.2.symm⟩

theorem withdrawPurchased_ok_iff {m : Market} {env : Env} {who lid : Nat} {k : Nat × Nat}
    {l : Listing} {c : Nat} (hl : findById lid m.listings = some (k, l)) (hs : l.status = .closed)
    (hc : l.claimant = some c) : (∃ r, withdrawPurchased m env who lid = .ok r) ↔ who = c := by
  constructor
  · rintro ⟨⟨m', out⟩, h⟩
    obtain ⟨k', l', hl', hc', _⟩ := withdrawPurchased_inv h
    rw [hl] at hl'; cases hl'
    rw [hc] at hc'; cases hc'; rfl
  · rintro rfl
    unfold withdrawPurchased
    simp only [hl, hc]
    rw [if_neg (by simp), if_neg (by simp [hs])]
    exact ⟨_, rfl⟩

theorem withdrawBucket_inv {m m' : Market} {env : Env} {who bid : Nat} {out : List OutMsg}
    (h : withdrawBucket m env who bid = .ok (m', out)) :
    ∃ b, alookup (who, bid) m.buckets = some b ∧ b.owner = who ∧
      m' = { m with buckets := aerase (who, bid) m.buckets } ∧
      out = withdrawMsgs env.self b.owner b.funds b.fee := by
  unfold withdrawBucket at h
  split at h
  · cases h
  rename_i b hb
  split at h
  · cases h
  rename_i h1
  simp only [Except.ok.injEq, Prod.mk.injEq] at h
  exact ⟨b, hb, Decidable.not_not.1 h1, h.1.symm, h.2.symm⟩

theorem withdrawBucket_ok_iff {m : Market} {env : Env} {who bid : Nat} :
    (∃ r, withdrawBucket m env who bid = .ok r) ↔
      ∃ b, alookup (who, bid) m.buckets = some b ∧ b.owner = who := by
  constructor
  · rintro ⟨⟨m', out⟩, h⟩
    obtain ⟨b, hb, ho, _⟩ := withdrawBucket_inv h
    exact ⟨b, hb, ho⟩
  · rintro ⟨b, hb, ho⟩
    unfold withdrawBucket
    simp only [hb]
    rw [if_neg (by simp [ho])]
    exact ⟨_, rfl⟩

/-- a record with a claimant cannot be deleted, by anybody -/
theorem deleteListing_claimed {m : Market} (hI : IdsInv m) {lid : Nat} {k : Nat × Nat} {l : Listing}
    {c : Nat} (hl : findById lid m.listings = some (k, l)) (hc : l.claimant = some c)
    (env : Env) (who : Nat) : ∃ e, deleteListing m env who lid = .error e := by
  cases hd : deleteListing m env who lid with
  | error e => exact ⟨e, rfl⟩
  | ok r =>
    exfalso
    unfold deleteListing at hd
    split at hd
    · cases hd
    rename_i l2 h2
    obtain ⟨_, _, hf⟩ := hI.alookup_id h2
    rw [hl] at hf
    cases hf
    split at hd
    · cases hd
    split at hd
    · cases hd
    rename_i h3
    simp [hc] at h3

/-- closed records carry their owner as claimant (from the record invariant, C12) -/
theorem WFInv.claimant_creator {j u : Nat} {m : Market} (hW : WFInv j u m)
    {p : (Nat × Nat) × Listing} (hp : p ∈ m.listings) {c : Nat} (hc : p.2.claimant = some c) :
    c = p.2.creator := by
  have := hW.lwf p hp
  simp only [wfListing, Bool.and_eq_true, decide_eq_true_eq] at this
  obtain ⟨_, h4⟩ := this
  cases hs : p.2.status <;> rw [hs] at h4 <;> simp only [Bool.and_eq_true, decide_eq_true_eq] at h4
  · simp [hc] at h4
  · simp [hc] at h4
  · rw [hc] at h4
    simpa using h4.1.2

/-! ### a concrete market and world for the non-vacuity examples -/

namespace BuyEx

/-- 1 000 s after the epoch -/
def t0 : Nat := 1000 * NS
/-- expiration of the example listing: finalized at `t0` for 600 s -/
def tExp : Nat := t0 + 600 * NS

/-- what seller 10 offers: 1000 of denom 100 (the current fee denom) and NFT 7 of collection 50 -/
def goods : GBal := ⟨[⟨100, 1000⟩], [], [⟨50, 7⟩]⟩
/-- what the seller asks: 500 of denom 101, 20 of CW20 token 60 and 5 of token 61 -/
def ask : GBal := ⟨[⟨101, 500⟩], [⟨60, 20⟩, ⟨61, 5⟩], []⟩
/-- the same assets in another order -/
def pay : GBal := ⟨[⟨101, 500⟩], [⟨61, 5⟩, ⟨60, 20⟩], []⟩

def lst : Listing :=
  { creator := 10, id := 1, finalizedAt := some t0, expiresAt := some tExp, status := .finalized,
    claimant := none, whitelist := none, forSale := goods, ask := ask, fee := none }

/-- listing 1 of seller 10, bucket 2 of buyer 20 (matches the ask, other order), bucket 3 of a
    competing buyer 30 (matches too), bucket 4 of 30 (does not match) -/
def mkt : Market :=
  { listings := [((10, 1), lst)],
    buckets := [((20, 2), ⟨20, pay, none⟩), ((30, 3), ⟨30, ask, none⟩), ((30, 4), ⟨30, goods, none⟩)],
    listingUsed := [1, 0], bucketUsed := [4, 3, 2, 0],
    feeKind := .juno, feeSince := 0, registry := some 5 }

/-- a world holding exactly what `mkt` records (twice `ask`, twice `goods`), one second after
    the listing was finalized; collection 50 is registered at 300 bps -/
def world : World :=
  { self := 1, pool := 2, regAddr := 5, junoD := 100, usdcD := 101, nowNs := t0 + NS, height := 500,
    mkt := mkt,
    reg := [(50, ⟨0, 300, 99⟩)],
    bank := [((1, 100), 2000), ((1, 101), 1000)],
    cw20 := [((60, 1), 40), ((61, 1), 10)],
    nft := [((50, 7), 1)],
    contracts := [(60, ⟨none, 1, true, false⟩), (61, ⟨none, 1, true, false⟩),
                  (50, ⟨some 9, 2, false, false⟩)] }

def env : Env := world.env

theorem ids : IdsInv mkt := by
  constructor <;> decide

theorem wf : WFInv 100 101 mkt := by
  constructor <;> decide

/-- what the purchase of listing 1 with bucket 2 returns -/
def bought : Market × List OutMsg :=
  match buy mkt env 20 1 2 with
  | .ok r => r
  | .error _ => (mkt, [])

theorem buy_eq : buy mkt env 20 1 2 = .ok bought := rfl

/-- the world after buyer 20 bought listing 1 -/
def world' : World := (step world (.exec 20 [] (.buy 1 2))).1

end BuyEx

end Fuzion
