/-
  Fuzion.Lemmas.ExitLemmas — helper lemmas for C05 ("deposits and payouts move exactly the stated
  assets to the right party") and C07 ("nothing gets stuck").

  Layout
  * §1  when the chain accepts a payout: `bankSub` / `bankSend` / `dispatch1` / `dispatchAll`
        succeed on the message list `withdrawMsgs self to g fee` if the marketplace holds what the
        list names (`withdraw_dispatch_ok`);
  * §2  what a successful dispatch of `withdrawMsgs` does to every account: exact receipts
        (`outBy_rNat_withdrawMsgs`, `outBy_r20_withdrawMsgs`), the NFT ledger entry by entry
        (`dispatchAll_nft_exact`), non-honest token ledgers (`dispatchAll_cw20_other`);
  * §3  exact handler specifications of the eight deposit handlers (`DepositRecords`);
  * §4  `step` for deposits and exits: the world after an accepted deposit / exit message;
  * §5  one record's share of the obligations (`asum_ge_of_mem`, `owedNative_ge_*`);
  * §6  what well-formedness says about a record that is to be cashed out;
  * §7  `RecInv`: which token contracts / collections the records name and who owns the records —
        an invariant every accepted message preserves (`execute_recInv`).
  (The sections appear in the order §1, §2, §5, §4, §6, §3, §7.)  Core library only.
-/
import Fuzion.Lemmas.AcctLemmas
import Fuzion.Lemmas.FrameLemmas
import Fuzion.Lemmas.InvLemmas
namespace Fuzion

/-! ## §1 when the chain accepts a payout -/

/-- the bank can take a duplicate-free coin list from `a` if `a` holds each listed amount -/
theorem bankSub_ok {a : Nat} {cs : List Coin} (nd : (keys cs).Nodup) :
    ∀ {bank : Ledger}, (∀ c ∈ cs, c.amount ≤ lget bank (a, c.key)) → ∃ b, bankSub bank a cs = some b := by
  induction cs with
  | nil => intro bank _; exact ⟨bank, rfl⟩
  | cons c cs ih =>
    intro bank h
    have e2 : keys (c :: cs) = c.key :: keys cs := rfl
    rw [e2, List.nodup_cons] at nd
    have hc := h c List.mem_cons_self
    simp only [bankSub]
    rw [if_neg (by omega)]
    refine ih nd.2 ?_
    intro c' hc'
    have hne : (a, c'.key) ≠ (a, c.key) := by
      intro e
      injection e with _ e
      exact nd.1 (e ▸ List.mem_map.2 ⟨c', hc', rfl⟩)
    rw [lget_lset_ne _ hne]
    exact h c' (List.mem_cons_of_mem _ hc')

/-- a non-empty, zero-free, duplicate-free coin list covered per denomination is sent -/
theorem bankSend_ok {bank : Ledger} {src dst : Nat} {cs : List Coin} (hne : cs ≠ [])
    (hz : ∀ c ∈ cs, c.amount ≠ 0) (nd : (keys cs).Nodup)
    (h : ∀ d, coinAmt cs d ≤ lget bank (src, d)) : ∃ b, bankSend bank src dst cs = some b := by
  have hf : cs.filter (fun c => decide (c.amount ≠ 0)) = cs :=
    List.filter_eq_self.2 (fun c hc => by simpa using hz c hc)
  unfold bankSend
  dsimp only
  rw [hf]
  have : cs.isEmpty = false := by
    cases cs with
    | nil => exact absurd rfl hne
    | cons _ _ => rfl
  rw [this]
  obtain ⟨b, hb⟩ := bankSub_ok (a := src) nd (bank := bank) (by
    intro c hc
    rw [← coinAmt_of_mem nd hc]
    exact h c.key)
  rw [if_neg (by simp), hb]
  exact ⟨_, rfl⟩

theorem dispatch1_bankSend_ok {w : World} {to : Nat} {cs : List Coin} (hne : cs ≠ [])
    (hz : ∀ c ∈ cs, c.amount ≠ 0) (nd : (keys cs).Nodup)
    (h : ∀ d, coinAmt cs d ≤ lget w.bank (w.self, d)) :
    ∃ b, dispatch1 w (.bankSend to cs) = some { w with bank := b } := by
  obtain ⟨b, hb⟩ := bankSend_ok (dst := to) hne hz nd h
  exact ⟨b, by simp only [dispatch1, hb]⟩

theorem dispatch1_fundPool_ok {w : World} {f : Coin} (hz : f.amount ≠ 0)
    (h : f.amount ≤ lget w.bank (w.self, f.key)) :
    ∃ b, dispatch1 w (.fundPool w.self f) = some { w with bank := b } := by
  obtain ⟨b, hb⟩ := bankSend_ok (bank := w.bank) (src := w.self) (dst := w.pool) (cs := [f])
    (by simp) (by simpa using hz) (by simp [keys]) (by
      intro d
      rw [coinAmt_cons, coinAmt_nil]
      split
      · rename_i e; subst e; simpa using h
      · simp)
  refine ⟨b, ?_⟩
  simp only [dispatch1, hb, ne_eq, not_true_eq_false, if_false]

/-- the CW20 stage: one transfer per entry, distinct honest tokens, each covered -/
theorem dispatchAll_cw20_ok {to : Nat} {cs : List Coin} (nd : (keys cs).Nodup) :
    ∀ {w : World} (i : Nat), (∀ c ∈ cs, c.amount ≠ 0) → (∀ c ∈ cs, w.isHonest20 c.key = true) →
      (∀ c ∈ cs, c.amount ≤ lget w.cw20 (c.key, w.self)) →
      ∃ l, dispatchAll noFault w (cs.map fun c => OutMsg.cw20Transfer c.key to c.amount) i =
        some { w with cw20 := l } := by
  induction cs with
  | nil => intro w i _ _ _; exact ⟨w.cw20, rfl⟩
  | cons c cs ih =>
    intro w i hz hh hb
    have e2 : keys (c :: cs) = c.key :: keys cs := rfl
    rw [e2, List.nodup_cons] at nd
    obtain ⟨ci, hk, hk1⟩ := isHonest20_kind (hh c List.mem_cons_self)
    have hc := hb c List.mem_cons_self
    have hzc := hz c List.mem_cons_self
    have hmv : ∃ l, ledgerMove w.cw20 c.key w.self to c.amount = some l := by
      unfold ledgerMove
      rw [if_neg (by omega)]
      exact ⟨_, rfl⟩
    obtain ⟨l, hl⟩ := hmv
    have hd1 : dispatch1 w (.cw20Transfer c.key to c.amount) = some { w with cw20 := l } := by
      simp only [dispatch1, hk, hk1, if_true, hzc, if_false, hl]
    obtain ⟨l2, hl2⟩ := ih nd.2 (w := { w with cw20 := l }) (i + 1)
      (fun c' hc' => hz c' (List.mem_cons_of_mem _ hc'))
      (fun c' hc' => hh c' (List.mem_cons_of_mem _ hc'))
      (by
        intro c' hc'
        have hne : (c'.key, w.self) ≠ (c.key, w.self) := by
          intro e
          injection e with e _
          exact nd.1 (e ▸ List.mem_map.2 ⟨c', hc', rfl⟩)
        have hne2 : (c'.key, w.self) ≠ (c.key, to) := by
          intro e
          injection e with e _
          exact nd.1 (e ▸ List.mem_map.2 ⟨c', hc', rfl⟩)
        have := ledgerMove_lget hl (c'.key, w.self)
        rw [if_neg hne, if_neg hne2] at this
        show c'.amount ≤ lget l (c'.key, w.self)
        have := hb c' (List.mem_cons_of_mem _ hc')
        omega)
    refine ⟨l2, ?_⟩
    simp only [List.map_cons, dispatchAll, noFault, Bool.false_eq_true, if_false, hd1]
    exact hl2

/-- the NFT stage: one transfer per NFT, all distinct, honest collections, each owned -/
theorem dispatchAll_nft_ok {to : Nat} {ns : List Nft} (nd : ns.Nodup) :
    ∀ {w : World} (i : Nat), (∀ n ∈ ns, w.isHonest721 n.coll = true) →
      (∀ n ∈ ns, alookup (n.coll, n.tid) w.nft = some w.self) →
      ∃ l, dispatchAll noFault w (ns.map fun n => OutMsg.nftTransfer n.coll n.tid to) i =
        some { w with nft := l } := by
  induction ns with
  | nil => intro w i _ _; exact ⟨w.nft, rfl⟩
  | cons n ns ih =>
    intro w i hh ho
    rw [List.nodup_cons] at nd
    obtain ⟨ci, hk, hk2⟩ := isHonest721_kind (hh n List.mem_cons_self)
    have hown := ho n List.mem_cons_self
    have hd1 : dispatch1 w (.nftTransfer n.coll n.tid to) =
        some { w with nft := lset w.nft (n.coll, n.tid) to } := by
      simp only [dispatch1, hk, hk2, if_true, hown]
    obtain ⟨l2, hl2⟩ := ih nd.2 (w := { w with nft := lset w.nft (n.coll, n.tid) to }) (i + 1)
      (fun n' hn' => hh n' (List.mem_cons_of_mem _ hn'))
      (by
        intro n' hn'
        have hne : (n'.coll, n'.tid) ≠ (n.coll, n.tid) := by
          intro e
          injection e with e1 e2
          apply nd.1
          have : n' = n := by cases n'; cases n; simp only at e1 e2; subst e1 e2; rfl
          exact this ▸ hn'
        show alookup (n'.coll, n'.tid) (lset w.nft (n.coll, n.tid) to) = some w.self
        rw [lset, alookup_ainsert_ne hne]
        exact ho n' (List.mem_cons_of_mem _ hn'))
    refine ⟨l2, ?_⟩
    simp only [List.map_cons, dispatchAll, noFault, Bool.false_eq_true, if_false, hd1]
    exact hl2

/-- the native stage: at most one bank send carrying the whole native list; afterwards the
    marketplace still holds whatever it held beyond that list -/
theorem dispatchAll_native_ok {w : World} {to : Nat} {cs : List Coin} (i : Nat)
    (hz : ∀ c ∈ cs, c.amount ≠ 0) (nd : (keys cs).Nodup) {extra : Nat → Nat}
    (h : ∀ d, coinAmt cs d + extra d ≤ lget w.bank (w.self, d)) :
    ∃ b, dispatchAll noFault w (if cs.isEmpty then [] else [OutMsg.bankSend to cs]) i =
        some { w with bank := b } ∧ ∀ d, extra d ≤ lget b (w.self, d) := by
  cases cs with
  | nil =>
    refine ⟨w.bank, rfl, fun d => ?_⟩
    have := h d
    rw [coinAmt_nil] at this
    omega
  | cons c cs =>
    obtain ⟨b, hb⟩ := dispatch1_bankSend_ok (w := w) (to := to) (cs := c :: cs) (by simp) hz nd
      (fun d => by have := h d; omega)
    refine ⟨b, ?_, fun d => ?_⟩
    · simp only [List.isEmpty_cons, Bool.false_eq_true, if_false, dispatchAll, noFault, hb]
    · have h1 := dispatch1_bank hb w.self d
      simp only [if_true, pNat] at h1
      have := h d
      show extra d ≤ lget b (w.self, d)
      have e : lget ({ w with bank := b } : World).bank (w.self, d) = lget b (w.self, d) := rfl
      rw [e] at h1
      omega

/-- **The chain accepts a payout.**  If the balance `g` is well-formed, the marketplace's wallet
    covers, per denomination, the native part plus the pending fee, every CW20 entry is an honest
    token of which the marketplace holds at least the recorded amount, and every NFT belongs to an
    honest collection and is owned by the marketplace, then every message of
    `withdrawMsgs self to g fee` is accepted, in order. -/
theorem withdraw_dispatch_ok {w : World} {to : Nat} {g : GBal} {fee : Option Coin}
    (hwf : wfBal g = true) (hfz : ∀ f, fee = some f → f.amount ≠ 0)
    (hbank : ∀ d, coinAmt g.native d + feeAmt fee d ≤ lget w.bank (w.self, d))
    (hh20 : ∀ c ∈ g.cw20, w.isHonest20 c.key = true)
    (hcw : ∀ c ∈ g.cw20, c.amount ≤ lget w.cw20 (c.key, w.self))
    (hh721 : ∀ n ∈ g.nfts, w.isHonest721 n.coll = true)
    (hnft : ∀ n ∈ g.nfts, alookup (n.coll, n.tid) w.nft = some w.self) :
    ∃ w', dispatchAll noFault w (withdrawMsgs w.self to g fee) 0 = some w' := by
  obtain ⟨z1, z2, _, n1, n2, n3⟩ := (wfBal_iff g).1 hwf
  obtain ⟨b1, hb1, hrest⟩ := dispatchAll_native_ok (w := w) (to := to) 0 z1 n1 hbank
  obtain ⟨l2, hl2⟩ := dispatchAll_cw20_ok (to := to) n2 (w := { w with bank := b1 })
    (0 + (if g.native.isEmpty then [] else [OutMsg.bankSend to g.native]).length) z2 hh20 hcw
  obtain ⟨l3, hl3⟩ := dispatchAll_nft_ok (to := to) n3 (w := { w with bank := b1, cw20 := l2 })
    (0 + ((if g.native.isEmpty then [] else [OutMsg.bankSend to g.native]) ++
      g.cw20.map fun c => OutMsg.cw20Transfer c.key to c.amount).length) hh721 hnft
  have hsend : dispatchAll noFault w (sendTokens to g) 0 =
      some { w with bank := b1, cw20 := l2, nft := l3 } := by
    unfold sendTokens
    rw [dispatchAll_append, dispatchAll_append, hb1]
    dsimp only
    rw [hl2]
    dsimp only
    rw [hl3]
  unfold withdrawMsgs
  rw [dispatchAll_append, hsend]
  dsimp only
  cases fee with
  | none => exact ⟨_, rfl⟩
  | some f =>
    obtain ⟨b4, hb4⟩ := dispatch1_fundPool_ok (w := { w with bank := b1, cw20 := l2, nft := l3 })
      (f := f) (hfz f rfl) (by
        have := hrest f.key
        simp only [feeAmt, if_true] at this
        exact this)
    refine ⟨{ w with bank := b4, cw20 := l2, nft := l3 }, ?_⟩
    simp only [dispatchAll, noFault, Bool.false_eq_true, if_false]
    rw [show dispatch1 { w with bank := b1, cw20 := l2, nft := l3 } (OutMsg.fundPool w.self f) =
      some { w with bank := b4, cw20 := l2, nft := l3 } from hb4]

/-! ## §2 what a successful dispatch of a payout does to every account -/

/-- what account `a` receives in denomination `d` from a payout: the goods if it is the payee, the
    fee if it is the community pool -/
theorem outBy_rNat_withdrawMsgs (pool a d self to : Nat) (g : GBal) (fee : Option Coin) :
    outBy (rNat pool a d) (withdrawMsgs self to g fee) =
      (if a = to then coinAmt g.native d else 0) + (if a = pool then feeAmt fee d else 0) := by
  rw [withdrawMsgs_eq, outBy_append]
  congr 1
  · unfold sendTokens
    rw [outBy_append, outBy_append, outBy_map_zero _ _ _ (fun _ => rfl),
      outBy_map_zero _ _ _ (fun _ => rfl)]
    cases hn : g.native with
    | nil => simp [coinAmt_nil]
    | cons c cs => simp [outBy, rNat]
  · cases fee with
    | none => simp [feeMsg, feeAmt]
    | some f => simp [feeMsg, feeAmt, outBy, rNat]

theorem outBy_r20_map (h t to : Nat) (l : List Coin) :
    outBy (r20 h t) (l.map fun c => OutMsg.cw20Transfer c.key to c.amount) =
      if h = to then coinAmt l t else 0 := by
  induction l with
  | nil => simp [coinAmt_nil]
  | cons c l ih =>
    rw [List.map_cons, outBy_cons, ih, coinAmt_cons]
    simp only [r20]
    by_cases e1 : h = to <;> by_cases e2 : c.key = t <;> simp [e1, e2]

/-- what holder `h` receives of token `t` from a payout: the recorded amount if it is the payee -/
theorem outBy_r20_withdrawMsgs (h t self to : Nat) (g : GBal) (fee : Option Coin) :
    outBy (r20 h t) (withdrawMsgs self to g fee) = if h = to then coinAmt g.cw20 t else 0 := by
  rw [withdrawMsgs_eq, outBy_append]
  have hfee : outBy (r20 h t) (feeMsg self fee) = 0 := by cases fee <;> rfl
  rw [hfee, Nat.add_zero]
  unfold sendTokens
  rw [outBy_append, outBy_append, outBy_map_zero _ _ (g.nfts) (fun _ => rfl), outBy_r20_map]
  cases hn : g.native with
  | nil => simp
  | cons c cs => simp [outBy, r20]

/-- one dispatched message either leaves the NFT ledger alone (and is no transfer in an honest
    collection) or is a transfer, in an honest collection, of an NFT the marketplace owns -/
theorem dispatch1_nft_cases {w w' : World} {x : OutMsg} (h : dispatch1 w x = some w') :
    (w'.nft = w.nft ∧ ∀ c t to, x = .nftTransfer c t to → w.isHonest721 c = false) ∨
    (∃ c t to, x = .nftTransfer c t to ∧ w.isHonest721 c = true ∧
      alookup (c, t) w.nft = some w.self ∧ w'.nft = lset w.nft (c, t) to) := by
  cases x with
  | nftTransfer coll tid to =>
    simp only [dispatch1] at h
    split at h
    · cases h
    rename_i ci hci
    split at h
    · rename_i hk
      split at h
      · rename_i hown
        simp only [Option.some.injEq] at h
        subst h
        refine .inr ⟨coll, tid, to, rfl, ?_, hown, rfl⟩
        simp [World.isHonest721, hci, hk]
      · cases h
    · rename_i hk
      split at h
      · rename_i hk3
        split at h
        · cases h
        · simp only [Option.some.injEq] at h
          subst h
          refine .inl ⟨rfl, ?_⟩
          intro c t to' e
          cases e
          simp [World.isHonest721, hci, hk]
      · cases h
  | bankSend to coins =>
    refine .inl ⟨?_, fun _ _ _ e => by cases e⟩
    simp only [dispatch1] at h
    repeat' split at h
    all_goals first
      | (cases h; done)
      | (simp only [Option.some.injEq] at h; subst h; rfl)
  | fundPool dep coin =>
    refine .inl ⟨?_, fun _ _ _ e => by cases e⟩
    simp only [dispatch1] at h
    repeat' split at h
    all_goals first
      | (cases h; done)
      | (simp only [Option.some.injEq] at h; subst h; rfl)
  | cw20Transfer token to amt =>
    refine .inl ⟨?_, fun _ _ _ e => by cases e⟩
    simp only [dispatch1] at h
    repeat' split at h
    all_goals first
      | (cases h; done)
      | (simp only [Option.some.injEq] at h; subst h; rfl)

/-- the NFT a single message transfers away, if any -/
def OutMsg.nfts1 : OutMsg → List Nft
  | .nftTransfer c t _ => [⟨c, t⟩]
  | _ => []

theorem sentNfts_cons (x : OutMsg) (ms : List OutMsg) :
    sentNfts (x :: ms) = x.nfts1 ++ sentNfts ms := by
  cases x <;> rfl

theorem nfts1_not_honest {w : World} {x : OutMsg}
    (hnh : ∀ c t to, x = .nftTransfer c t to → w.isHonest721 c = false) :
    ∀ n ∈ x.nfts1, w.isHonest721 n.coll = false := by
  intro n hn
  cases x with
  | nftTransfer c1 t1 to1 =>
    simp only [OutMsg.nfts1, List.mem_singleton] at hn
    subst hn
    exact hnh c1 t1 to1 rfl
  | _ => simp [OutMsg.nfts1] at hn

/-- **The NFT ledger after a dispatch, entry by entry.**  All NFT transfers of the list go to `to`
    (not the marketplace).  An NFT of an honest collection named by the list was owned by the
    marketplace and is owned by `to` afterwards; every other entry of the ledger is unchanged. -/
theorem dispatchAll_nft_exact {fail : Nat → Bool} {to : Nat} {ms : List OutMsg} :
    ∀ {w w' : World} {i : Nat}, dispatchAll fail w ms i = some w' →
      (∀ c t to', OutMsg.nftTransfer c t to' ∈ ms → to' = to) → to ≠ w.self → ∀ c tid,
      ((w.isHonest721 c = true ∧ (⟨c, tid⟩ : Nft) ∈ sentNfts ms) →
        alookup (c, tid) w'.nft = some to ∧ alookup (c, tid) w.nft = some w.self) ∧
      (¬ (w.isHonest721 c = true ∧ (⟨c, tid⟩ : Nft) ∈ sentNfts ms) →
        alookup (c, tid) w'.nft = alookup (c, tid) w.nft) := by
  induction ms with
  | nil =>
    intro w w' i h _ _ c tid
    simp only [dispatchAll, Option.some.injEq] at h
    subst h
    exact ⟨fun hh => by simp at hh, fun _ => rfl⟩
  | cons x ms ih =>
    intro w w' i h hto hself c tid
    simp only [dispatchAll] at h
    split at h
    · cases h
    split at h
    · cases h
    rename_i w1 h1
    have f1 := (dispatch1_frame h1).1
    have ih' := ih h (fun c t to' hm => hto c t to' (List.mem_cons_of_mem _ hm))
      (by rw [f1.self]; exact hself) c tid
    rw [f1.isHonest721, f1.self] at ih'
    obtain ⟨ih1, ih2⟩ := ih'
    rw [sentNfts_cons]
    rcases dispatch1_nft_cases h1 with ⟨hnft, hnh⟩ | ⟨c0, t0, to0, rfl, hh0, hown, hnft⟩
    · -- the ledger is untouched by `x`
      rw [hnft] at ih1 ih2
      have hmem : (w.isHonest721 c = true ∧ (⟨c, tid⟩ : Nft) ∈ x.nfts1 ++ sentNfts ms) ↔
          (w.isHonest721 c = true ∧ (⟨c, tid⟩ : Nft) ∈ sentNfts ms) := by
        constructor
        · rintro ⟨hc, hm⟩
          refine ⟨hc, ?_⟩
          rcases List.mem_append.1 hm with hm | hm
          · have := nfts1_not_honest hnh _ hm
            simp only at this
            rw [this] at hc
            cases hc
          · exact hm
        · rintro ⟨hc, hm⟩
          exact ⟨hc, List.mem_append_right _ hm⟩
      rw [hmem]
      exact ⟨ih1, ih2⟩
    · -- `x` moves `(c0, t0)` to `to0 = to`
      have hto0 : to0 = to := hto c0 t0 to0 List.mem_cons_self
      subst hto0
      have hl : alookup (c, tid) w1.nft =
          if (c, tid) = (c0, t0) then some to0 else alookup (c, tid) w.nft := by
        rw [hnft, lset, alookup_ainsert]
      simp only [OutMsg.nfts1]
      by_cases hin : w.isHonest721 c = true ∧ (⟨c, tid⟩ : Nft) ∈ sentNfts ms
      · obtain ⟨a1, a2⟩ := ih1 hin
        refine ⟨fun _ => ⟨a1, ?_⟩, fun hn => absurd ⟨hin.1, List.mem_append_right _ hin.2⟩ hn⟩
        rw [hl] at a2
        split at a2
        · injection a2 with a2; exact absurd a2 hself
        · exact a2
      · have a := ih2 hin
        by_cases he : (c, tid) = (c0, t0)
        · injection he with e1 e2
          subst e1 e2
          refine ⟨fun _ => ⟨?_, hown⟩, fun hn => absurd ⟨hh0, by simp⟩ hn⟩
          rw [a, hl, if_pos rfl]
        · refine ⟨fun hh => ?_, fun _ => ?_⟩
          · exfalso
            rcases List.mem_append.1 hh.2 with hm | hm
            · simp only [List.mem_singleton, Nft.mk.injEq] at hm
              exact he (by rw [hm.1, hm.2])
            · exact hin ⟨hh.1, hm⟩
          · rw [a, hl, if_neg he]

/-- the ledger entries of a contract that is not an honest CW20 token are never written by a
    dispatched message (a hostile contract's `Transfer` is a no-op of the model) -/
theorem dispatch1_cw20_other {w w' : World} {x : OutMsg} (h : dispatch1 w x = some w') {t : Nat}
    (ht : w.isHonest20 t = false) (hd : Nat) : lget w'.cw20 (t, hd) = lget w.cw20 (t, hd) := by
  cases x with
  | cw20Transfer token to amt =>
    simp only [dispatch1] at h
    split at h
    · cases h
    rename_i ci hci
    split at h
    · rename_i hk
      split at h
      · cases h
      split at h
      · cases h
      rename_i l hl
      simp only [Option.some.injEq] at h
      subst h
      have hne : token ≠ t := by
        intro e
        subst e
        simp [World.isHonest20, hci, hk] at ht
      have := ledgerMove_lget hl (t, hd)
      have e1 : ¬ ((t, hd) = (token, w.self)) := by
        intro e; injection e with e _; exact hne e.symm
      have e2 : ¬ ((t, hd) = (token, to)) := by
        intro e; injection e with e _; exact hne e.symm
      rw [if_neg e1, if_neg e2] at this
      simpa using this
    · split at h
      · split at h
        · cases h
        · simp only [Option.some.injEq] at h
          subst h; rfl
      · cases h
  | bankSend to coins =>
    have : w'.cw20 = w.cw20 := by
      simp only [dispatch1] at h
      repeat' split at h
      all_goals first
        | (cases h; done)
        | (simp only [Option.some.injEq] at h; subst h; rfl)
    rw [this]
  | fundPool dep coin =>
    have : w'.cw20 = w.cw20 := by
      simp only [dispatch1] at h
      repeat' split at h
      all_goals first
        | (cases h; done)
        | (simp only [Option.some.injEq] at h; subst h; rfl)
    rw [this]
  | nftTransfer coll tid to =>
    have : w'.cw20 = w.cw20 := by
      simp only [dispatch1] at h
      repeat' split at h
      all_goals first
        | (cases h; done)
        | (simp only [Option.some.injEq] at h; subst h; rfl)
    rw [this]

theorem dispatchAll_cw20_other {fail : Nat → Bool} {ms : List OutMsg} :
    ∀ {w w' : World} {i : Nat}, dispatchAll fail w ms i = some w' → ∀ {t : Nat},
      w.isHonest20 t = false → ∀ hd, lget w'.cw20 (t, hd) = lget w.cw20 (t, hd) := by
  induction ms with
  | nil =>
    intro w w' i h t _ hd
    simp only [dispatchAll, Option.some.injEq] at h
    subst h; rfl
  | cons x ms ih =>
    intro w w' i h t ht hd
    simp only [dispatchAll] at h
    split at h
    · cases h
    split at h
    · cases h
    rename_i w1 h1
    have f1 := (dispatch1_frame h1).1
    rw [ih h (t := t) (by rw [f1.isHonest20]; exact ht) hd, dispatch1_cw20_other h1 ht hd]

/-! ## §5 one record's share of the obligations -/

section
variable {κ ν : Type}

theorem asum_ge_of_mem (f : ν → Nat) {p : κ × ν} {l : List (κ × ν)} (h : p ∈ l) :
    f p.2 ≤ asum f l := by
  induction l with
  | nil => cases h
  | cons q l ih =>
    rw [asum_cons]
    rcases List.mem_cons.1 h with rfl | h
    · omega
    · have := ih h; omega

theorem asum_nil (f : ν → Nat) : asum f ([] : List (κ × ν)) = 0 := rfl
end

theorem owedNative_ge_listing {m : Market} {p : (Nat × Nat) × Listing} (h : p ∈ m.listings) (d : Nat) :
    coinAmt p.2.forSale.native d + feeAmt p.2.fee d ≤ owedNative m d := by
  rw [owedNative_eq]
  have := asum_ge_of_mem (fun l : Listing => coinAmt l.forSale.native d + feeAmt l.fee d) h
  simp only [wsum]
  omega

theorem owedNative_ge_bucket {m : Market} {p : (Nat × Nat) × Bucket} (h : p ∈ m.buckets) (d : Nat) :
    coinAmt p.2.funds.native d + feeAmt p.2.fee d ≤ owedNative m d := by
  rw [owedNative_eq]
  have := asum_ge_of_mem (fun b : Bucket => coinAmt b.funds.native d + feeAmt b.fee d) h
  simp only [wsum]
  omega

theorem owedCw20_ge_listing {m : Market} {p : (Nat × Nat) × Listing} (h : p ∈ m.listings) (t : Nat) :
    coinAmt p.2.forSale.cw20 t ≤ owedCw20 m t := by
  rw [owedCw20_eq]
  have := asum_ge_of_mem (fun l : Listing => coinAmt l.forSale.cw20 t) h
  simp only [wsum]
  omega

theorem owedCw20_ge_bucket {m : Market} {p : (Nat × Nat) × Bucket} (h : p ∈ m.buckets) (t : Nat) :
    coinAmt p.2.funds.cw20 t ≤ owedCw20 m t := by
  rw [owedCw20_eq]
  have := asum_ge_of_mem (fun b : Bucket => coinAmt b.funds.cw20 t) h
  simp only [wsum]
  omega

theorem mem_recordedNfts_listing {m : Market} {p : (Nat × Nat) × Listing} (h : p ∈ m.listings)
    {n : Nft} (hn : n ∈ p.2.forSale.nfts) : n ∈ recordedNfts m :=
  List.mem_append_left _ (List.mem_flatMap.2 ⟨p, h, hn⟩)

theorem mem_recordedNfts_bucket {m : Market} {p : (Nat × Nat) × Bucket} (h : p ∈ m.buckets)
    {n : Nft} (hn : n ∈ p.2.funds.nfts) : n ∈ recordedNfts m :=
  List.mem_append_right _ (List.mem_flatMap.2 ⟨p, h, hn⟩)

theorem owedNative_empty {m : Market} (hl : m.listings = []) (hb : m.buckets = []) (d : Nat) :
    owedNative m d = 0 := by
  simp [owedNative, pendingFee, listingsSum, bucketsSum, hl, hb]

theorem owedCw20_empty {m : Market} (hl : m.listings = []) (hb : m.buckets = []) (t : Nat) :
    owedCw20 m t = 0 := by
  simp [owedCw20, listingsSum, bucketsSum, hl, hb]

theorem recordedNfts_empty {m : Market} (hl : m.listings = []) (hb : m.buckets = []) :
    recordedNfts m = [] := by
  simp [recordedNfts, hl, hb]

/-! ## §4 `step` for a message without attached coins; the effect of a payout

(Definitions of this section — `PaidOut`, `HonestAssets`, `Covers` — are used in the statements of
C05 / C07 and are quoted there.) -/

theorem step_exec_nil (w : World) (x : Nat) (msg : ExecMsg) :
    step w (.exec x [] msg) = runMarket noFault w w x [] msg := by
  simp [step, stepF]

/-- an accepted coin-less message: handler accepted on the pre-state, all messages dispatched -/
theorem step_exec_nil_ok {w : World} {x : Nat} {msg : ExecMsg}
    (h : (step w (.exec x [] msg)).2.ok = true) :
    ∃ m' msgs w2, execute w.mkt w.env x [] msg = .ok (m', msgs) ∧
      dispatchAll noFault { w with mkt := m' } msgs 0 = some w2 ∧
      step w (.exec x [] msg) = (w2, ⟨true, none, msgs⟩) := by
  rw [step_exec_nil] at h ⊢
  rcases runMarket_cases noFault w w x [] msg with ⟨e, he⟩ | ⟨m', msgs, w2, hx, hd, hr⟩
  · rw [he] at h; cases h
  · exact ⟨m', msgs, w2, hx, hd, hr⟩

/-- conversely: handler accepts and every message is dispatched ⇒ the transaction succeeds -/
theorem step_exec_nil_of {w : World} {x : Nat} {msg : ExecMsg} {m' : Market} {msgs : List OutMsg}
    {w2 : World} (hx : execute w.mkt w.env x [] msg = .ok (m', msgs))
    (hd : dispatchAll noFault { w with mkt := m' } msgs 0 = some w2) :
    step w (.exec x [] msg) = (w2, ⟨true, none, msgs⟩) := by
  rw [step_exec_nil]
  simp only [runMarket, hx, hd]

/-- **Exact effect of a payout** of balance `g` with pending fee `fee` to `x`, between the worlds
    `w` (before) and `w'` (after).  Bank: `x` gains the native part, the community pool gains the
    fee, the marketplace loses both, nobody else's balance changes.  CW20, for every honest token:
    `x` gains the recorded amount, the marketplace loses it, nobody else changes; ledgers of
    contracts that are not honest tokens are untouched.  NFTs: every recorded NFT of an honest
    collection was owned by the marketplace and is owned by `x`; every other NFT keeps its owner.
    Registry, contract table, clock and configuration are unchanged (`CoreEq`). -/
structure PaidOut (w w' : World) (x : Nat) (g : GBal) (fee : Option Coin) : Prop where
  bankOwner : ∀ d, lget w'.bank (x, d) = lget w.bank (x, d) + coinAmt g.native d
  bankPool : ∀ d, lget w'.bank (w.pool, d) = lget w.bank (w.pool, d) + feeAmt fee d
  bankSelf : ∀ d, lget w'.bank (w.self, d) + coinAmt g.native d + feeAmt fee d = lget w.bank (w.self, d)
  bankOthers : ∀ a d, a ≠ x → a ≠ w.pool → a ≠ w.self → lget w'.bank (a, d) = lget w.bank (a, d)
  cw20Owner : ∀ t, w.isHonest20 t = true → lget w'.cw20 (t, x) = lget w.cw20 (t, x) + coinAmt g.cw20 t
  cw20Self : ∀ t, w.isHonest20 t = true →
    lget w'.cw20 (t, w.self) + coinAmt g.cw20 t = lget w.cw20 (t, w.self)
  cw20Others : ∀ t h, (h ≠ x ∧ h ≠ w.self) ∨ w.isHonest20 t = false →
    lget w'.cw20 (t, h) = lget w.cw20 (t, h)
  nftOwner : ∀ n ∈ g.nfts, w.isHonest721 n.coll = true →
    alookup (n.coll, n.tid) w.nft = some w.self ∧ alookup (n.coll, n.tid) w'.nft = some x
  nftOthers : ∀ c tid, (⟨c, tid⟩ : Nft) ∉ g.nfts ∨ w.isHonest721 c = false →
    alookup (c, tid) w'.nft = alookup (c, tid) w.nft
  core : CoreEq w w'

theorem paidOut_of_dispatch {w w2 : World} {m' : Market} {x : Nat} {g : GBal} {fee : Option Coin}
    (hd : dispatchAll noFault { w with mkt := m' } (withdrawMsgs w.self x g fee) 0 = some w2)
    (hx : x ≠ w.self) (hxp : x ≠ w.pool) (hp : w.pool ≠ w.self) : PaidOut w w2 x g fee := by
  have hbank : ∀ a d, lget w2.bank (a, d) + (if a = w.self then coinAmt g.native d + feeAmt fee d else 0) =
      lget w.bank (a, d) + ((if a = x then coinAmt g.native d else 0) +
        (if a = w.pool then feeAmt fee d else 0)) := by
    intro a d
    have := dispatchAll_bank hd a d
    rw [paidNative_withdrawMsgs, outBy_rNat_withdrawMsgs] at this
    exact this
  have hcw : ∀ t, w.isHonest20 t = true → ∀ h,
      lget w2.cw20 (t, h) + (if h = w.self then coinAmt g.cw20 t else 0) =
        lget w.cw20 (t, h) + (if h = x then coinAmt g.cw20 t else 0) := by
    intro t ht h
    have := dispatchAll_cw20 hd (t := t) ht h
    rw [paidCw20_withdrawMsgs, outBy_r20_withdrawMsgs] at this
    exact this
  have hnft := fun c tid => dispatchAll_nft_exact (to := x) hd (by
    intro c t to' hm
    rw [withdrawMsgs_eq] at hm
    rcases List.mem_append.1 hm with hm | hm
    · rcases mem_sendTokens hm with ⟨_, e⟩ | ⟨_, _, e⟩ | ⟨_, _, e⟩
      · cases e
      · cases e
      · cases e; rfl
    · obtain ⟨_, _, e⟩ := mem_feeMsg.1 hm
      cases e) hx c tid
  have hfr := (dispatchAll_frame hd).1
  refine ⟨?_, ?_, ?_, ?_, ?_, ?_, ?_, ?_, ?_, ?_⟩
  · intro d
    have := hbank x d
    rw [if_neg hx, if_pos rfl, if_neg hxp] at this
    omega
  · intro d
    have := hbank w.pool d
    rw [if_neg hp, if_neg (Ne.symm hxp), if_pos rfl] at this
    omega
  · intro d
    have := hbank w.self d
    rw [if_pos rfl, if_neg (Ne.symm hx), if_neg (Ne.symm hp)] at this
    omega
  · intro a d h1 h2 h3
    have := hbank a d
    rw [if_neg h3, if_neg h1, if_neg h2] at this
    omega
  · intro t ht
    have := hcw t ht x
    rw [if_neg hx, if_pos rfl] at this
    omega
  · intro t ht
    have := hcw t ht w.self
    rw [if_pos rfl, if_neg (Ne.symm hx)] at this
    omega
  · intro t h hh
    by_cases ht : w.isHonest20 t = true
    · rcases hh with ⟨h1, h2⟩ | hh
      · have := hcw t ht h
        rw [if_neg h2, if_neg h1] at this
        omega
      · rw [hh] at ht; cases ht
    · have ht' : w.isHonest20 t = false := by simpa using ht
      exact dispatchAll_cw20_other hd (t := t) ht' h
  · intro n hn hh
    have := (hnft n.coll n.tid).1 ⟨hh, by rw [sentNfts_withdrawMsgs]; exact hn⟩
    exact ⟨this.2, this.1⟩
  · intro c tid hh
    refine (hnft c tid).2 ?_
    rintro ⟨h1, h2⟩
    rw [sentNfts_withdrawMsgs] at h2
    rcases hh with hh | hh
    · exact hh h2
    · have h1' : w.isHonest721 c = true := h1
      rw [hh] at h1'; cases h1'
  · exact ⟨hfr.self, hfr.pool, hfr.regAddr, hfr.junoD, hfr.usdcD, hfr.nowNs, hfr.height, hfr.reg,
      hfr.contracts⟩

/-- every CW20 entry of `g` is an honest token (kind 1 of the chain model) and every NFT belongs to
    an honest collection (kind 2): no asset recorded through a forged hook call (finding C18) -/
def HonestAssets (w : World) (g : GBal) : Prop :=
  (∀ c ∈ g.cw20, w.isHonest20 c.key = true) ∧ (∀ n ∈ g.nfts, w.isHonest721 n.coll = true)

instance (w : World) (g : GBal) : Decidable (HonestAssets w g) := by
  unfold HonestAssets; exact inferInstance

theorem HonestAssets.of_coreEq {w w' : World} (h : CoreEq w w') {g : GBal} (hh : HonestAssets w g) :
    HonestAssets w' g :=
  ⟨fun c hc => by rw [h.isHonest20]; exact hh.1 c hc, fun n hn => by rw [h.isHonest721]; exact hh.2 n hn⟩

/-- erasing the head key of a duplicate-free table leaves the tail -/
theorem aerase_head {κ ν : Type} [DecidableEq κ] {k : κ} {v : ν} {l : List (κ × ν)}
    (nd : (akeys ((k, v) :: l)).Nodup) : aerase k ((k, v) :: l) = l := by
  simp only [akeys_cons, List.nodup_cons] at nd
  have : aerase k ((k, v) :: l) = aerase k l := by simp [aerase]
  rw [this]
  exact al_aerase_absent (alookup_eq_none_iff.2 nd.1)

/-- the marketplace holds what the balance `g` and the pending fee `fee` name -/
structure Covers (w : World) (g : GBal) (fee : Option Coin) : Prop where
  bank : ∀ d, coinAmt g.native d + feeAmt fee d ≤ lget w.bank (w.self, d)
  cw20 : ∀ c ∈ g.cw20, c.amount ≤ lget w.cw20 (c.key, w.self)
  nft : ∀ n ∈ g.nfts, alookup (n.coll, n.tid) w.nft = some w.self

/-- `withdraw_dispatch_ok` in the vocabulary of this section -/
theorem covers_dispatch_ok {w : World} {m' : Market} {to : Nat} {g : GBal} {fee : Option Coin}
    (hwf : wfBal g = true) (hfz : ∀ f, fee = some f → f.amount ≠ 0) (hc : Covers w g fee)
    (hh : HonestAssets w g) :
    ∃ w2, dispatchAll noFault { w with mkt := m' } (withdrawMsgs w.self to g fee) 0 = some w2 :=
  withdraw_dispatch_ok (w := { w with mkt := m' }) hwf hfz hc.bank hh.1 hc.cw20 hh.2 hc.nft

/-! ## §6 what well-formedness says about a record that is to be cashed out -/

theorem wfListing_parts {j u : Nat} {k : Nat × Nat} {l : Listing} (h : wfListing j u k l = true) :
    k = (l.creator, l.id) ∧ wfBal l.forSale = true ∧
    (l.status = .preparing → l.expiresAt = none ∧ l.claimant = none ∧ l.fee = none) ∧
    (l.status = .finalized → l.claimant = none ∧ l.fee = none) ∧
    (l.status = .closed → l.claimant = some l.creator) := by
  unfold wfListing at h
  simp only [Bool.and_eq_true, decide_eq_true_eq] at h
  obtain ⟨⟨⟨hk, hb⟩, _⟩, hs⟩ := h
  refine ⟨hk, hb, ?_, ?_, ?_⟩
  · intro e
    rw [e] at hs
    simp only [Bool.and_eq_true, Option.isNone_iff_eq_none] at hs
    exact ⟨hs.1.1.2, hs.1.2, hs.2⟩
  · intro e
    rw [e] at hs
    simp only [Bool.and_eq_true, Option.isNone_iff_eq_none] at hs
    exact ⟨hs.1.2, hs.2⟩
  · intro e
    rw [e] at hs
    simp only [Bool.and_eq_true, decide_eq_true_eq] at hs
    exact hs.1.2

theorem wfBucket_parts {j u : Nat} {k : Nat × Nat} {b : Bucket} (h : wfBucket j u k b = true) :
    k.1 = b.owner ∧ wfBal b.funds = true := by
  unfold wfBucket at h
  simp only [Bool.and_eq_true, decide_eq_true_eq] at h
  exact ⟨h.1.1, h.1.2⟩

theorem withdrawMsgs_none (self to : Nat) (g : GBal) : withdrawMsgs self to g none = sendTokens to g := by
  simp [withdrawMsgs]

theorem execute_nil_deleteListing (m : Market) (env : Env) (s id : Nat) :
    execute m env s [] (.deleteListing id) = deleteListing m env s id := by
  simp [execute, ExecMsg.takesCoins]

theorem execute_nil_withdrawPurchased (m : Market) (env : Env) (s id : Nat) :
    execute m env s [] (.withdrawPurchased id) = withdrawPurchased m env s id := by
  simp [execute, ExecMsg.takesCoins]

theorem execute_nil_removeBucket (m : Market) (env : Env) (s id : Nat) :
    execute m env s [] (.removeBucket id) = withdrawBucket m env s id := by
  simp [execute, ExecMsg.takesCoins]

/-! ## §3 exact specifications of the eight deposit handlers

(`Inner.toExec`, `DepositRecords` are used in the statements of C05 and quoted there.) -/

/-- the four deposit messages, as sent directly with native coins attached -/
def Inner.toExec : Inner → ExecMsg
  | .createListing id c => .createListing id c
  | .addToListing id => .addToListing id
  | .createBucket id => .createBucket id
  | .addToBucket id => .addToBucket id

/-- **What an accepted deposit `i` of depositor `x` does to the record tables** (`m` before, `m'`
    after).  `g0` is the deposit as a balance of its own (what a *created* record holds);
    `P g nf` relates the old balance `g` of a *topped-up* record to its new balance `nf`.
    * create bucket `id`: no bucket was filed under `(x, id)`, the id was unused; `m'` is `m` with
      the bucket `⟨x, g0, no fee⟩` filed under `(x, id)` and `id` logged as used;
    * top up bucket `id`: the bucket `r` under `(x, id)` existed with owner `x`; `m'` is `m` with
      `r`'s balance replaced by `nf` (owner and pending fee kept: `{ r with funds := nf }`);
    * create listing `id`: no listing with this id existed (under any account), the id was unused,
      the whitelist and the ask validated to `wl` and `ask`; `m'` is `m` with the new preparing
      listing `newListing x id wl g0 ask` (no times, no claimant, no fee) filed under `(x, id)`
      and `id` logged as used;
    * top up listing `id`: the listing `l` under `(x, id)` existed, created by `x`, in preparation,
      unclaimed; `m'` is `m` with `l`'s goods replaced by `nf` (`{ l with forSale := nf }`: ask,
      whitelist, status, times, fee kept).
    In every case the *other* table, the other id log and the fee configuration are literally
    unchanged and every other key of the written table keeps its record (`ainsert` of one key). -/
def DepositRecords (m m' : Market) (x : Nat) (g0 : GBal) (P : GBal → GBal → Prop) : Inner → Prop
  | .createBucket id =>
    alookup (x, id) m.buckets = none ∧ id ∉ m.bucketUsed ∧
    m' = { m with buckets := ainsert (x, id) ⟨x, g0, none⟩ m.buckets, bucketUsed := id :: m.bucketUsed }
  | .addToBucket id =>
    ∃ r nf, alookup (x, id) m.buckets = some r ∧ r.owner = x ∧ P r.funds nf ∧
      m' = { m with buckets := ainsert (x, id) { r with funds := nf } m.buckets }
  | .createListing id c =>
    ∃ wl ask, findById id m.listings = none ∧ id ∉ m.listingUsed ∧
      checkWhitelist x c.whitelist = some wl ∧ validateAsk c.ask = some ask ∧
      m' = { m with listings := ainsert (x, id) (newListing x id wl g0 ask) m.listings,
                    listingUsed := id :: m.listingUsed }
  | .addToListing id =>
    ∃ l nf, alookup (x, id) m.listings = some l ∧ l.creator = x ∧ l.status = .preparing ∧
      l.claimant = none ∧ P l.forSale nf ∧
      m' = { m with listings := ainsert (x, id) { l with forSale := nf } m.listings }

theorem DepositRecords.mono {m m' : Market} {x : Nat} {g0 : GBal} {P Q : GBal → GBal → Prop}
    (hPQ : ∀ g nf, P g nf → Q g nf) {i : Inner} (h : DepositRecords m m' x g0 P i) :
    DepositRecords m m' x g0 Q i := by
  cases i with
  | createBucket id => exact h
  | createListing id c => exact h
  | addToBucket id =>
    obtain ⟨r, nf, h1, h2, h3, h4⟩ := h
    exact ⟨r, nf, h1, h2, hPQ _ _ h3, h4⟩
  | addToListing id =>
    obtain ⟨l, nf, h1, h2, h3, h4, h5, h6⟩ := h
    exact ⟨l, nf, h1, h2, h3, h4, hPQ _ _ h5, h6⟩

/-- the handler a fungible deposit (`Funds`) of kind `i` by `x` runs -/
def depositFunds (m : Market) (F : Funds) (x : Nat) : Inner → HRes
  | .createListing id c => createListing m x F c id
  | .addToListing id => addToListing m F x id
  | .createBucket id => createBucket m F x id
  | .addToBucket id => addToBucket m F x id

/-- the handler an NFT deposit of kind `i` by `x` runs -/
def depositNft (m : Market) (n : Nft) (x : Nat) : Inner → HRes
  | .createListing id c => createListingNft m x n c id
  | .addToListing id => addToListingNft m x n id
  | .createBucket id => createBucketNft m x n id
  | .addToBucket id => addToBucketNft m x n id

theorem depositFunds_spec {m m' : Market} {F : Funds} {x : Nat} {i : Inner} {out : List OutMsg}
    (h : depositFunds m F x i = .ok (m', out)) :
    out = [] ∧ normalizedCheck F = true ∧
    DepositRecords m m' x (fromBalance F) (fun g nf => addTokens g F = some nf) i := by
  cases i with
  | createBucket id =>
    simp only [depositFunds] at h
    unfold createBucket at h
    obtain ⟨_, h⟩ := ite_err_ok h
    obtain ⟨h2, h⟩ := ite_err_ok h
    obtain ⟨h3, h⟩ := ite_err_ok h
    obtain ⟨h4, h⟩ := ite_err_ok h
    simp only [Except.ok.injEq, Prod.mk.injEq] at h
    obtain ⟨rfl, rfl⟩ := h
    exact ⟨rfl, by simpa using h4, isSome_false_none h3, h2, rfl⟩
  | addToBucket id =>
    simp only [depositFunds] at h
    unfold addToBucket at h
    obtain ⟨h1, h⟩ := ite_err_ok h
    split at h
    · cases h
    rename_i b hb
    obtain ⟨h2, h⟩ := ite_err_ok h
    split at h
    · cases h
    rename_i nf hnf
    obtain ⟨_, h⟩ := ite_err_ok h
    obtain ⟨_, h⟩ := ite_err_ok h
    simp only [Except.ok.injEq, Prod.mk.injEq] at h
    obtain ⟨rfl, rfl⟩ := h
    have ho : b.owner = x := by
      have : x = b.owner := by simpa using h2
      exact this.symm
    exact ⟨rfl, by simpa using h1, b, nf, hb, ho, hnf, rfl⟩
  | createListing id c =>
    simp only [depositFunds] at h
    unfold createListing at h
    obtain ⟨_, h⟩ := ite_err_ok h
    obtain ⟨h2, h⟩ := ite_err_ok h
    obtain ⟨h3, h⟩ := ite_err_ok h
    obtain ⟨h4, h⟩ := ite_err_ok h
    split at h
    · cases h
    rename_i wl hwl
    split at h
    · cases h
    rename_i ask hask
    simp only [Except.ok.injEq, Prod.mk.injEq] at h
    obtain ⟨rfl, rfl⟩ := h
    exact ⟨rfl, by simpa using h2, wl, ask, isSome_false_none h4, h3, hwl, hask, rfl⟩
  | addToListing id =>
    simp only [depositFunds] at h
    unfold addToListing at h
    obtain ⟨h1, h⟩ := ite_err_ok h
    split at h
    · cases h
    rename_i l hl
    obtain ⟨h2, h⟩ := ite_err_ok h
    obtain ⟨h3, h⟩ := ite_err_ok h
    obtain ⟨h4, h⟩ := ite_err_ok h
    split at h
    · cases h
    rename_i nf hnf
    obtain ⟨_, h⟩ := ite_err_ok h
    obtain ⟨_, h⟩ := ite_err_ok h
    simp only [Except.ok.injEq, Prod.mk.injEq] at h
    obtain ⟨rfl, rfl⟩ := h
    have ho : l.creator = x := by
      have : x = l.creator := by simpa using h2
      exact this.symm
    exact ⟨rfl, by simpa using h1, l, nf, hl, ho, by simpa using h3, isSome_false_none h4, hnf, rfl⟩

theorem depositNft_spec {m m' : Market} {n : Nft} {x : Nat} {i : Inner} {out : List OutMsg}
    (h : depositNft m n x i = .ok (m', out)) :
    out = [] ∧ DepositRecords m m' x (fromNft n) (fun g nf => nf = addNft g n) i := by
  cases i with
  | createBucket id =>
    simp only [depositNft] at h
    unfold createBucketNft at h
    obtain ⟨_, h⟩ := ite_err_ok h
    obtain ⟨h2, h⟩ := ite_err_ok h
    obtain ⟨h3, h⟩ := ite_err_ok h
    simp only [Except.ok.injEq, Prod.mk.injEq] at h
    obtain ⟨rfl, rfl⟩ := h
    exact ⟨rfl, isSome_false_none h3, h2, rfl⟩
  | addToBucket id =>
    simp only [depositNft] at h
    unfold addToBucketNft at h
    split at h
    · cases h
    rename_i b hb
    obtain ⟨h2, h⟩ := ite_err_ok h
    dsimp only at h
    obtain ⟨_, h⟩ := ite_err_ok h
    obtain ⟨_, h⟩ := ite_err_ok h
    simp only [Except.ok.injEq, Prod.mk.injEq] at h
    obtain ⟨rfl, rfl⟩ := h
    have ho : b.owner = x := by
      have : x = b.owner := by simpa using h2
      exact this.symm
    exact ⟨rfl, b, _, hb, ho, rfl, rfl⟩
  | createListing id c =>
    simp only [depositNft] at h
    unfold createListingNft at h
    obtain ⟨_, h⟩ := ite_err_ok h
    obtain ⟨h3, h⟩ := ite_err_ok h
    obtain ⟨h4, h⟩ := ite_err_ok h
    split at h
    · cases h
    rename_i wl hwl
    split at h
    · cases h
    rename_i ask hask
    simp only [Except.ok.injEq, Prod.mk.injEq] at h
    obtain ⟨rfl, rfl⟩ := h
    exact ⟨rfl, wl, ask, isSome_false_none h4, h3, hwl, hask, rfl⟩
  | addToListing id =>
    simp only [depositNft] at h
    unfold addToListingNft at h
    split at h
    · cases h
    rename_i l hl
    obtain ⟨h2, h⟩ := ite_err_ok h
    obtain ⟨h3, h⟩ := ite_err_ok h
    obtain ⟨h4, h⟩ := ite_err_ok h
    dsimp only at h
    obtain ⟨_, h⟩ := ite_err_ok h
    obtain ⟨_, h⟩ := ite_err_ok h
    simp only [Except.ok.injEq, Prod.mk.injEq] at h
    obtain ⟨rfl, rfl⟩ := h
    have ho : l.creator = x := by
      have : x = l.creator := by simpa using h2
      exact this.symm
    exact ⟨rfl, l, _, hl, ho, by simpa using h3, isSome_false_none h4, rfl, rfl⟩

/-- a native top-up adds exactly the attached coins, per denomination, and nothing else -/
theorem addTokens_native {g nf : GBal} {cs : List Coin} (h : addTokens g (.native cs) = some nf) :
    (∀ d, coinAmt nf.native d = coinAmt g.native d + coinAmt cs d) ∧ nf.cw20 = g.cw20 ∧
    nf.nfts = g.nfts := by
  simp only [addTokens] at h
  split at h
  · cases h
  · rename_i n hn
    simp only [Option.some.injEq] at h
    subst h
    exact ⟨fun d => coinAmt_addCoins hn d, rfl, rfl⟩

/-- a CW20 top-up adds exactly the sent amount of exactly that token, and nothing else -/
theorem addTokens_cw20 {g nf : GBal} {c : Coin} (h : addTokens g (.cw20 c) = some nf) :
    nf.native = g.native ∧
    (∀ t, coinAmt nf.cw20 t = coinAmt g.cw20 t + (if c.key = t then c.amount else 0)) ∧
    nf.nfts = g.nfts := by
  simp only [addTokens] at h
  split at h
  · cases h
  · rename_i n hn
    simp only [Option.some.injEq] at h
    subst h
    exact ⟨rfl, fun t => coinAmt_addCoin hn t, rfl⟩

theorem execute_toExec (m : Market) (env : Env) (x : Nat) (funds : List Coin) (i : Inner) :
    execute m env x funds i.toExec = depositFunds m (.native funds) x i := by
  cases i <;> simp [execute, Inner.toExec, ExecMsg.takesCoins, depositFunds]

theorem execute_receive_ok {m : Market} {env : Env} {t x amount : Nat} {inner : Option Inner}
    {r : Market × List OutMsg}
    (h : execute m env t [] (.receive (.valid x) amount inner) = .ok r) :
    ∃ i, inner = some i ∧ depositFunds m (.cw20 ⟨t, amount⟩) x i = .ok r := by
  have h' : receive m env t [] (.valid x) amount inner = .ok r := by
    simpa [execute, ExecMsg.takesCoins] using h
  unfold receive at h'
  obtain ⟨_, h'⟩ := ite_err_ok h'
  obtain ⟨_, h'⟩ := ite_err_ok h'
  cases inner with
  | none => cases h'
  | some i =>
    refine ⟨i, rfl, ?_⟩
    simp only [rawValid] at h'
    cases i <;> exact h'

theorem execute_receiveNft_ok {m : Market} {env : Env} {c x tid : Nat} {inner : Option Inner}
    {r : Market × List OutMsg}
    (h : execute m env c [] (.receiveNft (.valid x) tid inner) = .ok r) :
    ∃ i, inner = some i ∧ depositNft m ⟨c, tid⟩ x i = .ok r := by
  have h' : receiveNft m env c [] (.valid x) tid inner = .ok r := by
    simpa [execute, ExecMsg.takesCoins] using h
  unfold receiveNft at h'
  obtain ⟨_, h'⟩ := ite_err_ok h'
  obtain ⟨_, h'⟩ := ite_err_ok h'
  cases inner with
  | none => cases h'
  | some i =>
    refine ⟨i, rfl, ?_⟩
    simp only [rawValid] at h'
    cases i <;> exact h'

/-! ### `step` for the three deposit paths -/

theorem dispatchAll_nil_eq {fail : Nat → Bool} {w w2 : World} {i : Nat}
    (h : dispatchAll fail w [] i = some w2) : w2 = w := by
  simp only [dispatchAll, Option.some.injEq] at h
  exact h.symm

/-- an accepted direct deposit: the bank moved the attached coins from `x` to the marketplace, the
    handler accepted on the pre-state record table, no message was emitted, and the new world is
    the old one with exactly the bank ledger and the record table replaced -/
theorem step_deposit_native {w : World} {x : Nat} {funds : List Coin} {i : Inner}
    (h : (step w (.exec x funds i.toExec)).2.ok = true) :
    ∃ b m', bankSend w.bank x w.self funds = some b ∧ normalizedCheck (.native funds) = true ∧
      DepositRecords w.mkt m' x ⟨funds, [], []⟩
        (fun g nf => addTokens g (.native funds) = some nf) i ∧
      step w (.exec x funds i.toExec) = ({ w with bank := b, mkt := m' }, ⟨true, none, []⟩) := by
  unfold step at h ⊢
  rcases stepF_cases (fail := noFault) (w := w) (op := .exec x funds i.toExec) rfl with
    ⟨e, he⟩ | ⟨w1, m', msgs, w2, hD, hx, hd, hs⟩
  · rw [he] at h; cases h
  · rw [execute_toExec] at hx
    obtain ⟨rfl, hn, hrec⟩ := depositFunds_spec hx
    have := dispatchAll_nil_eq hd
    subst this
    rcases hD with ⟨rfl, _⟩ | ⟨b, hb, rfl⟩
    · simp [normalizedCheck] at hn
    · exact ⟨b, m', hb, hn, hrec, hs⟩

/-- an accepted CW20 `Send`: the (honest) token contract moved `amount` from `x` to the marketplace
    and called the hook; no message was emitted; exactly the token ledger and the record table
    are replaced -/
theorem step_deposit_cw20 {w : World} {t x amount : Nat} {inner : Option Inner}
    (h : (step w (.send20 t x amount inner)).2.ok = true) :
    ∃ i l m', inner = some i ∧ w.isHonest20 t = true ∧ amount ≠ 0 ∧
      ledgerMove w.cw20 t x w.self amount = some l ∧
      DepositRecords w.mkt m' x ⟨[], [⟨t, amount⟩], []⟩
        (fun g nf => addTokens g (.cw20 ⟨t, amount⟩) = some nf) i ∧
      step w (.send20 t x amount inner) = ({ w with cw20 := l, mkt := m' }, ⟨true, none, []⟩) := by
  unfold step at h ⊢
  rcases stepF_cases (fail := noFault) (w := w) (op := .send20 t x amount inner) rfl with
    ⟨e, he⟩ | ⟨w1, m', msgs, w2, hD, hx, hd, hs⟩
  · rw [he] at h; cases h
  · obtain ⟨i, rfl, hx2⟩ := execute_receive_ok hx
    obtain ⟨rfl, hn, hrec⟩ := depositFunds_spec hx2
    have := dispatchAll_nil_eq hd
    subst this
    obtain ⟨hh, l, hl, rfl⟩ := hD
    exact ⟨i, l, m', rfl, hh, by simpa [normalizedCheck] using hn, hl, hrec, hs⟩

/-- an accepted CW721 `SendNft`: the (honest) collection made the marketplace the owner of the NFT
    `x` owned and called the hook; no message was emitted; exactly the NFT ledger and the record
    table are replaced -/
theorem step_deposit_nft {w : World} {c x tid : Nat} {inner : Option Inner}
    (h : (step w (.send721 c x tid inner)).2.ok = true) :
    ∃ i m', inner = some i ∧ w.isHonest721 c = true ∧ alookup (c, tid) w.nft = some x ∧
      DepositRecords w.mkt m' x ⟨[], [], [⟨c, tid⟩]⟩ (fun g nf => nf = addNft g ⟨c, tid⟩) i ∧
      step w (.send721 c x tid inner) =
        ({ w with nft := lset w.nft (c, tid) w.self, mkt := m' }, ⟨true, none, []⟩) := by
  unfold step at h ⊢
  rcases stepF_cases (fail := noFault) (w := w) (op := .send721 c x tid inner) rfl with
    ⟨e, he⟩ | ⟨w1, m', msgs, w2, hD, hx, hd, hs⟩
  · rw [he] at h; cases h
  · obtain ⟨i, rfl, hx2⟩ := execute_receiveNft_ok hx
    obtain ⟨rfl, hrec⟩ := depositNft_spec hx2
    have := dispatchAll_nil_eq hd
    subst this
    obtain ⟨hh, hown, rfl⟩ := hD
    exact ⟨i, m', rfl, hh, hown, hrec, hs⟩

theorem normalizedCheck_native {cs : List Coin} (h : normalizedCheck (.native cs) = true) :
    cs ≠ [] ∧ (∀ c ∈ cs, c.amount ≠ 0) ∧ (keys cs).Nodup := by
  simp only [normalizedCheck, Bool.and_eq_true, decide_eq_true_eq, allNonzero_iff] at h
  refine ⟨?_, h.1.2, h.2⟩
  intro e
  rw [e] at h
  simp at h

/-- the id a deposit message names -/
def Inner.id : Inner → Nat
  | .createListing id _ => id
  | .addToListing id => id
  | .createBucket id => id
  | .addToBucket id => id

/-! ## §7 which token contracts and collections the records name, and who owns the records

An invariant of the record tables that every accepted message preserves, as long as hook calls
come from contracts satisfying `H20` / `H721` (used with "is an honest token / collection"): every
CW20 entry of every record names a contract satisfying `H20`, every NFT a collection satisfying
`H721`, and no record is owned by `self`. -/

/-- every CW20 entry names a contract satisfying `H20`, every NFT a collection satisfying `H721` -/
structure GBal.keysOk (H20 H721 : Nat → Prop) (g : GBal) : Prop where
  cw20 : ∀ c ∈ g.cw20, H20 c.key
  nfts : ∀ n ∈ g.nfts, H721 n.coll

abbrev LOk (H20 H721 : Nat → Prop) (me : Nat) : (Nat × Nat) × Listing → Prop :=
  fun p => GBal.keysOk H20 H721 p.2.forSale ∧ p.2.creator ≠ me
abbrev BOk (H20 H721 : Nat → Prop) (me : Nat) : (Nat × Nat) × Bucket → Prop :=
  fun p => GBal.keysOk H20 H721 p.2.funds ∧ p.2.owner ≠ me

/-- every record's balance is `keysOk`, and no record is owned by `me` -/
structure RecInv (H20 H721 : Nat → Prop) (me : Nat) (m : Market) : Prop where
  lst : ∀ p ∈ m.listings, LOk H20 H721 me p
  bkt : ∀ p ∈ m.buckets, BOk H20 H721 me p

/-- the token contract a fungible deposit names (none for native coins) satisfies `H20` -/
def Funds.tokenOk (H20 : Nat → Prop) : Funds → Prop
  | .native _ => True
  | .cw20 c => H20 c.key

theorem GBal.keysOk.imp {H20 H721 H20' H721' : Nat → Prop} (h1 : ∀ a, H20 a → H20' a)
    (h2 : ∀ a, H721 a → H721' a) {g : GBal} (h : GBal.keysOk H20 H721 g) : GBal.keysOk H20' H721' g :=
  ⟨fun c hc => h1 _ (h.1 c hc), fun n hn => h2 _ (h.2 n hn)⟩

theorem RecInv.imp {H20 H721 H20' H721' : Nat → Prop} (h1 : ∀ a, H20 a → H20' a)
    (h2 : ∀ a, H721 a → H721' a) {me : Nat} {m : Market} (h : RecInv H20 H721 me m) :
    RecInv H20' H721' me m :=
  ⟨fun p hp => ⟨(h.lst p hp).1.imp h1 h2, (h.lst p hp).2⟩,
   fun p hp => ⟨(h.bkt p hp).1.imp h1 h2, (h.bkt p hp).2⟩⟩

/-- an upper bound for all expiry times of a listing table -/
theorem expiry_le_sum {ls : List ((Nat × Nat) × Listing)} {p : (Nat × Nat) × Listing} (hp : p ∈ ls)
    {e : Nat} (he : p.2.expiresAt = some e) : e ≤ (ls.map fun q => q.2.expiresAt.getD 0).sum := by
  induction ls with
  | nil => cases hp
  | cons q ls ih =>
    rw [List.map_cons, List.sum_cons]
    rcases List.mem_cons.1 hp with rfl | hp
    · rw [he]; simp
    · have := ih hp; omega

section recinv
variable {H20 H721 : Nat → Prop}

theorem forall_key_iff (H : Nat → Prop) (l : List Coin) : (∀ c ∈ l, H c.key) ↔ ∀ k ∈ keys l, H k := by
  unfold keys
  constructor
  · intro h k hk
    obtain ⟨c, hc, rfl⟩ := List.mem_map.1 hk
    exact h c hc
  · intro h c hc
    exact h _ (List.mem_map.2 ⟨c, hc, rfl⟩)

theorem keysOk_of_eq {g g' : GBal} (h : GBal.keysOk H20 H721 g) (h1 : keys g'.cw20 = keys g.cw20)
    (h2 : g'.nfts = g.nfts) : GBal.keysOk H20 H721 g' := by
  refine ⟨?_, by rw [h2]; exact h.2⟩
  rw [forall_key_iff, h1, ← forall_key_iff]
  exact h.1

theorem fromBalance_keysOk {F : Funds} (hF : F.tokenOk H20) :
    GBal.keysOk H20 H721 (fromBalance F) := by
  cases F with
  | native cs => exact ⟨fun c hc => (by cases hc), fun n hn => (by cases hn)⟩
  | cw20 c =>
    refine ⟨fun c' hc' => ?_, fun n hn => (by cases hn)⟩
    simp only [fromBalance, List.mem_singleton] at hc'
    subst hc'
    exact hF

theorem addTokens_keysOk {g nf : GBal} {F : Funds} (h : addTokens g F = some nf)
    (hg : GBal.keysOk H20 H721 g) (hF : F.tokenOk H20) : GBal.keysOk H20 H721 nf := by
  cases F with
  | native cs =>
    obtain ⟨_, h2, h3⟩ := addTokens_native h
    exact keysOk_of_eq hg (by rw [h2]) h3
  | cw20 c =>
    simp only [addTokens] at h
    split at h
    · cases h
    · rename_i n hn
      simp only [Option.some.injEq] at h
      subst h
      refine ⟨?_, hg.2⟩
      rw [forall_key_iff]
      show ∀ k ∈ keys n, H20 k
      rw [addCoin_keys hn]
      have h1 := (forall_key_iff H20 g.cw20).1 hg.1
      split
      · exact h1
      · intro k hk
        rcases List.mem_append.1 hk with hk | hk
        · exact h1 k hk
        · simp only [List.mem_singleton] at hk
          subst hk
          exact hF

theorem addNft_keysOk {g : GBal} {n : Nft} (hg : GBal.keysOk H20 H721 g) (hn : H721 n.coll) :
    GBal.keysOk H20 H721 (addNft g n) := by
  refine ⟨hg.1, fun n' hn' => ?_⟩
  simp only [addNft, List.mem_append, List.mem_singleton] at hn'
  rcases hn' with hn' | rfl
  · exact hg.2 n' hn'
  · exact hn

theorem calcFeeCoin_keysOk {fd : Nat} {g g' : GBal} {fee : Option Coin}
    (h : calcFeeCoin fd g = some (fee, g')) (hg : GBal.keysOk H20 H721 g) :
    GBal.keysOk H20 H721 g' := by
  rcases calcFeeCoin_cases h with ⟨_, _, rfl⟩ | ⟨_, _, _, _, rfl⟩ | ⟨_, _, _, _, rfl⟩
  · exact hg
  · exact hg
  · exact ⟨hg.1, hg.2⟩

theorem sideRoyalties_keysOk {env : Env} {ra : Nat} {cols : List Nat} {bal g : GBal}
    {ms : List OutMsg} {s : Nat} (h : sideRoyalties env ra cols bal = .ok g ms s)
    (hg : GBal.keysOk H20 H721 bal) : GBal.keysOk H20 H721 g := by
  unfold sideRoyalties at h
  split at h
  · cases h; exact hg
  · split at h
    · cases h
    · obtain ⟨_, _, rfl, _⟩ := royalties_closed h
      exact keysOk_of_eq hg (keys_map_royRem _ _) rfl

/-- what the handler behind each message is (the coin gate passed) -/
theorem execute_ok_handler {m : Market} {env : Env} {s : Nat} {f : List Coin} {msg : ExecMsg}
    {r : Market × List OutMsg} (h : execute m env s f msg = .ok r) :
    (match msg with
      | .feeCycle => cycleFee m env
      | .receive sd a i => receive m env s f sd a i
      | .receiveNft sd t i => receiveNft m env s f sd t i
      | .createListing id c => createListing m s (.native f) c id
      | .addToListing id => addToListing m (.native f) s id
      | .changeAsk id ask => changeAsk m s id ask
      | .finalize id sec => finalize m env s id sec
      | .deleteListing id => deleteListing m env s id
      | .createBucket id => createBucket m (.native f) s id
      | .addToBucket id => addToBucket m (.native f) s id
      | .removeBucket id => withdrawBucket m env s id
      | .buy lid bid => buy m env s lid bid
      | .withdrawPurchased lid => withdrawPurchased m env s lid) = .ok r := by
  unfold execute at h
  obtain ⟨_, h⟩ := ite_err_ok h
  exact h

theorem receive_ok_deposit {m : Market} {env : Env} {t : Nat} {f : List Coin} {sd : RawAddr}
    {amount : Nat} {inner : Option Inner} {r : Market × List OutMsg}
    (h : receive m env t f sd amount inner = .ok r) :
    ∃ x i, sd = .valid x ∧ inner = some i ∧ depositFunds m (.cw20 ⟨t, amount⟩) x i = .ok r := by
  unfold receive at h
  obtain ⟨_, h⟩ := ite_err_ok h
  obtain ⟨_, h⟩ := ite_err_ok h
  cases inner with
  | none => cases h
  | some i =>
    cases sd with
    | invalid => cases h
    | valid x =>
      refine ⟨x, i, rfl, rfl, ?_⟩
      simp only [rawValid] at h
      cases i <;> exact h

theorem receiveNft_ok_deposit {m : Market} {env : Env} {c : Nat} {f : List Coin} {sd : RawAddr}
    {tid : Nat} {inner : Option Inner} {r : Market × List OutMsg}
    (h : receiveNft m env c f sd tid inner = .ok r) :
    ∃ x i, sd = .valid x ∧ inner = some i ∧ depositNft m ⟨c, tid⟩ x i = .ok r := by
  unfold receiveNft at h
  obtain ⟨_, h⟩ := ite_err_ok h
  obtain ⟨_, h⟩ := ite_err_ok h
  cases inner with
  | none => cases h
  | some i =>
    cases sd with
    | invalid => cases h
    | valid x =>
      refine ⟨x, i, rfl, rfl, ?_⟩
      simp only [rawValid] at h
      cases i <;> exact h

/-- a deposit keeps `RecInv` if the deposit itself is fine and the depositor is not `self` -/
theorem DepositRecords.recInv {m m' : Market} {x self : Nat} {g0 : GBal} {P : GBal → GBal → Prop}
    {i : Inner} (h : DepositRecords m m' x g0 P i) (hR : RecInv H20 H721 self m)
    (hx : x ≠ self) (h0 : GBal.keysOk H20 H721 g0)
    (hP : ∀ g nf, P g nf → GBal.keysOk H20 H721 g → GBal.keysOk H20 H721 nf) :
    RecInv H20 H721 self m' := by
  cases i with
  | createBucket id =>
    obtain ⟨_, _, rfl⟩ := h
    exact ⟨hR.lst, forall_mem_ainsert
      (P := BOk H20 H721 self) hR.bkt ⟨h0, hx⟩⟩
  | addToBucket id =>
    obtain ⟨r, nf, h1, h2, h3, rfl⟩ := h
    have := hR.bkt _ (alookup_some_mem h1)
    exact ⟨hR.lst, forall_mem_ainsert
      (P := BOk H20 H721 self) hR.bkt
      ⟨hP _ _ h3 this.1, this.2⟩⟩
  | createListing id c =>
    obtain ⟨wl, ask, _, _, _, _, rfl⟩ := h
    exact ⟨forall_mem_ainsert
      (P := LOk H20 H721 self) hR.lst ⟨h0, hx⟩, hR.bkt⟩
  | addToListing id =>
    obtain ⟨l, nf, h1, h2, _, _, h5, rfl⟩ := h
    have := hR.lst _ (alookup_some_mem h1)
    exact ⟨forall_mem_ainsert
      (P := LOk H20 H721 self) hR.lst
      ⟨hP _ _ h5 this.1, this.2⟩, hR.bkt⟩

theorem depositFunds_recInv {m m' : Market} {F : Funds} {x self : Nat} {i : Inner}
    {out : List OutMsg} (h : depositFunds m F x i = .ok (m', out)) (hR : RecInv H20 H721 self m)
    (hx : x ≠ self) (hF : F.tokenOk H20) : RecInv H20 H721 self m' :=
  (depositFunds_spec h).2.2.recInv hR hx (fromBalance_keysOk hF)
    (fun _ _ hP hg => addTokens_keysOk hP hg hF)

theorem depositNft_recInv {m m' : Market} {n : Nft} {x self : Nat} {i : Inner}
    {out : List OutMsg} (h : depositNft m n x i = .ok (m', out)) (hR : RecInv H20 H721 self m)
    (hx : x ≠ self) (hn : H721 n.coll) : RecInv H20 H721 self m' := by
  refine (depositNft_spec h).2.recInv hR hx ⟨fun c hc => (by cases hc), fun n' hn' => ?_⟩
    (fun g nf hP hg => by rw [hP]; exact addNft_keysOk hg hn)
  simp only [fromNft, List.mem_singleton] at hn'
  subst hn'
  exact hn

/-- **Every accepted message preserves `RecInv`**, provided a direct message is not signed by
    `self`, and a hook call comes from a contract satisfying `H20` (resp. `H721`) and does not
    name `self` as the depositor. -/
theorem execute_recInv {m m' : Market} {env : Env} {s self : Nat} {f : List Coin} {msg : ExecMsg}
    {out : List OutMsg} (h : execute m env s f msg = .ok (m', out)) (hR : RecInv H20 H721 self m)
    (hmsg : match msg with
      | .receive sd _ _ => H20 s ∧ sd ≠ .valid self
      | .receiveNft sd _ _ => H721 s ∧ sd ≠ .valid self
      | _ => s ≠ self) : RecInv H20 H721 self m' := by
  have h' := execute_ok_handler h
  cases msg with
  | feeCycle =>
    simp only at h'
    unfold cycleFee at h'
    dsimp only at h'
    obtain ⟨_, h'⟩ := ite_err_ok h'
    simp only [Except.ok.injEq, Prod.mk.injEq] at h'
    obtain ⟨rfl, _⟩ := h'
    exact ⟨hR.lst, hR.bkt⟩
  | receive sd a i =>
    simp only at h' hmsg
    obtain ⟨x, i', rfl, rfl, hd⟩ := receive_ok_deposit h'
    exact depositFunds_recInv hd hR (fun e => hmsg.2 (by rw [e])) hmsg.1
  | receiveNft sd t i =>
    simp only at h' hmsg
    obtain ⟨x, i', rfl, rfl, hd⟩ := receiveNft_ok_deposit h'
    exact depositNft_recInv hd hR (fun e => hmsg.2 (by rw [e])) hmsg.1
  | createListing id c =>
    exact depositFunds_recInv (i := .createListing id c) h' hR hmsg trivial
  | addToListing id =>
    exact depositFunds_recInv (i := .addToListing id) h' hR hmsg trivial
  | createBucket id =>
    exact depositFunds_recInv (i := .createBucket id) h' hR hmsg trivial
  | addToBucket id =>
    exact depositFunds_recInv (i := .addToBucket id) h' hR hmsg trivial
  | changeAsk id ask =>
    simp only at h'
    unfold changeAsk at h'
    split at h'
    · cases h'
    rename_i l hl
    obtain ⟨_, h'⟩ := ite_err_ok h'
    obtain ⟨_, h'⟩ := ite_err_ok h'
    obtain ⟨_, h'⟩ := ite_err_ok h'
    obtain ⟨_, h'⟩ := ite_err_ok h'
    split at h'
    · cases h'
    simp only [Except.ok.injEq, Prod.mk.injEq] at h'
    obtain ⟨rfl, _⟩ := h'
    have t := hR.lst _ (alookup_some_mem hl)
    exact ⟨forall_mem_ainsert (P := LOk H20 H721 self) hR.lst ⟨t.1, t.2⟩, hR.bkt⟩
  | finalize id sec =>
    simp only at h'
    unfold finalize at h'
    split at h'
    · cases h'
    rename_i l hl
    obtain ⟨_, h'⟩ := ite_err_ok h'
    obtain ⟨_, h'⟩ := ite_err_ok h'
    obtain ⟨_, h'⟩ := ite_err_ok h'
    obtain ⟨_, h'⟩ := ite_err_ok h'
    obtain ⟨_, h'⟩ := ite_err_ok h'
    dsimp only at h'
    simp only [Except.ok.injEq, Prod.mk.injEq] at h'
    obtain ⟨rfl, _⟩ := h'
    have t := hR.lst _ (alookup_some_mem hl)
    exact ⟨forall_mem_ainsert (P := LOk H20 H721 self) hR.lst ⟨t.1, t.2⟩, hR.bkt⟩
  | deleteListing id =>
    obtain ⟨_, _, _, _, _, rfl, _⟩ := deleteListing_spec h'
    exact ⟨forall_mem_aerase
      (P := LOk H20 H721 self) hR.lst _, hR.bkt⟩
  | removeBucket id =>
    obtain ⟨_, _, _, rfl, _⟩ := withdrawBucket_spec h'
    exact ⟨hR.lst, forall_mem_aerase
      (P := BOk H20 H721 self) hR.bkt _⟩
  | withdrawPurchased lid =>
    obtain ⟨_, _, _, _, _, rfl, _⟩ := withdrawPurchased_spec h'
    exact ⟨forall_mem_aerase
      (P := LOk H20 H721 self) hR.lst _, hR.bkt⟩
  | buy lid bid =>
    obtain ⟨k, l, b, lfee, lbal, bfee, bbal, ra, fb, msgs1, s1, fl, msgs2, s2, hb, hl, _, _, e1, e2, _,
      hr1, hr2, rfl, _⟩ := buy_ok_inv h'
    have hL := hR.lst _ (findById_some hl).2
    have hB := hR.bkt _ (alookup_some_mem hb)
    refine ⟨forall_mem_ainsert
      (P := LOk H20 H721 self)
      (forall_mem_aerase (P := LOk H20 H721 self)
        hR.lst _) ⟨sideRoyalties_keysOk hr2 (calcFeeCoin_keysOk e1 hL.1), hmsg⟩,
      forall_mem_ainsert (P := BOk H20 H721 self)
      (forall_mem_aerase (P := BOk H20 H721 self)
        hR.bkt _) ⟨sideRoyalties_keysOk hr1 (calcFeeCoin_keysOk e2 hB.1), hL.2⟩⟩

end recinv

end Fuzion
