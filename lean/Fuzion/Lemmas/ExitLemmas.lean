/-
  Fuzion.Lemmas.ExitLemmas — helper lemmas for C05 ("deposits and payouts move exactly the stated
  assets to the right party") and C07 ("nothing gets stuck").

  Layout
  * §1  when the chain accepts a payout: `bankSub` / `bankSend` / `dispatch1` / `dispatchAll`
        succeed on the message list `withdrawMsgs self to g fee` if the marketplace holds what the
        list names (`withdraw_dispatch_ok`);
  * §2  what a successful dispatch of `withdrawMsgs` does to every account: exact receipts
        (`outBy_rNat_withdrawMsgs`, `outBy_r20_withdrawMsgs`), the NFT ledger entry by entry
        (`dispatchAll_nft_exact`), non-honest token ledgers (`dispatchAll_cw20_other`);
  * §3  exact handler specifications of the eight deposit handlers (`DepositRecords`);
  * §4  `step` for deposits and exits: the world after an accepted deposit / exit message;
  * §5  one record's share of the obligations (`asum_ge_of_mem`, `owedNative_ge_*`).
  Core library only.
-/
import Fuzion.Lemmas.AcctLemmas
import Fuzion.Lemmas.FrameLemmas
import Fuzion.Lemmas.InvLemmas
namespace Fuzion

/-! ## §1 when the chain accepts a payout -/

/-- the bank can take a duplicate-free coin list from `a` if `a` holds each listed amount -/
theorem bankSub_ok {a : Nat} {cs : List Coin} (nd : (keys cs).Nodup) :
    ∀ {bank : Ledger}, (∀ c ∈ cs, c.amount ≤ lget bank (a, c.key)) → ∃ b, bankSub bank a cs = some b := by
  induction cs with
  | nil => intro bank _; exact ⟨bank, rfl⟩
  | cons c cs ih =>
    intro bank h
    have e2 : keys (c :: cs) = c.key :: keys cs := rfl
    rw [e2, List.nodup_cons] at nd
    have hc := h c List.mem_cons_self
    simp only [bankSub]
    rw [if_neg (by omega)]
    refine ih nd.2 ?_
    intro c' hc'
    have hne : (a, c'.key) ≠ (a, c.key) := by
      intro e
      injection e with _ e
      exact nd.1 (e ▸ List.mem_map.2 ⟨c', hc', rfl⟩)
    rw [lget_lset_ne _ hne]
    exact h c' (List.mem_cons_of_mem _ hc')

/-- a non-empty, zero-free, duplicate-free coin list covered per denomination is sent -/
theorem bankSend_ok {bank : Ledger} {src dst : Nat} {cs : List Coin} (hne : cs ≠ [])
    (hz : ∀ c ∈ cs, c.amount ≠ 0) (nd : (keys cs).Nodup)
    (h : ∀ d, coinAmt cs d ≤ lget bank (src, d)) : ∃ b, bankSend bank src dst cs = some b := by
  have hf : cs.filter (fun c => decide (c.amount ≠ 0)) = cs :=
    List.filter_eq_self.2 (fun c hc => by simpa using hz c hc)
  unfold bankSend
  dsimp only
  rw [hf]
  have : cs.isEmpty = false := by
    cases cs with
    | nil => exact absurd rfl hne
    | cons _ _ => rfl
  rw [this]
  obtain ⟨b, hb⟩ := bankSub_ok (a := src) nd (bank := bank) (by
    intro c hc
    rw [← coinAmt_of_mem nd hc]
    exact h c.key)
  rw [if_neg (by simp), hb]
  exact ⟨_, rfl⟩

theorem dispatch1_bankSend_ok {w : World} {to : Nat} {cs : List Coin} (hne : cs ≠ [])
    (hz : ∀ c ∈ cs, c.amount ≠ 0) (nd : (keys cs).Nodup)
    (h : ∀ d, coinAmt cs d ≤ lget w.bank (w.self, d)) :
    ∃ b, dispatch1 w (.bankSend to cs) = some { w with bank := b } := by
  obtain ⟨b, hb⟩ := bankSend_ok (dst := to) hne hz nd h
  exact ⟨b, by simp only [dispatch1, hb]⟩

theorem dispatch1_fundPool_ok {w : World} {f : Coin} (hz : f.amount ≠ 0)
    (h : f.amount ≤ lget w.bank (w.self, f.key)) :
    ∃ b, dispatch1 w (.fundPool w.self f) = some { w with bank := b } := by
  obtain ⟨b, hb⟩ := bankSend_ok (bank := w.bank) (src := w.self) (dst := w.pool) (cs := [f])
    (by simp) (by simpa using hz) (by simp [keys]) (by
      intro d
      rw [coinAmt_cons, coinAmt_nil]
      split
      · rename_i e; subst e; simpa using h
      · simp)
  refine ⟨b, ?_⟩
  simp only [dispatch1, hb, ne_eq, not_true_eq_false, if_false]

/-- the CW20 stage: one transfer per entry, distinct honest tokens, each covered -/
theorem dispatchAll_cw20_ok {to : Nat} {cs : List Coin} (nd : (keys cs).Nodup) :
    ∀ {w : World} (i : Nat), (∀ c ∈ cs, c.amount ≠ 0) → (∀ c ∈ cs, w.isHonest20 c.key = true) →
      (∀ c ∈ cs, c.amount ≤ lget w.cw20 (c.key, w.self)) →
      ∃ l, dispatchAll noFault w (cs.map fun c => OutMsg.cw20Transfer c.key to c.amount) i =
        some { w with cw20 := l } := by
  induction cs with
  | nil => intro w i _ _ _; exact ⟨w.cw20, rfl⟩
  | cons c cs ih =>
    intro w i hz hh hb
    have e2 : keys (c :: cs) = c.key :: keys cs := rfl
    rw [e2, List.nodup_cons] at nd
    obtain ⟨ci, hk, hk1⟩ := isHonest20_kind (hh c List.mem_cons_self)
    have hc := hb c List.mem_cons_self
    have hzc := hz c List.mem_cons_self
    have hmv : ∃ l, ledgerMove w.cw20 c.key w.self to c.amount = some l := by
      unfold ledgerMove
      rw [if_neg (by omega)]
      exact ⟨_, rfl⟩
    obtain ⟨l, hl⟩ := hmv
    have hd1 : dispatch1 w (.cw20Transfer c.key to c.amount) = some { w with cw20 := l } := by
      simp only [dispatch1, hk, hk1, if_true, hzc, if_false, hl]
    obtain ⟨l2, hl2⟩ := ih nd.2 (w := { w with cw20 := l }) (i + 1)
      (fun c' hc' => hz c' (List.mem_cons_of_mem _ hc'))
      (fun c' hc' => hh c' (List.mem_cons_of_mem _ hc'))
      (by
        intro c' hc'
        have hne : (c'.key, w.self) ≠ (c.key, w.self) := by
          intro e
          injection e with e _
          exact nd.1 (e ▸ List.mem_map.2 ⟨c', hc', rfl⟩)
        have hne2 : (c'.key, w.self) ≠ (c.key, to) := by
          intro e
          injection e with e _
          exact nd.1 (e ▸ List.mem_map.2 ⟨c', hc', rfl⟩)
        have := ledgerMove_lget hl (c'.key, w.self)
        rw [if_neg hne, if_neg hne2] at this
        show c'.amount ≤ lget l (c'.key, w.self)
        have := hb c' (List.mem_cons_of_mem _ hc')
        omega)
    refine ⟨l2, ?_⟩
    simp only [List.map_cons, dispatchAll, noFault, Bool.false_eq_true, if_false, hd1]
    exact hl2

/-- the NFT stage: one transfer per NFT, all distinct, honest collections, each owned -/
theorem dispatchAll_nft_ok {to : Nat} {ns : List Nft} (nd : ns.Nodup) :
    ∀ {w : World} (i : Nat), (∀ n ∈ ns, w.isHonest721 n.coll = true) →
      (∀ n ∈ ns, alookup (n.coll, n.tid) w.nft = some w.self) →
      ∃ l, dispatchAll noFault w (ns.map fun n => OutMsg.nftTransfer n.coll n.tid to) i =
        some { w with nft := l } := by
  induction ns with
  | nil => intro w i _ _; exact ⟨w.nft, rfl⟩
  | cons n ns ih =>
    intro w i hh ho
    rw [List.nodup_cons] at nd
    obtain ⟨ci, hk, hk2⟩ := isHonest721_kind (hh n List.mem_cons_self)
    have hown := ho n List.mem_cons_self
    have hd1 : dispatch1 w (.nftTransfer n.coll n.tid to) =
        some { w with nft := lset w.nft (n.coll, n.tid) to } := by
      simp only [dispatch1, hk, hk2, if_true, hown]
    obtain ⟨l2, hl2⟩ := ih nd.2 (w := { w with nft := lset w.nft (n.coll, n.tid) to }) (i + 1)
      (fun n' hn' => hh n' (List.mem_cons_of_mem _ hn'))
      (by
        intro n' hn'
        have hne : (n'.coll, n'.tid) ≠ (n.coll, n.tid) := by
          intro e
          injection e with e1 e2
          apply nd.1
          have : n' = n := by cases n'; cases n; simp only at e1 e2; subst e1 e2; rfl
          exact this ▸ hn'
        show alookup (n'.coll, n'.tid) (lset w.nft (n.coll, n.tid) to) = some w.self
        rw [lset, alookup_ainsert_ne hne]
        exact ho n' (List.mem_cons_of_mem _ hn'))
    refine ⟨l2, ?_⟩
    simp only [List.map_cons, dispatchAll, noFault, Bool.false_eq_true, if_false, hd1]
    exact hl2

/-- the native stage: at most one bank send carrying the whole native list; afterwards the
    marketplace still holds whatever it held beyond that list -/
theorem dispatchAll_native_ok {w : World} {to : Nat} {cs : List Coin} (i : Nat)
    (hz : ∀ c ∈ cs, c.amount ≠ 0) (nd : (keys cs).Nodup) {extra : Nat → Nat}
    (h : ∀ d, coinAmt cs d + extra d ≤ lget w.bank (w.self, d)) :
    ∃ b, dispatchAll noFault w (if cs.isEmpty then [] else [OutMsg.bankSend to cs]) i =
        some { w with bank := b } ∧ ∀ d, extra d ≤ lget b (w.self, d) := by
  cases cs with
  | nil =>
    refine ⟨w.bank, rfl, fun d => ?_⟩
    have := h d
    rw [coinAmt_nil] at this
    omega
  | cons c cs =>
    obtain ⟨b, hb⟩ := dispatch1_bankSend_ok (w := w) (to := to) (cs := c :: cs) (by simp) hz nd
      (fun d => by have := h d; omega)
    refine ⟨b, ?_, fun d => ?_⟩
    · simp only [List.isEmpty_cons, Bool.false_eq_true, if_false, dispatchAll, noFault, hb]
    · have h1 := dispatch1_bank hb w.self d
      simp only [if_true, pNat] at h1
      have := h d
      show extra d ≤ lget b (w.self, d)
      have e : lget ({ w with bank := b } : World).bank (w.self, d) = lget b (w.self, d) := rfl
      rw [e] at h1
      omega

/-- **The chain accepts a payout.**  If the balance `g` is well-formed, the marketplace's wallet
    covers, per denomination, the native part plus the pending fee, every CW20 entry is an honest
    token of which the marketplace holds at least the recorded amount, and every NFT belongs to an
    honest collection and is owned by the marketplace, then every message of
    `withdrawMsgs self to g fee` is accepted, in order. -/
theorem withdraw_dispatch_ok {w : World} {to : Nat} {g : GBal} {fee : Option Coin}
    (hwf : wfBal g = true) (hfz : ∀ f, fee = some f → f.amount ≠ 0)
    (hbank : ∀ d, coinAmt g.native d + feeAmt fee d ≤ lget w.bank (w.self, d))
    (hh20 : ∀ c ∈ g.cw20, w.isHonest20 c.key = true)
    (hcw : ∀ c ∈ g.cw20, c.amount ≤ lget w.cw20 (c.key, w.self))
    (hh721 : ∀ n ∈ g.nfts, w.isHonest721 n.coll = true)
    (hnft : ∀ n ∈ g.nfts, alookup (n.coll, n.tid) w.nft = some w.self) :
    ∃ w', dispatchAll noFault w (withdrawMsgs w.self to g fee) 0 = some w' := by
  obtain ⟨z1, z2, _, n1, n2, n3⟩ := (wfBal_iff g).1 hwf
  obtain ⟨b1, hb1, hrest⟩ := dispatchAll_native_ok (w := w) (to := to) 0 z1 n1 hbank
  obtain ⟨l2, hl2⟩ := dispatchAll_cw20_ok (to := to) n2 (w := { w with bank := b1 })
    (0 + (if g.native.isEmpty then [] else [OutMsg.bankSend to g.native]).length) z2 hh20 hcw
  obtain ⟨l3, hl3⟩ := dispatchAll_nft_ok (to := to) n3 (w := { w with bank := b1, cw20 := l2 })
    (0 + ((if g.native.isEmpty then [] else [OutMsg.bankSend to g.native]) ++
      g.cw20.map fun c => OutMsg.cw20Transfer c.key to c.amount).length) hh721 hnft
  have hsend : dispatchAll noFault w (sendTokens to g) 0 =
      some { w with bank := b1, cw20 := l2, nft := l3 } := by
    unfold sendTokens
    rw [dispatchAll_append, dispatchAll_append, hb1]
    dsimp only
    rw [hl2]
    dsimp only
    rw [hl3]
  unfold withdrawMsgs
  rw [dispatchAll_append, hsend]
  dsimp only
  cases fee with
  | none => exact ⟨_, rfl⟩
  | some f =>
    obtain ⟨b4, hb4⟩ := dispatch1_fundPool_ok (w := { w with bank := b1, cw20 := l2, nft := l3 })
      (f := f) (hfz f rfl) (by
        have := hrest f.key
        simp only [feeAmt, if_true] at this
        exact this)
    refine ⟨{ w with bank := b4, cw20 := l2, nft := l3 }, ?_⟩
    simp only [dispatchAll, noFault, Bool.false_eq_true, if_false]
    rw [show dispatch1 { w with bank := b1, cw20 := l2, nft := l3 } (OutMsg.fundPool w.self f) =
      some { w with bank := b4, cw20 := l2, nft := l3 } from hb4]

/-! ## §2 what a successful dispatch of a payout does to every account -/

/-- what account `a` receives in denomination `d` from a payout: the goods if it is the payee, the
    fee if it is the community pool -/
theorem outBy_rNat_withdrawMsgs (pool a d self to : Nat) (g : GBal) (fee : Option Coin) :
    outBy (rNat pool a d) (withdrawMsgs self to g fee) =
      (if a = to then coinAmt g.native d else 0) + (if a = pool then feeAmt fee d else 0) := by
  rw [withdrawMsgs_eq, outBy_append]
  congr 1
  · unfold sendTokens
    rw [outBy_append, outBy_append, outBy_map_zero _ _ _ (fun _ => rfl),
      outBy_map_zero _ _ _ (fun _ => rfl)]
    cases hn : g.native with
    | nil => simp [coinAmt_nil]
    | cons c cs => simp [outBy, rNat]
  · cases fee with
    | none => simp [feeMsg, feeAmt]
    | some f => simp [feeMsg, feeAmt, outBy, rNat]

theorem outBy_r20_map (h t to : Nat) (l : List Coin) :
    outBy (r20 h t) (l.map fun c => OutMsg.cw20Transfer c.key to c.amount) =
      if h = to then coinAmt l t else 0 := by
  induction l with
  | nil => simp [coinAmt_nil]
  | cons c l ih =>
    rw [List.map_cons, outBy_cons, ih, coinAmt_cons]
    simp only [r20]
    by_cases e1 : h = to <;> by_cases e2 : c.key = t <;> simp [e1, e2]

/-- what holder `h` receives of token `t` from a payout: the recorded amount if it is the payee -/
theorem outBy_r20_withdrawMsgs (h t self to : Nat) (g : GBal) (fee : Option Coin) :
    outBy (r20 h t) (withdrawMsgs self to g fee) = if h = to then coinAmt g.cw20 t else 0 := by
  rw [withdrawMsgs_eq, outBy_append]
  have hfee : outBy (r20 h t) (feeMsg self fee) = 0 := by cases fee <;> rfl
  rw [hfee, Nat.add_zero]
  unfold sendTokens
  rw [outBy_append, outBy_append, outBy_map_zero _ _ (g.nfts) (fun _ => rfl), outBy_r20_map]
  cases hn : g.native with
  | nil => simp
  | cons c cs => simp [outBy, r20]

/-- one dispatched message either leaves the NFT ledger alone (and is no transfer in an honest
    collection) or is a transfer, in an honest collection, of an NFT the marketplace owns -/
theorem dispatch1_nft_cases {w w' : World} {x : OutMsg} (h : dispatch1 w x = some w') :
    (w'.nft = w.nft ∧ ∀ c t to, x = .nftTransfer c t to → w.isHonest721 c = false) ∨
    (∃ c t to, x = .nftTransfer c t to ∧ w.isHonest721 c = true ∧
      alookup (c, t) w.nft = some w.self ∧ w'.nft = lset w.nft (c, t) to) := by
  cases x with
  | nftTransfer coll tid to =>
    simp only [dispatch1] at h
    split at h
    · cases h
    rename_i ci hci
    split at h
    · rename_i hk
      split at h
      · rename_i hown
        simp only [Option.some.injEq] at h
        subst h
        refine .inr ⟨coll, tid, to, rfl, ?_, hown, rfl⟩
        simp [World.isHonest721, hci, hk]
      · cases h
    · rename_i hk
      split at h
      · rename_i hk3
        split at h
        · cases h
        · simp only [Option.some.injEq] at h
          subst h
          refine .inl ⟨rfl, ?_⟩
          intro c t to' e
          cases e
          simp [World.isHonest721, hci, hk]
      · cases h
  | bankSend to coins =>
    refine .inl ⟨?_, fun _ _ _ e => by cases e⟩
    simp only [dispatch1] at h
    repeat' split at h
    all_goals first
      | (cases h; done)
      | (simp only [Option.some.injEq] at h; subst h; rfl)
  | fundPool dep coin =>
    refine .inl ⟨?_, fun _ _ _ e => by cases e⟩
    simp only [dispatch1] at h
    repeat' split at h
    all_goals first
      | (cases h; done)
      | (simp only [Option.some.injEq] at h; subst h; rfl)
  | cw20Transfer token to amt =>
    refine .inl ⟨?_, fun _ _ _ e => by cases e⟩
    simp only [dispatch1] at h
    repeat' split at h
    all_goals first
      | (cases h; done)
      | (simp only [Option.some.injEq] at h; subst h; rfl)

/-- the NFT a single message transfers away, if any -/
def OutMsg.nfts1 : OutMsg → List Nft
  | .nftTransfer c t _ => [⟨c, t⟩]
  | _ => []

theorem sentNfts_cons (x : OutMsg) (ms : List OutMsg) :
    sentNfts (x :: ms) = x.nfts1 ++ sentNfts ms := by
  cases x <;> rfl

theorem nfts1_not_honest {w : World} {x : OutMsg}
    (hnh : ∀ c t to, x = .nftTransfer c t to → w.isHonest721 c = false) :
    ∀ n ∈ x.nfts1, w.isHonest721 n.coll = false := by
  intro n hn
  cases x with
  | nftTransfer c1 t1 to1 =>
    simp only [OutMsg.nfts1, List.mem_singleton] at hn
    subst hn
    exact hnh c1 t1 to1 rfl
  | _ => simp [OutMsg.nfts1] at hn

/-- **The NFT ledger after a dispatch, entry by entry.**  All NFT transfers of the list go to `to`
    (not the marketplace).  An NFT of an honest collection named by the list was owned by the
    marketplace and is owned by `to` afterwards; every other entry of the ledger is unchanged. -/
theorem dispatchAll_nft_exact {fail : Nat → Bool} {to : Nat} {ms : List OutMsg} :
    ∀ {w w' : World} {i : Nat}, dispatchAll fail w ms i = some w' →
      (∀ c t to', OutMsg.nftTransfer c t to' ∈ ms → to' = to) → to ≠ w.self → ∀ c tid,
      ((w.isHonest721 c = true ∧ (⟨c, tid⟩ : Nft) ∈ sentNfts ms) →
        alookup (c, tid) w'.nft = some to ∧ alookup (c, tid) w.nft = some w.self) ∧
      (¬ (w.isHonest721 c = true ∧ (⟨c, tid⟩ : Nft) ∈ sentNfts ms) →
        alookup (c, tid) w'.nft = alookup (c, tid) w.nft) := by
  induction ms with
  | nil =>
    intro w w' i h _ _ c tid
    simp only [dispatchAll, Option.some.injEq] at h
    subst h
    exact ⟨fun hh => by simp at hh, fun _ => rfl⟩
  | cons x ms ih =>
    intro w w' i h hto hself c tid
    simp only [dispatchAll] at h
    split at h
    · cases h
    split at h
    · cases h
    rename_i w1 h1
    have f1 := (dispatch1_frame h1).1
    have ih' := ih h (fun c t to' hm => hto c t to' (List.mem_cons_of_mem _ hm))
      (by rw [f1.self]; exact hself) c tid
    rw [f1.isHonest721, f1.self] at ih'
    obtain ⟨ih1, ih2⟩ := ih'
    rw [sentNfts_cons]
    rcases dispatch1_nft_cases h1 with ⟨hnft, hnh⟩ | ⟨c0, t0, to0, rfl, hh0, hown, hnft⟩
    · -- the ledger is untouched by `x`
      rw [hnft] at ih1 ih2
      have hmem : (w.isHonest721 c = true ∧ (⟨c, tid⟩ : Nft) ∈ x.nfts1 ++ sentNfts ms) ↔
          (w.isHonest721 c = true ∧ (⟨c, tid⟩ : Nft) ∈ sentNfts ms) := by
        constructor
        · rintro ⟨hc, hm⟩
          refine ⟨hc, ?_⟩
          rcases List.mem_append.1 hm with hm | hm
          · have := nfts1_not_honest hnh _ hm
            simp only at this
            rw [this] at hc
            cases hc
          · exact hm
        · rintro ⟨hc, hm⟩
          exact ⟨hc, List.mem_append_right _ hm⟩
      rw [hmem]
      exact ⟨ih1, ih2⟩
    · -- `x` moves `(c0, t0)` to `to0 = to`
      have hto0 : to0 = to := hto c0 t0 to0 List.mem_cons_self
      subst hto0
      have hl : alookup (c, tid) w1.nft =
          if (c, tid) = (c0, t0) then some to0 else alookup (c, tid) w.nft := by
        rw [hnft, lset, alookup_ainsert]
      simp only [OutMsg.nfts1]
      by_cases hin : w.isHonest721 c = true ∧ (⟨c, tid⟩ : Nft) ∈ sentNfts ms
      · obtain ⟨a1, a2⟩ := ih1 hin
        refine ⟨fun _ => ⟨a1, ?_⟩, fun hn => absurd ⟨hin.1, List.mem_append_right _ hin.2⟩ hn⟩
        rw [hl] at a2
        split at a2
        · injection a2 with a2; exact absurd a2 hself
        · exact a2
      · have a := ih2 hin
        by_cases he : (c, tid) = (c0, t0)
        · injection he with e1 e2
          subst e1 e2
          refine ⟨fun _ => ⟨?_, hown⟩, fun hn => absurd ⟨hh0, by simp⟩ hn⟩
          rw [a, hl, if_pos rfl]
        · refine ⟨fun hh => ?_, fun _ => ?_⟩
          · exfalso
            rcases List.mem_append.1 hh.2 with hm | hm
            · simp only [List.mem_singleton, Nft.mk.injEq] at hm
              exact he (by rw [hm.1, hm.2])
            · exact hin ⟨hh.1, hm⟩
          · rw [a, hl, if_neg he]

/-- the ledger entries of a contract that is not an honest CW20 token are never written by a
    dispatched message (a hostile contract's `Transfer` is a no-op of the model) -/
theorem dispatch1_cw20_other {w w' : World} {x : OutMsg} (h : dispatch1 w x = some w') {t : Nat}
    (ht : w.isHonest20 t = false) (hd : Nat) : lget w'.cw20 (t, hd) = lget w.cw20 (t, hd) := by
  cases x with
  | cw20Transfer token to amt =>
    simp only [dispatch1] at h
    split at h
    · cases h
    rename_i ci hci
    split at h
    · rename_i hk
      split at h
      · cases h
      split at h
      · cases h
      rename_i l hl
      simp only [Option.some.injEq] at h
      subst h
      have hne : token ≠ t := by
        intro e
        subst e
        simp [World.isHonest20, hci, hk] at ht
      have := ledgerMove_lget hl (t, hd)
      have e1 : ¬ ((t, hd) = (token, w.self)) := by
        intro e; injection e with e _; exact hne e.symm
      have e2 : ¬ ((t, hd) = (token, to)) := by
        intro e; injection e with e _; exact hne e.symm
      rw [if_neg e1, if_neg e2] at this
      simpa using this
    · split at h
      · split at h
        · cases h
        · simp only [Option.some.injEq] at h
          subst h; rfl
      · cases h
  | bankSend to coins =>
    have : w'.cw20 = w.cw20 := by
      simp only [dispatch1] at h
      repeat' split at h
      all_goals first
        | (cases h; done)
        | (simp only [Option.some.injEq] at h; subst h; rfl)
    rw [this]
  | fundPool dep coin =>
    have : w'.cw20 = w.cw20 := by
      simp only [dispatch1] at h
      repeat' split at h
      all_goals first
        | (cases h; done)
        | (simp only [Option.some.injEq] at h; subst h; rfl)
    rw [this]
  | nftTransfer coll tid to =>
    have : w'.cw20 = w.cw20 := by
      simp only [dispatch1] at h
      repeat' split at h
      all_goals first
        | (cases h; done)
        | (simp only [Option.some.injEq] at h; subst h; rfl)
    rw [this]

theorem dispatchAll_cw20_other {fail : Nat → Bool} {ms : List OutMsg} :
    ∀ {w w' : World} {i : Nat}, dispatchAll fail w ms i = some w' → ∀ {t : Nat},
      w.isHonest20 t = false → ∀ hd, lget w'.cw20 (t, hd) = lget w.cw20 (t, hd) := by
  induction ms with
  | nil =>
    intro w w' i h t _ hd
    simp only [dispatchAll, Option.some.injEq] at h
    subst h; rfl
  | cons x ms ih =>
    intro w w' i h t ht hd
    simp only [dispatchAll] at h
    split at h
    · cases h
    split at h
    · cases h
    rename_i w1 h1
    have f1 := (dispatch1_frame h1).1
    rw [ih h (t := t) (by rw [f1.isHonest20]; exact ht) hd, dispatch1_cw20_other h1 ht hd]

/-! ## §5 one record's share of the obligations -/

section
variable {κ ν : Type}

theorem asum_ge_of_mem (f : ν → Nat) {p : κ × ν} {l : List (κ × ν)} (h : p ∈ l) :
    f p.2 ≤ asum f l := by
  induction l with
  | nil => cases h
  | cons q l ih =>
    rw [asum_cons]
    rcases List.mem_cons.1 h with rfl | h
    · omega
    · have := ih h; omega

theorem asum_nil (f : ν → Nat) : asum f ([] : List (κ × ν)) = 0 := rfl
end

theorem owedNative_ge_listing {m : Market} {p : (Nat × Nat) × Listing} (h : p ∈ m.listings) (d : Nat) :
    coinAmt p.2.forSale.native d + feeAmt p.2.fee d ≤ owedNative m d := by
  rw [owedNative_eq]
  have := asum_ge_of_mem (fun l : Listing => coinAmt l.forSale.native d + feeAmt l.fee d) h
  simp only [wsum]
  omega

theorem owedNative_ge_bucket {m : Market} {p : (Nat × Nat) × Bucket} (h : p ∈ m.buckets) (d : Nat) :
    coinAmt p.2.funds.native d + feeAmt p.2.fee d ≤ owedNative m d := by
  rw [owedNative_eq]
  have := asum_ge_of_mem (fun b : Bucket => coinAmt b.funds.native d + feeAmt b.fee d) h
  simp only [wsum]
  omega

theorem owedCw20_ge_listing {m : Market} {p : (Nat × Nat) × Listing} (h : p ∈ m.listings) (t : Nat) :
    coinAmt p.2.forSale.cw20 t ≤ owedCw20 m t := by
  rw [owedCw20_eq]
  have := asum_ge_of_mem (fun l : Listing => coinAmt l.forSale.cw20 t) h
  simp only [wsum]
  omega

theorem owedCw20_ge_bucket {m : Market} {p : (Nat × Nat) × Bucket} (h : p ∈ m.buckets) (t : Nat) :
    coinAmt p.2.funds.cw20 t ≤ owedCw20 m t := by
  rw [owedCw20_eq]
  have := asum_ge_of_mem (fun b : Bucket => coinAmt b.funds.cw20 t) h
  simp only [wsum]
  omega

theorem mem_recordedNfts_listing {m : Market} {p : (Nat × Nat) × Listing} (h : p ∈ m.listings)
    {n : Nft} (hn : n ∈ p.2.forSale.nfts) : n ∈ recordedNfts m :=
  List.mem_append_left _ (List.mem_flatMap.2 ⟨p, h, hn⟩)

theorem mem_recordedNfts_bucket {m : Market} {p : (Nat × Nat) × Bucket} (h : p ∈ m.buckets)
    {n : Nft} (hn : n ∈ p.2.funds.nfts) : n ∈ recordedNfts m :=
  List.mem_append_right _ (List.mem_flatMap.2 ⟨p, h, hn⟩)

theorem owedNative_empty {m : Market} (hl : m.listings = []) (hb : m.buckets = []) (d : Nat) :
    owedNative m d = 0 := by
  simp [owedNative, pendingFee, listingsSum, bucketsSum, hl, hb]

theorem owedCw20_empty {m : Market} (hl : m.listings = []) (hb : m.buckets = []) (t : Nat) :
    owedCw20 m t = 0 := by
  simp [owedCw20, listingsSum, bucketsSum, hl, hb]

theorem recordedNfts_empty {m : Market} (hl : m.listings = []) (hb : m.buckets = []) :
    recordedNfts m = [] := by
  simp [recordedNfts, hl, hb]

/-! ## §4 `step` for a message without attached coins; the effect of a payout

(Definitions of this section — `PaidOut`, `HonestAssets`, `Covers` — are used in the statements of
C05 / C07 and are quoted there.) -/

theorem step_exec_nil (w : World) (x : Nat) (msg : ExecMsg) :
    step w (.exec x [] msg) = runMarket noFault w w x [] msg := by
  simp [step, stepF]

/-- an accepted coin-less message: handler accepted on the pre-state, all messages dispatched -/
theorem step_exec_nil_ok {w : World} {x : Nat} {msg : ExecMsg}
    (h : (step w (.exec x [] msg)).2.ok = true) :
    ∃ m' msgs w2, execute w.mkt w.env x [] msg = .ok (m', msgs) ∧
      dispatchAll noFault { w with mkt := m' } msgs 0 = some w2 ∧
      step w (.exec x [] msg) = (w2, ⟨true, none, msgs⟩) := by
  rw [step_exec_nil] at h ⊢
  rcases runMarket_cases noFault w w x [] msg with ⟨e, he⟩ | ⟨m', msgs, w2, hx, hd, hr⟩
  · rw [he] at h; cases h
  · exact ⟨m', msgs, w2, hx, hd, hr⟩

/-- conversely: handler accepts and every message is dispatched ⇒ the transaction succeeds -/
theorem step_exec_nil_of {w : World} {x : Nat} {msg : ExecMsg} {m' : Market} {msgs : List OutMsg}
    {w2 : World} (hx : execute w.mkt w.env x [] msg = .ok (m', msgs))
    (hd : dispatchAll noFault { w with mkt := m' } msgs 0 = some w2) :
    step w (.exec x [] msg) = (w2, ⟨true, none, msgs⟩) := by
  rw [step_exec_nil]
  simp only [runMarket, hx, hd]

/-- **Exact effect of a payout** of balance `g` with pending fee `fee` to `x`, between the worlds
    `w` (before) and `w'` (after).  Bank: `x` gains the native part, the community pool gains the
    fee, the marketplace loses both, nobody else's balance changes.  CW20, for every honest token:
    `x` gains the recorded amount, the marketplace loses it, nobody else changes; ledgers of
    contracts that are not honest tokens are untouched.  NFTs: every recorded NFT of an honest
    collection was owned by the marketplace and is owned by `x`; every other NFT keeps its owner.
    Registry, contract table, clock and configuration are unchanged (`CoreEq`). -/
structure PaidOut (w w' : World) (x : Nat) (g : GBal) (fee : Option Coin) : Prop where
  bankOwner : ∀ d, lget w'.bank (x, d) = lget w.bank (x, d) + coinAmt g.native d
  bankPool : ∀ d, lget w'.bank (w.pool, d) = lget w.bank (w.pool, d) + feeAmt fee d
  bankSelf : ∀ d, lget w'.bank (w.self, d) + coinAmt g.native d + feeAmt fee d = lget w.bank (w.self, d)
  bankOthers : ∀ a d, a ≠ x → a ≠ w.pool → a ≠ w.self → lget w'.bank (a, d) = lget w.bank (a, d)
  cw20Owner : ∀ t, w.isHonest20 t = true → lget w'.cw20 (t, x) = lget w.cw20 (t, x) + coinAmt g.cw20 t
  cw20Self : ∀ t, w.isHonest20 t = true →
    lget w'.cw20 (t, w.self) + coinAmt g.cw20 t = lget w.cw20 (t, w.self)
  cw20Others : ∀ t h, (h ≠ x ∧ h ≠ w.self) ∨ w.isHonest20 t = false →
    lget w'.cw20 (t, h) = lget w.cw20 (t, h)
  nftOwner : ∀ n ∈ g.nfts, w.isHonest721 n.coll = true →
    alookup (n.coll, n.tid) w.nft = some w.self ∧ alookup (n.coll, n.tid) w'.nft = some x
  nftOthers : ∀ c tid, (⟨c, tid⟩ : Nft) ∉ g.nfts ∨ w.isHonest721 c = false →
    alookup (c, tid) w'.nft = alookup (c, tid) w.nft
  core : CoreEq w w'

theorem paidOut_of_dispatch {w w2 : World} {m' : Market} {x : Nat} {g : GBal} {fee : Option Coin}
    (hd : dispatchAll noFault { w with mkt := m' } (withdrawMsgs w.self x g fee) 0 = some w2)
    (hx : x ≠ w.self) (hxp : x ≠ w.pool) (hp : w.pool ≠ w.self) : PaidOut w w2 x g fee := by
  have hbank : ∀ a d, lget w2.bank (a, d) + (if a = w.self then coinAmt g.native d + feeAmt fee d else 0) =
      lget w.bank (a, d) + ((if a = x then coinAmt g.native d else 0) +
        (if a = w.pool then feeAmt fee d else 0)) := by
    intro a d
    have := dispatchAll_bank hd a d
    rw [paidNative_withdrawMsgs, outBy_rNat_withdrawMsgs] at this
    exact this
  have hcw : ∀ t, w.isHonest20 t = true → ∀ h,
      lget w2.cw20 (t, h) + (if h = w.self then coinAmt g.cw20 t else 0) =
        lget w.cw20 (t, h) + (if h = x then coinAmt g.cw20 t else 0) := by
    intro t ht h
    have := dispatchAll_cw20 hd (t := t) ht h
    rw [paidCw20_withdrawMsgs, outBy_r20_withdrawMsgs] at this
    exact this
  have hnft := fun c tid => dispatchAll_nft_exact (to := x) hd (by
    intro c t to' hm
    rw [withdrawMsgs_eq] at hm
    rcases List.mem_append.1 hm with hm | hm
    · rcases mem_sendTokens hm with ⟨_, e⟩ | ⟨_, _, e⟩ | ⟨_, _, e⟩
      · cases e
      · cases e
      · cases e; rfl
    · obtain ⟨_, _, e⟩ := mem_feeMsg.1 hm
      cases e) hx c tid
  have hfr := (dispatchAll_frame hd).1
  refine ⟨?_, ?_, ?_, ?_, ?_, ?_, ?_, ?_, ?_, ?_⟩
  · intro d
    have := hbank x d
    rw [if_neg hx, if_pos rfl, if_neg hxp] at this
    omega
  · intro d
    have := hbank w.pool d
    rw [if_neg hp, if_neg (Ne.symm hxp), if_pos rfl] at this
    omega
  · intro d
    have := hbank w.self d
    rw [if_pos rfl, if_neg (Ne.symm hx), if_neg (Ne.symm hp)] at this
    omega
  · intro a d h1 h2 h3
    have := hbank a d
    rw [if_neg h3, if_neg h1, if_neg h2] at this
    omega
  · intro t ht
    have := hcw t ht x
    rw [if_neg hx, if_pos rfl] at this
    omega
  · intro t ht
    have := hcw t ht w.self
    rw [if_pos rfl, if_neg (Ne.symm hx)] at this
    omega
  · intro t h hh
    by_cases ht : w.isHonest20 t = true
    · rcases hh with ⟨h1, h2⟩ | hh
      · have := hcw t ht h
        rw [if_neg h2, if_neg h1] at this
        omega
      · rw [hh] at ht; cases ht
    · have ht' : w.isHonest20 t = false := by simpa using ht
      exact dispatchAll_cw20_other hd (t := t) ht' h
  · intro n hn hh
    have := (hnft n.coll n.tid).1 ⟨hh, by rw [sentNfts_withdrawMsgs]; exact hn⟩
    exact ⟨this.2, this.1⟩
  · intro c tid hh
    refine (hnft c tid).2 ?_
    rintro ⟨h1, h2⟩
    rw [sentNfts_withdrawMsgs] at h2
    rcases hh with hh | hh
    · exact hh h2
    · have h1' : w.isHonest721 c = true := h1
      rw [hh] at h1'; cases h1'
  · exact ⟨hfr.self, hfr.pool, hfr.regAddr, hfr.junoD, hfr.usdcD, hfr.nowNs, hfr.height, hfr.reg,
      hfr.contracts⟩

/-- every CW20 entry of `g` is an honest token (kind 1 of the chain model) and every NFT belongs to
    an honest collection (kind 2): no asset recorded through a forged hook call (finding C18) -/
def HonestAssets (w : World) (g : GBal) : Prop :=
  (∀ c ∈ g.cw20, w.isHonest20 c.key = true) ∧ (∀ n ∈ g.nfts, w.isHonest721 n.coll = true)

instance (w : World) (g : GBal) : Decidable (HonestAssets w g) := by
  unfold HonestAssets; exact inferInstance

/-- the marketplace holds what the balance `g` and the pending fee `fee` name -/
structure Covers (w : World) (g : GBal) (fee : Option Coin) : Prop where
  bank : ∀ d, coinAmt g.native d + feeAmt fee d ≤ lget w.bank (w.self, d)
  cw20 : ∀ c ∈ g.cw20, c.amount ≤ lget w.cw20 (c.key, w.self)
  nft : ∀ n ∈ g.nfts, alookup (n.coll, n.tid) w.nft = some w.self

/-- `withdraw_dispatch_ok` in the vocabulary of this section -/
theorem covers_dispatch_ok {w : World} {m' : Market} {to : Nat} {g : GBal} {fee : Option Coin}
    (hwf : wfBal g = true) (hfz : ∀ f, fee = some f → f.amount ≠ 0) (hc : Covers w g fee)
    (hh : HonestAssets w g) :
    ∃ w2, dispatchAll noFault { w with mkt := m' } (withdrawMsgs w.self to g fee) 0 = some w2 :=
  withdraw_dispatch_ok (w := { w with mkt := m' }) hwf hfz hc.bank hh.1 hc.cw20 hh.2 hc.nft

/-! ## §6 what well-formedness says about a record that is to be cashed out -/

theorem wfListing_parts {j u : Nat} {k : Nat × Nat} {l : Listing} (h : wfListing j u k l = true) :
    k = (l.creator, l.id) ∧ wfBal l.forSale = true ∧
    (l.status = .preparing → l.expiresAt = none ∧ l.claimant = none ∧ l.fee = none) ∧
    (l.status = .finalized → l.claimant = none ∧ l.fee = none) ∧
    (l.status = .closed → l.claimant = some l.creator) := by
  unfold wfListing at h
  simp only [Bool.and_eq_true, decide_eq_true_eq] at h
  obtain ⟨⟨⟨hk, hb⟩, _⟩, hs⟩ := h
  refine ⟨hk, hb, ?_, ?_, ?_⟩
  · intro e
    rw [e] at hs
    simp only [Bool.and_eq_true, Option.isNone_iff_eq_none] at hs
    exact ⟨hs.1.1.2, hs.1.2, hs.2⟩
  · intro e
    rw [e] at hs
    simp only [Bool.and_eq_true, Option.isNone_iff_eq_none] at hs
    exact ⟨hs.1.2, hs.2⟩
  · intro e
    rw [e] at hs
    simp only [Bool.and_eq_true, decide_eq_true_eq] at hs
    exact hs.1.2

theorem wfBucket_parts {j u : Nat} {k : Nat × Nat} {b : Bucket} (h : wfBucket j u k b = true) :
    k.1 = b.owner ∧ wfBal b.funds = true := by
  unfold wfBucket at h
  simp only [Bool.and_eq_true, decide_eq_true_eq] at h
  exact ⟨h.1.1, h.1.2⟩

theorem withdrawMsgs_none (self to : Nat) (g : GBal) : withdrawMsgs self to g none = sendTokens to g := by
  simp [withdrawMsgs]

theorem execute_nil_deleteListing (m : Market) (env : Env) (s id : Nat) :
    execute m env s [] (.deleteListing id) = deleteListing m env s id := by
  simp [execute, ExecMsg.takesCoins]

theorem execute_nil_withdrawPurchased (m : Market) (env : Env) (s id : Nat) :
    execute m env s [] (.withdrawPurchased id) = withdrawPurchased m env s id := by
  simp [execute, ExecMsg.takesCoins]

theorem execute_nil_removeBucket (m : Market) (env : Env) (s id : Nat) :
    execute m env s [] (.removeBucket id) = withdrawBucket m env s id := by
  simp [execute, ExecMsg.takesCoins]

end Fuzion
