/-
  Fuzion.Lemmas.FaultReachLemmas — one transaction under fault injection versus the same
  transaction without faults (helper lemmas of Props/C15Reach.lean).

  `stepF fail w op` is determined by `step w op` and by whether `fail` hits one of the positions
  of the message list the fault-free step emits:
    * hit   → `(w, .fail .dispatch)`  (`stepF_fault_hit`),
    * spared → `step w op`            (`stepF_fault_miss`).
  Core library only.
-/
import Fuzion.Lemmas.OracleLemmas
namespace Fuzion

/-- a dispatch that fails without injected faults fails under every fault predicate -/
theorem dispatchAll_none_of_noFault {fail : Nat → Bool} {msgs : List OutMsg} :
    ∀ (w : World) (i j : Nat), dispatchAll noFault w msgs j = none →
      dispatchAll fail w msgs i = none := by
  induction msgs with
  | nil => intro w i j h; simp [dispatchAll] at h
  | cons m ms ih =>
    intro w i j h
    simp only [dispatchAll] at h ⊢
    split
    · rfl
    · have hn : noFault j = false := rfl
      simp only [hn] at h
      cases hd : dispatch1 w m with
      | none => rfl
      | some w1 =>
        rw [hd] at h
        exact ih w1 (i + 1) (j + 1) (by simpa using h)

/-- operations that do not reach the marketplace handler emit nothing, so no fault can hit them -/
theorem stepF_nonmarket_eq (fail : Nat → Bool) (w : World) {op : Op} (ho : op.asExec = none) :
    stepF fail w op = step w op := by
  cases op with
  | exec s fu m => simp [Op.asExec] at ho
  | send20 t s a i => simp [Op.asExec] at ho
  | send721 co s t i => simp [Op.asExec] at ho
  | royalty s m => rfl
  | setAdmin s c n => rfl
  | advance a b => rfl

/-- handler + dispatch: a fault on a position of the fault-free message list aborts -/
theorem runMarket_fault_hit {fail : Nat → Bool} {w0 w1 : World} {c : Nat} {f : List Coin}
    {msg : ExecMsg} {k : Nat} (hk : k < (runMarket noFault w0 w1 c f msg).2.msgs.length)
    (hf : fail k = true) : runMarket fail w0 w1 c f msg = (w0, .fail .dispatch) := by
  unfold runMarket at hk ⊢
  cases hx : execute w1.mkt w1.env c f msg with
  | error e => rw [hx] at hk; simp [Outcome.fail] at hk
  | ok p =>
    obtain ⟨m', msgs⟩ := p
    rw [hx] at hk
    dsimp only at hk ⊢
    cases hd : dispatchAll noFault { w1 with mkt := m' } msgs 0 with
    | none => rw [hd] at hk; simp [Outcome.fail] at hk
    | some w2 =>
      rw [hd] at hk
      dsimp only at hk
      rw [dispatchAll_fault _ 0 k hk (by simpa using hf)]

/-- handler + dispatch: a fault predicate that spares the fault-free message list is invisible -/
theorem runMarket_fault_miss {fail : Nat → Bool} {w0 w1 : World} {c : Nat} {f : List Coin}
    {msg : ExecMsg}
    (h : ∀ k, k < (runMarket noFault w0 w1 c f msg).2.msgs.length → fail k = false) :
    runMarket fail w0 w1 c f msg = runMarket noFault w0 w1 c f msg := by
  unfold runMarket at h ⊢
  cases hx : execute w1.mkt w1.env c f msg with
  | error e => rfl
  | ok p =>
    obtain ⟨m', msgs⟩ := p
    rw [hx] at h
    dsimp only at h ⊢
    cases hd : dispatchAll noFault { w1 with mkt := m' } msgs 0 with
    | none => rw [dispatchAll_none_of_noFault _ 0 0 hd]
    | some w2 =>
      rw [hd] at h
      dsimp only at h
      rw [dispatchAll_noFault _ 0 0 (by simpa using h), hd]

/-- a fault on a position of the message list the fault-free transaction emits aborts the
    transaction: the original world comes back, with error `dispatch` -/
theorem stepF_fault_hit {fail : Nat → Bool} {w : World} {op : Op} {k : Nat}
    (hk : k < (step w op).2.msgs.length) (hf : fail k = true) :
    stepF fail w op = (w, .fail .dispatch) := by
  cases ho : op.asExec with
  | none =>
    unfold step at hk
    rw [stepF_msgs_of_asExec_none noFault ho] at hk
    cases hk
  | some t =>
    obtain ⟨c, f, msg⟩ := t
    unfold step at hk
    rw [stepF_eq_deposit ho] at hk ⊢
    cases hd : op.deposit w with
    | error e => rw [hd] at hk; simp [Outcome.fail] at hk
    | ok w1 =>
      rw [hd] at hk
      exact runMarket_fault_hit hk hf

/-- a fault predicate that spares every position of the message list the fault-free transaction
    emits does not change the transaction at all (world and outcome) -/
theorem stepF_fault_miss {fail : Nat → Bool} {w : World} {op : Op}
    (h : ∀ k, k < (step w op).2.msgs.length → fail k = false) : stepF fail w op = step w op := by
  cases ho : op.asExec with
  | none => exact stepF_nonmarket_eq fail w ho
  | some t =>
    obtain ⟨c, f, msg⟩ := t
    unfold step at h ⊢
    rw [stepF_eq_deposit ho] at h
    rw [stepF_eq_deposit ho, stepF_eq_deposit ho]
    cases hd : op.deposit w with
    | error e => rfl
    | ok w1 =>
      rw [hd] at h
      exact runMarket_fault_miss h

end Fuzion
