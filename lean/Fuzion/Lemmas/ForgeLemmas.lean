/-
  Fuzion.Lemmas.ForgeLemmas — helper lemmas for `Props/C18Partial.lean` (what a forged call of
  the CW20 / CW721 receive hooks still cannot do).  Second half of the helpers of the trade
  properties (the first half, `TradeLemmas.lean`, imports `FrameLemmas`, which cannot be imported
  together with `InvLemmas`).

  * `HookChange`: the exact state update of the four inner messages of a receive hook, with the
    deposited balance (`fresh`) and the top-up relation (`top`) as parameters, so that the CW20
    and the CW721 hook share every consequence;
  * its consequences: fee configuration and id logs, the single key that is written, the fate of
    every existing record, sums over the two tables;
  * the world-level shape of a direct call of a hook (`stepF_hook`).
  Core library only.
-/
import Fuzion.Lemmas.InvLemmas
namespace Fuzion

/-! ### the state update of a receive hook -/

/-- What an accepted receive hook does, for the wallet `user` it names: a new listing in
    preparation / a new bucket holding exactly `fresh` under an unused id, or a top-up (`top old
    new`) of `user`'s own listing in preparation / own bucket.  Nothing else is written. -/
inductive HookChange (m : Market) (user : Nat) (fresh : GBal) (top : GBal → GBal → Prop)
    (m' : Market) : Prop
  | lcreate (id : Nat) (wl : Option Nat) (ask : GBal)
      (hnew : findById id m.listings = none) (hunused : id ∉ m.listingUsed)
      (hm : m' = { m with
        listings := ainsert (user, id) (newListing user id wl fresh ask) m.listings,
        listingUsed := id :: m.listingUsed })
  | ledit (id : Nat) (l : Listing) (nf : GBal) (hl : alookup (user, id) m.listings = some l)
      (hst : l.status = .preparing) (hcl : l.claimant = none) (htop : top l.forSale nf)
      (hm : m' = { m with listings := ainsert (user, id) { l with forSale := nf } m.listings })
  | bcreate (id : Nat) (hnew : alookup (user, id) m.buckets = none) (hunused : id ∉ m.bucketUsed)
      (hm : m' = { m with
        buckets := ainsert (user, id) ⟨user, fresh, none⟩ m.buckets,
        bucketUsed := id :: m.bucketUsed })
  | bedit (id : Nat) (b : Bucket) (nf : GBal) (hb : alookup (user, id) m.buckets = some b)
      (htop : top b.funds nf)
      (hm : m' = { m with buckets := ainsert (user, id) { b with funds := nf } m.buckets })

section handlers
variable {m m' : Market} {out : List OutMsg}

theorem isSome_false_eq_none {α : Type} {o : Option α} (h : ¬ o.isSome = true) : o = none := by
  cases o with
  | none => rfl
  | some x => simp at h

theorem createListing_hook {user : Nat} {funds : Funds} {c : CreateMsg} {id : Nat}
    {top : GBal → GBal → Prop} (h : createListing m user funds c id = .ok (m', out)) :
    HookChange m user (fromBalance funds) top m' := by
  unfold createListing at h
  repeat' split at h
  all_goals first
    | (cases h; done)
    | (simp only [Except.ok.injEq, Prod.mk.injEq] at h
       obtain ⟨hm, _⟩ := h
       subst hm
       exact .lcreate id _ _ (isSome_false_eq_none ‹_›) ‹¬ id ∈ _› rfl)

theorem createListingNft_hook {user : Nat} {nft : Nft} {c : CreateMsg} {id : Nat}
    {top : GBal → GBal → Prop} (h : createListingNft m user nft c id = .ok (m', out)) :
    HookChange m user (fromNft nft) top m' := by
  unfold createListingNft at h
  repeat' split at h
  all_goals first
    | (cases h; done)
    | (simp only [Except.ok.injEq, Prod.mk.injEq] at h
       obtain ⟨hm, _⟩ := h
       subst hm
       exact .lcreate id _ _ (isSome_false_eq_none ‹_›) ‹¬ id ∈ _› rfl)

theorem createBucket_hook {user : Nat} {funds : Funds} {id : Nat}
    {top : GBal → GBal → Prop} (h : createBucket m funds user id = .ok (m', out)) :
    HookChange m user (fromBalance funds) top m' := by
  unfold createBucket at h
  repeat' split at h
  all_goals first
    | (cases h; done)
    | (simp only [Except.ok.injEq, Prod.mk.injEq] at h
       obtain ⟨hm, _⟩ := h
       subst hm
       exact .bcreate id (isSome_false_eq_none ‹_›) ‹¬ id ∈ _› rfl)

theorem createBucketNft_hook {user : Nat} {nft : Nft} {id : Nat}
    {top : GBal → GBal → Prop} (h : createBucketNft m user nft id = .ok (m', out)) :
    HookChange m user (fromNft nft) top m' := by
  unfold createBucketNft at h
  repeat' split at h
  all_goals first
    | (cases h; done)
    | (simp only [Except.ok.injEq, Prod.mk.injEq] at h
       obtain ⟨hm, _⟩ := h
       subst hm
       exact .bcreate id (isSome_false_eq_none ‹_›) ‹¬ id ∈ _› rfl)

theorem addToListing_hook {user : Nat} {funds : Funds} {id : Nat} {fresh : GBal}
    (h : addToListing m funds user id = .ok (m', out)) :
    HookChange m user fresh (fun g nf => addTokens g funds = some nf) m' := by
  unfold addToListing at h
  repeat' split at h
  all_goals first
    | (cases h; done)
    | (simp only [Except.ok.injEq, Prod.mk.injEq] at h
       obtain ⟨hm, _⟩ := h
       subst hm
       have hl := ‹alookup _ _ = some _›
       have hnf := ‹addTokens _ _ = some _›
       exact .ledit id _ _ hl (Decidable.not_not.1 ‹¬ _ ≠ Status.preparing›)
         (isSome_false_eq_none ‹_›) hnf rfl)

theorem addToListingNft_hook {user : Nat} {nft : Nft} {id : Nat} {fresh : GBal}
    (h : addToListingNft m user nft id = .ok (m', out)) :
    HookChange m user fresh (fun g nf => nf = addNft g nft) m' := by
  unfold addToListingNft at h
  dsimp only at h
  repeat' split at h
  all_goals first
    | (cases h; done)
    | (simp only [Except.ok.injEq, Prod.mk.injEq] at h
       obtain ⟨hm, _⟩ := h
       subst hm
       have hl := ‹alookup _ _ = some _›
       exact .ledit id _ _ hl (Decidable.not_not.1 ‹¬ _ ≠ Status.preparing›)
         (isSome_false_eq_none ‹_›) rfl rfl)

theorem addToBucket_hook {user : Nat} {funds : Funds} {id : Nat} {fresh : GBal}
    (h : addToBucket m funds user id = .ok (m', out)) :
    HookChange m user fresh (fun g nf => addTokens g funds = some nf) m' := by
  unfold addToBucket at h
  repeat' split at h
  all_goals first
    | (cases h; done)
    | (simp only [Except.ok.injEq, Prod.mk.injEq] at h
       obtain ⟨hm, _⟩ := h
       subst hm
       have hb := ‹alookup _ _ = some _›
       have hnf := ‹addTokens _ _ = some _›
       exact .bedit id _ _ hb hnf rfl)

theorem addToBucketNft_hook {user : Nat} {nft : Nft} {id : Nat} {fresh : GBal}
    (h : addToBucketNft m user nft id = .ok (m', out)) :
    HookChange m user fresh (fun g nf => nf = addNft g nft) m' := by
  unfold addToBucketNft at h
  dsimp only at h
  repeat' split at h
  all_goals first
    | (cases h; done)
    | (simp only [Except.ok.injEq, Prod.mk.injEq] at h
       obtain ⟨hm, _⟩ := h
       subst hm
       have hb := ‹alookup _ _ = some _›
       exact .bedit id _ _ hb rfl rfl)

end handlers

/-! ### the two hooks -/

/-- the tests a CW20 hook performs before it looks at the inner message, and what the inner
    message then does -/
theorem receive_hook {m m' : Market} {env : Env} {caller : Nat} {funds : List Coin}
    {sender : RawAddr} {amount : Nat} {inner : Option Inner} {out : List OutMsg}
    (h : receive m env caller funds sender amount inner = .ok (m', out)) :
    funds = [] ∧ env.isToken20 caller = true ∧ out = [] ∧ ∃ user, sender = .valid user ∧
      HookChange m user (fromBalance (.cw20 ⟨caller, amount⟩))
        (fun g nf => addTokens g (.cw20 ⟨caller, amount⟩) = some nf) m' := by
  have ho := receive_out h
  unfold receive at h
  split at h
  · cases h
  rename_i hf
  split at h
  · cases h
  rename_i ht
  have hf' : funds = [] := by
    cases funds with
    | nil => rfl
    | cons a t => simp at hf
  have ht' : env.isToken20 caller = true := by
    cases hx : env.isToken20 caller with
    | true => rfl
    | false => simp [hx] at ht
  refine ⟨hf', ht', ho, ?_⟩
  split at h
  · cases h
  rename_i im
  split at h
  · cases h
  rename_i user hu
  cases sender with
  | invalid => cases hu
  | valid a =>
    simp only [rawValid, Option.some.injEq] at hu
    subst hu
    refine ⟨a, rfl, ?_⟩
    dsimp only at h
    split at h
    · exact createListing_hook h
    · exact addToListing_hook h
    · exact createBucket_hook h
    · exact addToBucket_hook h

/-- the same for the CW721 hook -/
theorem receiveNft_hook {m m' : Market} {env : Env} {caller : Nat} {funds : List Coin}
    {sender : RawAddr} {tid : Nat} {inner : Option Inner} {out : List OutMsg}
    (h : receiveNft m env caller funds sender tid inner = .ok (m', out)) :
    funds = [] ∧ env.isContract caller = true ∧ out = [] ∧ ∃ user, sender = .valid user ∧
      HookChange m user (fromNft ⟨caller, tid⟩) (fun g nf => nf = addNft g ⟨caller, tid⟩) m' := by
  have ho := receiveNft_out h
  unfold receiveNft at h
  split at h
  · cases h
  rename_i hf
  split at h
  · cases h
  rename_i ht
  have hf' : funds = [] := by
    cases funds with
    | nil => rfl
    | cons a t => simp at hf
  have ht' : env.isContract caller = true := by
    cases hx : env.isContract caller with
    | true => rfl
    | false => simp [hx] at ht
  refine ⟨hf', ht', ho, ?_⟩
  split at h
  · cases h
  rename_i im
  split at h
  · cases h
  rename_i user hu
  cases sender with
  | invalid => cases hu
  | valid a =>
    simp only [rawValid, Option.some.injEq] at hu
    subst hu
    refine ⟨a, rfl, ?_⟩
    dsimp only at h
    split at h
    · exact createListingNft_hook h
    · exact addToListingNft_hook h
    · exact createBucketNft_hook h
    · exact addToBucketNft_hook h

/-! ### consequences of `HookChange` -/

section conseq
variable {m m' : Market} {user : Nat} {fresh : GBal} {top : GBal → GBal → Prop}

/-- fee configuration, registry address untouched; the id logs only grow -/
theorem HookChange.cfg (h : HookChange m user fresh top m') :
    m'.feeKind = m.feeKind ∧ m'.feeSince = m.feeSince ∧ m'.registry = m.registry ∧
    (∀ i ∈ m.listingUsed, i ∈ m'.listingUsed) ∧ (∀ i ∈ m.bucketUsed, i ∈ m'.bucketUsed) := by
  cases h with
  | lcreate id wl ask _ _ hm =>
    subst hm; exact ⟨rfl, rfl, rfl, fun i hi => List.mem_cons_of_mem _ hi, fun i hi => hi⟩
  | ledit id l nf _ _ _ _ hm => subst hm; exact ⟨rfl, rfl, rfl, fun i hi => hi, fun i hi => hi⟩
  | bcreate id _ _ hm =>
    subst hm; exact ⟨rfl, rfl, rfl, fun i hi => hi, fun i hi => List.mem_cons_of_mem _ hi⟩
  | bedit id b nf _ _ hm => subst hm; exact ⟨rfl, rfl, rfl, fun i hi => hi, fun i hi => hi⟩

/-- exactly one storage key is written, it belongs to `user`, and one of the two tables is not
    written at all -/
theorem HookChange.one (h : HookChange m user fresh top m') :
    ∃ k0 : Nat × Nat, k0.1 = user ∧
      (∀ k, k ≠ k0 → alookup k m'.listings = alookup k m.listings ∧
        alookup k m'.buckets = alookup k m.buckets) ∧
      (m'.listings = m.listings ∨ m'.buckets = m.buckets) := by
  cases h with
  | lcreate id wl ask _ _ hm =>
    subst hm
    exact ⟨(user, id), rfl, fun k hk => ⟨alookup_ainsert_ne hk _ _, rfl⟩, .inr rfl⟩
  | ledit id l nf _ _ _ _ hm =>
    subst hm
    exact ⟨(user, id), rfl, fun k hk => ⟨alookup_ainsert_ne hk _ _, rfl⟩, .inr rfl⟩
  | bcreate id _ _ hm =>
    subst hm
    exact ⟨(user, id), rfl, fun k hk => ⟨rfl, alookup_ainsert_ne hk _ _⟩, .inl rfl⟩
  | bedit id b nf _ _ hm =>
    subst hm
    exact ⟨(user, id), rfl, fun k hk => ⟨rfl, alookup_ainsert_ne hk _ _⟩, .inl rfl⟩

/-- records of everybody else are untouched -/
theorem HookChange.others (h : HookChange m user fresh top m') (k : Nat × Nat) (hk : k.1 ≠ user) :
    alookup k m'.listings = alookup k m.listings ∧ alookup k m'.buckets = alookup k m.buckets := by
  obtain ⟨k0, h0, hne, _⟩ := h.one
  exact hne k (fun e => hk (e ▸ h0))

/-- under the id invariant a listing id that no live record carries has no record under any key -/
theorem IdsInv.alookup_none_of_findById {m : Market} (hI : IdsInv m) {id : Nat}
    (h : findById id m.listings = none) (u : Nat) : alookup (u, id) m.listings = none := by
  cases hx : alookup (u, id) m.listings with
  | none => rfl
  | some l =>
    exfalso
    have hm := alookup_some_mem hx
    have hk := hI.lfiled _ hm
    simp only [Prod.mk.injEq] at hk
    unfold findById at h
    have := List.find?_eq_none.1 h _ hm
    simp [← hk.2] at this

/-- the fate of an existing listing: it stays where it is; it is unchanged unless it is `user`'s
    own listing in preparation, in which case its goods may have been topped up -/
theorem HookChange.listing (hI : IdsInv m) (h : HookChange m user fresh top m') {k : Nat × Nat}
    {l : Listing} (hl : alookup k m.listings = some l) :
    alookup k m'.listings = some l ∨
    (k.1 = user ∧ l.status = .preparing ∧ l.claimant = none ∧ ∃ nf, top l.forSale nf ∧
      alookup k m'.listings = some { l with forSale := nf }) := by
  cases h with
  | lcreate id wl ask hnew _ hm =>
    subst hm
    have hne : k ≠ (user, id) := by
      intro e; subst e
      rw [hI.alookup_none_of_findById hnew user] at hl; cases hl
    exact .inl (by dsimp only; rw [alookup_ainsert_ne hne]; exact hl)
  | ledit id l0 nf hl0 hst hcl htop hm =>
    subst hm
    by_cases hk : k = (user, id)
    · subst hk
      rw [hl0] at hl; cases hl
      exact .inr ⟨rfl, hst, hcl, nf, htop, alookup_ainsert_self _ _ _⟩
    · exact .inl (by dsimp only; rw [alookup_ainsert_ne hk]; exact hl)
  | bcreate id _ _ hm => subst hm; exact .inl hl
  | bedit id b nf _ _ hm => subst hm; exact .inl hl

/-- the fate of an existing bucket: it stays where it is; it is unchanged unless it is `user`'s
    own bucket, in which case its funds may have been topped up -/
theorem HookChange.bucket (h : HookChange m user fresh top m') {k : Nat × Nat}
    {b : Bucket} (hb : alookup k m.buckets = some b) :
    alookup k m'.buckets = some b ∨
    (k.1 = user ∧ ∃ nf, top b.funds nf ∧ alookup k m'.buckets = some { b with funds := nf }) := by
  cases h with
  | lcreate id wl ask _ _ hm => subst hm; exact .inl hb
  | ledit id l0 nf _ _ _ _ hm => subst hm; exact .inl hb
  | bcreate id hnew _ hm =>
    subst hm
    have hne : k ≠ (user, id) := by
      intro e; subst e; rw [hnew] at hb; cases hb
    exact .inl (by dsimp only; rw [alookup_ainsert_ne hne]; exact hb)
  | bedit id b0 nf hb0 htop hm =>
    subst hm
    by_cases hk : k = (user, id)
    · subst hk
      rw [hb0] at hb; cases hb
      exact .inr ⟨rfl, nf, htop, alookup_ainsert_self _ _ _⟩
    · exact .inl (by dsimp only; rw [alookup_ainsert_ne hk]; exact hb)

/-- a record that did not exist before is a fresh one: filed under `user` and an id never used
    before, in preparation, holding exactly the deposit -/
theorem HookChange.new_listing (h : HookChange m user fresh top m') {k : Nat × Nat} {l' : Listing}
    (hnone : alookup k m.listings = none) (hl' : alookup k m'.listings = some l') :
    k.1 = user ∧ k.2 ∉ m.listingUsed ∧ k.2 ∈ m'.listingUsed ∧ l'.creator = user ∧ l'.id = k.2 ∧
    l'.status = .preparing ∧ l'.claimant = none ∧ l'.fee = none ∧ l'.forSale = fresh := by
  cases h with
  | lcreate id wl ask hnew hun hm =>
    subst hm
    by_cases hk : k = (user, id)
    · subst hk
      dsimp only at hl'
      rw [alookup_ainsert_self] at hl'
      cases hl'
      exact ⟨rfl, hun, List.mem_cons_self, rfl, rfl, rfl, rfl, rfl, rfl⟩
    · dsimp only at hl'
      rw [alookup_ainsert_ne hk, hnone] at hl'; cases hl'
  | ledit id l0 nf hl0 _ _ _ hm =>
    subst hm
    by_cases hk : k = (user, id)
    · subst hk; rw [hl0] at hnone; cases hnone
    · dsimp only at hl'
      rw [alookup_ainsert_ne hk, hnone] at hl'; cases hl'
  | bcreate id _ _ hm => subst hm; rw [hnone] at hl'; cases hl'
  | bedit id b nf _ _ hm => subst hm; rw [hnone] at hl'; cases hl'

theorem HookChange.new_bucket (h : HookChange m user fresh top m') {k : Nat × Nat} {b' : Bucket}
    (hnone : alookup k m.buckets = none) (hb' : alookup k m'.buckets = some b') :
    k.1 = user ∧ k.2 ∉ m.bucketUsed ∧ k.2 ∈ m'.bucketUsed ∧ b' = ⟨user, fresh, none⟩ := by
  cases h with
  | lcreate id wl ask _ _ hm => subst hm; rw [hnone] at hb'; cases hb'
  | ledit id l0 nf _ _ _ _ hm => subst hm; rw [hnone] at hb'; cases hb'
  | bcreate id hnew hun hm =>
    subst hm
    by_cases hk : k = (user, id)
    · subst hk
      dsimp only at hb'
      rw [alookup_ainsert_self] at hb'
      cases hb'
      exact ⟨rfl, hun, List.mem_cons_self, rfl⟩
    · dsimp only at hb'
      rw [alookup_ainsert_ne hk, hnone] at hb'; cases hb'
  | bedit id b nf hb0 _ hm =>
    subst hm
    by_cases hk : k = (user, id)
    · subst hk; rw [hb0] at hnone; cases hnone
    · dsimp only at hb'
      rw [alookup_ainsert_ne hk, hnone] at hb'; cases hb'

/-! ### sums over the tables -/

theorem asum_ainsert_newF {κ ν : Type} [DecidableEq κ] (f : ν → Nat) {k : κ} (v : ν)
    {l : List (κ × ν)} (h : alookup k l = none) : asum f (ainsert k v l) = f v + asum f l := by
  rw [asum_ainsert, al_aerase_absent h]

theorem asum_ainsert_same {κ ν : Type} [DecidableEq κ] (f : ν → Nat) {k : κ} {v v' : ν}
    {l : List (κ × ν)} (hn : (akeys l).Nodup) (h : alookup k l = some v) (hf : f v' = f v) :
    asum f (ainsert k v' l) = asum f l := by
  rw [asum_ainsert, hf, ← asum_aerase f hn h]; omega

/-- a per-record quantity that the deposit does not carry and a top-up does not change has the
    same total over each table -/
theorem HookChange.sums (hI : IdsInv m) (h : HookChange m user fresh top m')
    (f : Listing → Nat) (g : Bucket → Nat)
    (hf0 : ∀ id wl ask, f (newListing user id wl fresh ask) = 0)
    (hf : ∀ l nf, top l.forSale nf → f { l with forSale := nf } = f l)
    (hg0 : g ⟨user, fresh, none⟩ = 0)
    (hg : ∀ b nf, top b.funds nf → g { b with funds := nf } = g b) :
    listingsSum f m' = listingsSum f m ∧ bucketsSum g m' = bucketsSum g m := by
  have eL : ∀ x : Market, listingsSum f x = asum f x.listings := fun _ => rfl
  have eB : ∀ x : Market, bucketsSum g x = asum g x.buckets := fun _ => rfl
  rw [eL, eL, eB, eB]
  cases h with
  | lcreate id wl ask hnew _ hm =>
    subst hm
    refine ⟨?_, rfl⟩
    dsimp only
    rw [asum_ainsert_newF f _ (hI.alookup_none_of_findById hnew user), hf0]; omega
  | ledit id l nf hl _ _ htop hm =>
    subst hm
    exact ⟨asum_ainsert_same f hI.lkeys hl (hf l nf htop), rfl⟩
  | bcreate id hnew _ hm =>
    subst hm
    refine ⟨rfl, ?_⟩
    dsimp only
    rw [asum_ainsert_newF g _ hnew, hg0]; omega
  | bedit id b nf hb htop hm =>
    subst hm
    exact ⟨rfl, asum_ainsert_same g hI.bkeys hb (hg b nf htop)⟩

theorem asum_ainsert_delta {κ ν : Type} [DecidableEq κ] (f : ν → Nat) {k : κ} {v v' : ν} {δ : Nat}
    {l : List (κ × ν)} (hn : (akeys l).Nodup) (h : alookup k l = some v) (hf : f v' = f v + δ) :
    asum f (ainsert k v' l) = asum f l + δ := by
  rw [asum_ainsert, hf, ← asum_aerase f hn h]; omega

/-- a per-record quantity of which the deposit carries `δ` and which a top-up raises by `δ`:
    its total over both tables grows by exactly `δ` -/
theorem HookChange.sums_delta (hI : IdsInv m) (h : HookChange m user fresh top m')
    (f : Listing → Nat) (g : Bucket → Nat) (δ : Nat)
    (hf0 : ∀ id wl ask, f (newListing user id wl fresh ask) = δ)
    (hf : ∀ l nf, top l.forSale nf → f { l with forSale := nf } = f l + δ)
    (hg0 : g ⟨user, fresh, none⟩ = δ)
    (hg : ∀ b nf, top b.funds nf → g { b with funds := nf } = g b + δ) :
    listingsSum f m' + bucketsSum g m' = listingsSum f m + bucketsSum g m + δ := by
  have eL : ∀ x : Market, listingsSum f x = asum f x.listings := fun _ => rfl
  have eB : ∀ x : Market, bucketsSum g x = asum g x.buckets := fun _ => rfl
  rw [eL, eL, eB, eB]
  cases h with
  | lcreate id wl ask hnew _ hm =>
    subst hm
    dsimp only
    rw [asum_ainsert_newF f _ (hI.alookup_none_of_findById hnew user), hf0]; omega
  | ledit id l nf hl _ _ htop hm =>
    subst hm
    dsimp only
    rw [asum_ainsert_delta f hI.lkeys hl (hf l nf htop)]; omega
  | bcreate id hnew _ hm =>
    subst hm
    dsimp only
    rw [asum_ainsert_newF g _ hnew, hg0]; omega
  | bedit id b nf hb htop hm =>
    subst hm
    dsimp only
    rw [asum_ainsert_delta g hI.bkeys hb (hg b nf htop)]; omega

/-- the recorded NFTs after a hook, as a multiset: those recorded before plus the NFTs `extra`
    the deposit carries -/
theorem HookChange.nfts (hI : IdsInv m) (h : HookChange m user fresh top m') (extra : List Nft)
    (h0 : fresh.nfts = extra) (ht : ∀ g nf, top g nf → nf.nfts = g.nfts ++ extra) :
    (recordedNfts m').Perm (extra ++ recordedNfts m) := by
  unfold recordedNfts
  have mid : ∀ (L B : List Nft), (L ++ (extra ++ B)).Perm (extra ++ (L ++ B)) := by
    intro L B
    rw [← List.append_assoc, ← List.append_assoc]
    exact List.Perm.append_right B List.perm_append_comm
  cases h with
  | lcreate id wl ask hnew _ hm =>
    subst hm
    dsimp only
    rw [ainsert, al_aerase_absent (hI.alookup_none_of_findById hnew user), List.flatMap_cons,
      List.append_assoc]
    show (fresh.nfts ++ _).Perm _
    rw [h0]
  | ledit id l nf hl _ _ htop hm =>
    subst hm
    dsimp only
    rw [ainsert, List.flatMap_cons]
    have hp := perm_flatMap_aerase (fun p : (Nat × Nat) × Listing => p.2.forSale.nfts) hI.lkeys hl
    dsimp only at hp ⊢
    rw [ht _ _ htop]
    refine List.Perm.trans ?_ (List.Perm.append_left extra (List.Perm.append_right _ hp.symm))
    rw [← List.append_assoc, ← List.append_assoc]
    exact List.Perm.append_right _ (List.Perm.append_right _ List.perm_append_comm)
  | bcreate id hnew _ hm =>
    subst hm
    dsimp only
    rw [ainsert, al_aerase_absent hnew, List.flatMap_cons]
    show (_ ++ (fresh.nfts ++ _)).Perm _
    rw [h0]
    exact mid _ _
  | bedit id b nf hb htop hm =>
    subst hm
    dsimp only
    rw [ainsert, List.flatMap_cons]
    have hp := perm_flatMap_aerase (fun p : (Nat × Nat) × Bucket => p.2.funds.nfts) hI.bkeys hb
    dsimp only at hp ⊢
    rw [ht _ _ htop]
    refine List.Perm.trans ?_ (mid _ _)
    refine List.Perm.append_left _ ?_
    refine List.Perm.trans ?_ (List.Perm.append_left extra hp.symm)
    rw [← List.append_assoc]
    exact List.Perm.append_right _ List.perm_append_comm

end conseq

/-! ### what a top-up adds -/

/-- a CW20 top-up writes the `cw20` list only: the amount of the deposited token grows by the
    deposit, every other amount is unchanged -/
theorem addTokens_cw20_spec {g nf : GBal} {t a : Nat} (h : addTokens g (.cw20 ⟨t, a⟩) = some nf) :
    nf.native = g.native ∧ nf.nfts = g.nfts ∧
    (∀ k, coinAmt nf.cw20 k = coinAmt g.cw20 k + (if t = k then a else 0)) := by
  simp only [addTokens] at h
  split at h
  · cases h
  · next n hn =>
    simp only [Option.some.injEq] at h
    subst h
    exact ⟨rfl, rfl, fun k => addCoin_coinAmt hn k⟩

/-! ### a direct call of a hook, at world level -/

theorem execute_receive (m : Market) (env : Env) (c : Nat) (f : List Coin) (s : RawAddr) (a : Nat)
    (i : Option Inner) : execute m env c f (.receive s a i) = receive m env c f s a i := by
  simp [execute, ExecMsg.takesCoins]

theorem execute_receiveNft (m : Market) (env : Env) (c : Nat) (f : List Coin) (s : RawAddr) (t : Nat)
    (i : Option Inner) : execute m env c f (.receiveNft s t i) = receiveNft m env c f s t i := by
  simp [execute, ExecMsg.takesCoins]

/-- a direct call without coins of a message that emits nothing: refused (the world is returned
    as it was) or accepted, and then the world differs in the marketplace record only -/
theorem stepF_exec_silent {fail : Nat → Bool} {w : World} {caller : Nat} {msg : ExecMsg}
    (hout : ∀ m' out, execute w.mkt w.env caller [] msg = .ok (m', out) → out = []) :
    (∃ e, stepF fail w (.exec caller [] msg) = (w, .fail e)) ∨
    (∃ m', execute w.mkt w.env caller [] msg = .ok (m', []) ∧
      stepF fail w (.exec caller [] msg) = ({ w with mkt := m' }, ⟨true, none, []⟩)) := by
  simp only [stepF, List.isEmpty_nil, if_true, runMarket]
  cases hx : execute w.mkt w.env caller [] msg with
  | error e => exact .inl ⟨e, rfl⟩
  | ok r =>
    obtain ⟨m', out⟩ := r
    have := hout m' out hx
    subst this
    exact .inr ⟨m', rfl, rfl⟩

end Fuzion
