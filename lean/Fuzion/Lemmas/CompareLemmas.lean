/-
  Fuzion.Lemmas.CompareLemmas — helper lemmas about the canonical forms of
  `Fuzion.Driver.Codec` (`sortCoins`, `sortNfts`, `sortNats`, `sortCodes`, `canonListings`, …,
  `ledgerEq`, `nftLedgerEq`) used by `Fuzion.Props.CompareSound`.

  Contents
  * `cmpAll2` / `UpToOrder`: "the same list up to the order of the entries and up to a relation
    on the entries" (core Lean has no `List.Forall₂`);
  * `lexLe` is a total order on `List Nat`;
  * a merge sort by a total preorder that is antisymmetric on the sorted list is canonical
    (`cmp_mergeSort_eq_of_perm`), and coincides with the structurally recursive insertion sort
    `cmpISort` (which, unlike `List.mergeSort`, is evaluated by `decide`);
  * characterisations `canonX a = canonX b ↔ …` of every canonical form.
-/
import Fuzion.Driver.Compare
import Fuzion.Lemmas.AListBasic
namespace Fuzion
open Fuzion.Codec Fuzion.Cmp

/-! ### pointwise relation between lists, and lists up to order -/

/-- `cmpAll2 R l₁ l₂`: the lists have the same length and are pointwise related by `R`
    (`List.Forall₂` of Mathlib). -/
def cmpAll2 {α β : Type} (R : α → β → Prop) : List α → List β → Prop
  | [], [] => True
  | a :: as, b :: bs => R a b ∧ cmpAll2 R as bs
  | _, _ => False

@[simp] theorem cmpAll2_nil_nil {α β : Type} (R : α → β → Prop) : cmpAll2 R [] [] = True := rfl
@[simp] theorem cmpAll2_cons_cons {α β : Type} (R : α → β → Prop) (a : α) (b : β) (as : List α)
    (bs : List β) : cmpAll2 R (a :: as) (b :: bs) = (R a b ∧ cmpAll2 R as bs) := rfl
@[simp] theorem cmpAll2_nil_cons {α β : Type} (R : α → β → Prop) (b : β) (bs : List β) :
    cmpAll2 R [] (b :: bs) = False := rfl
@[simp] theorem cmpAll2_cons_nil {α β : Type} (R : α → β → Prop) (a : α) (as : List α) :
    cmpAll2 R (a :: as) [] = False := rfl

instance cmpAll2_decidable {α β : Type} (R : α → β → Prop) [∀ a b, Decidable (R a b)] :
    ∀ l₁ l₂, Decidable (cmpAll2 R l₁ l₂)
  | [], [] => isTrue trivial
  | [], _ :: _ => isFalse id
  | _ :: _, [] => isFalse id
  | a :: as, b :: bs =>
    have := cmpAll2_decidable R as bs
    inferInstanceAs (Decidable (R a b ∧ cmpAll2 R as bs))

/-- pointwise related lists have the same length -/
theorem cmpAll2_length {α β : Type} {R : α → β → Prop} :
    ∀ {l₁ : List α} {l₂ : List β}, cmpAll2 R l₁ l₂ → l₁.length = l₂.length
  | [], [], _ => rfl
  | [], _ :: _, h => h.elim
  | _ :: _, [], h => h.elim
  | _ :: _, _ :: _, h => by simp [cmpAll2_length h.2]

/-- index form of `cmpAll2`: same length and related entries at every position -/
theorem cmpAll2_iff_getElem {α β : Type} {R : α → β → Prop} :
    ∀ {l₁ : List α} {l₂ : List β}, cmpAll2 R l₁ l₂ ↔
      l₁.length = l₂.length ∧ ∀ (i : Nat) (h₁ : i < l₁.length) (h₂ : i < l₂.length), R l₁[i] l₂[i]
  | [], [] => by simp
  | [], _ :: _ => by simp
  | _ :: _, [] => by simp
  | a :: as, b :: bs => by
    rw [cmpAll2_cons_cons, cmpAll2_iff_getElem (l₁ := as) (l₂ := bs)]
    constructor
    · rintro ⟨h0, hl, hi⟩
      refine ⟨by simp [hl], ?_⟩
      intro i h₁ h₂
      cases i with
      | zero => simpa using h0
      | succ i => simpa using hi i (by simpa using h₁) (by simpa using h₂)
    · rintro ⟨hl, hi⟩
      refine ⟨hi 0 (by simp) (by simp), by simpa using hl, ?_⟩
      intro i h₁ h₂
      exact hi (i + 1) (by simpa using h₁) (by simpa using h₂)

/-- `cmpAll2` is monotone in the relation -/
theorem cmpAll2_mono {α β : Type} {R S : α → β → Prop} (h : ∀ a b, R a b → S a b) :
    ∀ {l₁ : List α} {l₂ : List β}, cmpAll2 R l₁ l₂ → cmpAll2 S l₁ l₂
  | [], [], _ => trivial
  | [], _ :: _, h' => h'.elim
  | _ :: _, [], h' => h'.elim
  | _ :: _, _ :: _, h' => ⟨h _ _ h'.1, cmpAll2_mono h h'.2⟩

/-- `cmpAll2` with a relation that implies `f a = g b`: the mapped lists are equal -/
theorem cmpAll2_map_eq {α β γ : Type} {R : α → β → Prop} {f : α → γ} {g : β → γ}
    (h : ∀ a b, R a b → f a = g b) :
    ∀ {l₁ : List α} {l₂ : List β}, cmpAll2 R l₁ l₂ → l₁.map f = l₂.map g
  | [], [], _ => rfl
  | [], _ :: _, h' => h'.elim
  | _ :: _, [], h' => h'.elim
  | _ :: _, _ :: _, h' => by
    simp only [List.map_cons, h _ _ h'.1, cmpAll2_map_eq h h'.2]

/-- equal mapped lists are pointwise related by `f a = g b` -/
theorem cmpAll2_of_map_eq {α β γ : Type} {f : α → γ} {g : β → γ} :
    ∀ {l₁ : List α} {l₂ : List β}, l₁.map f = l₂.map g → cmpAll2 (fun a b => f a = g b) l₁ l₂
  | [], [], _ => trivial
  | [], _ :: _, h => by simp at h
  | _ :: _, [], h => by simp at h
  | _ :: _, _ :: _, h => by
    simp only [List.map_cons, List.cons.injEq] at h
    exact ⟨h.1, cmpAll2_of_map_eq h.2⟩

/-- `cmpAll2` of mapped lists -/
theorem cmpAll2_map_map {α β α' β' : Type} {R : α' → β' → Prop} {f : α → α'} {g : β → β'} :
    ∀ {l₁ : List α} {l₂ : List β},
      cmpAll2 R (l₁.map f) (l₂.map g) ↔ cmpAll2 (fun a b => R (f a) (g b)) l₁ l₂
  | [], [] => by simp
  | [], _ :: _ => by simp
  | _ :: _, [] => by simp
  | _ :: as, _ :: bs => by
    simp only [List.map_cons, cmpAll2_cons_cons, cmpAll2_map_map (l₁ := as) (l₂ := bs)]

/-- pointwise permutations flatten to a permutation -/
theorem cmpAll2_flatMap_perm {α β γ : Type} {f : α → List γ} {g : β → List γ} :
    ∀ {l₁ : List α} {l₂ : List β}, cmpAll2 (fun a b => (f a).Perm (g b)) l₁ l₂ →
      (l₁.flatMap f).Perm (l₂.flatMap g)
  | [], [], _ => by simp
  | [], _ :: _, h => h.elim
  | _ :: _, [], h => h.elim
  | _ :: _, _ :: _, h => by
    simp only [List.flatMap_cons]
    exact h.1.append (cmpAll2_flatMap_perm h.2)

/-- `UpToOrder R l₁ l₂`: after reordering `l₁`, the two lists are pointwise related by `R`.
    This is "the same list up to the order of the entries (and up to `R` on the entries)". -/
def UpToOrder {α β : Type} (R : α → β → Prop) (l₁ : List α) (l₂ : List β) : Prop :=
  ∃ l', l₁.Perm l' ∧ cmpAll2 R l' l₂

/-- index form of `UpToOrder`: a reordering `l'` of `l₁` of the same length as `l₂` whose entries
    are related to those of `l₂` position by position -/
theorem cmp_upToOrder_iff_index {α β : Type} {R : α → β → Prop} {l₁ : List α} {l₂ : List β} :
    UpToOrder R l₁ l₂ ↔ ∃ l', l₁.Perm l' ∧ l'.length = l₂.length ∧
      ∀ (i : Nat) (h₁ : i < l'.length) (h₂ : i < l₂.length), R l'[i] l₂[i] := by
  simp only [UpToOrder, cmpAll2_iff_getElem]

/-- lists that agree up to order have the same length -/
theorem UpToOrder.length_eq {α β : Type} {R : α → β → Prop} {l₁ : List α} {l₂ : List β}
    (h : UpToOrder R l₁ l₂) : l₁.length = l₂.length := by
  obtain ⟨l', hp, ha⟩ := h
  rw [hp.length_eq, cmpAll2_length ha]

/-- `UpToOrder` is monotone in the relation -/
theorem UpToOrder.mono {α β : Type} {R S : α → β → Prop} (hRS : ∀ a b, R a b → S a b)
    {l₁ : List α} {l₂ : List β} (h : UpToOrder R l₁ l₂) : UpToOrder S l₁ l₂ := by
  obtain ⟨l', hp, ha⟩ := h
  exact ⟨l', hp, cmpAll2_mono hRS ha⟩

/-- images under functions that `R` identifies are permutations of each other -/
theorem UpToOrder.map_perm {α β γ : Type} {R : α → β → Prop} {f : α → γ} {g : β → γ}
    (hfg : ∀ a b, R a b → f a = g b) {l₁ : List α} {l₂ : List β} (h : UpToOrder R l₁ l₂) :
    (l₁.map f).Perm (l₂.map g) := by
  obtain ⟨l', hp, ha⟩ := h
  rw [← cmpAll2_map_eq hfg ha]
  exact hp.map f

/-- list-valued images that `R` identifies up to order: the concatenations are permutations -/
theorem UpToOrder.flatMap_perm {α β γ : Type} {R : α → β → Prop} {f : α → List γ} {g : β → List γ}
    (hfg : ∀ a b, R a b → (f a).Perm (g b)) {l₁ : List α} {l₂ : List β} (h : UpToOrder R l₁ l₂) :
    (l₁.flatMap f).Perm (l₂.flatMap g) := by
  obtain ⟨l', hp, ha⟩ := h
  exact (hp.flatMap_right f).trans (cmpAll2_flatMap_perm (cmpAll2_mono hfg ha))

/-- `UpToOrder` is preserved by mapping both lists -/
theorem UpToOrder.map_map {α β α' β' : Type} {R : α → β → Prop} {S : α' → β' → Prop}
    {f : α → α'} {g : β → β'} (hfg : ∀ a b, R a b → S (f a) (g b))
    {l₁ : List α} {l₂ : List β} (h : UpToOrder R l₁ l₂) : UpToOrder S (l₁.map f) (l₂.map g) := by
  obtain ⟨l', hp, ha⟩ := h
  exact ⟨l'.map f, hp.map f, cmpAll2_map_map.mpr (cmpAll2_mono hfg ha)⟩

/-- a permutation of an image is the image of a permutation -/
theorem cmp_perm_of_map_perm {α β : Type} (f : α → β) {x y : List β} (h : x.Perm y) :
    ∀ l₁ : List α, l₁.map f = x → ∃ l', l₁.Perm l' ∧ l'.map f = y := by
  induction h with
  | nil => intro l₁ h; exact ⟨l₁, .refl _, h⟩
  | cons a _ ih =>
    intro l₁ h
    match l₁, h with
    | b :: l₁, h =>
      simp only [List.map_cons, List.cons.injEq] at h
      obtain ⟨l', hp, hm⟩ := ih l₁ h.2
      exact ⟨b :: l', hp.cons b, by simp [hm, h.1]⟩
  | swap a b l =>
    intro l₁ h
    match l₁, h with
    | c :: d :: l₁, h =>
      simp only [List.map_cons, List.cons.injEq] at h
      exact ⟨d :: c :: l₁, .swap d c l₁, by simp [h.1, h.2.1, h.2.2]⟩
  | trans _ _ ih₁ ih₂ =>
    intro l₁ h
    obtain ⟨l', hp, hm⟩ := ih₁ l₁ h
    obtain ⟨l'', hp', hm'⟩ := ih₂ l' hm
    exact ⟨l'', hp.trans hp', hm'⟩

/-- images that are permutations of each other: the lists agree up to order and up to `f a = g b` -/
theorem UpToOrder.of_map_perm {α β γ : Type} {f : α → γ} {g : β → γ} {l₁ : List α} {l₂ : List β}
    (h : (l₁.map f).Perm (l₂.map g)) : UpToOrder (fun a b => f a = g b) l₁ l₂ := by
  obtain ⟨l', hp, hm⟩ := cmp_perm_of_map_perm f h l₁ rfl
  exact ⟨l', hp, cmpAll2_of_map_eq hm⟩

/-- `cmpAll2` with the converse relation -/
theorem cmpAll2_flip {α β : Type} {R : α → β → Prop} :
    ∀ {l₁ : List α} {l₂ : List β}, cmpAll2 R l₁ l₂ → cmpAll2 (fun b a => R a b) l₂ l₁
  | [], [], _ => trivial
  | [], _ :: _, h => h.elim
  | _ :: _, [], h => h.elim
  | _ :: _, _ :: _, h => ⟨h.1, cmpAll2_flip h.2⟩

/-- `cmpAll2` composes -/
theorem cmpAll2_trans {α β γ : Type} {R : α → β → Prop} {S : β → γ → Prop} :
    ∀ {l₁ : List α} {l₂ : List β} {l₃ : List γ}, cmpAll2 R l₁ l₂ → cmpAll2 S l₂ l₃ →
      cmpAll2 (fun a c => ∃ b, R a b ∧ S b c) l₁ l₃
  | [], [], [], _, _ => trivial
  | [], [], _ :: _, _, h => h.elim
  | [], _ :: _, _, h, _ => h.elim
  | _ :: _, [], _, h, _ => h.elim
  | _ :: _, _ :: _, [], _, h => h.elim
  | _ :: _, _ :: _, _ :: _, h, h' => ⟨⟨_, h.1, h'.1⟩, cmpAll2_trans h.2 h'.2⟩

/-- a pointwise relation can follow a reordering of its left list -/
theorem cmpAll2_perm_left {α β : Type} {R : α → β → Prop} {l l' : List α} (hp : l.Perm l') :
    ∀ {m : List β}, cmpAll2 R l m → ∃ m', m.Perm m' ∧ cmpAll2 R l' m' := by
  induction hp with
  | nil => intro m h; exact ⟨m, .refl _, h⟩
  | cons a _ ih =>
    intro m h
    match m, h with
    | b :: m, h =>
      obtain ⟨m', hp', hm'⟩ := ih h.2
      exact ⟨b :: m', hp'.cons b, h.1, hm'⟩
  | swap a b l =>
    intro m h
    match m, h with
    | c :: d :: m, h => exact ⟨d :: c :: m, .swap d c m, h.2.1, h.1, h.2.2⟩
  | trans _ _ ih₁ ih₂ =>
    intro m h
    obtain ⟨m', hp', hm'⟩ := ih₁ h
    obtain ⟨m'', hp'', hm''⟩ := ih₂ hm'
    exact ⟨m'', hp'.trans hp'', hm''⟩

/-- `UpToOrder` is symmetric (with the converse relation) … -/
theorem UpToOrder.symm {α β : Type} {R : α → β → Prop} {l₁ : List α} {l₂ : List β}
    (h : UpToOrder R l₁ l₂) : UpToOrder (fun b a => R a b) l₂ l₁ := by
  obtain ⟨l', hp, ha⟩ := h
  obtain ⟨m', hp', hm'⟩ := cmpAll2_perm_left hp.symm ha
  exact ⟨m', hp', cmpAll2_flip hm'⟩

/-- … and transitive (with the composed relation) -/
theorem UpToOrder.trans {α β γ : Type} {R : α → β → Prop} {S : β → γ → Prop} {l₁ : List α}
    {l₂ : List β} {l₃ : List γ} (h : UpToOrder R l₁ l₂) (h' : UpToOrder S l₂ l₃) :
    UpToOrder (fun a c => ∃ b, R a b ∧ S b c) l₁ l₃ := by
  obtain ⟨l', hp, ha⟩ := h
  obtain ⟨m', hq, hb⟩ := h'
  obtain ⟨l'', hp', ha'⟩ := cmpAll2_perm_left hq (cmpAll2_flip ha)
  exact ⟨l'', hp.trans hp', cmpAll2_trans (cmpAll2_flip ha') hb⟩

/-- a permutation is `UpToOrder` for equality … -/
theorem UpToOrder.of_perm {α : Type} {l₁ l₂ : List α} (h : l₁.Perm l₂) : UpToOrder (· = ·) l₁ l₂ :=
  UpToOrder.of_map_perm (f := id) (g := id) (by simpa using h)

/-- … and conversely -/
theorem UpToOrder.perm {α : Type} {l₁ l₂ : List α} (h : UpToOrder (· = ·) l₁ l₂) : l₁.Perm l₂ := by
  simpa using h.map_perm (f := id) (g := id) (fun _ _ h => h)

/-! ### `lexLe` is a total order on `List Nat` -/

/-- totality -/
theorem cmp_lexLe_total : ∀ a b : List Nat, (lexLe a b || lexLe b a) = true
  | [], _ => by simp [lexLe]
  | _ :: _, [] => by simp [lexLe]
  | a :: as, b :: bs => by
    have ih := cmp_lexLe_total as bs
    simp only [lexLe]
    by_cases h1 : a < b
    · simp [h1]
    · by_cases h2 : b < a
      · simp [h2]
      · simpa [h1, h2] using ih

/-- reflexivity -/
theorem cmp_lexLe_refl (a : List Nat) : lexLe a a = true := by
  simpa using cmp_lexLe_total a a

/-- transitivity -/
theorem cmp_lexLe_trans : ∀ a b c : List Nat, lexLe a b = true → lexLe b c = true → lexLe a c = true
  | [], _, _, _, _ => by simp [lexLe]
  | _ :: _, [], _, h, _ => by simp [lexLe] at h
  | _ :: _, _ :: _, [], _, h => by simp [lexLe] at h
  | a :: as, b :: bs, c :: cs, h₁, h₂ => by
    have ih := cmp_lexLe_trans as bs cs
    simp only [lexLe] at h₁ h₂ ⊢
    split at h₁
    · split at h₂
      · rw [if_pos (by omega)]
      · split at h₂
        · simp at h₂
        · rw [if_pos (by omega)]
    · split at h₁
      · simp at h₁
      · split at h₂
        · rw [if_pos (by omega)]
        · split at h₂
          · simp at h₂
          · rw [if_neg (by omega), if_neg (by omega)]
            exact ih h₁ h₂

/-- antisymmetry: `lexLe` is a total ORDER, so sorting with it is canonical -/
theorem cmp_lexLe_antisymm : ∀ a b : List Nat, lexLe a b = true → lexLe b a = true → a = b
  | [], [], _, _ => rfl
  | [], _ :: _, _, h => by simp [lexLe] at h
  | _ :: _, [], h, _ => by simp [lexLe] at h
  | a :: as, b :: bs, h₁, h₂ => by
    have ih := cmp_lexLe_antisymm as bs
    simp only [lexLe] at h₁ h₂
    split at h₁
    · rw [if_neg (by omega), if_pos (by omega)] at h₂
      simp at h₂
    · split at h₁
      · simp at h₁
      · rw [if_neg (by omega), if_neg (by omega)] at h₂
        have : a = b := by omega
        rw [this, ih h₁ h₂]

/-! ### sorting with a total preorder that is antisymmetric on the list is canonical -/

/-- the merge sorts of two permutations of each other are equal when the comparison is a total
    preorder and antisymmetric on the elements of the list -/
theorem cmp_mergeSort_eq_of_perm {α : Type} {le : α → α → Bool}
    (trans : ∀ a b c : α, le a b = true → le b c = true → le a c = true)
    (total : ∀ a b : α, (le a b || le b a) = true) {l₁ l₂ : List α}
    (anti : ∀ a b, a ∈ l₁ → b ∈ l₁ → le a b = true → le b a = true → a = b)
    (h : l₁.Perm l₂) : l₁.mergeSort le = l₂.mergeSort le :=
  List.Perm.eq_of_pairwise (le := fun a b => le a b = true)
    (fun a b ha hb => anti a b (List.mem_mergeSort.1 ha) (h.mem_iff.2 (List.mem_mergeSort.1 hb)))
    (List.pairwise_mergeSort trans total _) (List.pairwise_mergeSort trans total _)
    ((List.mergeSort_perm _ _).trans (h.trans (List.mergeSort_perm _ _).symm))

/-- equal merge sorts (whatever the comparison): the inputs are permutations of each other -/
theorem cmp_perm_of_mergeSort_eq {α : Type} {le : α → α → Bool} {a b : List α}
    (h : a.mergeSort le = b.mergeSort le) : a.Perm b :=
  (List.mergeSort_perm a le).symm.trans (h ▸ List.mergeSort_perm b le)

/-- structurally recursive insertion sort (evaluated by `decide`, unlike `List.mergeSort`) -/
def cmpInsert {α : Type} (le : α → α → Bool) (a : α) : List α → List α
  | [] => [a]
  | b :: l => if le a b then a :: b :: l else b :: cmpInsert le a l

def cmpISort {α : Type} (le : α → α → Bool) : List α → List α
  | [] => []
  | a :: l => cmpInsert le a (cmpISort le l)

/-- insertion is a permutation of `a :: l` -/
theorem cmpInsert_perm {α : Type} (le : α → α → Bool) (a : α) :
    ∀ l : List α, (cmpInsert le a l).Perm (a :: l)
  | [] => .refl _
  | b :: l => by
    simp only [cmpInsert]
    split
    · exact .refl _
    · exact ((cmpInsert_perm le a l).cons b).trans (.swap a b l)

/-- insertion sort is a permutation -/
theorem cmpISort_perm {α : Type} (le : α → α → Bool) : ∀ l : List α, (cmpISort le l).Perm l
  | [] => .refl _
  | a :: l => (cmpInsert_perm le a _).trans ((cmpISort_perm le l).cons a)

/-- insertion into a sorted list keeps it sorted (total preorder) -/
theorem cmpInsert_pairwise {α : Type} {le : α → α → Bool}
    (trans : ∀ a b c : α, le a b = true → le b c = true → le a c = true)
    (total : ∀ a b : α, (le a b || le b a) = true) (a : α) :
    ∀ l : List α, l.Pairwise (fun a b => le a b = true) →
      (cmpInsert le a l).Pairwise (fun a b => le a b = true)
  | [], _ => by simp [cmpInsert]
  | b :: l, h => by
    simp only [cmpInsert]
    split
    · next hab =>
      refine List.Pairwise.cons ?_ h
      intro c hc
      rcases List.mem_cons.1 hc with rfl | hc
      · exact hab
      · exact trans _ _ _ hab (List.rel_of_pairwise_cons h hc)
    · next hab =>
      have hba : le b a = true := by
        have := total a b
        simpa [hab] using this
      refine List.Pairwise.cons ?_ (cmpInsert_pairwise trans total a l h.tail)
      intro c hc
      rcases List.mem_cons.1 ((cmpInsert_perm le a l).mem_iff.1 hc) with rfl | hc
      · exact hba
      · exact List.rel_of_pairwise_cons h hc

/-- insertion sort sorts (total preorder) -/
theorem cmpISort_pairwise {α : Type} {le : α → α → Bool}
    (trans : ∀ a b c : α, le a b = true → le b c = true → le a c = true)
    (total : ∀ a b : α, (le a b || le b a) = true) :
    ∀ l : List α, (cmpISort le l).Pairwise (fun a b => le a b = true)
  | [] => by simp [cmpISort]
  | a :: l => cmpInsert_pairwise trans total a _ (cmpISort_pairwise trans total l)

/-- merge sort = insertion sort, for a total preorder that is antisymmetric on the list -/
theorem cmp_mergeSort_eq_isort {α : Type} {le : α → α → Bool}
    (trans : ∀ a b c : α, le a b = true → le b c = true → le a c = true)
    (total : ∀ a b : α, (le a b || le b a) = true) {l : List α}
    (anti : ∀ a b, a ∈ l → b ∈ l → le a b = true → le b a = true → a = b) :
    l.mergeSort le = cmpISort le l := by
  rw [cmp_mergeSort_eq_of_perm trans total anti (cmpISort_perm le l).symm,
    List.mergeSort_of_pairwise (cmpISort_pairwise trans total l)]

/-- comparison by a `List Nat`-valued key -/
theorem cmp_keyLe_trans {α : Type} (f : α → List Nat) (a b c : α) :
    lexLe (f a) (f b) = true → lexLe (f b) (f c) = true → lexLe (f a) (f c) = true :=
  cmp_lexLe_trans _ _ _

/-- … is total -/
theorem cmp_keyLe_total {α : Type} (f : α → List Nat) (a b : α) :
    (lexLe (f a) (f b) || lexLe (f b) (f a)) = true := cmp_lexLe_total _ _

/-- comparison by a `Nat`-valued key is transitive … -/
theorem cmp_natLe_trans {α : Type} (f : α → Nat) (a b c : α) :
    decide (f a ≤ f b) = true → decide (f b ≤ f c) = true → decide (f a ≤ f c) = true := by
  simp only [decide_eq_true_eq]; omega

/-- … and total -/
theorem cmp_natLe_total {α : Type} (f : α → Nat) (a b : α) :
    (decide (f a ≤ f b) || decide (f b ≤ f a)) = true := by
  simp only [Bool.or_eq_true, decide_eq_true_eq]; omega

/-! ### the sorts whose key is the whole element: `sortCodes`, `sortCoins`, `sortNfts` -/

/-- `sortCodes` is a permutation, and canonical: equal results iff permutations of each other -/
theorem cmp_sortCodes_eq_iff {a b : List (List Nat)} : sortCodes a = sortCodes b ↔ a.Perm b := by
  constructor
  · exact cmp_perm_of_mergeSort_eq
  · intro h
    exact cmp_mergeSort_eq_of_perm cmp_lexLe_trans cmp_lexLe_total
      (fun x y _ _ => cmp_lexLe_antisymm x y) h

/-- `sortCodes` as an insertion sort -/
theorem cmp_sortCodes_eval (l : List (List Nat)) : sortCodes l = cmpISort lexLe l :=
  cmp_mergeSort_eq_isort cmp_lexLe_trans cmp_lexLe_total (fun x y _ _ => cmp_lexLe_antisymm x y)

/-- `sortCoins` is canonical: the key `(key, amount)` is the whole coin -/
theorem cmp_sortCoins_eq_iff {a b : List Coin} : sortCoins a = sortCoins b ↔ a.Perm b := by
  constructor
  · exact cmp_perm_of_mergeSort_eq
  · intro h
    refine cmp_mergeSort_eq_of_perm (cmp_keyLe_trans (fun c : Coin => [c.key, c.amount]))
      (cmp_keyLe_total (fun c : Coin => [c.key, c.amount])) ?_ h
    intro x y _ _ h₁ h₂
    have := cmp_lexLe_antisymm _ _ h₁ h₂
    cases x; cases y; simp_all

/-- `sortCoins` as an insertion sort -/
theorem cmp_sortCoins_eval (l : List Coin) :
    sortCoins l = cmpISort (fun a b => lexLe [a.key, a.amount] [b.key, b.amount]) l := by
  refine cmp_mergeSort_eq_isort (cmp_keyLe_trans (fun c : Coin => [c.key, c.amount]))
      (cmp_keyLe_total (fun c : Coin => [c.key, c.amount])) ?_
  intro x y _ _ h₁ h₂
  have := cmp_lexLe_antisymm _ _ h₁ h₂
  cases x; cases y; simp_all

/-- `sortNfts` is canonical: the key `(coll, tid)` is the whole NFT -/
theorem cmp_sortNfts_eq_iff {a b : List Nft} : sortNfts a = sortNfts b ↔ a.Perm b := by
  constructor
  · exact cmp_perm_of_mergeSort_eq
  · intro h
    refine cmp_mergeSort_eq_of_perm (cmp_keyLe_trans (fun c : Nft => [c.coll, c.tid]))
      (cmp_keyLe_total (fun c : Nft => [c.coll, c.tid])) ?_ h
    intro x y _ _ h₁ h₂
    have := cmp_lexLe_antisymm _ _ h₁ h₂
    cases x; cases y; simp_all

/-- `sortNfts` as an insertion sort -/
theorem cmp_sortNfts_eval (l : List Nft) :
    sortNfts l = cmpISort (fun a b => lexLe [a.coll, a.tid] [b.coll, b.tid]) l := by
  refine cmp_mergeSort_eq_isort (cmp_keyLe_trans (fun c : Nft => [c.coll, c.tid]))
      (cmp_keyLe_total (fun c : Nft => [c.coll, c.tid])) ?_
  intro x y _ _ h₁ h₂
  have := cmp_lexLe_antisymm _ _ h₁ h₂
  cases x; cases y; simp_all

/-- the flattened `[key, amount, key, amount, …]` code of a coin list determines the list -/
theorem cmp_coinCodes_inj : ∀ {l l' : List Coin},
    l.flatMap (fun c => [c.key, c.amount]) = l'.flatMap (fun c => [c.key, c.amount]) → l = l'
  | [], [], _ => rfl
  | [], _ :: _, h => by simp at h
  | _ :: _, [], h => by simp at h
  | c :: l, c' :: l', h => by
    simp only [List.flatMap_cons, List.cons_append, List.nil_append, List.cons.injEq] at h
    obtain ⟨h1, h2, h3⟩ := h
    rw [cmp_coinCodes_inj h3]
    cases c; cases c'; simp_all

/-- `canonGBal` identifies exactly the balances whose three lists are permutations of each other -/
theorem cmp_canonGBal_eq_iff {a b : GBal} : canonGBal a = canonGBal b ↔
    a.native.Perm b.native ∧ a.cw20.Perm b.cw20 ∧ a.nfts.Perm b.nfts := by
  simp only [canonGBal, GBal.mk.injEq, cmp_sortCoins_eq_iff, cmp_sortNfts_eq_iff]

/-- `canonListing` only touches the two balances -/
theorem cmp_canonListing_eq_iff {a b : Listing} : canonListing a = canonListing b ↔
    a.creator = b.creator ∧ a.id = b.id ∧ a.finalizedAt = b.finalizedAt ∧ a.expiresAt = b.expiresAt ∧
    a.status = b.status ∧ a.claimant = b.claimant ∧ a.whitelist = b.whitelist ∧
    canonGBal a.forSale = canonGBal b.forSale ∧ canonGBal a.ask = canonGBal b.ask ∧ a.fee = b.fee := by
  cases a; cases b; simp only [canonListing, Listing.mk.injEq]

/-- `canonBucket` only touches the funds -/
theorem cmp_canonBucket_eq_iff {a b : Bucket} : canonBucket a = canonBucket b ↔
    a.owner = b.owner ∧ canonGBal a.funds = canonGBal b.funds ∧ a.fee = b.fee := by
  cases a; cases b; simp only [canonBucket, Bucket.mk.injEq]

/-! ### `sortNats`: sorted and without duplicates -/

/-- erasing duplicates from a `≤`-sorted list gives a `<`-sorted list (induction on a length bound:
    `eraseDups_cons` recurses through a `filter`) -/
theorem cmp_eraseDups_sorted : ∀ (n : Nat) (l : List Nat), l.length ≤ n →
    l.Pairwise (· ≤ ·) → l.eraseDups.Pairwise (· < ·)
  | _, [], _, _ => by simp
  | 0, _ :: _, h, _ => by simp at h
  | n + 1, a :: as, hl, hs => by
    rw [List.eraseDups_cons]
    have hlen : (as.filter (fun b => !b == a)).length ≤ n :=
      Nat.le_trans (List.length_filter_le _ _) (by simpa using hl)
    refine List.Pairwise.cons ?_ (cmp_eraseDups_sorted n _ hlen (hs.tail.filter _))
    intro c hc
    rw [List.mem_eraseDups, List.mem_filter] at hc
    have h1 : a ≤ c := List.rel_of_pairwise_cons hs hc.1
    have h2 : c ≠ a := by simpa using hc.2
    omega

/-- `sortNats` keeps exactly the elements -/
theorem cmp_mem_sortNats {x : Nat} {l : List Nat} : x ∈ sortNats l ↔ x ∈ l := by
  simp [sortNats]

/-- `sortNats` is strictly increasing -/
theorem cmp_sortNats_sorted (l : List Nat) : (sortNats l).Pairwise (· < ·) := by
  refine cmp_eraseDups_sorted _ _ (Nat.le_refl _) ?_
  have := List.pairwise_mergeSort (le := fun a b : Nat => decide (a ≤ b))
    (cmp_natLe_trans id) (cmp_natLe_total id) l
  exact this.imp (by simp)

/-- `sortNats` identifies exactly the lists with the same elements (multiplicity is forgotten) -/
theorem cmp_sortNats_eq_iff {a b : List Nat} : sortNats a = sortNats b ↔ ∀ x, x ∈ a ↔ x ∈ b := by
  constructor
  · intro h x
    rw [← cmp_mem_sortNats (l := a), h, cmp_mem_sortNats]
  · intro h
    have ha := cmp_sortNats_sorted a
    have hb := cmp_sortNats_sorted b
    have hp : (sortNats a).Perm (sortNats b) :=
      (List.perm_ext_iff_of_nodup (ha.imp (fun h => Nat.ne_of_lt h)) (hb.imp (fun h => Nat.ne_of_lt h))).2
        (fun x => by rw [cmp_mem_sortNats, cmp_mem_sortNats]; exact h x)
    exact List.Perm.eq_of_pairwise (le := (· < ·)) (fun x y _ _ h₁ h₂ => by omega) ha hb hp

/-- `sortNats` as an insertion sort followed by `eraseDups` -/
theorem cmp_sortNats_eval (l : List Nat) :
    sortNats l = (cmpISort (fun a b => decide (a ≤ b)) l).eraseDups := by
  unfold sortNats
  rw [cmp_mergeSort_eq_isort (le := fun a b : Nat => decide (a ≤ b)) (l := l)
    (cmp_natLe_trans id) (cmp_natLe_total id)]
  intro x y _ _ h₁ h₂
  simp only [decide_eq_true_eq] at h₁ h₂
  omega

/-! ### ledgers -/

/-- `ledgerEq` decides equality of the two ledgers as total functions (`lget`, missing = 0) -/
theorem cmp_ledgerEq_iff {a b : Ledger} : ledgerEq a b = true ↔ ∀ k, lget a k = lget b k := by
  unfold ledgerEq
  rw [List.all_eq_true]
  constructor
  · intro h k
    by_cases hk : k ∈ akeys a ++ akeys b
    · simpa using h k hk
    · rw [List.mem_append, not_or] at hk
      unfold lget
      rw [alookup_eq_none_iff.2 hk.1, alookup_eq_none_iff.2 hk.2]
  · intro h k _
    simpa using h k

/-- `nftLedgerEq` decides equality of the two NFT ledgers as partial maps token ↦ owner
    (`alookup`): unlike `lget`, this tells "owned by address 0" from "no such token" -/
theorem cmp_nftLedgerEq_iff {a b : Ledger} :
    nftLedgerEq a b = true ↔ ∀ k, alookup k a = alookup k b := by
  unfold nftLedgerEq
  rw [List.all_eq_true]
  constructor
  · intro h k
    by_cases hk : k ∈ akeys a ++ akeys b
    · simpa using h k hk
    · rw [List.mem_append, not_or] at hk
      rw [alookup_eq_none_iff.2 hk.1, alookup_eq_none_iff.2 hk.2]
  · intro h k _
    simpa using h k

/-- equal as partial maps, a fortiori equal as total functions (the former reading of "N") -/
theorem cmp_lget_of_alookup {a b : Ledger} (h : ∀ k, alookup k a = alookup k b) (k : Nat × Nat) :
    lget a k = lget b k := by
  unfold lget; rw [h k]

/-! ### keyed lists: `canonListings`, `canonBuckets`, `canonReg`, `canonContracts` -/

/-- mapping the values does not change the keys -/
theorem cmp_akeys_map_snd {κ ν μ : Type} (c : ν → μ) (l : List (κ × ν)) :
    akeys (l.map (fun p => (p.1, c p.2))) = akeys l := by
  simp [akeys, List.map_map, Function.comp_def]

/-- entries with the same key in a list with distinct keys are the same entry -/
theorem cmp_eq_of_key_eq {κ ν : Type} [DecidableEq κ] {l : List (κ × ν)} (hnd : (akeys l).Nodup)
    {x y : κ × ν} (hx : x ∈ l) (hy : y ∈ l) (h : x.1 = y.1) : x = y := by
  have h1 := mem_nodup_alookup hnd (k := x.1) (v := x.2) hx
  have h2 := mem_nodup_alookup hnd (k := y.1) (v := y.2) hy
  rw [h, h2] at h1
  exact Prod.ext h (Option.some.inj h1).symm

/-- equal key–sorted canonical forms: the lists agree up to order and up to the canonical form of
    the records (no hypothesis: `mergeSort` is a permutation whatever the comparison is) -/
theorem cmp_canonKeyed_complete {κ ν : Type} (c : ν → ν) (le : κ × ν → κ × ν → Bool)
    {a b : List (κ × ν)}
    (h : (a.map (fun p => (p.1, c p.2))).mergeSort le = (b.map (fun p => (p.1, c p.2))).mergeSort le) :
    UpToOrder (fun p q => p.1 = q.1 ∧ c p.2 = c q.2) a b := by
  refine (UpToOrder.of_map_perm (cmp_perm_of_mergeSort_eq h)).mono ?_
  intro p q hpq
  exact Prod.mk.inj hpq

/-- converse for lists with distinct keys (two entries with the same key would be output in input
    order: the sort is stable, not canonical) -/
theorem cmp_canonKeyed_exact {ν : Type} (c : ν → ν) {a b : List ((Nat × Nat) × ν)}
    (hnd : (akeys a).Nodup) (h : UpToOrder (fun p q => p.1 = q.1 ∧ c p.2 = c q.2) a b) :
    (a.map (fun p => (p.1, c p.2))).mergeSort (fun x y => lexLe [x.1.1, x.1.2] [y.1.1, y.1.2]) =
    (b.map (fun p => (p.1, c p.2))).mergeSort (fun x y => lexLe [x.1.1, x.1.2] [y.1.1, y.1.2]) := by
  have hp : (a.map (fun p => (p.1, c p.2))).Perm (b.map (fun p => (p.1, c p.2))) :=
    h.map_perm (fun p q hpq => Prod.ext hpq.1 hpq.2)
  refine cmp_mergeSort_eq_of_perm
    (cmp_keyLe_trans (fun x : (Nat × Nat) × ν => [x.1.1, x.1.2]))
    (cmp_keyLe_total (fun x : (Nat × Nat) × ν => [x.1.1, x.1.2])) ?_ hp
  intro x y hx hy h₁ h₂
  have hk := cmp_lexLe_antisymm _ _ h₁ h₂
  have hnd' : (akeys (a.map (fun p => (p.1, c p.2)))).Nodup := by rwa [cmp_akeys_map_snd]
  refine cmp_eq_of_key_eq hnd' hx hy (Prod.ext ?_ ?_) <;> simp_all

/-- the keys of lists that agree up to order (with equal keys) are permutations of each other -/
theorem UpToOrder.akeys_perm {κ ν μ : Type} {R : ν → μ → Prop} {a : List (κ × ν)} {b : List (κ × μ)}
    (h : UpToOrder (fun p q => p.1 = q.1 ∧ R p.2 q.2) a b) : (akeys a).Perm (akeys b) :=
  h.map_perm (fun _ _ hpq => hpq.1)

/-- lists sorted by a `Nat` key with `decide (a.1 ≤ b.1)`: equal results iff permutations, for
    distinct keys; the direction `→` needs no hypothesis -/
theorem cmp_sortByFst_perm {ν : Type} {a b : List (Nat × ν)}
    (h : a.mergeSort (fun x y => decide (x.1 ≤ y.1)) = b.mergeSort (fun x y => decide (x.1 ≤ y.1))) :
    a.Perm b := cmp_perm_of_mergeSort_eq h

/-- … and `←` for distinct keys -/
theorem cmp_sortByFst_exact {ν : Type} {a b : List (Nat × ν)} (hnd : (akeys a).Nodup)
    (h : a.Perm b) :
    a.mergeSort (fun x y => decide (x.1 ≤ y.1)) = b.mergeSort (fun x y => decide (x.1 ≤ y.1)) := by
  refine cmp_mergeSort_eq_of_perm (cmp_natLe_trans (fun x : Nat × ν => x.1))
    (cmp_natLe_total (fun x : Nat × ν => x.1)) ?_ h
  intro x y hx hy h₁ h₂
  simp only [decide_eq_true_eq] at h₁ h₂
  exact cmp_eq_of_key_eq hnd hx hy (by omega)

/-- sort by a `Nat` key as an insertion sort (distinct keys) -/
theorem cmp_sortByFst_eval {ν : Type} {a : List (Nat × ν)} (hnd : (akeys a).Nodup) :
    a.mergeSort (fun x y => decide (x.1 ≤ y.1)) = cmpISort (fun x y => decide (x.1 ≤ y.1)) a := by
  refine cmp_mergeSort_eq_isort (cmp_natLe_trans (fun x : Nat × ν => x.1))
    (cmp_natLe_total (fun x : Nat × ν => x.1)) ?_
  intro x y hx hy h₁ h₂
  simp only [decide_eq_true_eq] at h₁ h₂
  exact cmp_eq_of_key_eq hnd hx hy (by omega)

/-- sort by an `(owner, id)` key as an insertion sort (distinct keys) -/
theorem cmp_sortByKey_eval {ν : Type} {a : List ((Nat × Nat) × ν)} (hnd : (akeys a).Nodup) :
    a.mergeSort (fun x y => lexLe [x.1.1, x.1.2] [y.1.1, y.1.2]) =
    cmpISort (fun x y => lexLe [x.1.1, x.1.2] [y.1.1, y.1.2]) a := by
  refine cmp_mergeSort_eq_isort
    (cmp_keyLe_trans (fun x : (Nat × Nat) × ν => [x.1.1, x.1.2]))
    (cmp_keyLe_total (fun x : (Nat × Nat) × ν => [x.1.1, x.1.2])) ?_
  intro x y hx hy h₁ h₂
  have hk := cmp_lexLe_antisymm _ _ h₁ h₂
  refine cmp_eq_of_key_eq hnd hx hy (Prod.ext ?_ ?_) <;> simp_all

/-! ### what the abstractions (`a01`, `a03`, `a08`, `a09`) and the state oracles read -/

/-- `coinAmt` does not depend on the order -/
theorem cmp_coinAmt_perm {a b : List Coin} (h : a.Perm b) (k : Nat) : coinAmt a k = coinAmt b k :=
  ((h.filter _).map _).sum_nat

/-- the keys of permuted coin lists are permutations of each other -/
theorem cmp_keys_perm {a b : List Coin} (h : a.Perm b) : (keys a).Perm (keys b) := h.map _

/-- lookups in an association list with distinct keys do not depend on the order -/
theorem cmp_alookup_perm {κ ν : Type} [DecidableEq κ] {a b : List (κ × ν)} (hnd : (akeys a).Nodup)
    (h : a.Perm b) (k : κ) : alookup k a = alookup k b := by
  have hkeys : (akeys a).Perm (akeys b) := h.map _
  cases ha : alookup k a with
  | none =>
    have := alookup_eq_none_iff.1 ha
    exact (alookup_eq_none_iff.2 (fun hb => this (hkeys.mem_iff.2 hb))).symm
  | some v =>
    exact (mem_nodup_alookup (hkeys.nodup hnd) (h.mem_iff.1 (alookup_some_mem ha))).symm

/-- `nftCodes` does not depend on the order -/
theorem cmp_nftCodes_perm {a b : List Nft} (h : a.Perm b) : nftCodes a = nftCodes b :=
  cmp_sortCodes_eq_iff.2 (h.map _)

/-- "recorded but not held" / "held but not recorded" up to order -/
theorem cmp_filter_notContains_perm {α : Type} [DecidableEq α] {r₁ r₂ h₁ h₂ : List α}
    (hr : r₁.Perm r₂) (hh : h₁.Perm h₂) :
    (r₁.filter (fun n => !h₁.contains n)).Perm (r₂.filter (fun n => !h₂.contains n)) := by
  have : (fun n => !h₁.contains n) = (fun n => !h₂.contains n) := by
    funext n
    simp only [List.contains_eq_mem, hh.mem_iff]
  rw [this]
  exact hr.filter _

/-- "recorded more than once" up to order -/
theorem cmp_filter_count_perm {α : Type} [DecidableEq α] {r₁ r₂ : List α} (hr : r₁.Perm r₂) :
    (r₁.filter (fun n => decide (r₁.count n > 1))).Perm
      (r₂.filter (fun n => decide (r₂.count n > 1))) := by
  have : (fun n => decide (r₁.count n > 1)) = (fun n => decide (r₂.count n > 1)) := by
    funext n
    rw [hr.count_eq]
  rw [this]
  exact hr.filter _

/-- membership in `heldNfts` for an NFT ledger with distinct keys -/
theorem cmp_mem_heldNfts {w : World} (hnd : (akeys w.nft).Nodup) (n : Nft) :
    n ∈ heldNfts w ↔ alookup (n.coll, n.tid) w.nft = some w.self := by
  unfold heldNfts
  simp only [List.mem_map, List.mem_filter, decide_eq_true_eq]
  constructor
  · rintro ⟨⟨⟨c, t⟩, o⟩, ⟨hm, ho⟩, rfl⟩
    simp only at ho
    subst ho
    exact mem_nodup_alookup hnd hm
  · intro h
    exact ⟨((n.coll, n.tid), w.self), ⟨alookup_some_mem h, rfl⟩, rfl⟩

/-- an NFT ledger with distinct keys holds every NFT at most once -/
theorem cmp_heldNfts_nodup {w : World} (hnd : (akeys w.nft).Nodup) : (heldNfts w).Nodup := by
  unfold heldNfts
  have h1 : (akeys (w.nft.filter (fun p => decide (p.2 = w.self)))).Nodup :=
    List.Nodup.sublist (List.filter_sublist.map _) hnd
  have h2 : ((akeys (w.nft.filter (fun p => decide (p.2 = w.self)))).map
      (fun k : Nat × Nat => (⟨k.1, k.2⟩ : Nft))).Nodup :=
    List.Pairwise.map _ (fun a b hab e => hab (by cases a; cases b; simp_all)) h1
  simpa [akeys, List.map_map, Function.comp_def] using h2

/-- the NFTs the marketplace holds, for NFT ledgers with distinct keys that agree as partial maps
    (`heldNfts` reads the ledger as a list, hence "distinct keys") -/
theorem cmp_heldNfts_perm {a b : World} (ha : (akeys a.nft).Nodup) (hb : (akeys b.nft).Nodup)
    (hself : a.self = b.self) (h : ∀ k, alookup k a.nft = alookup k b.nft) :
    (heldNfts a).Perm (heldNfts b) := by
  refine (List.perm_ext_iff_of_nodup (cmp_heldNfts_nodup ha) (cmp_heldNfts_nodup hb)).2 ?_
  intro n
  rw [cmp_mem_heldNfts ha, cmp_mem_heldNfts hb, hself, h]

/-- `List.all` of lists that agree up to order, for predicates the relation identifies -/
theorem UpToOrder.all_eq {α β : Type} {R : α → β → Prop} {f : α → Bool} {g : β → Bool}
    (hfg : ∀ a b, R a b → f a = g b) {l₁ : List α} {l₂ : List β} (h : UpToOrder R l₁ l₂) :
    l₁.all f = l₂.all g := by
  have hp := h.map_perm hfg
  rw [Bool.eq_iff_iff, List.all_eq_true, List.all_eq_true]
  constructor
  · intro H b hb
    obtain ⟨a, ha, e⟩ := List.mem_map.1 (hp.mem_iff.2 (List.mem_map_of_mem (f := g) hb))
    rw [← e]; exact H a ha
  · intro H a ha
    obtain ⟨b, hb, e⟩ := List.mem_map.1 (hp.mem_iff.1 (List.mem_map_of_mem (f := f) ha))
    rw [← e]; exact H b hb

/-- `List.all` does not depend on the order -/
theorem cmp_all_perm {α : Type} {f : α → Bool} {l₁ l₂ : List α} (h : l₁.Perm l₂) :
    l₁.all f = l₂.all f := by
  rw [Bool.eq_iff_iff, List.all_eq_true, List.all_eq_true]
  exact ⟨fun H x hx => H x (h.mem_iff.2 hx), fun H x hx => H x (h.mem_iff.1 hx)⟩

/-! ### `checkC01` quantifies over a universe outside of which both sides are 0 -/

/-- no coin of that key: amount 0 -/
theorem cmp_coinAmt_zero {l : List Coin} {d : Nat} (h : d ∉ keys l) : coinAmt l d = 0 := by
  unfold coinAmt
  have : l.filter (fun c => decide (c.key = d)) = [] := by
    rw [List.filter_eq_nil_iff]
    intro c hc hd
    exact h (List.mem_map.2 ⟨c, hc, by simpa using hd⟩)
  rw [this]; rfl

/-- a sum of zeros -/
theorem cmp_sum_map_zero {α : Type} {f : α → Nat} {l : List α} (h : ∀ x ∈ l, f x = 0) :
    (l.map f).sum = 0 := by
  induction l with
  | nil => rfl
  | cons a l ih =>
    simp only [List.map_cons, List.sum_cons, h a (List.mem_cons_self ..),
      ih (fun x hx => h x (List.mem_cons_of_mem _ hx))]

/-- a pending fee in another denomination counts 0 -/
theorem cmp_feeAmt_zero {f : Option Coin} {d : Nat}
    (h : d ∉ (match f with | some c => [c.key] | none => [])) : feeAmt f d = 0 := by
  cases f with
  | none => rfl
  | some c =>
    simp only [List.mem_singleton] at h
    simp only [feeAmt]
    rw [if_neg (fun e => h e.symm)]

/-- a denomination outside `nativeUniverse`: the marketplace holds nothing and owes nothing -/
theorem cmp_native_outside {w : World} {d : Nat} (h : d ∉ nativeUniverse w) :
    lget w.bank (w.self, d) = 0 ∧ owedNative w.mkt d = 0 := by
  unfold nativeUniverse at h
  simp only [List.mem_append, List.mem_map, List.mem_filter, List.mem_flatMap, decide_eq_true_eq,
    not_or, not_exists, not_and] at h
  obtain ⟨⟨hb, hl⟩, hk⟩ := h
  constructor
  · unfold lget
    rw [alookup_eq_none_iff.2]
    · rfl
    · intro hm
      obtain ⟨v, hv⟩ := mem_akeys.1 hm
      exact hb ((w.self, d), v) ⟨hv, rfl⟩ rfl
  · unfold owedNative pendingFee listingsSum bucketsSum
    rw [cmp_sum_map_zero (fun p hp => cmp_coinAmt_zero (hl p hp).1),
      cmp_sum_map_zero (fun p hp => cmp_coinAmt_zero (hk p hp).1),
      cmp_sum_map_zero (fun p hp => cmp_feeAmt_zero (hl p hp).2),
      cmp_sum_map_zero (fun p hp => cmp_feeAmt_zero (hk p hp).2)]

/-- the native part of `checkC01` holds iff `held = owed` for EVERY denomination -/
theorem cmp_c01_native_iff (w : World) :
    (nativeUniverse w).all (fun d => decide (lget w.bank (w.self, d) = owedNative w.mkt d)) = true ↔
    ∀ d, lget w.bank (w.self, d) = owedNative w.mkt d := by
  rw [List.all_eq_true]
  constructor
  · intro h d
    by_cases hd : d ∈ nativeUniverse w
    · simpa using h d hd
    · rw [(cmp_native_outside hd).1, (cmp_native_outside hd).2]
  · intro h d _
    simpa using h d

/-- a token outside the (unfiltered) CW20 universe: the marketplace holds nothing, owes nothing -/
theorem cmp_cw20_outside {w : World} {t : Nat}
    (h : t ∉ ((w.cw20.filter (fun p => decide (p.1.2 = w.self))).map (·.1.1)) ++
      w.mkt.listings.flatMap (fun p => keys p.2.forSale.cw20) ++
      w.mkt.buckets.flatMap (fun p => keys p.2.funds.cw20)) :
    lget w.cw20 (t, w.self) = 0 ∧ owedCw20 w.mkt t = 0 := by
  simp only [List.mem_append, List.mem_map, List.mem_filter, List.mem_flatMap, decide_eq_true_eq,
    not_or, not_exists, not_and] at h
  obtain ⟨⟨hb, hl⟩, hk⟩ := h
  constructor
  · unfold lget
    rw [alookup_eq_none_iff.2]
    · rfl
    · intro hm
      obtain ⟨v, hv⟩ := mem_akeys.1 hm
      exact hb ((t, w.self), v) ⟨hv, rfl⟩ rfl
  · unfold owedCw20 listingsSum bucketsSum
    rw [cmp_sum_map_zero (fun p hp => cmp_coinAmt_zero (hl p hp)),
      cmp_sum_map_zero (fun p hp => cmp_coinAmt_zero (hk p hp))]

/-- the CW20 part of `checkC01` holds iff `held = owed` for EVERY honest token -/
theorem cmp_c01_cw20_iff (w : World) :
    (cw20Universe w).all (fun t => decide (lget w.cw20 (t, w.self) = owedCw20 w.mkt t)) = true ↔
    ∀ t, w.isHonest20 t = true → lget w.cw20 (t, w.self) = owedCw20 w.mkt t := by
  rw [List.all_eq_true]
  unfold cw20Universe
  constructor
  · intro h t ht
    by_cases hd : t ∈ ((w.cw20.filter (fun p => decide (p.1.2 = w.self))).map (·.1.1)) ++
        w.mkt.listings.flatMap (fun p => keys p.2.forSale.cw20) ++
        w.mkt.buckets.flatMap (fun p => keys p.2.funds.cw20)
    · simpa using h t (List.mem_filter.2 ⟨hd, ht⟩)
    · rw [(cmp_cw20_outside hd).1, (cmp_cw20_outside hd).2]
  · intro h t ht
    simpa using h t (List.mem_filter.1 ht).2

/-- the NFT part of `checkC01` only depends on the two lists up to order -/
theorem cmp_c01_nft_perm {r₁ r₂ h₁ h₂ : List Nft} (hr : r₁.Perm r₂) (hh : h₁.Perm h₂) :
    (decide r₁.Nodup && r₁.all (fun n => decide (n ∈ h₁)) && h₁.all (fun n => decide (n ∈ r₁))) =
    (decide r₂.Nodup && r₂.all (fun n => decide (n ∈ h₂)) && h₂.all (fun n => decide (n ∈ r₂))) := by
  rw [decide_eq_decide.2 hr.nodup_iff, cmp_all_perm hr, cmp_all_perm hh]
  have e1 : (fun n => decide (n ∈ h₁)) = (fun n => decide (n ∈ h₂)) :=
    funext fun n => decide_eq_decide.2 hh.mem_iff
  have e2 : (fun n => decide (n ∈ r₁)) = (fun n => decide (n ∈ r₂)) :=
    funext fun n => decide_eq_decide.2 hr.mem_iff
  rw [e1, e2]

/-! ### evaluation: the canonical forms in terms of `cmpISort`

`List.mergeSort` is defined by well-founded recursion and is not evaluated by `decide`.  The
rewrite rules below replace every sort of the comparison by the insertion sort `cmpISort`; the
tactic `cmp_eval` applies them to a `compDiffs` of concrete worlds (side conditions "distinct
keys" by `decide`) and finishes with `decide`. -/

/-- `outMsgCode` with `sortCoins` replaced by the insertion sort -/
def outMsgCodeE : OutMsg → List Nat
  | .bankSend to cs =>
    1 :: to :: (cmpISort (fun a b => lexLe [a.key, a.amount] [b.key, b.amount]) cs).flatMap
      (fun c => [c.key, c.amount])
  | .cw20Transfer t to a => [2, t, to, a]
  | .nftTransfer c t to => [3, c, t, to]
  | .fundPool d c => [4, d, c.key, c.amount]

def implMsgCodeE : ImplMsg → List Nat
  | .msg m => outMsgCodeE m
  | .pool true d cs => 4 :: d :: cs.flatMap (fun c => [c.key, c.amount])
  | .pool false _ _ => [9]
  | .unknown => [8]

/-- the evaluable clone is the function itself -/
theorem cmp_outMsgCode_eval : outMsgCode = outMsgCodeE := by
  funext m; cases m <;> simp [outMsgCode, outMsgCodeE, cmp_sortCoins_eval]

/-- the evaluable clone is the function itself -/
theorem cmp_implMsgCode_eval : implMsgCode = implMsgCodeE := by
  funext m
  cases m with
  | msg m => simp [implMsgCode, implMsgCodeE, cmp_outMsgCode_eval]
  | pool wf d cs => cases wf <;> simp [implMsgCode, implMsgCodeE]
  | unknown => simp [implMsgCode, implMsgCodeE]

/-- `canonListings` as an insertion sort (distinct keys) -/
theorem cmp_canonListings_eval {l : List ((Nat × Nat) × Listing)} (h : (akeys l).Nodup) :
    canonListings l = cmpISort (fun x y => lexLe [x.1.1, x.1.2] [y.1.1, y.1.2])
      (l.map (fun p => (p.1, canonListing p.2))) :=
  cmp_sortByKey_eval (by rwa [cmp_akeys_map_snd])

/-- `canonBuckets` as an insertion sort (distinct keys) -/
theorem cmp_canonBuckets_eval {l : List ((Nat × Nat) × Bucket)} (h : (akeys l).Nodup) :
    canonBuckets l = cmpISort (fun x y => lexLe [x.1.1, x.1.2] [y.1.1, y.1.2])
      (l.map (fun p => (p.1, canonBucket p.2))) :=
  cmp_sortByKey_eval (by rwa [cmp_akeys_map_snd])

/-- `canonReg` as an insertion sort (distinct collections) -/
theorem cmp_canonReg_eval {l : Registry} (h : (akeys l).Nodup) :
    canonReg l = cmpISort (fun x y => decide (x.1 ≤ y.1)) l := cmp_sortByFst_eval h

/-- `canonContracts` as an insertion sort (distinct addresses) -/
theorem cmp_canonContracts_eval {l : List (Nat × ContractInfo)} (h : (akeys l).Nodup) :
    canonContracts l = cmpISort (fun x y => decide (x.1 ≤ y.1)) l := cmp_sortByFst_eval h

/-- evaluate a `compDiffs` (or any term built from the canonical forms) on concrete worlds whose
    keyed lists have distinct keys -/
macro "cmp_eval" : tactic =>
  `(tactic| (set_option linter.unusedSimpArgs false in simp (disch := decide) only [compDiffs, abs01Eq, defect01, nftCodes, dedupNats, abs03,
      cmp_canonListings_eval, cmp_canonBuckets_eval, cmp_canonReg_eval, cmp_canonContracts_eval,
      canonListing, canonBucket, canonGBal, cmp_sortCoins_eval, cmp_sortNfts_eval, cmp_sortNats_eval,
      cmp_sortCodes_eval, cmp_outMsgCode_eval, cmp_implMsgCode_eval]; decide))

/-! ### `compDiffs` reports nothing iff every check passes -/

/-- the list of failed check names is empty iff all sixteen checks hold (`==` turned into `=`) -/
theorem cmp_compDiffs_nil_iff {iw mw : World} {io : ImplOutcome} {mo : Outcome} :
    compDiffs iw mw io mo = [] ↔
      canonListings iw.mkt.listings = canonListings mw.mkt.listings ∧
      canonBuckets iw.mkt.buckets = canonBuckets mw.mkt.buckets ∧
      (sortNats iw.mkt.listingUsed = sortNats mw.mkt.listingUsed ∧
        sortNats iw.mkt.bucketUsed = sortNats mw.mkt.bucketUsed) ∧
      (iw.mkt.feeKind = mw.mkt.feeKind ∧ iw.mkt.feeSince = mw.mkt.feeSince) ∧
      iw.mkt.registry = mw.mkt.registry ∧
      canonReg iw.reg = canonReg mw.reg ∧
      ledgerEq iw.bank mw.bank = true ∧
      ledgerEq iw.cw20 mw.cw20 = true ∧
      nftLedgerEq iw.nft mw.nft = true ∧
      canonContracts iw.contracts = canonContracts mw.contracts ∧
      (iw.nowNs = mw.nowNs ∧ iw.height = mw.height) ∧
      sortCodes (io.msgs.map implMsgCode) = sortCodes (mo.msgs.map outMsgCode) ∧
      abs01Eq iw mw = true ∧
      canonListings (iw.mkt.listings.map (fun p => (p.1, eraseFeeL p.2))) =
        canonListings (mw.mkt.listings.map (fun p => (p.1, eraseFeeL p.2))) ∧
      (sortNats iw.mkt.listingUsed = sortNats mw.mkt.listingUsed ∧
        sortNats iw.mkt.bucketUsed = sortNats mw.mkt.bucketUsed ∧
        sortNats (listingIds iw.mkt) = sortNats (listingIds mw.mkt) ∧
        sortNats (bucketIds iw.mkt) = sortNats (bucketIds mw.mkt)) ∧
      abs03 iw = abs03 mw := by
  unfold compDiffs
  simp only [List.map_eq_nil_iff, List.filter_eq_nil_iff, List.mem_cons, List.not_mem_nil, or_false,
    forall_eq_or_imp, forall_eq, Bool.not_eq_false, Bool.and_eq_true, beq_iff_eq,
    Bool.not_eq_eq_eq_not, Bool.not_true, and_assoc]

end Fuzion
