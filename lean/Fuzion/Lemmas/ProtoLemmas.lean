/-
  Fuzion.Lemmas.ProtoLemmas — auxiliary facts about the byte-level model of the community-pool
  message (`Fuzion.Model.Proto`): varint / field read-back and decimal digits.
  Core library only.
-/
import Fuzion.Model.Proto
namespace Fuzion.Proto

/-! ### varint -/

theorem varint_lt {n : Nat} (h : n < 128) : varint n = [n] := by
  rw [varint]; simp [h]

theorem varint_ge {n : Nat} (h : ¬ n < 128) : varint n = (n % 128 + 128) :: varint (n / 128) := by
  rw [varint]; simp [h]

theorem varint_ne_nil (n : Nat) : varint n ≠ [] := by
  rw [varint]; split <;> simp

/-- every byte of a varint is a byte -/
theorem varint_bytes (n : Nat) : ∀ b ∈ varint n, b < 256 := by
  induction n using Nat.strongRecOn with
  | _ n ih =>
    intro b hb
    by_cases h : n < 128
    · rw [varint_lt h] at hb
      simp at hb; omega
    · rw [varint_ge h] at hb
      rcases List.mem_cons.1 hb with rfl | hb
      · omega
      · exact ih (n / 128) (by omega) b hb

theorem readVarint_varint_aux (n : Nat) (rest : List Nat) :
    readVarint (varint n ++ rest) = some (n, rest) := by
  induction n using Nat.strongRecOn with
  | _ n ih =>
    by_cases h : n < 128
    · rw [varint_lt h]
      simp [readVarint, h]
    · rw [varint_ge h]
      have ih' := ih (n / 128) (by omega)
      simp only [List.cons_append, readVarint, ih']
      have h1 : ¬ (n % 128 + 128 < 128) := by omega
      simp only [h1, if_false]
      congr 2
      omega

/-! ### fields -/

theorem field_of_ne_nil {num : Nat} {data : List Nat} (h : data ≠ []) :
    field num data = varint (num * 8 + 2) ++ varint data.length ++ data := by
  unfold field
  cases data with
  | nil => exact absurd rfl h
  | cons a as => simp

@[simp] theorem field_nil (num : Nat) : field num [] = [] := by
  simp [field]

theorem field_ne_nil {num : Nat} {data : List Nat} (h : data ≠ []) : field num data ≠ [] := by
  rw [field_of_ne_nil h]
  intro hc
  have := varint_ne_nil (num * 8 + 2)
  simp at hc
  exact this hc.1

theorem field_eq_nil_iff {num : Nat} {data : List Nat} : field num data = [] ↔ data = [] := by
  constructor
  · intro h
    by_cases hd : data = []
    · exact hd
    · exact absurd h (field_ne_nil hd)
  · rintro rfl; simp

theorem readField_field_aux {num : Nat} {data : List Nat} (rest : List Nat) (h : data ≠ []) :
    readField (field num data ++ rest) = some (num, data, rest) := by
  rw [field_of_ne_nil h]
  unfold readField
  simp only [List.append_assoc, readVarint_varint_aux]
  have h1 : ¬ ((num * 8 + 2) % 8 ≠ 2) := by omega
  have h2 : ¬ ((data ++ rest).length < data.length) := by simp
  simp only [h1, h2, if_false]
  have h3 : (num * 8 + 2) / 8 = num := by omega
  simp [h3]

theorem readField_field_nil {num : Nat} {data : List Nat} (h : data ≠ []) :
    readField (field num data) = some (num, data, []) := by
  have := readField_field_aux (num := num) [] h
  simpa using this

theorem encodeCoin_ne_nil {denom : List Nat} (amount : List Nat) (h : denom ≠ []) :
    encodeCoin denom amount ≠ [] := by
  unfold encodeCoin
  intro hc
  simp at hc
  exact field_ne_nil h hc.1

theorem decodeCoin_encodeCoin {denom amount : List Nat} (hd : denom ≠ []) (ha : amount ≠ []) :
    decodeCoin (encodeCoin denom amount) = some (denom, amount) := by
  unfold decodeCoin encodeCoin
  rw [readField_field_aux _ hd]
  simp only
  rw [readField_field_nil ha]
  rfl

/-! ### decimal digits -/

theorem digitsAux_ne_nil (fuel n : Nat) (acc : List Nat) (h : acc ≠ []) :
    digitsAux fuel n acc ≠ [] := by
  induction fuel generalizing n acc with
  | zero => simpa [digitsAux] using h
  | succ fuel ih =>
    unfold digitsAux
    split
    · simp
    · exact ih _ _ (by simp)

theorem digitsAux_ascii (fuel n : Nat) (acc : List Nat) :
    ∀ d ∈ digitsAux fuel n acc, d ∈ acc ∨ (48 ≤ d ∧ d ≤ 57) := by
  induction fuel generalizing n acc with
  | zero => intro d hd; left; simpa [digitsAux] using hd
  | succ fuel ih =>
    intro d hd
    unfold digitsAux at hd
    split at hd
    · rcases List.mem_cons.1 hd with rfl | hd
      · right; omega
      · left; exact hd
    · rcases ih _ _ d hd with h | h
      · rcases List.mem_cons.1 h with rfl | h
        · right; omega
        · left; exact h
      · right; exact h

theorem foldl_digitsAux (fuel n : Nat) (acc : List Nat) (h : n < fuel) :
    (digitsAux fuel n acc).foldl (fun a d => a * 10 + (d - 48)) 0 =
      acc.foldl (fun a d => a * 10 + (d - 48)) n := by
  induction fuel generalizing n acc with
  | zero => omega
  | succ fuel ih =>
    unfold digitsAux
    split
    · simp
    · rw [ih _ _ (by omega)]
      simp only [List.foldl_cons]
      congr 1
      omega

/-- number of decimal digits is positive: the length of `digitsAux` grows -/
theorem length_digitsAux_ge (fuel n : Nat) (acc : List Nat) :
    acc.length ≤ (digitsAux fuel n acc).length := by
  induction fuel generalizing n acc with
  | zero => simp [digitsAux]
  | succ fuel ih =>
    unfold digitsAux
    split
    · simp
    · exact Nat.le_trans (by simp) (ih _ _)

end Fuzion.Proto
